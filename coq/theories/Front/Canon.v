(* C02: `canon` - the DECLARATIVE reading of a specification, for the sub-language
     applications (any number of blocks each, interleaved in any order, long names, tags / attributes, annotations),
     !type / !table with fields and annotations (also `!type T: ...`), !enum, !alias, !union, simple endpoints with
     parameters, attributes, annotations and statement trees, events (without subscribers), mixin declarations.
   Where `denote` threads ONE mutable module through all blocks in source order (lookup-or-create, scope stacks),
   `canon` groups: the module has one entry per application key, in order of first appearance; an application's
   types are the images of its type declarations over all its blocks, its endpoints the images of its endpoint
   declarations, its attributes the merge of its blocks' attributes and annotations. Each image is a closed
   formula of the single declaration (no state). Definitions only; the theorem is in CanonProps.v. *)
From Coq Require Import String List ZArith Ascii Bool.
Require Import Verif.Front.Ast Verif.Front.Denote Verif.Front.DenoteProps.
Import ListNotations.
Local Open Scope string_scope.
Local Open Scope list_scope.

(* ---- the sub-language *)
Definition sub_member (mem:member) : bool :=
  match mem with
  | MAnno _ | MType _ _ _ _ _ | MEnum _ _ _ _ | MAlias _ _ _ _ _ _ | MUnion _ _ _ _ | MEndpoint _ _ _ _ _ _
  | MEvent _ _ _ _ | MMixin _ => true
  | _ => false
  end.

(* a size / array specification the listener accepts on this type expression (otherwise the file is rejected) *)
Definition size_ok (t:tyexpr) (z:sizespec) : bool :=
  match t with
  | XNative n => match apply_spec (fst (prim_of n)) (snd (prim_of n)) z with Some _ => true | None => false end
  | _ => true
  end.
Definition field_ok (f:fielddecl) : bool := size_ok (fd_ty f) (fd_size f).
(* in-place tuples are outside the global equality (DenoteProps.table_declared_exact covers them per declaration) *)
Definition item_ok (i:titem) : bool := match i with TField f => field_ok f | TAnno _ => true | TTuple _ _ _ => false end.
Definition member_ok (mem:member) : bool :=
  match mem with
  | MType _ _ _ _ items => forallb item_ok items && nodupb (item_names items)
  | MAlias _ _ _ c t z => match c with CNone => true | _ => size_ok t z end
  | MUnion _ _ _ ms => forallb (fun m => match um_coll m with CNone => true | _ => size_ok (um_ty m) (um_size m) end) ms
  | MEndpoint _ _ ps _ _ _ | MEvent _ ps _ _ => forallb field_ok ps
  | _ => true
  end.

(* ---- images of single declarations *)
Definition tsized (k:kind) (cs:list constr) (z:sizespec) : list constr :=
  match sized k cs z with Some c => c | None => cs end.

(* a field: [set of | sequence of] type [size] ? [attributes] "doc" : annotations *)
Definition field_image (ap path:list string) (f:fielddecl) : ty :=
  let k := fst (base_type ap path (fd_ty f)) in
  let cs := tsized k (snd (base_type ap path (fd_ty f))) (fd_size f) in
  let at_ := add_annos (match fd_attribs f with [] => [] | es => merge_prec [] (make_attrs es) end) (fd_annos f) in
  let t := wrap_type (fd_coll f) k cs (fd_opt f) at_ (match fd_doc f with Some d => d | None => "" end) in
  if fd_array f then Ty (KList t) false [] [] "" else t.

Definition items_fields (ap:list string) (tn:string) (items:list titem) : list (string * ty) :=
  flat_map (fun i => match i with TField f => [(fd_name f, field_image ap [tn] f)] | _ => [] end) items.
Definition item_annos (items:list titem) : list anno :=
  flat_map (fun i => match i with TAnno a => [a] | _ => [] end) items.

Definition umember_image (ap:list string) (n:string) (m:umember) : ty :=
  let k := fst (base_type ap [n] (um_ty m)) in
  let cs0 := snd (base_type ap [n] (um_ty m)) in
  wrap_type (um_coll m) k (match um_coll m with CNone => cs0 | _ => tsized k cs0 (um_size m) end) false [] "".

(* the type a member declares, if it declares one (an enum without a usable item declares nothing) *)
Definition type_image (ap:list string) (mem:member) : option (string * ty) :=
  match mem with
  | MType table n es whatever items =>
      let fields := items_fields ap n items in
      let at_ := add_annos (match es with [] => [] | _ => tdef_merge (make_attrs es) [] end) (item_annos items) in
      Some (n, Ty (if whatever then KUnset                                  (* !type T: ...  declares a type without a body *)
                   else if table then KRel fields (add_pks fields (item_names items) []) else KTuple fields) false [] at_ "")
  | MEnum n es annos items =>
      match valid_items items with
      | [] => None
      | its => Some (n, Ty (KEnum its) false [] (add_annos (opt_attrs es) annos) "")
      end
  | MAlias n es annos c t z =>
      let k := fst (base_type ap [n] t) in
      let cs0 := snd (base_type ap [n] t) in
      Some (n, wrap_type c k (match c with CNone => cs0 | _ => tsized k cs0 z end) false (add_annos (opt_attrs es) annos) "")
  | MUnion n es annos ms =>
      Some (n, Ty (KOneOf (map (umember_image ap n) ms)) false [] (add_annos (opt_attrs es) annos) "")
  | _ => None
  end.

Definition params_image (ap:list string) (ps:list fielddecl) : list (string * ty) :=
  map (fun f => (fd_name f, drop_ctx (field_image ap [] f))) ps.

(* the endpoint a member declares: name, long name, attributes, parameters in order, statement tree *)
Definition ep_image (ap:list string) (mem:member) : option (string * endpoint) :=
  match mem with
  | MEndpoint n long ps es annos body =>
      Some (n, E n (match long with Some l => l | None => "" end) ""
                 (add_annos (match es with [] => [] | _ => merge_attrs (make_attrs es) [] end) annos)
                 false [] (params_image ap ps) None (map (image ap) body))
  | MEvent n ps es body =>                                                   (* <-> Event(params) [attrs]: statements *)
      Some (n, E n "" "" (opt_attrs es) true [] (params_image ap ps) None (map (image ap) body))
  | _ => None
  end.
Definition mem_annos (mem:member) : list anno := match mem with MAnno a => [a] | _ => [] end.
Definition mem_mixins (mem:member) : list (list string) := match mem with MMixin x => [x] | _ => [] end.

Definition opt_list {T} (o:option T) : list T := match o with Some x => [x] | None => [] end.
Definition block_types (b:block) : list (string * ty) := flat_map (fun m => opt_list (type_image (b_app b) m)) (b_members b).
Definition block_eps (b:block) : list (string * endpoint) := flat_map (fun m => opt_list (ep_image (b_app b) m)) (b_members b).
Definition block_annos (b:block) : list anno := flat_map mem_annos (b_members b).
Definition block_mixins (b:block) : list (list string) := flat_map mem_mixins (b_members b).

(* ---- one application: all of its blocks, in source order *)
Definition blk_attrs (at0:attrs) (b:block) : attrs :=
  add_annos (match b_attribs b with [] => at0 | es => merge_attrs (make_attrs es) at0 end) (block_annos b).
Definition canon_app (bsk:list block) : app :=
  A (fold_left (fun _ b => b_app b) bsk [])                                                   (* name parts *)
    (fold_left (fun l b => match b_long b with Some x => x | None => l end) bsk "")          (* last long name given *)
    (fold_left blk_attrs bsk [])                                                              (* attributes merged *)
    (flat_map block_types bsk)
    (flat_map block_eps bsk)
    (flat_map block_mixins bsk).                                                              (* -|> declarations, in order *)

(* ---- the module: one entry per application key, in order of first appearance *)
Definition bkey (b:block) : string := app_key (b_app b).
Definition is_app (k:string) (b:block) : bool := String.eqb (bkey b) k.
Definition memb (x:string) (l:list string) : bool := existsb (String.eqb x) l.
Definition dedup (l:list string) : list string := fold_left (fun acc x => if memb x acc then acc else acc ++ [x]) l [].
Definition canon_blocks (bs:list block) : module :=
  map (fun k => (k, canon_app (filter (is_app k) bs))) (dedup (map bkey bs)).
Definition canon (s:spec) : module := canon_blocks (concat s).

(* ---- well-formedness of a specification of the sub-language, as a boolean *)
Definition block_ok (b:block) : bool := forallb sub_member (b_members b) && forallb member_ok (b_members b).
Definition wf_sub (s:spec) : bool :=
  let bs := concat s in
  forallb block_ok bs &&
  forallb (fun k => nodupb (keys (a_types (canon_app (filter (is_app k) bs)))) &&
                    nodupb (keys (a_eps (canon_app (filter (is_app k) bs))))) (dedup (map bkey bs)).

(* postProcess leaves a reference alone unless it has one application part that is not the current application,
   does not resolve there, and names a local type (then it becomes a local deep reference) *)
Definition ref_stable (m:module) (cur:string) (r:scope) : bool :=
  match sc_app r, sc_path r with
  | [an], tn :: _ => String.eqb cur an || has_type m an tn || negb (has_type m cur an)
  | _, _ => true
  end.
Definition top_ref_stable (m:module) (cur:string) (t:ty) : bool :=
  match t with Ty (KRef _ r) _ _ _ _ => ref_stable m cur r | _ => true end.
Definition type_refs_stable (m:module) (cur:string) (t:ty) : bool :=
  match t with
  | Ty (KTuple fs) _ _ _ _ | Ty (KRel fs _) _ _ _ _ => forallb (fun kv => top_ref_stable m cur (snd kv)) fs
  | _ => true
  end.
(* postProcess copies the types of mixed-in applications: the listener-stage reading is final only without mixins *)
Definition no_mixins (m:module) : bool := forallb (fun ka => match a_mixins (snd ka) with [] => true | _ => false end) m.
(* postProcess applies the entries of a `.. * <- *` endpoint to the application's calls: final only without one *)
Definition no_collector (m:module) : bool :=
  forallb (fun ka => match aget collector_name (a_eps (snd ka)) with None => true | Some _ => false end) m.
(* no reference of the specification is re-scoped by postProcess (decidable on the canonical module) *)
Definition no_rescope (m:module) : bool :=
  forallb (fun ka =>
     forallb (fun kt => type_refs_stable m (fst ka) (snd kt)) (a_types (snd ka)) &&
     forallb (fun ke => forallb (fun p => top_ref_stable m (fst ka) (snd p)) (e_params (snd ke))) (a_eps (snd ka))) m.
