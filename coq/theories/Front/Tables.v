(* Front/Tables.v - obligations against the CURRENT source: lemmas over Gen/LexerTables.v (regenerated from
   pkg/grammar/sysl_lexer.go and lexer_impl.go on every run).  Each `reflexivity` below stops checking when the
   source it was extracted from changes. *)
From Coq Require Import List String NArith Bool.
Import ListNotations.
Require Import Verif.Front.Indent Verif.Front.IndentProps Verif.Front.Lines Verif.Front.LinesProps Verif.Gen.LexerTables.
Require Export Verif.Front.Current.
Local Open Scope N_scope.

(* the translator classified everything it read *)
Lemma translator_classified_everything : unknown = [].
Proof. reflexivity. Qed.

(* calcSpaces: a space counts 1, a tab 4, nothing else counts *)
Lemma calc_weights_are : calc_weights = [(32, 1); (9, 4)].
Proof. reflexivity. Qed.


Lemma tab_is_four_spaces : w_tab W0 = 4 * w_sp W0.
Proof. reflexivity. Qed.
Lemma space_counts : w_sp W0 = 1.
Proof. reflexivity. Qed.

(* getNextToken, statement by statement, is what Front/Indent.step transliterates *)
Local Open Scope string_scope.
Lemma getNextToken_shape : gnt_shape = [
  "ls := ls(l)";
  "if len(ls.prevToken) > 0"; "{";
    "nextTok := ls.prevToken[0]"; "ls.prevToken = ls.prevToken[1:]"; "return nextTok"; "}";
  "next := l.BaseLexer.NextToken()";
  "if ls.gotNewLine"; "{";
    "switch next.GetTokenType()";
    "case SyslLexerNEWLINE, SyslLexerNEWLINE_2, SyslLexerEMPTY_LINE, SyslLexerE_NL, SyslLexerE_EMPTY_LINE, SyslLexerTMPL_NL";
    "fallthrough";
    "case SyslLexerINDENTED_COMMENT, SyslLexerEMPTY_COMMENT, SyslLexerE_INDENTED_COMMENT";
    "fallthrough";
    "case SyslLexerE_DOT_NAME_NL";
    "return next";
    "endswitch"; "}";
  "if !ls.gotNewLine && next.GetChannel() == antlr.TokenHiddenChannel"; "{";
    "ls.spaces = 0"; "return next"; "}";
  "else";
  "if next.GetTokenType() == SyslLexerSYSL_COMMENT"; "{";
    "ls.spaces = 0"; "return next"; "}";
  "if next.GetTokenType() == antlr.TokenEOF"; "{";
    "ls.spaces = 0"; "}";
  "else";
  "if !ls.gotNewLine"; "{";
    "return next"; "}";
  "for ls.spaces != getPreviousIndent(ls.level)"; "{";
    "if ls.spaces > getPreviousIndent(ls.level)"; "{";
      "ls.level.Push(ls.spaces)";
      "ls.prevToken = append(ls.prevToken, createIndentToken(next.GetSource()))"; "}";
    "else"; "{";
      "ls.level.Pop()";
      "ls.prevToken = append(ls.prevToken, createDedentToken(next.GetSource()))"; "}";
    "}";
  "ls.gotNewLine = false";
  "ls.prevToken = append(ls.prevToken, next)";
  "temp := ls.prevToken[0]";
  "ls.prevToken = ls.prevToken[1:]";
  "return temp"
].
Proof. reflexivity. Qed.

Lemma helper_shapes_are : helper_shapes = [
  ("createDedentToken", ["return antlr.NewCommonToken(source, SyslLexerDEDENT, 0, 0, 0)"]);
  ("createIndentToken", ["return antlr.NewCommonToken(source, SyslLexerINDENT, 0, 0, 0)"]);
  ("getPreviousIndent", ["if s.Size() == 0"; "{"; "return 0"; "}"; "return s.Peek()"]);
  ("stack.Peek", ["return (*s)[len(*s)-1]"]);
  ("stack.Pop", ["l := len(*s)"; "ret := (*s)[l-1]"; "*s = (*s)[:l-1]"; "return ret"]);
  ("stack.Push", ["*s = append(*s, o)"]);
  ("stack.Size", ["return len(*s)"])
].
Proof. reflexivity. Qed.
Local Close Scope string_scope.

(* every token kind a blank line or a whole-line comment is made of - in the default mode and inside view
   bodies - is a line end for getNextToken (action: gotNewLine, spaces = 0; on the bypass list); the comment
   token has no action.  Dropping one of them from the `case` list, or changing its action, breaks this. *)

Lemma bypass_covers_layout_tokens :
  forallb (fun t => is_eol lexer_tables (hid t)) layout_token_types = true /\
  is_layout lexer_tables (hid tok_SYSL_COMMENT) = true /\ is_eol lexer_tables (hid tok_SYSL_COMMENT) = false.
Proof. repeat split; reflexivity. Qed.

Lemma layout_types_are_layout t w : In t (tok_SYSL_COMMENT :: layout_token_types) ->
  is_layout lexer_tables {| ty := t; hidden := true; width := w; eof := false |} = true.
Proof. cbn [In layout_token_types]. intros H. repeat (destruct H as [<-|H]; [reflexivity|]). destruct H. Qed.

(* the other line ends (one-line modes, view bodies, templates) also leave the lexer at a line start *)
Lemma all_line_ends : forallb (fun t => is_eol lexer_tables (hid t)) [tok_NEWLINE_2; tok_E_NL; tok_TMPL_NL] = true.
Proof. reflexivity. Qed.

(* only whitespace tokens are measured; a fresh lexer has gotNewLine unset *)
Lemma measured_tokens : map fst (filter (fun p => match a_sp (snd p) with SpCalc => true | _ => false end) action_table) = [tok_WS; tok_E_WS].
Proof. reflexivity. Qed.
Lemma fresh_state : t_init_nl lexer_tables = false.
Proof. reflexivity. Qed.
Lemma synthetic_ids : (t_indent lexer_tables, t_dedent lexer_tables) = (1, 2).
Proof. reflexivity. Qed.

(* ---------- the general theorems at the current tables ---------- *)

Theorem current_layout_invariant a b : layout_equiv W0 lexer_tables a b -> lex_vis W0 lexer_tables a = lex_vis W0 lexer_tables b.
Proof. apply layout_invariant, tab_is_four_spaces. Qed.

(* a blank line or whole-line comment (any of the token kinds above, any width) right after any line end *)
Theorem current_blank_comment_after_newline rs m r bs :
  nth_error rs m = Some r -> In (ty r) (layout_token_types ++ [tok_NEWLINE_2; tok_E_NL; tok_TMPL_NL]) ->
  Forall (fun b => hidden b = true /\ eof b = false /\ In (ty b) (tok_SYSL_COMMENT :: layout_token_types)) bs ->
  res_map (filter out_vis) (indent_filter lexer_tables (insert_at (S m) bs rs)) = res_map (filter out_vis) (indent_filter lexer_tables rs).
Proof.
  intros Hn Hr Hb. apply insert_at_transparent.
  - eapply boundary_after_eol; [exact Hn|]. destruct r as [t h w e]. cbn [ty] in Hr.
    cbn [In layout_token_types app] in Hr. repeat (destruct Hr as [<-|Hr]; [reflexivity|]). destruct Hr.
  - apply forallb_forall. intros b Hin. rewrite Forall_forall in Hb. destruct (Hb b Hin) as (Hh & He & Ht).
    destruct b as [t h w e]. cbn [hidden eof ty] in *. subst h e. apply layout_types_are_layout, Ht.
Qed.
