(* Front/ImportScanProps.v - proofs about Front/ImportScan.v: when the textual import pre-scan and the full parse read
   the same import statements off a file, for every statement parser `stmt` and all parameters; and where they do not
   (witnesses by vm_compute, statement parser stmt0). *)
From Coq Require Import List NArith Bool Lia.
Import ListNotations.
Require Import Verif.Front.ImportScan.
Local Open Scope N_scope.

(* ---------- lines ---------- *)
Definition nolf (l:list byte) : Prop := ~ In LF l.

Lemma split_lf_line l rest : nolf l -> split_lf (l ++ LF :: rest) = (l, true) :: split_lf rest.
Proof.
  induction l as [|c l IH]; intros H.
  - cbn [app split_lf]. rewrite N.eqb_refl. reflexivity.
  - cbn [app split_lf]. destruct (N.eqb_spec c LF) as [->|_]; [exfalso; apply H; left; reflexivity|].
    rewrite IH by (intros X; apply H; right; exact X). reflexivity.
Qed.

Lemma split_lf_last l : nolf l -> l <> [] -> split_lf l = [(l, false)].
Proof.
  induction l as [|c l IH]; intros H Hne; [congruence|].
  cbn [split_lf]. destruct (N.eqb_spec c LF) as [->|_]; [exfalso; apply H; left; reflexivity|].
  destruct l as [|d l]; [reflexivity|].
  rewrite IH; [reflexivity| intros X; apply H; right; exact X | discriminate].
Qed.

(* a list of lines as split_lf produces them: no LF inside, every line but the last terminated, an unterminated
   last line not empty *)
Fixpoint wf_lines (ls:list line) : Prop :=
  match ls with
  | [] => True
  | l :: r =>
    nolf (fst l) /\
    match r with
    | [] => snd l = false -> fst l <> []
    | _ => snd l = true
    end /\ wf_lines r
  end.

Lemma split_join ls : wf_lines ls -> split_lf (join ls) = ls.
Proof.
  induction ls as [|[l t] r IH]; intros H; [reflexivity|].
  cbn [wf_lines fst snd] in H. destruct H as (Hl & Ht & Hr).
  unfold join in *. cbn [flat_map]. unfold unit_of at 1. cbn [fst snd].
  destruct t.
  - rewrite <- app_assoc. cbn [app]. rewrite split_lf_line by exact Hl. rewrite IH by exact Hr. reflexivity.
  - destruct r as [|x r]; [|discriminate Ht].
    cbn [flat_map]. rewrite !app_nil_r. apply split_lf_last; [exact Hl|apply Ht; reflexivity].
Qed.

Lemma join_split s : join (split_lf s) = s.
Proof.
  induction s as [|c s IH]; [reflexivity|].
  cbn [split_lf]. destruct (N.eqb_spec c LF) as [->|_].
  - unfold join in *. cbn [flat_map unit_of fst snd app]. rewrite IH. reflexivity.
  - destruct (split_lf s) as [|[l t] ls] eqn:E.
    + unfold join in *. cbn in IH. subst s. reflexivity.
    + unfold join in *. cbn [flat_map] in *. unfold unit_of at 1. unfold unit_of at 1 in IH. cbn [fst snd] in *.
      rewrite <- IH. rewrite <- !app_assoc. reflexivity.
Qed.

Lemma split_lf_length s : Forall (fun l => (length (fst l) <= length s)%nat) (split_lf s).
Proof.
  induction s as [|c s IH]; [constructor|].
  cbn [split_lf]. destruct (c =? LF).
  - constructor; [cbn; lia|]. eapply Forall_impl; [|exact IH]. cbn. intros; lia.
  - destruct (split_lf s) as [|[l t] ls].
    + constructor; [cbn; lia|constructor].
    + inversion IH as [|? ? H1 H2]; subst. constructor; [cbn in *; lia|].
      eapply Forall_impl; [|exact H2]. cbn. intros; lia.
Qed.

(* ---------- the scanner ---------- *)
Lemma scan_fits limit ls : fits limit ls = true -> scan limit ls = map (fun l => drop_cr (fst l)) ls.
Proof.
  induction ls as [|[l t] r IH]; intros H; [reflexivity|].
  cbn [fits forallb fst] in H. apply andb_true_iff in H. destruct H as [H1 H2].
  cbn [scan map fst]. apply N.ltb_lt in H1.
  destruct (N.leb_spec limit (N.of_nat (length l))); [lia|].
  f_equal. apply IH. exact H2.
Qed.

(* with scanner.Buffer(_, len(content)+k), k >= 1, every line fits *)
Lemma content_plus_fits p content k :
  ip_limit p = SLContentPlus k -> 1 <= k -> fits (limit_of p content) (split_lf content) = true.
Proof.
  intros E Hk. unfold limit_of. rewrite E. unfold fits. apply forallb_forall. intros l Hl.
  pose proof (split_lf_length content) as F. rewrite Forall_forall in F. specialize (F l Hl).
  apply N.ltb_lt. lia.
Qed.

(* ---------- layout lines are no import lines ---------- *)
(* the first byte of the keyword is no blank, no CR and no `#` *)
Definition params_wf (p:iparams) : bool :=
  match ip_kw p with
  | k0 :: _ => negb (mem k0 (ip_ws p)) && negb (k0 =? CR) && negb (k0 =? HASHC)
  | [] => false
  end.

Lemma drop_cr_head c l : drop_cr (c :: l) = [] \/ exists r, drop_cr (c :: l) = c :: r.
Proof.
  destruct l as [|d l].
  - cbn. destruct (c =? CR); [left; reflexivity|right; exists []; reflexivity].
  - right. eexists. reflexivity.
Qed.

Lemma layout_is_no_import_line p gn nb l t :
  params_wf p = true -> classify p gn nb l t = CLayout -> is_import_line p (drop_cr l) = false.
Proof.
  unfold params_wf. destruct (ip_kw p) as [|k0 kw] eqn:K; [discriminate|]. intros W C.
  apply andb_true_iff in W. destruct W as [W W3]. apply andb_true_iff in W. destruct W as [W1 W2].
  apply negb_true_iff in W1, W2, W3.
  unfold is_import_line. rewrite K.
  destruct l as [|c l]; [reflexivity|].
  assert (Hc : (k0 =? c) = false).
  { cbn [classify] in C. destruct (mem c (ip_ws p)) eqn:M.
    - destruct (N.eqb_spec k0 c) as [->|]; [congruence|reflexivity].
    - destruct (N.eqb_spec c CR) as [->|].
      + exact W2.
      + destruct (N.eqb_spec c HASHC) as [->|]; [exact W3|].
        destruct (import_here p (c :: l)); [destruct (open_line p (c :: l))|]; discriminate. }
  destruct (drop_cr_head c l) as [->|[r ->]]; [reflexivity|].
  cbn [has_prefix]. rewrite Hc. reflexivity.
Qed.

(* ---------- agreement ---------- *)
(* the statement parser does not care how the line of an accepted import statement ends: with LF, CR LF, or with the
   text. A hypothesis about the real lexer (NEWLINE: '\r'? '\n', hidden), checked on every case of the
   correspondence; it is asked only of the lines of the file *)
Definition eol_ok (stmt:stmt_fn) (ls:list line) : Prop :=
  forall l, In l ls -> forall a, stmt (unit_of l) = Some a -> stmt (drop_cr (fst l) ++ [LF]) = Some a.

Definition eol_okb (stmt:stmt_fn) (ls:list line) : bool :=
  forallb (fun l => match stmt (unit_of l) with
                    | Some a => match stmt (drop_cr (fst l) ++ [LF]) with
                                | Some b => if list_eq_dec N.eq_dec a b then true else false
                                | None => false
                                end
                    | None => true
                    end) ls.

Lemma eol_okb_ok stmt ls : eol_okb stmt ls = true -> eol_ok stmt ls.
Proof.
  unfold eol_okb, eol_ok. rewrite forallb_forall. intros H l Hl a E. specialize (H l Hl). rewrite E in H.
  destruct (stmt (drop_cr (fst l) ++ [LF])) as [b|]; [|discriminate].
  destruct (list_eq_dec N.eq_dec a b) as [->|]; [reflexivity|discriminate].
Qed.

Definition scanned (p:iparams) (stmt:stmt_fn) (limit:N) (ls:list line) : option (list imp) :=
  seq_stmts stmt (map (fun l => l ++ [LF]) (filter (is_import_line p) (scan limit ls))).

Lemma prescan_scanned p stmt content :
  prescan p stmt content = scanned p stmt (limit_of p content) (split_lf content).
Proof. reflexivity. Qed.

Lemma no_import_lines_scan_nothing p stmt (ls:list line) :
  forallb (fun l' => negb (is_import_line p (drop_cr (fst l')))) ls = true ->
  seq_stmts stmt (map (fun l => l ++ [LF]) (filter (is_import_line p) (map (fun l => drop_cr (fst l)) ls))) = Some [].
Proof.
  induction ls as [|l r IH]; intros H; [reflexivity|].
  cbn [forallb] in H. apply andb_true_iff in H. destruct H as [H1 H2]. apply negb_true_iff in H1.
  cbn [map filter]. rewrite H1. apply IH. exact H2.
Qed.

Definition agrees (o:outcome) (r:option (list imp)) : Prop :=
  match o with
  | Rejected | Unmodelled => True
  | Head l | Body l => r = Some l
  end.

Theorem agree_lines p stmt limit ls : forall gn,
  params_wf p = true -> fits limit ls = true -> tidy p gn ls = true -> eol_ok stmt ls ->
  agrees (full p stmt gn ls) (scanned p stmt limit ls).
Proof.
  intros gn W F. unfold scanned. rewrite (scan_fits _ _ F). clear F. revert gn.
  induction ls as [|l r IH]; intros gn T E; [reflexivity|].
  assert (Er : eol_ok stmt r) by (intros x Hx; apply E; right; exact Hx).
  cbn [tidy] in T. cbn [full].
  destruct (classify p gn false (fst l) (snd l)) as [|indent|indent| |] eqn:C.
  - (* layout *)
    cbn [map filter]. rewrite (layout_is_no_import_line _ _ _ _ _ W C). apply IH; assumption.
  - (* import *)
    apply andb_true_iff in T. destruct T as [T1 T2].
    destruct indent; [exact I|].
    destruct (stmt (unit_of l)) as [a|] eqn:S; [|exact I].
    cbn [map filter]. rewrite T1. cbn [map seq_stmts].
    rewrite (E l (or_introl eq_refl) a S).
    specialize (IH true T2 Er).
    destruct (full p stmt true r) as [|x|x|]; cbn [prepend agrees] in *; try exact I; rewrite IH; reflexivity.
  - discriminate.
  - exact I.
  - cbn [agrees]. apply no_import_lines_scan_nothing. exact T.
Qed.

(* the same, over the bytes of a file *)
Theorem prescan_agrees_partial p stmt content :
  params_wf p = true ->
  fits (limit_of p content) (split_lf content) = true ->
  tidy p false (split_lf content) = true ->
  eol_ok stmt (split_lf content) ->
  agrees (full_parse p stmt content) (prescan p stmt content).
Proof. intros. unfold full_parse. rewrite prescan_scanned. apply agree_lines; assumption. Qed.

(* ---------- every layout of the import section is tidy ---------- *)
(* the import section as the grammar allows it: lines of hidden tokens and lines that start, in column 0, with the
   keyword and ANY blank the lexer's WS accepts, then the application part, no line of which starts that way *)
Inductive section_layout (p:iparams) : list line -> Prop :=
| SL_end : section_layout p []
| SL_layout l rest : classify p true false (fst l) (snd l) = CLayout -> section_layout p rest -> section_layout p (l :: rest)
| SL_import l rest : import_here p (fst l) = true -> open_line p (fst l) = false -> section_layout p rest ->
                     section_layout p (l :: rest)
| SL_body l rest : classify p true false (fst l) (snd l) = COther \/ classify p true false (fst l) (snd l) = CError ->
                   forallb (fun l' => negb (is_import_line p (drop_cr (fst l')))) (l :: rest) = true ->
                   section_layout p (l :: rest).

(* ... and, for the pre-scan to see what the lexer sees: every blank of the lexer is a separator of isImportLine, and
   CR is no blank *)
Definition seps_cover_ws (p:iparams) : bool :=
  forallb (fun c => mem c (ip_seps p)) (ip_ws p) && negb (mem CR (ip_ws p)).

Lemma has_prefix_app kw l : has_prefix kw l = true -> exists r, l = kw ++ r.
Proof.
  revert l. induction kw as [|a kw IH]; intros l H; [exists l; reflexivity|].
  destruct l as [|b l]; [discriminate|]. cbn [has_prefix] in H. apply andb_true_iff in H. destruct H as [H1 H2].
  apply N.eqb_eq in H1. subst b. destruct (IH l H2) as [r ->]. exists r. reflexivity.
Qed.

Lemma has_prefix_refl kw r : has_prefix kw (kw ++ r) = true.
Proof. induction kw as [|a kw IH]; [reflexivity|]. cbn [app has_prefix]. rewrite N.eqb_refl. exact IH. Qed.

Lemma drop_cr_app_keep a c r : c <> CR -> exists r', drop_cr (a ++ c :: r) = a ++ c :: r'.
Proof.
  intros Hc. induction a as [|x a IH].
  - cbn [app]. destruct r as [|d r]; [|eexists; reflexivity].
    cbn. destruct (N.eqb_spec c CR); [contradiction|]. exists []. reflexivity.
  - destruct IH as [r' IH]. exists r'. cbn [app]. destruct (a ++ c :: r) eqn:E.
    + destruct a; discriminate.
    + rewrite <- E at 1. cbn [drop_cr]. rewrite E in *. rewrite <- IH. reflexivity.
Qed.

Lemma nth_error_app_here {A} (a:list A) c r : nth_error (a ++ c :: r) (length a) = Some c.
Proof. induction a as [|x a IH]; [reflexivity|exact IH]. Qed.

Lemma import_here_is_import_line p l :
  seps_cover_ws p = true -> import_here p l = true -> is_import_line p (drop_cr l) = true.
Proof.
  unfold seps_cover_ws, import_here, is_import_line. intros S H.
  apply andb_true_iff in S. destruct S as [S1 S2]. apply negb_true_iff in S2.
  apply andb_true_iff in H. destruct H as [H1 H2].
  destruct (has_prefix_app _ _ H1) as [r ->].
  destruct r as [|c r]; [rewrite app_nil_r in H2; rewrite (proj2 (nth_error_None _ _)) in H2 by lia; discriminate|].
  rewrite nth_error_app_here in H2.
  assert (Hc : c <> CR) by (intros ->; congruence).
  destruct (drop_cr_app_keep (ip_kw p) c r Hc) as [r' ->].
  rewrite has_prefix_refl, nth_error_app_here. cbn [andb].
  rewrite forallb_forall in S1. unfold mem in *. apply existsb_exists in H2. destruct H2 as [x [Hx Hcx]].
  apply N.eqb_eq in Hcx. subst x. exact (S1 c Hx).
Qed.

Lemma import_here_class p gn l t :
  params_wf p = true -> import_here p l = true -> open_line p l = false -> classify p gn false l t = CImport false.
Proof.
  unfold params_wf. intros W H O. destruct (ip_kw p) as [|k0 kw] eqn:K; [discriminate|].
  apply andb_true_iff in W. destruct W as [W W3]. apply andb_true_iff in W. destruct W as [W1 W2].
  apply negb_true_iff in W1, W2, W3.
  assert (H' := H). unfold import_here in H'. rewrite K in H'. apply andb_true_iff in H'. destruct H' as [H1 _].
  destruct l as [|c l]; [discriminate|]. cbn [has_prefix] in H1. apply andb_true_iff in H1. destruct H1 as [H1 _].
  apply N.eqb_eq in H1. subst c.
  cbn [classify]. rewrite W1, W2, W3, H, O. reflexivity.
Qed.

Definition class_shape (c:lclass) : lclass :=
  match c with CImport _ => CImport false | COpen _ => COpen false | x => x end.

Lemma classify_shape_any_gn p l t : forall gn gn' nb,
  class_shape (classify p gn nb l t) = class_shape (classify p gn' nb l t).
Proof.
  induction l as [|c l IH]; intros gn gn' nb; [reflexivity|].
  cbn [classify]. destruct (mem c (ip_ws p)); [apply IH|].
  destruct (c =? CR).
  - destruct nb; [apply IH|reflexivity].
  - destruct (c =? HASHC); [reflexivity|].
    destruct (import_here p (c :: l)); [destruct (open_line p (c :: l))|]; reflexivity.
Qed.

Lemma classify_same_any_gn p l t gn gn' c :
  (c = CLayout \/ c = COther \/ c = CError) -> classify p gn false l t = c -> classify p gn' false l t = c.
Proof.
  intros Hc H. pose proof (classify_shape_any_gn p l t gn gn' false) as S. rewrite H in S.
  destruct Hc as [->|[->| ->]]; cbn [class_shape] in S;
    destruct (classify p gn' false l t); cbn [class_shape] in S; congruence.
Qed.

Theorem section_layout_is_tidy p ls : forall gn,
  params_wf p = true -> seps_cover_ws p = true -> section_layout p ls -> tidy p gn ls = true.
Proof.
  intros gn W S L. revert gn. induction L as [|l rest C _ IH|l rest H O _ IH|l rest C B]; intros gn.
  - reflexivity.
  - cbn [tidy]. rewrite (classify_same_any_gn p _ _ true gn CLayout (or_introl eq_refl) C). apply IH.
  - cbn [tidy]. rewrite (import_here_class p gn _ _ W H O). rewrite (import_here_is_import_line _ _ S H). apply IH.
  - cbn [tidy]. destruct C as [C|C].
    + rewrite (classify_same_any_gn p _ _ true gn COther (or_intror (or_introl eq_refl)) C). exact B.
    + rewrite (classify_same_any_gn p _ _ true gn CError (or_intror (or_intror eq_refl)) C). reflexivity.
Qed.

(* ---------- layout invariance of each reader ---------- *)
(* the pre-scan: a line that does not pass isImportLine (blank, comment of any indentation, anything else) may be put
   in or taken out anywhere *)
Theorem prescan_ignores_other_lines p stmt limit ls1 l ls2 :
  fits limit (ls1 ++ l :: ls2) = true -> is_import_line p (drop_cr (fst l)) = false ->
  scanned p stmt limit (ls1 ++ l :: ls2) = scanned p stmt limit (ls1 ++ ls2).
Proof.
  intros F N. unfold scanned.
  assert (F' : fits limit (ls1 ++ ls2) = true).
  { unfold fits in *. rewrite forallb_app in *. cbn [forallb] in F.
    apply andb_true_iff in F. destruct F as [F1 F2]. apply andb_true_iff in F2. destruct F2 as [_ F2].
    rewrite F1, F2. reflexivity. }
  rewrite (scan_fits _ _ F), (scan_fits _ _ F'). rewrite !map_app, !filter_app. cbn [map filter]. rewrite N. reflexivity.
Qed.

(* the full parse: a line of hidden tokens may be put in or taken out anywhere in the import section EXCEPT in front
   of the first line (a fresh lexer has gotNewLine unset: the blanks in front of a first-line `import` are ignored,
   but measured once a line precedes it) *)
Theorem full_ignores_layout_lines p stmt pre l rest gn :
  (gn = true \/ pre <> []) -> classify p true false (fst l) (snd l) = CLayout ->
  full p stmt gn (pre ++ l :: rest) = full p stmt gn (pre ++ rest).
Proof.
  revert gn. induction pre as [|x pre IH]; intros gn G C.
  - destruct G as [->|G]; [|congruence]. cbn [app full]. rewrite C. reflexivity.
  - cbn [app full].
    assert (IH' := IH true (or_introl eq_refl) C).
    destruct (classify p gn false (fst x) (snd x)) as [|i|i| |]; try reflexivity.
    + exact IH'.
    + destruct i; [reflexivity|]. destruct (stmt (unit_of x)); [|reflexivity]. rewrite IH'. reflexivity.
Qed.

(* ---------- where the two readers disagree (current parameters of the source; statement parser stmt0) ---------- *)
Definition P1 : iparams :=
  {| ip_kw := [105;109;112;111;114;116]; ip_seps := [32;9]; ip_ws := [32;9]; ip_limit := SLContentPlus 1 |}.
Definition P1_default_buffer : iparams :=
  {| ip_kw := [105;109;112;111;114;116]; ip_seps := [32;9]; ip_ws := [32;9]; ip_limit := SLDefault |}.

(* "  import a\nApp:\n": the blanks of the FIRST line are ignored by the lexer, the full parse imports a; the
   pre-scan wants the keyword in column 0 *)
Definition t_first_line_indented : list byte := [32;32;105;109;112;111;114;116;32;97;10;65;112;112;58;10].
Theorem agree_refuted_first_line_indented :
  full_parse P1 stmt0 t_first_line_indented = Body [97] /\ prescan P1 stmt0 t_first_line_indented = Some [].
Proof. split; vm_compute; reflexivity. Qed.

(* "  \rimport a\n": blanks + CR are an EMPTY_LINE token for the lexer, the import statement starts behind it; for
   bufio.ScanLines the CR is inside the line *)
Definition t_blanks_cr : list byte := [32;32;13;105;109;112;111;114;116;32;97;10].
Theorem agree_refuted_blanks_cr :
  full_parse P1 stmt0 t_blanks_cr = Head [97] /\ prescan P1 stmt0 t_blanks_cr = Some [].
Proof. split; vm_compute; reflexivity. Qed.

(* "App:\n    @x = \"q\nimport b\n\"\n": a quoted string that runs over lines; its second line starts with the
   keyword - no token starts there, but the pre-scan takes the line and b is fetched *)
Definition t_string_line : list byte :=
  [65;112;112;58;10; 32;32;32;32;64;120;32;61;32;34;113;10; 105;109;112;111;114;116;32;98;10; 34;10].
Theorem agree_refuted_line_inside_token :
  full_parse P1 stmt0 t_string_line = Body [] /\ prescan P1 stmt0 t_string_line = Some [98].
Proof. split; vm_compute; reflexivity. Qed.

(* "A:\nimport b:\n": behind the first application `import b` is an application NAME (noMoreImports is set); the
   pre-scan hands `import b:` to parseImports, which fails on the colon: the compile fails *)
Definition t_app_named_import : list byte := [65;58;10; 105;109;112;111;114;116;32;98;58;10].
Theorem agree_refuted_application_named_import :
  full_parse P1 stmt0 t_app_named_import = Body [] /\ prescan P1 stmt0 t_app_named_import = None.
Proof. split; vm_compute; reflexivity. Qed.

(* a line of bufio.MaxScanTokenSize bytes in front of an import line, default scanner buffer: the scan ends there *)
Definition t_long_line : list byte := HASHC :: repeat 120 (N.to_nat 65535) ++ [10;105;109;112;111;114;116;32;97;10].
Theorem agree_refuted_long_line_default_buffer :
  full_parse P1_default_buffer stmt0 t_long_line = Head [97] /\ prescan P1_default_buffer stmt0 t_long_line = Some [] /\
  prescan P1 stmt0 t_long_line = Some [97].
Proof. repeat split; vm_compute; reflexivity. Qed.

(* a blank line in front of a first line `  import a`: accepted before, rejected after (the full parse alone; a
   consequence of the known finding "first line indented") *)
Theorem full_layout_before_first_line_refuted :
  full P1 stmt0 false [([32;32;105;109;112;111;114;116;32;97], true)] = Head [97] /\
  full P1 stmt0 false [([], true); ([32;32;105;109;112;111;114;116;32;97], true)] = Rejected.
Proof. split; vm_compute; reflexivity. Qed.

(* ---------- the hypotheses are met by a non-trivial file ---------- *)
(* "# c\r\nimport a \r\n\r\n   # d\r\nimport\tb # x\r\n#\r\nApp:\r\n    import c\r\n" *)
Definition t_tidy : list byte :=
  [35;32;99;13;10; 105;109;112;111;114;116;32;97;32;13;10; 13;10; 32;32;32;35;32;100;13;10;
   105;109;112;111;114;116;9;98;32;35;32;120;13;10; 35;13;10; 65;112;112;58;13;10; 32;32;32;32;105;109;112;111;114;116;32;99;13;10].
Example agree_hypotheses_nonvacuous :
  params_wf P1 = true /\ seps_cover_ws P1 = true /\
  fits (limit_of P1 t_tidy) (split_lf t_tidy) = true /\ tidy P1 false (split_lf t_tidy) = true /\
  eol_ok stmt0 (split_lf t_tidy) /\
  full_parse P1 stmt0 t_tidy = Body [97; 98] /\ prescan P1 stmt0 t_tidy = Some [97; 98].
Proof.
  repeat split; try (vm_compute; reflexivity). apply eol_okb_ok. vm_compute. reflexivity.
Qed.

Example section_layout_example :
  section_layout P1 (split_lf t_tidy).
Proof.
  vm_compute split_lf.
  apply SL_layout; [vm_compute; reflexivity|].
  apply SL_import; [vm_compute; reflexivity|vm_compute; reflexivity|].
  apply SL_layout; [vm_compute; reflexivity|].
  apply SL_layout; [vm_compute; reflexivity|].
  apply SL_import; [vm_compute; reflexivity|vm_compute; reflexivity|].
  apply SL_layout; [vm_compute; reflexivity|].
  apply SL_body; [left; vm_compute; reflexivity|vm_compute; reflexivity].
Qed.

Example layout_insertion_example :
  full P1 stmt0 false (split_lf t_tidy) =
  full P1 stmt0 false (firstn 2 (split_lf t_tidy) ++ ([32;9;35;32;105;109;112;111;114;116;32;122], true) :: skipn 2 (split_lf t_tidy)).
Proof.
  rewrite <- (firstn_skipn 2 (split_lf t_tidy)) at 1. symmetry. apply full_ignores_layout_lines.
  - right. vm_compute. discriminate.
  - vm_compute. reflexivity.
Qed.
