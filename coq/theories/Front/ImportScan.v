(* Front/ImportScan.v - MODEL (definitions only) of the two readers of the import section of a .sysl file (C03).

   (1) The textual pre-scan of pkg/parse/parse.go: collectSpecs hands the content of a file to extractImports, which
       cuts it into lines (bufio.Scanner with bufio.ScanLines: at LF, one trailing CR dropped, an unterminated last line
       kept; a line the scanner buffer cannot hold ENDS the scan silently), keeps the lines for which isImportLine holds
       (the keyword at the very start of the line, then one separator byte) and gives them, each followed by LF, to
       parseImports - the real lexer, parser and listener. What parseImports returns is what gets fetched.
   (2) The full parse of the same file: which lines carry an IMPORT token (SyslLexer.g4: IMPORT = 'import' WS with the
       predicate !noMoreImports, reachable only where a token can start) and lie where sysl_file accepts an import_stmt
       (imports_decl? application* EOF: before the first visible token of the application part).

   Both sides are functions of the BYTES of the file. Bytes are numbers (N). What the real lexer + parser + listener
   make of ONE line that carries an import statement (path, `as` name, mode, trailing blanks / comment; None = syntax
   error) is a parameter `stmt` of both sides: they differ in WHICH lines they hand to it, and in what spelling (the
   pre-scan drops a CR and appends LF; the full parse sees the line as it stands). All constants of the source are
   parameters (iparams), instantiated from Gen/ImportScan.v in Front/ImportTables.v. *)
From Coq Require Import List NArith Bool.
Import ListNotations.
Local Open Scope N_scope.

Definition byte := N.
Definition LF : byte := 10.
Definition CR : byte := 13.
Definition HASHC : byte := 35.

(* how long a line the scanner can hold: bufio.MaxScanTokenSize unless scanner.Buffer was called *)
Inductive scan_limit := SLDefault | SLContentPlus (k:N) | SLUnknown.
Definition bufio_max_scan_token_size : N := 65536.

Record iparams := {
  ip_kw : list byte;      (* importKeyword *)
  ip_seps : list byte;    (* isImportLine: the bytes accepted right after the keyword *)
  ip_ws : list byte;      (* the grammar: the character class of WS (and of the blanks of EMPTY_LINE / INDENTED_COMMENT) *)
  ip_limit : scan_limit
}.

Definition mem (c:byte) (l:list byte) : bool := existsb (N.eqb c) l.

(* ---------- lines ---------- *)
(* the file cut at LF: (bytes of the line without the LF, was it terminated by LF). An empty rest after the last LF
   is no line (bufio.ScanLines and the lexer agree on that) *)
Definition line := (list byte * bool)%type.

Fixpoint split_lf (s:list byte) : list line :=
  match s with
  | [] => []
  | c :: r =>
    if c =? LF then ([], true) :: split_lf r
    else match split_lf r with
         | [] => [([c], false)]
         | (l, t) :: ls => (c :: l, t) :: ls
         end
  end.

Definition unit_of (l:line) : list byte := fst l ++ (if snd l then [LF] else []).
Definition join (ls:list line) : list byte := flat_map unit_of ls.

(* ---------- (1) the pre-scan ---------- *)
(* dropCR of bufio.ScanLines *)
Fixpoint drop_cr (l:list byte) : list byte :=
  match l with
  | [] => []
  | [c] => if c =? CR then [] else [c]
  | c :: r => c :: drop_cr r
  end.

Definition limit_of (p:iparams) (content:list byte) : N :=
  match ip_limit p with
  | SLDefault => bufio_max_scan_token_size
  | SLContentPlus k => N.of_nat (length content) + k
  | SLUnknown => 0
  end.

(* for scanner.Scan(): the lines in order; a line of `limit` bytes or more (CR included, LF not) makes Scan return
   false for good (bufio.ErrTooLong, which extractImports does not look at) *)
Fixpoint scan (limit:N) (ls:list line) : list (list byte) :=
  match ls with
  | [] => []
  | (l, _) :: r => if limit <=? N.of_nat (length l) then [] else drop_cr l :: scan limit r
  end.

Fixpoint has_prefix (p l:list byte) : bool :=
  match p, l with
  | [], _ => true
  | a :: p', b :: l' => (a =? b) && has_prefix p' l'
  | _ :: _, [] => false
  end.

(* isImportLine: bytes.HasPrefix(line, importKeyword) && len(line) > len(importKeyword) &&
   (line[len(importKeyword)] == ' ' || line[len(importKeyword)] == '\t') *)
Definition is_import_line (p:iparams) (l:list byte) : bool :=
  has_prefix (ip_kw p) l &&
  match nth_error l (length (ip_kw p)) with
  | Some c => mem c (ip_seps p)
  | None => false
  end.

Definition extract_lines (p:iparams) (content:list byte) : list (list byte) :=
  filter (is_import_line p) (scan (limit_of p content) (split_lf content)).

(* extractImports(filename, content): the text handed to parseImports; sysl = strings.Contains(filename, ".sysl") *)
Definition extract (p:iparams) (sysl:bool) (content:list byte) : list byte :=
  if sysl then flat_map (fun l => l ++ [LF]) (extract_lines p content) else [].

(* one import statement as the listener records it: an abstract identity (the harness interns
   (filename, appname, pkg, mode)) *)
Definition imp := N.
Definition stmt_fn := list byte -> option (list imp).

Fixpoint seq_stmts (stmt:stmt_fn) (units:list (list byte)) : option (list imp) :=
  match units with
  | [] => Some []
  | u :: r =>
    match stmt u with
    | None => None
    | Some a => match seq_stmts stmt r with None => None | Some b => Some (a ++ b) end
    end
  end.

(* what collectSpecs fetches for a file: None = parseImports fails, the compile ends with that error *)
Definition prescan (p:iparams) (stmt:stmt_fn) (content:list byte) : option (list imp) :=
  seq_stmts stmt (map (fun l => l ++ [LF]) (extract_lines p content)).

(* ---------- (2) the full parse ---------- *)
(* what the lexer makes of the start of a line in the import section (default mode, noMoreImports unset, no token
   open). CLayout: hidden line-end tokens only (NEWLINE, EMPTY_LINE, EMPTY_COMMENT, SYSL_COMMENT + NEWLINE,
   INDENTED_COMMENT); CImport indent: an IMPORT token, `indent` = an INDENT token is synthesised in front of it
   (leading blanks measured while gotNewLine is set); CError: an ErrorChar token (a CR that is not part of a line
   end); COther: any other visible token - the application part begins *)
(* the bytes at which an import path cannot start: the complement class of SUB_PATH_NAME ( ~[ \r\n\t\\/:]+ ) *)
Definition path_stop : list byte := [32; 13; 10; 9; 92; 47; 58].

(* a line that starts with the keyword and has no byte behind it at which IMPORT_PATH could start: the lexer (mode
   FILENAME, one rule) drops every byte it cannot match, line ends included, and takes the path from a LATER line - the
   statement is not a matter of one line, and neither reader is modelled on it *)
Definition open_line (p:iparams) (l:list byte) : bool :=
  forallb (fun x => mem x path_stop) (skipn (length (ip_kw p)) l).

(* the pre-scan side is modelled when no line it extracts is open *)
Definition prescan_modelled (p:iparams) (content:list byte) : bool :=
  negb (existsb (open_line p) (extract_lines p content)).

Inductive lclass := CLayout | CImport (indent:bool) | COpen (indent:bool) | CError | COther.


Definition import_here (p:iparams) (l:list byte) : bool :=
  has_prefix (ip_kw p) l &&
  match nth_error l (length (ip_kw p)) with
  | Some c => mem c (ip_ws p)
  | None => false
  end.

(* a `#` in column 0 with `r` behind it: EMPTY_COMMENT ('#' CR? LF), SYSL_COMMENT (HASH TEXT, TEXT = no CR / LF) followed
   by NEWLINE (CR? LF) or by the end of the text; a bare `#` as unterminated last line is the visible HASH token *)
Fixpoint comment_tail (r:list byte) (t:bool) : lclass :=
  match r with
  | [] => CLayout
  | [c] => if c =? CR then (if t then CLayout else CError) else CLayout
  | c :: r' => if c =? CR then CError else comment_tail r' t
  end.

Definition col0_comment (r:list byte) (t:bool) : lclass :=
  match r with
  | [] => if t then CLayout else COther
  | _ => comment_tail r t
  end.

(* gn = gotNewLine; nb = blanks were read since the line start (a WS token, or the blanks of EMPTY_LINE /
   INDENTED_COMMENT). Blanks followed by a CR are an EMPTY_LINE token: the line start is reached again, with
   gotNewLine set, inside the same LF-line *)
Fixpoint classify (p:iparams) (gn nb:bool) (l:list byte) (t:bool) : lclass :=
  match l with
  | [] => CLayout
  | c :: r =>
    if mem c (ip_ws p) then classify p gn true r t
    else if c =? CR then
      if nb then classify p true false r t
      else match r with [] => if t then CLayout else CError | _ => CError end
    else if c =? HASHC then
      if nb then CLayout else col0_comment r t
    else if import_here p l then
      (if open_line p l then COpen (nb && gn) else CImport (nb && gn))
    else COther
  end.

(* Rejected: a syntax error inside the import section; Head: the text ends inside the import section (accepted);
   Body: the application part was reached with these imports - the file is accepted iff the rest is, and no import
   statement is accepted after this point (sysl_file: imports_decl? application* EOF); Unmodelled: an IMPORT token whose
   path the lexer's error recovery takes from a later line (COpen) - the model makes no statement *)
Inductive outcome := Rejected | Head (l:list imp) | Body (l:list imp) | Unmodelled.

Definition prepend (a:list imp) (o:outcome) : outcome :=
  match o with
  | Rejected => Rejected
  | Head l => Head (a ++ l)
  | Body l => Body (a ++ l)
  | Unmodelled => Unmodelled
  end.

Fixpoint full (p:iparams) (stmt:stmt_fn) (gn:bool) (ls:list line) : outcome :=
  match ls with
  | [] => Head []
  | l :: rest =>
    match classify p gn false (fst l) (snd l) with
    | CLayout => full p stmt true rest
    | CImport indent =>
      if indent then Rejected
      else match stmt (unit_of l) with
           | None => Rejected
           | Some a => prepend a (full p stmt true rest)
           end
    | COpen indent => if indent then Rejected else Unmodelled
    | CError => Rejected
    | COther => Body []
    end
  end.

(* a fresh lexer has gotNewLine unset *)
Definition full_parse (p:iparams) (stmt:stmt_fn) (content:list byte) : outcome :=
  full p stmt false (split_lf content).

(* ---------- the condition under which the two agree ---------- *)
(* every line that carries an IMPORT token starts with the keyword in column 0 of its LF-line (no leading blanks on
   the first line, no blanks + CR in front), and no line of the application part passes isImportLine *)
Fixpoint tidy (p:iparams) (gn:bool) (ls:list line) : bool :=
  match ls with
  | [] => true
  | l :: rest =>
    match classify p gn false (fst l) (snd l) with
    | CLayout => tidy p true rest
    | CImport _ => is_import_line p (drop_cr (fst l)) && tidy p true rest
    | COpen _ => false
    | CError => true
    | COther => forallb (fun l' => negb (is_import_line p (drop_cr (fst l')))) ls
    end
  end.

(* every line fits the scanner *)
Definition fits (limit:N) (ls:list line) : bool :=
  forallb (fun l => N.of_nat (length (fst l)) <? limit) ls.

(* a reference statement parser for examples and counterexamples (NOT the real one): `import`, blanks, a name of
   letters, then blanks, optionally a comment, optionally CR, optionally LF; the import is the first letter's code *)
Definition is_letter (c:byte) : bool := (97 <=? c) && (c <=? 122).
Fixpoint skip (f:byte -> bool) (l:list byte) : list byte :=
  match l with c :: r => if f c then skip f r else l | [] => [] end.
Definition tail_ok (l:list byte) : bool :=
  match skip (fun c => mem c [32;9]) l with
  | [] => true
  | c :: r => if c =? HASHC then true
              else if c =? LF then match r with [] => true | _ => false end
              else if c =? CR then match r with [x] => x =? LF | _ => false end
              else false
  end.
Definition stmt0 : stmt_fn := fun u =>
  let u1 := skip (fun c => mem c [32;9;13]) u in
  if has_prefix [105;109;112;111;114;116] u1 then
    match skipn 6 u1 with
    | c :: r =>
      if mem c [32;9] then
        match skip (fun c => mem c [32;9]) r with
        | x :: r' => if is_letter x && tail_ok (skip is_letter r') then Some [x] else None
        | [] => None
        end
      else None
    | [] => None
    end
  else None.
