(* C02 (shared with C04/C08): the abstract specification the generator writes (source side) and the observable
   projection of a compiled *sysl.Module (projection side). Both mirror, constructor for constructor, the Gallina
   printers of harness/front/gen/ast.go and harness/front/proj/proj.go. Strings are SEMANTIC values (after
   %-unescaping / unquoting); how they are spelled on a line is the renderer's business. Definitions only. *)
From Coq Require Import String List ZArith Ascii Bool.
Import ListNotations.
Local Open Scope string_scope.

(* bytes outside printable ASCII are printed by the harness as  sb [195;169]  *)
Definition sb (l : list Z) : string :=
  fold_right (fun z s => String (ascii_of_N (Z.to_N z)) s) EmptyString l.

(* ------------------------------------------------------------------ projection side *)
Inductive attr := AS (s:string) | AA (elts:list attr) | AUnset | ABad.
Definition attrs := list (string * attr).          (* map: keys unique; the harness prints keys sorted *)

Record scope := Sc { sc_app : list string; sc_path : list string }.
Inductive prim := PNone | PEmpty | PAny | PBool | PInt | PFloat | PDecimal | PString | PBytes | PString8
                | PDate | PDatetime | PXml | PUuid.
Inductive constr := C (bw lmin lmax prec scale : Z) (range : option (Z * Z)) | CBad.

Inductive ty :=
| Ty (k:kind) (opt:bool) (cons:list constr) (at_:attrs) (doc:string)
| TyNil
with kind :=
| KUnset | KNoType
| KPrim (p:prim)
| KRef (ctx:option scope) (ref:scope)
| KSet (t:ty) | KSeq (t:ty) | KList (t:ty)
| KTuple (fields:list (string * ty))
| KRel (fields:list (string * ty)) (pk:list string)
| KEnum (items:list (string * Z))
| KOneOf (ms:list ty)
| KBad.

Inductive loopmode := LNone | LWhile | LUntil.
Inductive stmt :=
| SAction (a:attrs) (t:string)
| SCall (a:attrs) (target:list string) (ep:string) (args:option (list string))
| SRet (a:attrs) (t:string)
| SCond (a:attrs) (test:string) (body:list stmt)
| SLoop (a:attrs) (m:loopmode) (crit:string) (body:list stmt)
| SForeach (a:attrs) (coll:string) (body:list stmt)
| SGroup (a:attrs) (title:string) (body:list stmt)
| SAlt (a:attrs) (choices:list (string * list stmt))
| SBad.

Inductive meth := MNone | MGet | MPut | MPost | MDelete | MPatch | MOptions | MHead.
Record rest := R { r_method : meth; r_path : string; r_query : list (string * ty); r_url : list (string * ty) }.
Record endpoint := E { e_name : string; e_long : string; e_doc : string; e_attrs : attrs; e_pubsub : bool;
                       e_source : list string; e_params : list (string * ty); e_rest : option rest;
                       e_stmts : list stmt }.
Record app := A { a_parts : list string; a_long : string; a_attrs : attrs;
                  a_types : list (string * ty); a_eps : list (string * endpoint); a_mixins : list (list string) }.
Definition module := list (string * app).

(* ------------------------------------------------------------------ source side *)
Inductive entry := ETag (t:string) | ENvp (n:string) (v:attr).
Inductive annoval := NQ (s:string) | NArr (a:attr) | NMulti (lines:list string).
Inductive anno := An (n:string) (v:annoval).

Inductive native := NInt | NInt32 | NInt64 | NFloat | NFloat32 | NFloat64 | NString | NDate | NBool | NDecimal
                  | NDatetime | NBytes | NAny.
Inductive tyexpr := XNative (n:native) | XLocal (s:string) | XRef (app path:list string) | XNone.
Inductive sizespec := ZNone | ZSize (a:Z) (b:option Z) | ZArr (a:Z) (b:option Z).
Inductive coll := CNone | CSet | CSeq.
Record fielddecl := Fd { fd_name : string; fd_array : bool; fd_coll : coll; fd_ty : tyexpr; fd_size : sizespec;
                         fd_opt : bool; fd_attribs : list entry; fd_annos : list anno; fd_doc : option string }.

Inductive bkind := BIf | BElse | BFor | BLoop | BAlt | BWhile | BUntil | BForEach | BGroup.
Inductive xstmt :=
| XAction (es:list entry) (t:string)
| XCall (es:list entry) (target:option (list string)) (ep:string) (args:option (list string))
| XRet (t:string)
| XOneOf (cases:list (string * list xstmt))
| XBlock (k:bkind) (t:string) (body:list xstmt).

Inductive pathseg := PVar (n:string) (t:tyexpr) | PStatic (s:string).
Record qvar := Qv { q_name : string; q_ty : tyexpr; q_opt : bool }.
Record method := Md { m_verb : meth; m_params : list fielddecl; m_query : list qvar; m_attribs : list entry;
                      m_annos : list anno; m_doc : list string; m_body : list xstmt }.
Inductive restnode := RNode (segs:list pathseg) (attribs:list entry) (children:list restchild)
with restchild := RMethod (m:method) | RSub (n:restnode) | RAnno (a:anno).

(* one line of a `.. * <- *:` block (grammar collector_stmts; the [ ... ] is mandatory):
     Target <- Endpoint [..]   |   EndpointName [..]   |   VERB /path [..]
   The fourth grammar form `Subscriber <- Publisher -> Event [..]` is never recognised as such: `<-` switches the
   lexer to its ARGS mode, which reads `Publisher -> Event` as ONE endpoint text, so the line is a CCall whose
   endpoint is that text (exactly the name a subscription gives its call in the publisher's event). *)
Inductive centry :=
| CCall (target:list string) (ep:string) (es:list entry)
| CAction (name:string) (es:list entry)
| CHttp (verb:meth) (path:string) (es:list entry).

(* `name <:` followed by an indented block of fields (grammar inplace_tuple: fields only, to any depth);
   `name(1..) <:` is the array form *)
Inductive nfield := NField (f:fielddecl) | NTuple (n:string) (array:bool) (fs:list nfield).
Inductive titem := TField (f:fielddecl) | TAnno (a:anno) | TTuple (n:string) (array:bool) (fs:list nfield).
Record umember := Um { um_coll : coll; um_ty : tyexpr; um_size : sizespec }.
Inductive member :=
| MAnno (a:anno)
| MType (table:bool) (n:string) (attribs:list entry) (whatever:bool) (items:list titem)
| MEnum (n:string) (attribs:list entry) (annos:list anno) (items:list (string * Z))
| MAlias (n:string) (attribs:list entry) (annos:list anno) (c:coll) (t:tyexpr) (z:sizespec)
| MUnion (n:string) (attribs:list entry) (annos:list anno) (ms:list umember)
| MEndpoint (n:string) (long:option string) (params:list fielddecl) (attribs:list entry) (annos:list anno)
            (body:list xstmt)
| MRest (node:restnode)
| MMixin (a:list string)
| MEvent (n:string) (params:list fielddecl) (attribs:list entry) (body:list xstmt)
| MSubscribe (a:list string) (n:string) (attribs:list entry) (body:list xstmt)
| MCollector (entries:list centry).
Record block := Bk { b_app : list string; b_long : option string; b_attribs : list entry; b_members : list member }.
Definition spec := list (list block).      (* one list of blocks per file, in flatten order *)
