(* Front/DocTables.v - obligations against the CURRENT source: lemmas over Gen/ListenerDoc.v (regenerated from
   pkg/parse/listener_impl.go on every run).  Each `reflexivity` stops checking when the listener code it was
   extracted from changes; Front/DocStr.v transliterates exactly these statements. *)
From Coq Require Import List String Bool.
Import ListNotations.
Require Import Verif.Gen.ListenerDoc.
Local Open Scope string_scope.

(* EnterText_stmt / EnterDoc_string / ExitAnnotation_value and the scope helpers, statement by statement *)
Definition expected_shapes : list (string * list string) := [
  ("EnterText_stmt", [
    "if ctx.Doc_string() == nil";
    "{";
    "s.pendingDocString = false";
    "str := ctx.GetText()";
    "if ctx.QSTRING() != nil";
    "{";
    "str = withQuotesQString(str)";
    "}";
    "sc := s.getSrcCtx(ctx.BaseParserRuleContext)";
    "sc.End.Col = sc.Start.Col + int32(len(str))";
    "s.lastEnd = sc.End";
    "s.addToCurrentScope(&sysl.Statement{ Stmt: &sysl.Statement_Action{ Action: &sysl.Action{ Action: str, }, }, SourceContext: sc, SourceContexts: []*sysl.SourceContext{sc}, })";
    "}";
    "else";
    "{";
    "s.pendingDocString = true";
    "if s.currentApp().Endpoints[s.endpointName].GetRestParams() != nil";
    "{";
    "if x := s.peekScope().(*sysl.Endpoint); x != nil && len(x.Stmt) == 0";
    "{";
    "return";
    "}";
    "}";
    "x := s.lastStatement()";
    "add_stmt := x == nil || x.GetAction() == nil || !strings.HasPrefix(x.GetAction().Action, ""|"")";
    "if add_stmt";
    "{";
    "sc := s.getSrcCtx(ctx.BaseParserRuleContext)";
    "s.addToCurrentScope(&sysl.Statement{ Stmt: &sysl.Statement_Action{ Action: &sysl.Action{ Action: ""|"", }, }, SourceContext: sc, SourceContexts: []*sysl.SourceContext{sc}, })";
    "}";
    "}"]);
  ("EnterDoc_string", [
    "if s.pendingDocString";
    "{";
    "s.pendingDocString = false";
    "space := """"";
    "text := ctx.TEXT().GetText()";
    "text = strings.ReplaceAll(text, `""`, `\""`)";
    "if len(text) > 0";
    "{";
    "c, _ := utf8.DecodeRuneInString(text)";
    "if unicode.IsSpace(c)";
    "{";
    "text = text[1:]";
    "}";
    "}";
    "text = fromQString(`""` + text + `""`)";
    "if s.currentApp().Endpoints[s.endpointName].GetRestParams() != nil";
    "{";
    "if x := s.peekScope().(*sysl.Endpoint); x != nil && len(x.Stmt) == 0";
    "{";
    "if len(x.Docstring) > 0";
    "{";
    "space = "" """;
    "}";
    "str := x.Docstring + space + text";
    "x.Docstring = str";
    "return";
    "}";
    "}";
    "stmt := s.lastStatement()";
    "if len(stmt.GetAction().Action) > 0";
    "{";
    "space = "" """;
    "}";
    "str := stmt.GetAction().Action + space + text";
    "stmt.GetAction().Action = str";
    "return";
    "}";
    "s.currentMultiLineAnno = append(s.currentMultiLineAnno, strings.TrimPrefix(ctx.TEXT().GetText(), "" ""))"]);
  ("ExitAnnotation_value", [
    "if ctx.Multi_line_docstring() != nil";
    "{";
    "addAttrWithPrecedence(s.peekAttrs(), s.annotation.name, &sysl.Attribute{ Attribute: &sysl.Attribute_S{ S: strings.TrimLeft(strings.Join(s.currentMultiLineAnno, ""\n""), "" "") + ""\n"", }, SourceContext: s.annotation.srcCtx, SourceContexts: []*sysl.SourceContext{s.annotation.srcCtx}, })";
    "s.currentMultiLineAnno = []string{}";
    "}"]);
  ("pushScope", [
    "s.stmt_scope = append(s.stmt_scope, scope)";
    "s.stmt_scope_last = append(s.stmt_scope_last, s.lastStatement())"]);
  ("popScope", [
    "l := len(s.stmt_scope) - 1";
    "top := s.lastStatement()";
    "if top != nil && top != s.stmt_scope_last[l]";
    "{";
    "top.SourceContext.End = s.lastEnd";
    "top.SourceContexts[len(top.SourceContexts)-1].End = s.lastEnd";
    "}";
    "s.stmt_scope = s.stmt_scope[:l]";
    "s.stmt_scope_last = s.stmt_scope_last[:l]"]);
  ("peekScope", [
    "l := len(s.stmt_scope) - 1";
    "return s.stmt_scope[l]"]);
  ("lastStatement", [
    "typeswitch scope := s.peekScope().(type)";
    "case *sysl.Application, *sysl.Type, *sysl.Alt, *sysl.View, *RestEndpointPath";
    "return nil";
    "case *sysl.Endpoint";
    "l := len(scope.Stmt) - 1";
    "if l < 0";
    "{";
    "return nil";
    "}";
    "return scope.Stmt[l]";
    "case *sysl.Cond";
    "l := len(scope.Stmt) - 1";
    "if l < 0";
    "{";
    "return nil";
    "}";
    "return scope.Stmt[l]";
    "case *sysl.Alt_Choice";
    "l := len(scope.Stmt) - 1";
    "if l < 0";
    "{";
    "return nil";
    "}";
    "return scope.Stmt[l]";
    "case *sysl.Group";
    "l := len(scope.Stmt) - 1";
    "if l < 0";
    "{";
    "return nil";
    "}";
    "return scope.Stmt[l]";
    "case *sysl.Loop";
    "l := len(scope.Stmt) - 1";
    "if l < 0";
    "{";
    "return nil";
    "}";
    "return scope.Stmt[l]";
    "case *sysl.Foreach";
    "l := len(scope.Stmt) - 1";
    "if l < 0";
    "{";
    "return nil";
    "}";
    "return scope.Stmt[l]";
    "default";
    "fmt.Printf(""got unexpected %T\n"", scope)";
    "panic(""not implemented"")";
    "endswitch"]);
  ("addToCurrentScope", [
    "top := len(s.stmt_scope) - 1";
    "typeswitch scope := s.stmt_scope[top].(type)";
    "case *sysl.Endpoint";
    "scope.Stmt = append(scope.Stmt, stmt)";
    "case *sysl.Cond";
    "scope.Stmt = append(scope.Stmt, stmt)";
    "case *sysl.Group";
    "scope.Stmt = append(scope.Stmt, stmt)";
    "case *sysl.Alt_Choice";
    "scope.Stmt = append(scope.Stmt, stmt)";
    "case *sysl.Loop";
    "scope.Stmt = append(scope.Stmt, stmt)";
    "case *sysl.Foreach";
    "scope.Stmt = append(scope.Stmt, stmt)";
    "default";
    "fmt.Printf(""got unexpected %T\n"", scope)";
    "panic(""not implemented"")";
    "endswitch"])
].

Lemma listener_doc_shapes : ld_shapes = expected_shapes.
Proof. reflexivity. Qed.

(* the only way these functions see a position: getSrcCtx (-> SourceContext of the new statement) and s.lastEnd
   (-> SourceContext.End).  No GetLine / GetColumn / token index feeds a decision or a text. *)
Definition expected_position_reads : list (string * string) := [
  ("EnterText_stmt", "s.getSrcCtx(ctx.BaseParserRuleContext)");
  ("EnterText_stmt", "s.lastEnd");
  ("EnterText_stmt", "s.getSrcCtx(ctx.BaseParserRuleContext)");
  ("popScope", "s.lastEnd");
  ("popScope", "s.lastEnd")
].

Lemma listener_doc_position_reads : ld_position_reads = expected_position_reads.
Proof. reflexivity. Qed.

(* the listener methods that add a statement to the current scope: the rules the correspondence maps to events
   (text, return, call, if / else / for / group / one-of; the collector_* rules add to the scope of a `.. * <- *`
   collector, which holds no statement blocks) *)
Definition adds_statement (p:string * list string) : bool := existsb (String.eqb "addToCurrentScope") (snd p).
Lemma listener_statement_adders : map fst (filter adds_statement ld_scope_ops) =
  ["EnterCall_stmt"; "EnterCollector_action_stmt"; "EnterCollector_call_stmt"; "EnterCollector_http_stmt";
   "EnterCollector_pubsub_call"; "EnterElse_stmt"; "EnterFor_stmt"; "EnterGroup_stmt"; "EnterIf_stmt";
   "EnterOne_of_stmt"; "EnterRet_stmt"; "EnterText_stmt"].
Proof. reflexivity. Qed.

Definition ops_of (n:string) : option (list string) :=
  option_map snd (find (fun p => String.eqb (fst p) n) ld_scope_ops).

(* block statements: added to the current scope, then their own scope is pushed; popped on exit *)
Lemma listener_block_rules :
  map ops_of ["EnterIf_stmt"; "EnterElse_stmt"; "EnterGroup_stmt"; "EnterOne_of_stmt"] =
    repeat (Some ["addToCurrentScope"; "pushScope"]) 4 /\
  ops_of "EnterFor_stmt" = Some ["addToCurrentScope"; "pushScope"; "pushScope"; "pushScope"; "pushScope"] /\
  ops_of "EnterOne_of_cases" = Some ["pushScope"] /\
  map ops_of ["ExitIf_stmt"; "ExitElse_stmt"; "ExitFor_stmt"; "ExitGroup_stmt"; "ExitOne_of_stmt"; "ExitOne_of_cases"] =
    repeat (Some ["popScope"]) 6 /\
  map ops_of ["EnterRet_stmt"; "EnterCall_stmt"] = repeat (Some ["addToCurrentScope"]) 2 /\
  map ops_of ["EnterSimple_endpoint"; "EnterMethod_def"; "ExitSimple_endpoint"; "ExitMethod_def"] =
    [Some ["pushScope"]; Some ["pushScope"]; Some ["popScope"]; Some ["popScope"]].
Proof. repeat split; reflexivity. Qed.
