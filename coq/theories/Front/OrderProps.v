(* C02: declaration order and listener state.
   (1) Obligations against the CURRENT source (Gen/ListenerState.v, regenerated on every run): the facts about the
       listener's mutable fields that justify a model (Front/Denote.v) which threads NO listener state from one
       member of an application to the next - every Exit* handler of a declaration detaches / resets what its Enter*
       handler set up (field map, field-name stack, type path, scope stack, REST prefix / parameter / attribute
       stacks, endpoint name), and every Enter* handler initialises what its declaration reads; plus the shape of
       the collector pass (applyAttributes / collectorPubSubCalls / mergeAttrs) the model transliterates.
   (2) member_order_irrelevant: in the model, the order in which the members of a block are declared does not
       matter - any permutation that keeps the annotations in their relative order and the mixins in theirs gives
       the same application (types and endpoints as maps, everything else literally). *)
From Coq Require Import String List ZArith Ascii Bool Lia Permutation.
Require Import Verif.Front.Ast Verif.Front.Denote Verif.Front.DenoteProps Verif.Front.Canon Verif.Front.CanonProps Verif.Gen.ListenerState.
Import ListNotations.
Local Open Scope string_scope.
Local Open Scope list_scope.

(* ================================================================== 1. the listener's state, in the current source *)
Definition writes (h:string) : list (string * string) := match aget h state_writes with Some l => l | None => [] end.
(* how handler h writes field f, in source order *)
Definition how (h f:string) : list string := map snd (filter (fun w => String.eqb (fst w) f) (writes h)).
Definition detached (x:string) : bool := String.eqb x "nil" || String.eqb x "fresh".

(* after a !type / !table / !union / parameter list / !alias / view the "current field map" no longer points into a
   declared type (nil or a fresh map), and the field-name stack is empty: a later declaration (e.g. a REST path
   variable typed by a reference, which writes typemap[fieldname]) cannot add a field to an earlier type *)
Lemma exit_detaches_field_map :
  forallb (fun h => detached (last (how h "typemap") "") && match how h "fieldname" with ["fresh"] => true | _ => false end)
          ["ExitTable"; "ExitUnion"; "ExitParams"; "ExitAlias"; "ExitView"] = true.
Proof. reflexivity. Qed.

(* every declaration that reads the field map / field-name stack sets them up itself *)
Lemma enter_initialises_field_map :
  forallb (fun h => match how h "typemap" with x :: _ => String.eqb x "fresh" || String.eqb x "set" | [] => false end)
          ["EnterTable"; "EnterUnion"; "EnterParams"; "EnterAlias"; "EnterView"; "EnterApp_decl"] = true /\
  how "EnterParams" "fieldname" = ["fresh"] /\ how "EnterAlias" "fieldname" = ["set"] /\ how "EnterView" "fieldname" = ["fresh"] /\
  how "EnterMethod_def" "method_urlparams" = ["fresh"].
Proof. repeat split; reflexivity. Qed.

(* the type path is pushed once and popped once by each type declaration *)
Lemma type_path_balanced :
  forallb (fun p => match how (fst p) "currentTypePath", how (snd p) "currentTypePath" with ["push"], ["pop"] => true | _, _ => false end)
          [("EnterTable", "ExitTable"); ("EnterUnion", "ExitUnion"); ("EnterEnum", "ExitEnum"); ("EnterAlias", "ExitAlias")] = true.
Proof. reflexivity. Qed.

(* every declaration / statement block pops the scope it pushed (EnterFor_stmt pushes in one of four exclusive arms) *)
Lemma scopes_balanced :
  forallb (fun p => match how (fst p) "scope", how (snd p) "scope" with ["push"], ["pop"] => true | _, _ => false end)
          [("EnterTable", "ExitTable"); ("EnterUnion", "ExitUnion"); ("EnterEnum", "ExitEnum"); ("EnterAlias", "ExitAlias");
           ("EnterView", "ExitView"); ("EnterSimple_endpoint", "ExitSimple_endpoint"); ("EnterMethod_def", "ExitMethod_def");
           ("EnterRest_endpoint", "ExitRest_endpoint"); ("EnterEvent", "ExitEvent"); ("EnterSubscribe", "ExitSubscribe");
           ("EnterCollector", "ExitCollector"); ("EnterIf_stmt", "ExitIf_stmt"); ("EnterElse_stmt", "ExitElse_stmt");
           ("EnterGroup_stmt", "ExitGroup_stmt"); ("EnterOne_of_cases", "ExitOne_of_cases"); ("EnterOne_of_stmt", "ExitOne_of_stmt");
           ("EnterApp_decl", "ExitApp_decl"); ("EnterField_type", "ExitField_type")] = true /\
  how "EnterFor_stmt" "scope" = ["push"; "push"; "push"; "push"] /\ how "ExitFor_stmt" "scope" = ["pop"].
Proof. repeat split; reflexivity. Qed.

(* REST: what a path pushes (prefix, url-parameter mark, attributes) its exit pops; the endpoint name is cleared *)
Lemma rest_stacks_restored :
  how "ExitHttp_path" "urlPrefixes" = ["push"] /\ how "ExitRest_endpoint" "urlPrefixes" = ["pop"] /\
  how "EnterRest_endpoint" "rest_urlparams_len" = ["push"] /\ how "ExitRest_endpoint" "rest_urlparams_len" = ["pop"] /\
  how "ExitRest_endpoint" "rest_urlparams" = ["pop"] /\
  how "EnterRest_endpoint" "rest_attrs" = ["push"; "push"] /\ how "ExitRest_endpoint" "rest_attrs" = ["pop"] /\
  forallb (fun h => match how h "endpointName" with ["empty"] => true | _ => false end)
          ["ExitSimple_endpoint"; "ExitMethod_def"; "ExitEvent"; "ExitSubscribe"] = true.
Proof. repeat split; reflexivity. Qed.

(* the collector pass has the shape Front/Denote.v apply_attrs / collect_eps / collect_entry transliterate:
   Cond / Group / Loop / (LoopN) / Foreach recurse over their statements, the one-of arm over every statement of
   every choice, the call arm merges src.Attrs into dst.Attrs when IsSameCall, actions and returns are left alone,
   anything else panics; `applied = applyAttributes(..) || applied` always makes the call; the collector endpoint
   itself is skipped; an action entry merges into the endpoint of that name; mergeAttrs stores copies. *)
Lemma collector_shape_current :
  apply_recurse_arms = ["Cond"; "Group"; "Loop"; "LoopN"; "Foreach"] /\ apply_leaf_arms = ["Action"; "Ret"] /\
  apply_alt_arm = true /\ apply_call_arm = true /\ apply_default_panics = true /\ apply_accumulates_eagerly = true /\
  collector_skips_self = true /\ collector_accumulates_eagerly = true /\ collector_action_merges = true.
Proof. repeat split; reflexivity. Qed.
Lemma merge_attrs_by_value_current : merge_copies = true.
Proof. reflexivity. Qed.

(* in-place tuples (`field <:` + indented fields): the type path is extended by the field name AS STORED (already
   unescaped by EnterField - no second unescape), leaving the block restores the field map of the enclosing type
   whether it is a !type or a !table, the array form finds its item under the unescaped name, and the nested names
   are cut off the field-name stack when the block ends (so that ExitTable's key walk sees the type's own fields
   only). These are what Denote.ntuple / nnames / ditems assume (false on a tree without fixes C02-7..10). *)
Lemma inplace_tuple_current :
  inplace_push_as_is = true /\ inplace_exit_restores_any_parent = true /\ inplace_array_name_unescaped = true /\
  inplace_exit_cuts_names = true.
Proof. repeat split; reflexivity. Qed.

(* ================================================================== 2. member order *)
Definition same_map {V} (m1 m2:list (string * V)) : Prop := forall k, aget k m1 = aget k m2.

Lemma in_aget {V} k (v:V) m : NoDup (keys m) -> In (k, v) m -> aget k m = Some v.
Proof.
  induction m as [|[k' v'] r IH]; cbn [keys map fst In aget]; intros Hnd Hin; [contradiction|].
  inversion Hnd as [|? ? Hx Hr]; subst. destruct Hin as [[= -> ->]|Hin].
  - rewrite String.eqb_refl. reflexivity.
  - destruct (String.eqb_spec k k') as [->|_]; [|apply IH; assumption].
    exfalso. apply Hx. change (In k' (keys r)). unfold keys. apply in_map_iff. exists (k', v). split; [reflexivity|exact Hin].
Qed.

Lemma aget_perm {V} (l l':list (string * V)) : NoDup (keys l) -> Permutation l l' -> same_map l l'.
Proof.
  intros Hnd Hp k.
  assert (Hnd' : NoDup (keys l')) by (eapply Permutation_NoDup; [apply Permutation_map; exact Hp|exact Hnd]).
  destruct (aget k l) as [v|] eqn:E.
  - symmetry. apply in_aget; [exact Hnd'|]. eapply Permutation_in; [exact Hp|]. apply aget_In, E.
  - destruct (aget k l') as [v'|] eqn:E'; [|reflexivity].
    apply aget_In in E'. apply (Permutation_in _ (Permutation_sym Hp)) in E'. rewrite (in_aget _ _ _ Hnd E') in E. discriminate.
Qed.

Lemma forallb_perm {T} (f:T -> bool) l l' : Permutation l l' -> forallb f l = true -> forallb f l' = true.
Proof. intros Hp H. rewrite forallb_forall in *. intros x Hx. apply H. eapply Permutation_in; [apply Permutation_sym, Hp|exact Hx]. Qed.

Lemma nodup_keys_perm {V} (base:list string) (f:member -> list (string * V)) ms ms' :
  Permutation ms ms' -> NoDup (base ++ keys (flat_map f ms)) -> NoDup (base ++ keys (flat_map f ms')).
Proof.
  intros Hp. apply Permutation_NoDup. apply Permutation_app_head. apply Permutation_map. apply Permutation_flat_map. exact Hp.
Qed.

(* member_order_irrelevant: for the declarations of one application block in the sub-language of Front/Canon.v
   (annotations, !type / !table, !enum, !alias, !union, simple endpoints with and without parameters, events,
   mixins), written in ANY order: the listener ends with the same application - every type and every endpoint
   under its name with the same content, the same attributes, the same mixin list - provided the annotations keep
   their order among themselves and the mixins theirs (their order IS part of the meaning: first value of a name
   wins, mixins are a list). *)
Theorem member_order_irrelevant : forall ap a ms ms',
  Permutation ms ms' ->
  flat_map mem_annos ms = flat_map mem_annos ms' -> flat_map mem_mixins ms = flat_map mem_mixins ms' ->
  forallb sub_member ms = true -> forallb member_ok ms = true ->
  NoDup (keys (a_types a) ++ keys (types_of_members ap ms)) ->
  NoDup (keys (a_eps a) ++ keys (eps_of_members ap ms)) ->
  exists a1 a2,
    fold_opt (amember ap) ms a = Some a1 /\ fold_opt (amember ap) ms' a = Some a2 /\
    same_map (a_types a1) (a_types a2) /\ same_map (a_eps a1) (a_eps a2) /\
    a_attrs a1 = a_attrs a2 /\ a_mixins a1 = a_mixins a2 /\ a_parts a1 = a_parts a2 /\ a_long a1 = a_long a2.
Proof.
  intros ap a ms ms' Hp Han Hmx Hsub Hok Ht He.
  exists (mems_effect ap a ms), (mems_effect ap a ms').
  split; [apply amembers_effect; assumption|].
  split; [apply amembers_effect; [eapply forallb_perm; eassumption|eapply forallb_perm; eassumption| |]|].
  - unfold types_of_members in *. eapply nodup_keys_perm; eassumption.
  - unfold eps_of_members in *. eapply nodup_keys_perm; eassumption.
  - unfold mems_effect. cbn [a_types a_eps a_attrs a_mixins a_parts a_long]. rewrite Han, Hmx. repeat split.
    + apply aget_perm; [rewrite keys_app; exact Ht|]. apply Permutation_app_head. unfold types_of_members. apply Permutation_flat_map, Hp.
    + apply aget_perm; [rewrite keys_app; exact He|]. apply Permutation_app_head. unfold eps_of_members. apply Permutation_flat_map, Hp.
Qed.

(* ... and for the module: the members of a block in either order leave the same module, up to the order in which
   the application's type / endpoint maps list their entries *)
Corollary block_member_order_irrelevant : forall ap k m a ms ms',
  aget k m = Some a -> Permutation ms ms' ->
  flat_map mem_annos ms = flat_map mem_annos ms' -> flat_map mem_mixins ms = flat_map mem_mixins ms' ->
  forallb sub_member ms = true -> forallb member_ok ms = true ->
  NoDup (keys (a_types a) ++ keys (types_of_members ap ms)) ->
  NoDup (keys (a_eps a) ++ keys (eps_of_members ap ms)) ->
  exists a1 a2,
    dmembers ap k m ms = Some (aset k a1 m) /\ dmembers ap k m ms' = Some (aset k a2 m) /\
    same_map (a_types a1) (a_types a2) /\ same_map (a_eps a1) (a_eps a2) /\
    a_attrs a1 = a_attrs a2 /\ a_mixins a1 = a_mixins a2 /\ a_parts a1 = a_parts a2 /\ a_long a1 = a_long a2.
Proof.
  intros ap k m a ms ms' Ha Hp Han Hmx Hsub Hok Ht He.
  destruct (member_order_irrelevant ap a ms ms' Hp Han Hmx Hsub Hok Ht He) as (a1 & a2 & H1 & H2 & R).
  exists a1, a2. rewrite (dmembers_fold ap k ms m a Hsub Ha), H1.
  rewrite (dmembers_fold ap k ms' m a (forallb_perm _ _ _ Hp Hsub) Ha), H2. split; [reflexivity|]. split; [reflexivity|exact R].
Qed.

(* non-vacuity: a table, an annotation, an endpoint with parameters, an enum, a mixin and an event, and the same
   six members in another order (annotation and mixin moved across the others) *)
Definition order_ms : list member :=
  [MType true "T" [ETag "db"] false [TField (Fd "id" false CNone (XNative NInt) ZNone false [ETag "pk"] [] None)];
   MAnno (An "team" (NQ "a"));
   MEndpoint "Get" None [Fd "key" false CSeq (XLocal "T") ZNone true [] [] None] [ETag "ro"] [] [XCall [] None "Get" None];
   MEnum "Colour" [] [] [("red", 1%Z); ("big", 70000%Z)];
   MMixin ["Other"];
   MEvent "Changed" [] [ENvp "k" (AS "v")] [XAction [] "publish"]].
Definition order_ms' : list member :=
  match order_ms with [t; an; ep; en; mx; ev] => [ev; mx; en; t; ep; an] | _ => [] end.
Example member_order_irrelevant_nonvacuous :
  Permutation order_ms order_ms' /\
  flat_map mem_annos order_ms = flat_map mem_annos order_ms' /\ flat_map mem_mixins order_ms = flat_map mem_mixins order_ms' /\
  forallb sub_member order_ms = true /\ forallb member_ok order_ms = true /\
  NoDup (keys (a_types (new_app ["A"])) ++ keys (types_of_members ["A"] order_ms)) /\
  NoDup (keys (a_eps (new_app ["A"])) ++ keys (eps_of_members ["A"] order_ms)) /\
  match fold_opt (amember ["A"]) order_ms (new_app ["A"]), fold_opt (amember ["A"]) order_ms' (new_app ["A"]) with
  | Some a1, Some a2 => keys (a_types a1) = ["T"; "Colour"] /\ keys (a_types a2) = ["Colour"; "T"] /\ keys (a_eps a1) = ["Get"; "Changed"]
  | _, _ => False
  end.
Proof.
  split.
  { unfold order_ms', order_ms.
    match goal with |- Permutation [?t; ?an; ?ep; ?en; ?mx; ?ev] _ =>
      apply (Permutation_trans (l' := [ev; t; an; ep; en; mx])); [symmetry; apply (Permutation_cons_append [t; an; ep; en; mx] ev)|];
      apply perm_skip;
      apply (Permutation_trans (l' := [mx; t; an; ep; en])); [symmetry; apply (Permutation_cons_append [t; an; ep; en] mx)|];
      apply perm_skip;
      apply (Permutation_trans (l' := [en; t; an; ep])); [symmetry; apply (Permutation_cons_append [t; an; ep] en)|];
      apply perm_skip; apply perm_skip; apply perm_swap
    end. }
  repeat split; try reflexivity; try (apply nodupb_NoDup; reflexivity).
Qed.
