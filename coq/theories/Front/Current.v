(* Front/Current.v - definitions only: the weights and token lists of the CURRENT source (Gen/LexerTables.v),
   kept apart from the lemmas of Front/Tables.v so that the correspondence (Front/Run.v) still evaluates when
   one of those lemmas stops checking. *)
From Coq Require Import List NArith Bool.
Import ListNotations.
Require Import Verif.Front.Indent Verif.Front.Lines Verif.Gen.LexerTables.
Local Open Scope N_scope.

Definition weight_of (b:N) : N := match lookup b calc_weights with Some w => w | None => 0 end.
Definition W0 : weights := {| w_sp := weight_of 32; w_tab := weight_of 9 |}.

Definition layout_token_types : list N :=
  [tok_NEWLINE; tok_EMPTY_LINE; tok_INDENTED_COMMENT; tok_EMPTY_COMMENT; tok_E_EMPTY_LINE; tok_E_INDENTED_COMMENT].
Definition hid (t:N) : raw := {| ty := t; hidden := true; width := 0; eof := false |}.
