(* Front/RunImp.v - correspondence glue for the import section (C03). One case = the bytes of a file, the REAL result
   of the statement parser on every line of it that holds the keyword (in both spellings the two readers use; obtained
   by running parseImports - lexer, parser, listener - on that line alone), and three observations on the whole file:
   the text extractImports returned for it, what parseImports made of that text (= what collectSpecs goes on to
   fetch; None = error) and what parseImports makes of the whole file (= the import statements of the full parse;
   None = rejected). Import definitions are interned to numbers by the harness. *)
From Coq Require Import List NArith Bool.
Import ListNotations.
Require Import Verif.Front.ImportScan Verif.Front.ImportScanProps Verif.Gen.ImportScan Verif.Base.Harness.
Local Open Scope N_scope.

Definition P0 : iparams := {| ip_kw := isc_keyword; ip_seps := isc_seps; ip_ws := isc_ws; ip_limit := isc_limit |}.

(* n copies of c: long lines are printed as expressions *)
Definition rep (c:byte) (n:N) : list byte := repeat c (N.to_nat n).

Definition poison : option (list imp) := Some [999999999].

Definition tbl_stmt (tbl:list (list byte * option (list imp))) : stmt_fn := fun u =>
  match find (fun e => list_eqb N.eqb (fst e) u) tbl with
  | Some e => snd e
  | None => poison            (* a unit the harness did not supply: no observation can equal this *)
  end.

Definition oimps_eqb := option_eqb (list_eqb N.eqb).

Record imp_case := IC {
  ic_sysl : bool;                                   (* the file name contains ".sysl" *)
  ic_text : list byte;
  ic_tbl : list (list byte * option (list imp));
  ic_pre : list byte;                               (* extractImports *)
  ic_a : option (list imp);                         (* parseImports on ic_pre *)
  ic_b : option (list imp)                          (* parseImports on ic_text *)
}.

Definition imp_ok (c:imp_case) : bool :=
  let stmt := tbl_stmt (ic_tbl c) in
  list_eqb N.eqb (extract P0 (ic_sysl c) (ic_text c)) (ic_pre c) &&
  (if ic_sysl c then
     (* the hypothesis eol_ok of the agreement theorems, on the real statement table *)
     eol_okb stmt (split_lf (ic_text c)) &&
     (negb (prescan_modelled P0 (ic_text c)) || oimps_eqb (prescan P0 stmt (ic_text c)) (ic_a c)) &&
     match full_parse P0 stmt (ic_text c) with
     | Rejected => oimps_eqb None (ic_b c)
     | Head l => oimps_eqb (Some l) (ic_b c)
     | Body l => oimps_eqb None (ic_b c) || oimps_eqb (Some l) (ic_b c)
     | Unmodelled => true
     end
   else true).
