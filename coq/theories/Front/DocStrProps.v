(* Front/DocStrProps.v - proofs about the listener's handling of multi-line constructs (Front/DocStr.v), for ALL
   event sequences and states (no bounds):

     body_ignores_positions   two event sequences that differ only in the positions of their tokens give the same
                              Docstring, statements and annotation values, up to the recorded positions
     doc_run_one_statement    n consecutive `| text` lines become ONE statement "| t1 ... tn" located at the first
                              line, whatever the positions of the others - the decision is taken on the last
                              statement of the current scope (adjacency in the event sequence), never on a line number
     doc_run_docstring        in a REST method without statements they all go to the Docstring
     text_ends_run            any other text statement in between starts a new "|" statement afterwards *)
From Coq Require Import Ascii String List NArith Bool Lia.
Import ListNotations.
Require Import Verif.Front.DocStr.
Local Open Scope string_scope.
Local Open Scope N_scope.

(* ---------- erasing positions ---------- *)

Definition frame_noline (f:frame) : frame :=
  match f with
  | FEnd d ss => FEnd d (map stmt_noline ss)
  | FBlock k _ ss => FBlock k 0 (map stmt_noline ss)
  | FChoice ss => FChoice (map stmt_noline ss)
  | FAlt _ cs => FAlt 0 (map (map stmt_noline) cs)
  end.

Definition lst_noline (s:lst) : lst :=
  {| scopes := map frame_noline (scopes s); pending := pending s; anno := anno s; annos := annos s |}.

Definition lres_noline (r:lres) : lres := match r with LDone s => LDone (lst_noline s) | LPanic => LPanic end.

Lemma last_some_map {A B} (g:A -> B) (l:list A) :
  last (map Some (map g l)) None = option_map g (last (map Some l) None).
Proof.
  induction l as [|x l IH]; [reflexivity|]. destruct l as [|y l]; [reflexivity|].
  change (last (map Some (map g (x :: y :: l))) None) with (last (map Some (map g (y :: l))) None).
  change (last (map Some (x :: y :: l)) None) with (last (map Some (y :: l)) None). exact IH.
Qed.

Lemma frame_stmts_noline f : frame_stmts (frame_noline f) = option_map (map stmt_noline) (frame_stmts f).
Proof. destruct f; reflexivity. Qed.

Lemma last_stmt_noline f : last_stmt (frame_noline f) = option_map stmt_noline (last_stmt f).
Proof.
  unfold last_stmt. rewrite frame_stmts_noline. destruct (frame_stmts f) as [ss|]; [|reflexivity].
  cbn [option_map]. apply last_some_map.
Qed.

Lemma add_stmt_noline f x : add_stmt (frame_noline f) (stmt_noline x) = option_map frame_noline (add_stmt f x).
Proof. destruct f; cbn [add_stmt frame_noline option_map]; rewrite ?map_app; reflexivity. Qed.

Lemma can_add_noline f : can_add (frame_noline f) = can_add f.
Proof. destruct f; reflexivity. Qed.

Lemma rest_empty_noline f : rest_empty_endpoint (frame_noline f) = rest_empty_endpoint f.
Proof. destruct f as [d [|x ss]| | |]; reflexivity. Qed.

Lemma upd_noline a ss :
  match rev (map stmt_noline ss) with
  | SAct _ l :: r => Some (rev r ++ [SAct a l])%list
  | _ => None
  end = option_map (map stmt_noline) match rev ss with
                                     | SAct _ l :: r => Some (rev r ++ [SAct a l])%list
                                     | _ => None
                                     end.
Proof.
  rewrite <- map_rev. destruct (rev ss) as [|[b l|k l|k l bd|l cs] r]; try reflexivity.
  cbn [map stmt_noline option_map]. rewrite map_app, map_rev. reflexivity.
Qed.

Lemma set_last_action_noline f a :
  set_last_action (frame_noline f) a = option_map frame_noline (set_last_action f a).
Proof.
  destruct f as [d ss|k l ss|ss|l cs]; cbn [set_last_action frame_noline]; try reflexivity;
    rewrite upd_noline; destruct (rev ss) as [|[b m|? ?|? ? ?|? ?] r]; reflexivity.
Qed.

Lemma with_scopes_noline s sc : lst_noline (with_scopes s sc) = with_scopes (lst_noline s) (map frame_noline sc).
Proof. reflexivity. Qed.
Lemma with_pending_noline s p : lst_noline (with_pending s p) = with_pending (lst_noline s) p.
Proof. reflexivity. Qed.

Lemma add_top_noline s x : lres_noline (add_top s x) = add_top (lst_noline s) (stmt_noline x).
Proof.
  unfold add_top. cbn [scopes lst_noline]. destruct (scopes s) as [|f r]; [reflexivity|]. cbn [map].
  rewrite add_stmt_noline. destruct (add_stmt f x); reflexivity.
Qed.

(* one listener call commutes with erasing the positions: nothing it decides depends on them *)
Lemma lstep_noline rest s e : lres_noline (lstep rest s e) = lstep rest (lst_noline s) (ev_noline e).
Proof.
  destruct e as [str ln|ln|text|k ln|k ln|ln| | |]; cbn [lstep ev_noline].
  - rewrite add_top_noline, with_pending_noline. reflexivity.
  - cbn [scopes with_pending lst_noline]. destruct (scopes s) as [|f r]; [reflexivity|]. cbn [map].
    rewrite rest_empty_noline, last_stmt_noline.
    destruct (if rest then rest_empty_endpoint f else Some false) as [[|]|]; try reflexivity.
    destruct (last_stmt f) as [[a l|? ?|? ? ?|? ?]|]; cbn [option_map stmt_noline];
      try (rewrite add_top_noline; reflexivity).
    destruct (negb (starts_with_pipe a)); [rewrite add_top_noline|]; reflexivity.
  - cbn [pending lst_noline]. destruct (pending s); [|reflexivity].
    cbn [scopes with_pending lst_noline]. destruct (scopes s) as [|f r]; [reflexivity|]. cbn [map].
    rewrite rest_empty_noline, last_stmt_noline.
    destruct (if rest then rest_empty_endpoint f else Some false) as [[|]|]; try reflexivity.
    + destruct f; reflexivity.
    + destruct (last_stmt f) as [[a l|? ?|? ? ?|? ?]|]; cbn [option_map stmt_noline]; try reflexivity.
      rewrite set_last_action_noline. destruct (set_last_action f _); reflexivity.
  - apply add_top_noline.
  - cbn [scopes lst_noline]. destruct (scopes s) as [|f r]; [reflexivity|]. cbn [map]. rewrite can_add_noline.
    destruct (can_add f); reflexivity.
  - cbn [scopes lst_noline]. destruct (scopes s) as [|f r]; [reflexivity|]. cbn [map]. rewrite can_add_noline.
    destruct (can_add f); reflexivity.
  - cbn [scopes lst_noline]. destruct (scopes s) as [|[| | |] r]; reflexivity.
  - cbn [scopes lst_noline]. destruct (scopes s) as [|[d ss|k l ss|ss|l cs] [|p r]]; try reflexivity; cbn [map frame_noline].
    + change (SBlock k 0 (map stmt_noline ss)) with (stmt_noline (SBlock k l ss)). rewrite add_stmt_noline.
      destruct (add_stmt p _); reflexivity.
    + destruct p as [| | |l2 cs]; try reflexivity. cbn [lres_noline]. rewrite with_scopes_noline. cbn [map frame_noline]. rewrite map_app. reflexivity.
    + change (SAlt 0 (map (map stmt_noline) cs)) with (stmt_noline (SAlt l cs)). rewrite add_stmt_noline.
      destruct (add_stmt p _); reflexivity.
  - reflexivity.
Qed.

Lemma lrun_noline rest evs : forall s, lres_noline (lrun rest s evs) = lrun rest (lst_noline s) (map ev_noline evs).
Proof.
  induction evs as [|e evs IH]; intros s; cbn [lrun map]; [reflexivity|].
  rewrite <- lstep_noline. destruct (lstep rest s e) as [s1|]; cbn [lres_noline]; [apply IH|reflexivity].
Qed.

Lemma body_noline rest evs : out_noline (body rest evs) = body rest (map ev_noline evs).
Proof.
  unfold body. change linit with (lst_noline linit) at 2. rewrite <- lrun_noline.
  destruct (lrun rest linit evs) as [s|]; [|reflexivity]. cbn [lres_noline lst_noline scopes annos].
  destruct (scopes s) as [|[d ss|? ? ?|?|? ?] [|g r]]; reflexivity.
Qed.

(* a layout change moves tokens to other lines and columns; it leaves the sequence of parse events and the text
   of every token as they are (the parser reads the default channel only, Front/LinesProps.v).  Then the
   endpoint gets the same Docstring, the same statements and the same annotation values - only the recorded
   positions differ. *)
Theorem body_ignores_positions rest evs evs' :
  map ev_noline evs = map ev_noline evs' -> out_noline (body rest evs) = out_noline (body rest evs').
Proof. intros H. rewrite !body_noline, H. reflexivity. Qed.

(* ---------- the coalescing decision ---------- *)

(* the statement list of the innermost scope *)
Definition top_stmts (s:lst) : option (list stmt) :=
  match scopes s with f :: _ => frame_stmts f | [] => None end.

Definition set_stmts (f:frame) (ss:list stmt) : frame :=
  match f with
  | FEnd d _ => FEnd d ss
  | FBlock k l _ => FBlock k l ss
  | FChoice _ => FChoice ss
  | x => x
  end.

(* `| t1`, ..., `| tn` as the listener sees them; lns = the line of each *)
Fixpoint doc_lines (ts:list (string * N)) : list ev :=
  match ts with
  | [] => []
  | (t, ln) :: r => EDocStmt ln :: EDoc t :: doc_lines r
  end.

Fixpoint joined (ts:list (string * N)) : string :=
  match ts with
  | [] => ""
  | (t, _) :: r => " " ++ strip1 t ++ joined r
  end.

(* the scope does not send doc lines to the Docstring *)
Definition to_statements (rest:bool) (f:frame) : Prop :=
  (if rest then rest_empty_endpoint f else Some false) = Some false.

Lemma append_assoc a b c : (a ++ b) ++ c = a ++ (b ++ c).
Proof. induction a as [|x a IH]; cbn; [reflexivity|]. rewrite IH. reflexivity. Qed.

Lemma pipe_prefix_app a b : starts_with_pipe a = true -> starts_with_pipe (a ++ b) = true.
Proof.
  unfold starts_with_pipe. destruct a as [|c a]; [discriminate|]. cbn [String.prefix append].
  destruct (Ascii.ascii_dec "|"%char c); [|discriminate]. intros _. destruct (a ++ b); reflexivity.
Qed.

Lemma pipe_nonempty a : starts_with_pipe a = true -> String.eqb a "" = false.
Proof. destruct a; [discriminate|reflexivity]. Qed.

(* in a REST method only the endpoint's own scope takes doc lines (a nested block makes the type assertion panic) *)
Definition scope_ok (rest:bool) (f:frame) : bool := negb rest || match f with FEnd _ _ => true | _ => false end.

Lemma to_statements_ok rest f : to_statements rest f -> scope_ok rest f = true.
Proof. unfold to_statements, scope_ok. destruct rest; [|reflexivity]. destruct f; cbn; try discriminate. reflexivity. Qed.

Lemma rest_empty_nonempty f ss x rest :
  scope_ok rest f = true -> frame_stmts f = Some ss -> to_statements rest (set_stmts f (ss ++ [x])%list).
Proof.
  intros Hk H. unfold to_statements. destruct rest; [|reflexivity].
  destruct f as [d s0| | |]; cbn in *; try discriminate.
  destruct (ss ++ [x])%list eqn:E; [destruct ss; discriminate|reflexivity].
Qed.

Lemma frame_stmts_set f ss ss' : frame_stmts f = Some ss -> frame_stmts (set_stmts f ss') = Some ss'.
Proof. destruct f; cbn; intros H; try discriminate; reflexivity. Qed.

Lemma set_stmts_set f a b : set_stmts (set_stmts f a) b = set_stmts f b.
Proof. destruct f; reflexivity. Qed.

Lemma add_stmt_set f ss x : frame_stmts f = Some ss -> add_stmt f x = Some (set_stmts f (ss ++ [x])%list).
Proof. destruct f; cbn; intros [= ->] || intros [=]; reflexivity. Qed.

Lemma last_snoc {A} (l:list A) (x d:A) : last (l ++ [x]) d = x.
Proof. induction l as [|y l IH]; [reflexivity|]. cbn [app]. destruct (l ++ [x])%list eqn:E; [destruct l; discriminate|exact IH]. Qed.

Lemma last_stmt_snoc f ss x : frame_stmts f = Some ss -> last_stmt (set_stmts f (ss ++ [x])%list) = Some x.
Proof.
  intros H. unfold last_stmt. rewrite (frame_stmts_set _ _ _ H), map_app. cbn [map]. apply last_snoc.
Qed.

Lemma set_last_action_snoc f ss a l b : frame_stmts f = Some ss ->
  set_last_action (set_stmts f (ss ++ [SAct a l])%list) b = Some (set_stmts f (ss ++ [SAct b l])%list).
Proof.
  destruct f; cbn [frame_stmts set_stmts set_last_action]; intros [= ->] || intros [=];
    rewrite rev_app_distr; cbn [rev app option_map]; rewrite rev_involutive; reflexivity.
Qed.

(* one more `| t` line after a statement that is a "|..." action: its text is appended to that statement *)
Lemma doc_line_appends rest s f r ss a l t ln :
  scope_ok rest f = true ->
  scopes s = set_stmts f (ss ++ [SAct a l])%list :: r -> frame_stmts f = Some ss -> pending s = false ->
  starts_with_pipe a = true ->
  lrun rest s [EDocStmt ln; EDoc t] =
  LDone (with_scopes s (set_stmts f (ss ++ [SAct (a ++ " " ++ strip1 t) l])%list :: r)).
Proof.
  intros Hk Hs Hf Hp Ha. cbn [lrun lstep]. cbn [scopes with_pending]. rewrite Hs.
  pose proof (rest_empty_nonempty f ss (SAct a l) rest Hk Hf) as Hr. unfold to_statements in Hr. rewrite Hr.
  rewrite (last_stmt_snoc _ _ _ Hf), Ha. cbn [negb pending with_pending scopes]. rewrite Hs, Hr.
  rewrite (last_stmt_snoc _ _ _ Hf), (pipe_nonempty _ Ha), (set_last_action_snoc _ _ _ _ _ Hf).
  destruct s as [sc p an ans]; cbn in Hp; subst p; reflexivity.
Qed.

(* a first `| t` line after anything else (no statement yet, a statement of another kind, a text statement that
   does not start with "|"): a new statement "| t" located at this line *)
Definition not_pipe_action (o:option stmt) : Prop :=
  match o with Some (SAct a _) => starts_with_pipe a = false | _ => True end.

Lemma doc_line_starts rest s f r ss t ln :
  scopes s = f :: r -> frame_stmts f = Some ss -> to_statements rest f -> not_pipe_action (last_stmt f) ->
  lrun rest s [EDocStmt ln; EDoc t] =
  LDone {| scopes := set_stmts f (ss ++ [SAct ("| " ++ strip1 t) ln])%list :: r; pending := false; anno := anno s; annos := annos s |}.
Proof.
  intros Hs Hf Hr Hn. unfold to_statements in Hr. cbn [lrun lstep]. cbn [scopes with_pending]. rewrite Hs, Hr.
  assert (Hadd : (match last_stmt f with Some (SAct a _) => negb (starts_with_pipe a) | _ => true end) = true).
  { unfold not_pipe_action in Hn. destruct (last_stmt f) as [[a l|? ?|? ? ?|? ?]|]; try reflexivity. rewrite Hn. reflexivity. }
  rewrite Hadd. unfold add_top. cbn [scopes with_pending]. rewrite Hs, (add_stmt_set _ _ _ Hf).
  cbn [pending with_scopes with_pending scopes].
  pose proof (rest_empty_nonempty f ss (SAct "|" ln) rest (to_statements_ok _ _ Hr) Hf) as Hr2. unfold to_statements in Hr2. rewrite Hr2.
  rewrite (last_stmt_snoc _ _ _ Hf). cbn [String.eqb Ascii.eqb Bool.eqb].
  rewrite (set_last_action_snoc _ _ _ _ _ Hf). reflexivity.
Qed.

Lemma lrun_app rest : forall evs1 evs2 s0 s1, lrun rest s0 evs1 = LDone s1 -> lrun rest s0 (evs1 ++ evs2)%list = lrun rest s1 evs2.
Proof.
  induction evs1 as [|e evs1 IH1]; intros evs2 s0 s1 H; cbn [lrun app] in *; [injection H as ->; reflexivity|].
  destruct (lstep rest s0 e); [apply IH1, H|discriminate].
Qed.

Lemma doc_lines_append rest : forall ts s f r ss a l, scope_ok rest f = true ->
  scopes s = set_stmts f (ss ++ [SAct a l])%list :: r -> frame_stmts f = Some ss -> pending s = false ->
  starts_with_pipe a = true ->
  lrun rest s (doc_lines ts) =
  LDone (with_scopes s (set_stmts f (ss ++ [SAct (a ++ joined ts) l])%list :: r)).
Proof.
  induction ts as [|[t ln] ts IH]; intros s f r ss a l Hk Hs Hf Hp Ha.
  - cbn [doc_lines lrun joined]. assert (a ++ "" = a) as -> by (clear; induction a; cbn; congruence).
    rewrite <- Hs. destruct s; reflexivity.
  - cbn [doc_lines joined].
    change (EDocStmt ln :: EDoc t :: doc_lines ts) with ([EDocStmt ln; EDoc t] ++ doc_lines ts)%list.
    rewrite (lrun_app _ _ _ _ _ (doc_line_appends rest s f r ss a l t ln Hk Hs Hf Hp Ha)).
    rewrite (IH _ f r ss (a ++ " " ++ strip1 t) l); [| exact Hk | reflexivity | exact Hf | exact Hp | apply pipe_prefix_app, Ha].
    rewrite !append_assoc. reflexivity.
Qed.

(* n >= 1 consecutive `| text` lines, on any lines whatsoever, in any scope that holds statements: ONE statement
   "| t1 t2 ... tn", located where the first of them is *)
Theorem doc_run_one_statement rest s f r ss t ln ts :
  scopes s = f :: r -> frame_stmts f = Some ss -> to_statements rest f -> not_pipe_action (last_stmt f) ->
  lrun rest s (doc_lines ((t, ln) :: ts)) =
  LDone {| scopes := set_stmts f (ss ++ [SAct ("|" ++ joined ((t, ln) :: ts)) ln])%list :: r;
           pending := false; anno := anno s; annos := annos s |}.
Proof.
  intros Hs Hf Hr Hn. cbn [doc_lines].
  change (EDocStmt ln :: EDoc t :: doc_lines ts) with ([EDocStmt ln; EDoc t] ++ doc_lines ts)%list.
  rewrite (lrun_app _ _ _ _ _ (doc_line_starts rest s f r ss t ln Hs Hf Hr Hn)).
  rewrite (doc_lines_append rest ts _ f r ss ("| " ++ strip1 t) ln); [|apply to_statements_ok, Hr|reflexivity|exact Hf|reflexivity|reflexivity].
  cbn [with_scopes scopes pending anno annos joined]. reflexivity.
Qed.

(* REST method that has no statement yet: the lines go to the Docstring, separated by single spaces *)
Fixpoint joined_doc (d:string) (ts:list (string * N)) : string :=
  match ts with
  | [] => d
  | (t, _) :: r => joined_doc (d ++ (if String.eqb d "" then "" else " ") ++ strip1 t) r
  end.

Theorem doc_run_docstring : forall ts s d r, scopes s = FEnd d [] :: r -> pending s = false ->
  lrun true s (doc_lines ts) = LDone (with_scopes s (FEnd (joined_doc d ts) [] :: r)).
Proof.
  induction ts as [|[t ln] ts IH]; intros s d r Hs Hp.
  - cbn [doc_lines lrun joined_doc]. rewrite <- Hs. destruct s; reflexivity.
  - cbn [doc_lines lrun lstep]. cbn [scopes with_pending pending]. rewrite Hs. cbn [rest_empty_endpoint].
    cbn [pending with_pending scopes]. rewrite Hs. cbn [rest_empty_endpoint].
    rewrite (IH _ (d ++ (if String.eqb d "" then "" else " ") ++ strip1 t) r); [|reflexivity|reflexivity].
    destruct s as [sc p an ans]; cbn in Hp; subst p; reflexivity.
Qed.

(* another text statement between two `| text` lines: the second one starts a new statement (the decision looks at
   the LAST statement of the scope, i.e. at what precedes the line in the default channel) *)
Theorem text_ends_run rest s f r ss str l2 t ln : scope_ok rest f = true ->
  scopes s = f :: r -> frame_stmts f = Some ss -> starts_with_pipe str = false ->
  lrun rest s [EText str l2; EDocStmt ln; EDoc t] =
  LDone {| scopes := set_stmts f (ss ++ [SAct str l2; SAct ("| " ++ strip1 t) ln])%list :: r;
           pending := false; anno := anno s; annos := annos s |}.
Proof.
  intros Hk Hs Hf Hstr.
  set (s1 := with_scopes (with_pending s false) (set_stmts f (ss ++ [SAct str l2])%list :: r)).
  assert (H1 : lrun rest s [EText str l2] = LDone s1).
  { cbn [lrun lstep]. unfold add_top. cbn [scopes with_pending]. rewrite Hs, (add_stmt_set _ _ _ Hf). reflexivity. }
  change [EText str l2; EDocStmt ln; EDoc t] with ([EText str l2] ++ [EDocStmt ln; EDoc t])%list.
  rewrite (lrun_app _ _ _ _ _ H1).
  rewrite (doc_line_starts rest s1 (set_stmts f (ss ++ [SAct str l2])%list) r (ss ++ [SAct str l2])%list t ln).
  - rewrite set_stmts_set, <- app_assoc. reflexivity.
  - reflexivity.
  - apply (frame_stmts_set _ _ _ Hf).
  - apply (rest_empty_nonempty _ _ _ _ Hk Hf).
  - rewrite (last_stmt_snoc _ _ _ Hf). exact Hstr.
Qed.

(* ---------- non-vacuity: concrete inputs that meet the hypotheses ---------- *)

(* the hypotheses of doc_run_one_statement / text_ends_run hold at the start of any simple endpoint body, and of
   doc_run_docstring at the start of any REST method *)
Example doc_run_hypotheses :
  scopes linit = FEnd "" [] :: [] /\ frame_stmts (FEnd "" []) = Some [] /\ to_statements false (FEnd "" []) /\
  not_pipe_action (last_stmt (FEnd "" [])) /\ scope_ok false (FEnd "" []) = true /\ pending linit = false /\
  to_statements true (FEnd "" [SAct "x" 1]) /\ starts_with_pipe "do x" = false.
Proof. repeat split; reflexivity. Qed.

Example doc_run_example :
  body false [EDocStmt 3; EDoc " a"; EDocStmt 5; EDoc " b"; EDocStmt 9; EDoc "  c"; EText "do x" 10; EDocStmt 11; EDoc " d"]
  = BOut "" [SAct "| a b  c" 3; SAct "do x" 10; SAct "| d" 11] [].
Proof. vm_compute. reflexivity. Qed.

Example doc_run_docstring_example :
  body true [EDocStmt 3; EDoc " a"; EDocStmt 5; EDoc " b"; EText "do x" 6; EDocStmt 7; EDoc " c"; EDocStmt 8; EDoc " d"]
  = BOut "a b" [SAct "do x" 6; SAct "| c d" 7] [].
Proof. vm_compute. reflexivity. Qed.

Example positions_example :
  map ev_noline [EDocStmt 3; EDoc " a"; EDocStmt 4; EDoc " b"] = map ev_noline [EDocStmt 3; EDoc " a"; EDocStmt 17; EDoc " b"] /\
  body false [EDocStmt 3; EDoc " a"; EDocStmt 17; EDoc " b"] = BOut "" [SAct "| a b" 3] [].
Proof. split; vm_compute; reflexivity. Qed.

(* a doc line inside a block of a REST method: the listener's unchecked type assertion panics (both layouts) *)
Example rest_nested_doc_panics : body true [EOpen 3 2; EDocStmt 3; EDoc " a"; EClose] = BPanic.
Proof. vm_compute. reflexivity. Qed.

Example blocks_example :
  body false [EOpen 3 1; EDocStmt 2; EDoc " a"; EDocStmt 3; EDoc " b"; EClose; EOpenAlt 4; EChoice; EDocStmt 6; EDoc " c"; EClose; EChoice; EAdd 1 8; EClose; EClose]
  = BOut "" [SBlock 3 1 [SAct "| a b" 2]; SAlt 4 [[SAct "| c" 6]; [SOther 1 8]]] [].
Proof. vm_compute. reflexivity. Qed.

Example anno_example : anno_of_texts [" first line"; "  second"; "third"] = "first line" ++ nl ++ " second" ++ nl ++ "third" ++ nl.
Proof. vm_compute. reflexivity. Qed.
