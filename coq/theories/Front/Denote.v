(* C02: `denote` - the LISTENER's algorithm (pkg/parse/listener_impl.go enter/exit callbacks + parse.go
   postProcess) on the abstract specification, producing the projection of the compiled module.
   Transliteration, not an idealised compiler: lookup-or-create per app/type/endpoint, the three attribute merge
   rules (mergeAttrs, addAttrWithPrecedence, the table_def rule), constraint construction with its quirks
   (size spec REPLACES the native constraint, int32 wrap of precision/scale, only the last ParseInt error counts),
   the statement scope stack as an explicit machine over the tree walker's enter/exit events, REST prefix /
   url-param / attribute stacks, subscriptions writing into the publisher's application, and postProcess
   (param and field type-ref scope fix-up, mixin copy in sorted application order).
   `None` = the tree walk panics (reported as a parse error since the C01 fix). Definitions only.

   Abstracted (see notes/C02.md): Go pointer sharing is modelled by value (differs only when one attribute name
   is declared at several REST levels or a mixed-in type's reference is re-scoped); a field declared twice in
   one type overwrites instead of merging; json.Unmarshal/url.PathUnescape are identity on semantic strings. *)
From Coq Require Import String List ZArith Ascii Bool.
Require Import Verif.Front.Ast.
Import ListNotations.
Local Open Scope string_scope.
Local Open Scope list_scope.
Local Open Scope Z_scope.
Infix "+++" := String.append (right associativity, at level 60).

(* ------------------------------------------------------------------ association lists as Go maps *)
Fixpoint aget {V} (k:string) (m:list (string * V)) : option V :=
  match m with
  | [] => None
  | (k', v) :: r => if String.eqb k k' then Some v else aget k r
  end.
Fixpoint aset {V} (k:string) (v:V) (m:list (string * V)) : list (string * V) :=
  match m with
  | [] => [(k, v)]
  | (k', v') :: r => if String.eqb k k' then (k, v) :: r else (k', v') :: aset k v r
  end.
Definition keys {V} (m:list (string * V)) : list string := map fst m.

Fixpoint join (sep:string) (l:list string) : string :=
  match l with
  | [] => ""
  | [x] => x
  | x :: r => x +++ sep +++ join sep r
  end.
Definition app_key (parts:list string) : string := join " :: " parts.     (* syslutil.JoinAppName *)

(* ------------------------------------------------------------------ attributes *)
Definition patterns := "patterns".

(* makeAttributeArray *)
Definition make_attrs (es:list entry) : attrs :=
  let pats := flat_map (fun e => match e with ETag t => [AS t] | _ => [] end) es in
  let nv := fold_left (fun m e => match e with ENvp n v => aset n v m | _ => m end) es [] in
  match pats with [] => nv | _ => aset patterns (AA pats) nv end.
Definition opt_attrs (es:list entry) : attrs := match es with [] => [] | _ => make_attrs es end.

(* addAttrWithPrecedence: tags accumulate; the first non-empty value of a name wins *)
Definition add_prec (m:attrs) (k:string) (a:attr) : attrs :=
  match (if String.eqb k patterns then aget patterns m else None), a with
  | Some (AA cur), AA new => aset k (AA (cur ++ new)) m
  | Some _, _ => m                                     (* Go: type assertion panics; not reachable from text *)
  | None, _ =>
      match aget k m with
      | Some (AS s) => if String.eqb s "" then aset k a m else m
      | Some (AA (_ :: _)) => m
      | _ => aset k a m
      end
  end.
Definition merge_prec (cur new:attrs) : attrs := fold_left (fun m kv => add_prec m (fst kv) (snd kv)) new cur.

(* mergeAttrs(src, dst): new names are added, two arrays are concatenated, anything else is replaced *)
Definition merge_attrs (src dst:attrs) : attrs :=
  fold_left (fun d kv =>
    match aget (fst kv) d, snd kv with
    | Some (AA de), AA ve => aset (fst kv) (AA (de ++ ve)) d
    | _, v => aset (fst kv) v d
    end) src dst.

(* EnterTable_def: tags accumulate, every other name is replaced *)
Definition tdef_merge (new cur:attrs) : attrs :=
  fold_left (fun d kv =>
    match (if String.eqb (fst kv) patterns then aget patterns d else None), snd kv with
    | Some (AA de), AA ve => aset patterns (AA (de ++ ve)) d
    | _, v => aset (fst kv) v d
    end) new cur.

(* multi-line annotation text: each line loses one leading blank, the joined text loses all leading blanks *)
Definition strip1 (s:string) : string :=
  match s with String c r => if Ascii.eqb c " "%char then r else s | _ => s end.
Fixpoint trim_left (s:string) : string :=
  match s with String c r => if Ascii.eqb c " "%char then trim_left r else s | _ => s end.
Definition nl : string := String (ascii_of_N 10) EmptyString.
Definition multi_text (ls:list string) : string := trim_left (join nl (map strip1 ls)) +++ nl.

(* EnterAnnotation + EnterAnnotation_value (+ ExitAnnotation_value for the multi-line form) *)
Definition add_anno (m:attrs) (a:anno) : attrs :=
  let '(An n v) := a in
  let m1 := match aget n m with None | Some AUnset => aset n AUnset m | _ => m end in
  match v with
  | NQ s => add_prec m1 n (AS s)
  | NArr x => add_prec m1 n x
  | NMulti ls => add_prec (add_prec m1 n (AS "")) n (AS (multi_text ls))
  end.
Definition add_annos (m:attrs) (l:list anno) : attrs := fold_left add_anno l m.

(* ------------------------------------------------------------------ field types (utils.go, Appendix G) *)
Definition int64_max := 9223372036854775807.
Definition wrap32 (z:Z) : Z := (z + 2147483648) mod 4294967296 - 2147483648.   (* Go: int32(l) *)

Definition prim_of (n:native) : prim * list constr :=
  match n with
  | NInt => (PInt, [])
  | NInt32 => (PInt, [C 32 0 0 0 0 (Some (-2147483648, 2147483647))])
  | NInt64 => (PInt, [C 64 0 0 0 0 (Some (-9223372036854775808, 9223372036854775807))])
  | NFloat => (PFloat, []) | NFloat32 => (PFloat, [C 32 0 0 0 0 None]) | NFloat64 => (PFloat, [C 64 0 0 0 0 None])
  | NString => (PString, []) | NDate => (PDate, []) | NBool => (PBool, []) | NDecimal => (PDecimal, [])
  | NDatetime => (PDatetime, []) | NBytes => (PBytes, []) | NAny => (PAny, [])
  end.
Definition c_bw (c:constr) : Z := match c with C b _ _ _ _ _ => b | CBad => 0 end.
Definition bitwidth (cs:list constr) : Z := match find (fun c => 0 <? c_bw c) cs with Some c => c_bw c | None => 0 end.
Definition sizable (p:prim) : bool := match p with PDate | PDatetime | PInt | PString | PBytes | PDecimal => true | _ => false end.
Definition nz (z:Z) : Z := z.     (* `l != 0` guards only skip storing a zero *)

(* makeTypeConstraint / makeArrayConstraint: the result REPLACES the constraints the native type brought *)
Definition apply_spec (p:prim) (cs:list constr) (s:sizespec) : option (list constr) :=
  match s with
  | ZNone => Some cs
  | ZSize n m =>
      if negb (sizable p) then None else
      if int64_max <? n then None else
      match p with
      | PDecimal =>
          match m with
          | None => Some [C 0 0 n 0 0 None]
          | Some k => if int64_max <? k then None else Some [C 0 0 n (wrap32 n) (wrap32 k) None]
          end
      | _ => Some [C (bitwidth cs) 0 n 0 0 None]
      end
  | ZArr lo hi =>
      if negb (sizable p) then None else
      match hi with                                    (* only the LAST ParseInt error is looked at *)
      | None => if int64_max <? lo then None else Some [C (bitwidth cs) lo 0 0 0 None]
      | Some h => if int64_max <? h then None else Some [C (bitwidth cs) (if int64_max <? lo then 0 else lo) h 0 0 None]
      end
  end.

(* EnterTypes / EnterUser_defined_type / EnterReference+ExitReference, in the context (application, type path) *)
Definition base_type (ap path:list string) (t:tyexpr) : kind * list constr :=
  match t with
  | XNative n => let '(p, cs) := prim_of n in (KPrim p, cs)
  | XLocal s => (KRef (Some (Sc ap path)) (Sc [] [s]), [])
  | XRef a p => (KRef (Some (Sc ap path)) (Sc a p), [])
  | XNone => (KNoType, [])
  end.
Definition kind_prim (k:kind) : option prim := match k with KPrim p => Some p | _ => None end.
(* a size / array spec is looked at only on primitives *)
Definition sized (k:kind) (cs:list constr) (z:sizespec) : option (list constr) :=
  match kind_prim k with Some p => apply_spec p cs z | None => Some cs end.

(* [set of | sequence of] T [size]  with the attributes / optionality / docstring the declaration carries:
   exitSetOrSequence_type moves them to the new outer type *)
Definition wrap_type (c:coll) (k:kind) (cs:list constr) (opt:bool) (at_:attrs) (doc:string) : ty :=
  match c with
  | CNone => Ty k opt cs at_ doc
  | CSet => Ty (KSet (Ty k false cs [] "")) opt [] at_ doc
  | CSeq => Ty (KSeq (Ty k false cs [] "")) opt [] at_ doc
  end.

(* field: EnterField, EnterField_type, types, ExitSet/Sequence_type, ExitField_type, annotations, ExitField *)
Definition dfield (ap path:list string) (f:fielddecl) : option ty :=
  let '(k, cs0) := base_type ap path (fd_ty f) in
  match sized k cs0 (fd_size f) with
  | None => None
  | Some cs =>
      let at0 := match fd_attribs f with [] => [] | es => merge_prec [] (make_attrs es) end in
      let at1 := add_annos at0 (fd_annos f) in
      let doc := match fd_doc f with Some d => d | None => "" end in
      let t := wrap_type (fd_coll f) k cs (fd_opt f) at1 doc in
      Some (if fd_array f then Ty (KList t) false [] [] "" else t)
  end.

(* ExitParams: the reference context is dropped from a plain reference and from the element of a set *)
Definition drop_ctx (t:ty) : ty :=
  match t with
  | Ty (KRef _ r) o c a d => Ty (KRef None r) o c a d
  | Ty (KSet (Ty (KRef _ r) o' c' a' d')) o c a d => Ty (KSet (Ty (KRef None r) o' c' a' d')) o c a d
  | _ => t
  end.
Fixpoint dparams (ap:list string) (fs:list fielddecl) : option (list (string * ty)) :=
  match fs with
  | [] => Some []
  | f :: r => match dfield ap [] f, dparams ap r with
              | Some t, Some l => Some ((fd_name f, drop_ctx t) :: l)
              | _, _ => None
              end
  end.

(* ------------------------------------------------------------------ statements: the scope stack *)
Inductive ev :=
| EvAct (es:list entry) (t:string)
| EvCall (es:list entry) (target:option (list string)) (ep:string) (args:option (list string))
| EvRet (t:string)
| EvOpen (k:bkind) (t:string)      (* EnterIf_stmt / EnterElse_stmt / EnterFor_stmt / EnterGroup_stmt *)
| EvOneOf                          (* EnterOne_of_stmt *)
| EvCase (l:string)                (* EnterOne_of_cases *)
| EvClose.                         (* the matching Exit...: popScope *)

(* the parse-tree walker: enter, children in source order, exit *)
Fixpoint walk (s:xstmt) : list ev :=
  match s with
  | XAction es t => [EvAct es t]
  | XCall es tg ep args => [EvCall es tg ep args]
  | XRet t => [EvRet t]
  | XBlock k t body =>
      EvOpen k t :: (fix walks (l:list xstmt) : list ev := match l with [] => [] | x :: r => walk x ++ walks r end) body
                 ++ [EvClose]
  | XOneOf cases =>
      EvOneOf :: (fix wcases (cs:list (string * list xstmt)) : list ev :=
                    match cs with
                    | [] => []
                    | (l, body) :: r =>
                        EvCase l :: (fix walks (l:list xstmt) : list ev := match l with [] => [] | x :: r => walk x ++ walks r end) body
                                 ++ [EvClose] ++ wcases r
                    end) cases
              ++ [EvClose]
  end.
Fixpoint walks (l:list xstmt) : list ev := match l with [] => [] | x :: r => walk x ++ walks r end.

Inductive head := HTop | HBlock (k:bkind) (t:string) | HCase (l:string).
Inductive frame :=
| FStmts (h:head) (acc:list stmt)                 (* Endpoint / Cond / Group / Loop / Foreach / Alt_Choice scope *)
| FAlt (choices:list (string * list stmt)).       (* Alt scope *)

Definition block_stmt (k:bkind) (t:string) (body:list stmt) : stmt :=
  match k with
  | BIf => SCond [] ("if " +++ t) body
  | BElse => SCond [] (match t with "" => "else" | _ => "else " +++ t end) body
  | BFor => SGroup [] ("for " +++ t) body
  | BLoop => SGroup [] ("loop " +++ t) body
  | BAlt => SGroup [] ("alt " +++ t) body
  | BWhile => SLoop [] LWhile t body
  | BUntil => SLoop [] LUntil t body
  | BForEach => SForeach [] t body
  | BGroup => SGroup [] t body
  end.

(* addToCurrentScope: only statement scopes take statements (the Alt scope makes the listener panic) *)
Definition add_stmt (s:stmt) (stk:list frame) : option (list frame) :=
  match stk with
  | FStmts h acc :: r => Some (FStmts h (acc ++ [s]) :: r)
  | _ => None
  end.

Definition step (ap:list string) (e:ev) (stk:list frame) : option (list frame) :=
  match e with
  | EvAct es t => add_stmt (SAction (opt_attrs es) t) stk
  | EvCall es tg ep args => add_stmt (SCall (opt_attrs es) (match tg with Some p => p | None => ap end) ep args) stk
  | EvRet t => add_stmt (SRet [] t) stk
  | EvOpen k t => match stk with FStmts _ _ :: _ => Some (FStmts (HBlock k t) [] :: stk) | _ => None end
  | EvOneOf => match stk with FStmts _ _ :: _ => Some (FAlt [] :: stk) | _ => None end
  | EvCase l => match stk with FAlt _ :: _ => Some (FStmts (HCase l) [] :: stk) | _ => None end
  | EvClose =>
      match stk with
      | FStmts (HBlock k t) acc :: r => add_stmt (block_stmt k t acc) r
      | FStmts (HCase l) acc :: FAlt cs :: r => Some (FAlt (cs ++ [(l, acc)]) :: r)
      | FAlt cs :: r => add_stmt (SAlt [] cs) r
      | _ => None
      end
  end.

Fixpoint run (ap:list string) (es:list ev) (stk:list frame) : option (list frame) :=
  match es with
  | [] => Some stk
  | e :: r => match step ap e stk with Some stk' => run ap r stk' | None => None end
  end.

(* the statements of one endpoint-like scope after walking `body`, starting from what it already holds *)
Definition run_body (ap:list string) (init:list stmt) (body:list xstmt) : list stmt :=
  match run ap (walks body) [FStmts HTop init] with
  | Some [FStmts HTop acc] => acc
  | _ => [SBad]
  end.

(* ------------------------------------------------------------------ applications, members *)
Definition new_app (parts:list string) : app := A parts "" [] [] [] [].
Definition new_ep (n:string) : endpoint := E n "" "" [] false [] [] None [].

Definition set_types (a:app) (t:list (string * ty)) : app := A (a_parts a) (a_long a) (a_attrs a) t (a_eps a) (a_mixins a).
Definition set_eps (a:app) (e:list (string * endpoint)) : app := A (a_parts a) (a_long a) (a_attrs a) (a_types a) e (a_mixins a).
Definition set_aattrs (a:app) (x:attrs) : app := A (a_parts a) (a_long a) x (a_types a) (a_eps a) (a_mixins a).
Definition set_mixins (a:app) (x:list (list string)) : app := A (a_parts a) (a_long a) (a_attrs a) (a_types a) (a_eps a) x.
Definition put_type (a:app) (n:string) (t:ty) : app := set_types a (aset n t (a_types a)).
Definition put_ep (a:app) (e:endpoint) : app := set_eps a (aset (e_name e) e (a_eps a)).
Definition get_ep (a:app) (n:string) (dflt:endpoint) : endpoint := match aget n (a_eps a) with Some e => e | None => dflt end.

Definition ep_with (e:endpoint) (at_:attrs) (ps:list (string * ty)) (ss:list stmt) : endpoint :=
  E (e_name e) (e_long e) (e_doc e) at_ (e_pubsub e) (e_source e) ps (e_rest e) ss.

Fixpoint fold_opt {S X} (f:S -> X -> option S) (l:list X) (s:S) : option S :=
  match l with [] => Some s | x :: r => match f s x with Some s' => fold_opt f r s' | None => None end end.

(* ---- in-place tuples (EnterField with ctx.Inplace_tuple, EnterInplace_tuple / ExitInplace_tuple, ExitField):
   `name <:` + an indented block of fields gives the parent the field  name : reference to [name]  (no context; a
   list of it for `name(1..) <:`) and the application a type of its own, a tuple named by the dotted type path
   (`T.name`, `T.name.inner`, ...) that holds the nested fields; nested references get the type path as context.
   The nested names leave the listener's name stack (s.fieldname) when the block ends. *)
Definition tuple_field (n:string) (array:bool) : ty :=
  let t := Ty (KRef None (Sc [] [n])) false [] [] "" in
  if array then Ty (KList t) false [] [] "" else t.
Definition dotted (path:list string) : string := join "." path.      (* PathStack.Get *)

(* one nested field at type path `path`: (the fields of the enclosing tuple, the application's types) *)
Fixpoint ntuple (ap path:list string) (x:nfield) (acc:list (string * ty) * list (string * ty)) {struct x}
  : option (list (string * ty) * list (string * ty)) :=
  match x with
  | NField f => match dfield ap path f with Some t => Some (aset (fd_name f) t (fst acc), snd acc) | None => None end
  | NTuple n arr fs =>
      match (fix go (l:list nfield) (st:list (string * ty) * list (string * ty)) {struct l} :=
               match l with
               | [] => Some st
               | y :: r => match ntuple ap (path ++ [n]) y st with Some st' => go r st' | None => None end
               end) fs ([], snd acc) with
      | Some (nf, ts) => Some (aset n (tuple_field n arr) (fst acc), aset (dotted (path ++ [n])) (Ty (KTuple nf) false [] [] "") ts)
      | None => None
      end
  end.
(* what the field leaves on the listener's name stack (s.fieldname, read by ExitTable for the key): its own name -
   ExitInplace_tuple cuts the nested names off again (fixes/C02-10) *)
Definition nnames (x:nfield) : list string :=
  match x with
  | NField f => [fd_name f]
  | NTuple n _ _ => [n]
  end.
(* the types the in-place tuples of one !type / !table block add to the application *)
Definition item_ntypes (ap:list string) (tn:string) (ts:list (string * ty)) (i:titem) : option (list (string * ty)) :=
  match i with
  | TTuple n arr fs => match ntuple ap [tn] (NTuple n arr fs) ([], ts) with Some (_, ts') => Some ts' | None => None end
  | _ => Some ts
  end.

(* fields and annotations of one !type / !table block, in source order *)
Fixpoint ditems (ap:list string) (tn:string) (items:list titem) (fields:list (string * ty)) (at_:attrs) (names:list string)
  : option (list (string * ty) * attrs * list string) :=
  match items with
  | [] => Some (fields, at_, names)
  | TField f :: r => match dfield ap [tn] f with
                     | Some t => ditems ap tn r (aset (fd_name f) t fields) at_ (names ++ [fd_name f])
                     | None => None
                     end
  | TAnno a :: r => ditems ap tn r fields (add_anno at_ a) names
  | TTuple n arr fs :: r => ditems ap tn r (aset n (tuple_field n arr) fields) at_ (names ++ nnames (NTuple n arr fs))
  end.

Definition ty_attrs (t:ty) : attrs := match t with Ty _ _ _ a _ => a | TyNil => [] end.
Definition is_pk (a:attr) : bool := match a with AS s => String.eqb s "pk" | _ => false end.
(* ExitTable (since d001b2b): start from the key the relation already has and append the ~pk fields of THIS block
   that are not yet part of it (a field tagged twice, or re-declared, is listed once) *)
Definition add_pks (fields:list (string * ty)) (names:list string) (pk0:list string) : list string :=
  fold_left (fun pks n =>
     match aget n fields with
     | Some t => match aget patterns (ty_attrs t) with
                 | Some (AA elts) =>
                     fold_left (fun pks a => if is_pk a && negb (existsb (String.eqb n) pks) then pks ++ [n] else pks) elts pks
                 | _ => pks
                 end
     | None => pks
     end) names pk0.

Definition dtable (ap:list string) (a:app) (table:bool) (n:string) (es:list entry) (whatever:bool) (items:list titem) : option app :=
  let existing := aget n (a_types a) in
  let '(isrel, known, fields0, pk0, at0) :=
    match existing with
    | Some (Ty (KRel fs pk) _ _ at_ _) => (true, true, fs, pk, at_)
    | Some (Ty (KTuple fs) _ _ at_ _) => (false, true, fs, [], at_)
    | Some (Ty _ _ _ at_ _) => (false, false, [], [], at_)
    | Some TyNil => (false, false, [], [], [])
    | None => (table, true, [], [], [])
    end in
  let at1 := match es with [] => at0 | _ => tdef_merge (make_attrs es) at0 end in
  match fold_opt (item_ntypes ap n) items (a_types a), ditems ap n items fields0 at1 [] with
  | Some ts, Some (fields, at2, names) =>
      let pk := add_pks fields names pk0 in
      let k := if whatever then KUnset
               else if negb known then match existing with Some (Ty k0 _ _ _ _) => k0 | _ => KUnset end
               else if isrel then KRel fields pk else KTuple fields in
      Some (put_type (set_types a ts) n (Ty k false [] at2 ""))
  | _, _ => None
  end.

Definition denum (a:app) (n:string) (es:list entry) (annos:list anno) (items:list (string * Z)) : app :=
  let its := fold_left (fun m kv => if int64_max <? snd kv then m else aset (fst kv) (snd kv) m) items [] in
  let at_ := add_annos (opt_attrs es) annos in
  match its with [] => a | _ => put_type a n (Ty (KEnum its) false [] at_ "") end.

Definition dalias (ap:list string) (a:app) (n:string) (es:list entry) (annos:list anno) (c:coll) (t:tyexpr) (z:sizespec) : option app :=
  let '(k, cs0) := base_type ap [n] t in
  let at_ := add_annos (opt_attrs es) annos in
  match (match c with CNone => Some cs0 | _ => sized k cs0 z end) with
  | None => None
  | Some cs => Some (put_type a n (wrap_type c k cs false at_ ""))
  end.

Fixpoint dunion_members (ap:list string) (n:string) (ms:list umember) : option (list ty) :=
  match ms with
  | [] => Some []
  | m :: r =>
      let '(k, cs0) := base_type ap [n] (um_ty m) in
      match (match um_coll m with CNone => Some cs0 | _ => sized k cs0 (um_size m) end), dunion_members ap n r with
      | Some cs, Some l => Some (wrap_type (um_coll m) k cs false [] "" :: l)
      | _, _ => None
      end
  end.
Definition dunion (ap:list string) (a:app) (n:string) (es:list entry) (annos:list anno) (ms:list umember) : option app :=
  match dunion_members ap n ms with
  | None => None
  | Some l => Some (put_type a n (Ty (KOneOf l) false [] (add_annos (opt_attrs es) annos) ""))
  end.

Definition dendpoint (ap:list string) (a:app) (n:string) (long:option string) (params:list fielddecl) (es:list entry)
           (annos:list anno) (body:list xstmt) : option app :=
  let e0 := get_ep a n (new_ep n) in
  match dparams ap params with
  | None => None
  | Some ps =>
      let at1 := match es with [] => e_attrs e0 | _ => merge_attrs (make_attrs es) (e_attrs e0) end in
      let e1 := E n (match long with Some l => l | None => e_long e0 end) (e_doc e0) (add_annos at1 annos) (e_pubsub e0)
                  (e_source e0) (e_params e0 ++ ps) (e_rest e0) (run_body ap (e_stmts e0) body) in
      Some (put_ep a e1)
  end.

Definition devent (ap:list string) (a:app) (n:string) (params:list fielddecl) (es:list entry) (body:list xstmt) : option app :=
  let e0 := get_ep a n (E n "" "" [] true [] [] None []) in
  match dparams ap params with
  | None => None
  | Some ps => Some (put_ep a (ep_with e0 (match es with [] => e_attrs e0 | _ => make_attrs es end) (e_params e0 ++ ps)
                                       (run_body ap (e_stmts e0) body)))
  end.

(* ---- REST *)
Definition meth_name (m:meth) : string :=
  match m with MGet => "GET" | MPut => "PUT" | MPost => "POST" | MDelete => "DELETE" | MPatch => "PATCH"
             | MOptions => "OPTIONS" | MHead => "HEAD" | MNone => "" end.

(* path variable / query variable types: a native type or a local type name (reference context = application only) *)
Definition var_type (ap:list string) (t:tyexpr) (opt:bool) : ty :=
  match t with
  | XNative n => let '(p, cs) := prim_of n in Ty (KPrim p) opt cs [] ""
  | XLocal s => Ty (KRef (Some (Sc ap [])) (Sc [] [s])) opt [] [] ""
  | XRef a p => Ty (KRef (Some (Sc ap [])) (Sc [] (a ++ p))) opt [] [] ""
  | XNone => Ty KUnset opt [] [] ""
  end.
Definition segs_path (segs:list pathseg) : string :=
  match segs with
  | [] => "/"
  | _ => fold_left (fun s g => match g with PVar n _ => s +++ "/{" +++ n +++ "}" | PStatic x => s +++ "/" +++ x end) segs ""
  end.
Definition segs_vars (ap:list string) (segs:list pathseg) : list (string * ty) :=
  flat_map (fun g => match g with PVar n t => [(n, var_type ap t false)] | PStatic _ => [] end) segs.

(* EnterDoc_string on a REST method that has no statement yet: the lines are joined into the docstring *)
Definition doc_join (d:string) (ls:list string) : string :=
  fold_left (fun d l => let t := strip1 l in match d with "" => t | _ => d +++ " " +++ t end) ls d.
(* ... otherwise they are coalesced into one "| ..." action statement *)
Definition doc_stmts (ss:list stmt) (ls:list string) : list stmt :=
  match ls with
  | [] => ss
  | _ => ss ++ [SAction [] (fold_left (fun d l => d +++ " " +++ strip1 l) ls "|")]
  end.

Definition dmethod (ap:list string) (a:app) (path:string) (urls:list (string * ty)) (rattrs:list attrs) (md:method) : option app :=
  let name := meth_name (m_verb md) +++ " " +++ path in
  let e0 := get_ep a name (E name "" "" [] false [] [] (Some (R (m_verb md) path [] [])) []) in
  match dparams ap (m_params md) with
  | None => None
  | Some ps =>
      let at0 := fold_left (fun d p => merge_attrs p d) rattrs [(patterns, AA [AS "rest"])] in
      let at1 := match m_attribs md with [] => at0 | es => merge_attrs (make_attrs es) at0 end in
      let at2 := merge_attrs at1 (e_attrs e0) in
      let q := map (fun v => (q_name v, var_type ap (q_ty v) (q_opt v))) (m_query md) in
      let rp := match e_rest e0 with
                | Some r => Some (R (r_method r) (r_path r) (r_query r ++ q) (match urls with [] => r_url r | _ => urls end))
                | None => None
                end in
      let '(doc, ss0) := match e_rest e0, e_stmts e0 with
                         | Some _, [] => (doc_join (e_doc e0) (m_doc md), e_stmts e0)
                         | _, _ => (e_doc e0, doc_stmts (e_stmts e0) (m_doc md))
                         end in
      Some (put_ep a (E name (e_long e0) doc (add_annos at2 (m_annos md)) (e_pubsub e0) (e_source e0) (e_params e0 ++ ps) rp
                        (run_body ap ss0 (m_body md))))
  end.

Fixpoint drest (ap:list string) (prefix:string) (urls:list (string * ty)) (rattrs:list attrs) (n:restnode) (a:app) {struct n} : option app :=
  match n with
  | RNode segs es children =>
      let path := prefix +++ segs_path segs in
      let urls' := urls ++ segs_vars ap segs in
      (fix go (cs:list restchild) (own:attrs) (a:app) {struct cs} : option app :=
         match cs with
         | [] => Some a
         | RAnno an :: r => go r (add_anno own an) a
         | RSub n' :: r => match drest ap path urls' (rattrs ++ [own]) n' a with Some a' => go r own a' | None => None end
         | RMethod md :: r => match dmethod ap a path urls' (rattrs ++ [own]) md with Some a' => go r own a' | None => None end
         end) children (opt_attrs es) a
  end.

(* ---- one member of an application block; `k` is the application's key in the module *)
Definition upd (m:module) (k:string) (f:app -> option app) : option module :=
  match aget k m with
  | Some a => match f a with Some a' => Some (aset k a' m) | None => None end
  | None => None
  end.

Definition dsubscribe (ap:list string) (k:string) (m:module) (src:list string) (n:string) (es:list entry) (body:list xstmt) : option module :=
  let name := app_key src +++ " -> " +++ n in
  let sub := E name "" "" (opt_attrs es) false src [] None (run_body ap [] body) in
  match upd m k (fun a => Some (put_ep a sub)) with
  | None => None
  | Some m1 =>
      let sk := app_key src in
      let sa := match aget sk m1 with Some a => a | None => new_app src end in
      let ev0 := get_ep sa n (E n "" "" [] true [] [] None []) in
      Some (aset sk (put_ep sa (ep_with ev0 (e_attrs ev0) (e_params ev0) (e_stmts ev0 ++ [SCall [] ap name None]))) m1)
  end.

(* ---- `.. * <- *:` (EnterCollector, EnterCollector_call_stmt / _action_stmt / _http_stmt,
   ExitCollector_stmts, ExitCollector): the block is an endpoint of that name; a block with entries REPLACES the
   statements the endpoint had; every entry is one statement carrying makeAttributeArray of its [ ... ] *)
Definition collector_name : string := ".. * <- *".
Definition centry_stmt (c:centry) : stmt :=
  match c with
  | CCall tg ep es => SCall (make_attrs es) tg ep None
  | CAction n es => SAction (make_attrs es) n
  | CHttp v p es => SAction (make_attrs es) (meth_name v +++ " " +++ p)
  end.
Definition dcollector (a:app) (entries:list centry) : app :=
  let e0 := get_ep a collector_name (E collector_name "" "" [] false [] [] None []) in
  match entries with
  | [] => put_ep a e0                                                    (* `.. * <- *: ...` *)
  | _ => put_ep a (ep_with e0 (e_attrs e0) (e_params e0) (map centry_stmt entries))
  end.

Definition dmember (ap:list string) (k:string) (m:module) (mem:member) : option module :=
  match mem with
  | MAnno an => upd m k (fun a => Some (set_aattrs a (add_anno (a_attrs a) an)))
  | MType table n es whatever items => upd m k (fun a => dtable ap a table n es whatever items)
  | MEnum n es annos items => upd m k (fun a => Some (denum a n es annos items))
  | MAlias n es annos c t z => upd m k (fun a => dalias ap a n es annos c t z)
  | MUnion n es annos ms => upd m k (fun a => dunion ap a n es annos ms)
  | MEndpoint n long params es annos body => upd m k (fun a => dendpoint ap a n long params es annos body)
  | MRest node => upd m k (fun a => drest ap "" [] [] node a)
  | MMixin x => upd m k (fun a => Some (set_mixins a (a_mixins a ++ [x])))
  | MEvent n params es body => upd m k (fun a => devent ap a n params es body)
  | MSubscribe src n es body => dsubscribe ap k m src n es body
  | MCollector entries => upd m k (fun a => Some (dcollector a entries))
  end.

Fixpoint dmembers (ap:list string) (k:string) (m:module) (ms:list member) : option module :=
  match ms with
  | [] => Some m
  | x :: r => match dmember ap k m x with Some m' => dmembers ap k m' r | None => None end
  end.

(* EnterName_with_attribs + ExitName_with_attribs + the application's members *)
Definition dblock (m:module) (b:block) : option module :=
  let k := app_key (b_app b) in
  let a0 := match aget k m with Some a => a | None => new_app [] end in
  let a1 := A (b_app b) (match b_long b with Some l => l | None => a_long a0 end)
              (match b_attribs b with [] => a_attrs a0 | es => merge_attrs (make_attrs es) (a_attrs a0) end)
              (a_types a0) (a_eps a0) (a_mixins a0) in
  dmembers (b_app b) k (aset k a1 m) (b_members b).

Fixpoint dblocks (m:module) (bs:list block) : option module :=
  match bs with
  | [] => Some m
  | b :: r => match dblock m b with Some m' => dblocks m' r | None => None end
  end.

(* the listener over all files in flatten order, into one shared module *)
Definition listen (s:spec) : option module := dblocks [] (concat s).

(* ------------------------------------------------------------------ postProcess *)
Definition has_type (m:module) (k t:string) : bool :=
  match aget k m with Some a => match aget t (a_types a) with Some _ => true | None => false end | None => false end.

(* fixTypeRefScope *)
Definition fix_ref (m:module) (cur:string) (r:scope) : scope :=
  match sc_app r, sc_path r with
  | [an], tn :: _ =>
      if String.eqb cur an then r
      else if has_type m an tn then r
      else if has_type m cur an then Sc [] (an :: sc_path r)
      else r
  | _, _ => r
  end.
Definition fix_top (m:module) (cur:string) (t:ty) : ty :=
  match t with
  | Ty (KRef c r) o cs a d =>
      match sc_path r with
      | "string_8" :: _ => t
      | _ => Ty (KRef c (fix_ref m cur r)) o cs a d
      end
  | _ => t
  end.
Definition fix_param (m:module) (cur:string) (t:ty) : ty :=
  match t with Ty (KRef c r) o cs a d => Ty (KRef c (fix_ref m cur r)) o cs a d | _ => t end.
Definition mapv {V} (f:V -> V) (l:list (string * V)) : list (string * V) := map (fun kv => (fst kv, f (snd kv))) l.

Definition fix_type (m:module) (cur:string) (t:ty) : ty :=
  match t with
  | Ty (KTuple fs) o cs a d => Ty (KTuple (mapv (fix_top m cur) fs)) o cs a d
  | Ty (KRel fs pk) o cs a d => Ty (KRel (mapv (fix_top m cur) fs) pk) o cs a d
  | _ => t
  end.

(* ---- collectorPubSubCalls / applyAttributes (parse.go) *)
Fixpoint parts_eqb (a b:list string) : bool :=
  match a, b with
  | [], [] => true
  | x :: a', y :: b' => String.eqb x y && parts_eqb a' b'
  | _, _ => false
  end.
(* syslutil.IsSameCall *)
Definition same_call (tg:list string) (ep:string) (tg':list string) (ep':string) : bool := parts_eqb tg tg' && String.eqb ep ep'.

(* applyAttributes(src, dst): the attributes of the collector statement are merged into EVERY call statement of the
   same target and endpoint below dst - through if/else, loops, for each, groups and every choice of a one-of, at
   any depth; the boolean says whether any was found (`applied = applyAttributes(src, stmt) || applied`: the
   recursive call is always made). A statement of any other kind makes the Go code panic (None). *)
Fixpoint apply_attrs (cat:attrs) (tg:list string) (ep:string) (s:stmt) {struct s} : option (stmt * bool) :=
  let go := fix go (l:list stmt) (acc:bool) {struct l} : option (list stmt * bool) :=
    match l with
    | [] => Some ([], acc)
    | x :: r =>
        match apply_attrs cat tg ep x with
        | None => None
        | Some (x', b) => match go r (b || acc) with Some (r', b') => Some (x' :: r', b') | None => None end
        end
    end in
  match s with
  | SCond a t body => match go body false with Some (body', b) => Some (SCond a t body', b) | None => None end
  | SGroup a t body => match go body false with Some (body', b) => Some (SGroup a t body', b) | None => None end
  | SLoop a m t body => match go body false with Some (body', b) => Some (SLoop a m t body', b) | None => None end
  | SForeach a t body => match go body false with Some (body', b) => Some (SForeach a t body', b) | None => None end
  | SAlt a choices =>
      match (fix goc (cs:list (string * list stmt)) (acc:bool) {struct cs} : option (list (string * list stmt) * bool) :=
               match cs with
               | [] => Some ([], acc)
               | c :: r =>
                   match go (snd c) acc with
                   | None => None
                   | Some (body', acc1) => match goc r acc1 with Some (r', b') => Some ((fst c, body') :: r', b') | None => None end
                   end
               end) choices false with
      | Some (choices', b) => Some (SAlt a choices', b)
      | None => None
      end
  | SCall a tg' ep' args =>
      if same_call tg ep tg' ep' then Some (SCall (merge_attrs cat a) tg' ep' args, true) else Some (s, false)
  | SAction _ _ | SRet _ _ => Some (s, false)
  | SBad => None
  end.
(* `for _, stmt := range stmts { applied = applyAttributes(src, stmt) || applied }` *)
Fixpoint apply_list (cat:attrs) (tg:list string) (ep:string) (l:list stmt) (acc:bool) : option (list stmt * bool) :=
  match l with
  | [] => Some ([], acc)
  | x :: r =>
      match apply_attrs cat tg ep x with
      | None => None
      | Some (x', b) => match apply_list cat tg ep r (b || acc) with Some (r', b') => Some (x' :: r', b') | None => None end
      end
  end.

Definition set_stmts (e:endpoint) (ss:list stmt) : endpoint :=
  E (e_name e) (e_long e) (e_doc e) (e_attrs e) (e_pubsub e) (e_source e) (e_params e) (e_rest e) ss.
Definition set_eattrs (e:endpoint) (x:attrs) : endpoint :=
  E (e_name e) (e_long e) (e_doc e) x (e_pubsub e) (e_source e) (e_params e) (e_rest e) (e_stmts e).

(* the endpoints of the application other than the collector itself (Go ranges over the map: the order is
   irrelevant, every endpoint is visited once and they do not share statements) *)
Fixpoint collect_eps (cat:attrs) (tg:list string) (ep:string) (eps:list (string * endpoint)) (acc:bool)
  : option (list (string * endpoint) * bool) :=
  match eps with
  | [] => Some ([], acc)
  | (n, e) :: r =>
      if String.eqb n collector_name then
        match collect_eps cat tg ep r acc with Some (r', b) => Some ((n, e) :: r', b) | None => None end
      else
        match apply_list cat tg ep (e_stmts e) acc with
        | None => None
        | Some (ss, acc1) =>
            match collect_eps cat tg ep r acc1 with Some (r', b) => Some ((n, set_stmts e ss) :: r', b) | None => None end
        end
  end.

(* one statement of the collector endpoint; the boolean is false when Go logs an error (endpoint not found /
   unused template) and goes on *)
Definition collect_entry (a:app) (cs:stmt) : option (app * bool) :=
  match cs with
  | SAction cat text =>
      match aget text (a_eps a) with
      | None => Some (a, false)
      | Some e => Some (set_eps a (aset text (set_eattrs e (merge_attrs cat (e_attrs e))) (a_eps a)), true)
      end
  | SCall cat tg ep _ =>
      match collect_eps cat tg ep (a_eps a) false with
      | Some (eps, b) => Some (set_eps a eps, b)
      | None => None
      end
  | _ => None                                                            (* panic("unhandled type:") *)
  end.
Fixpoint collect_entries (a:app) (css:list stmt) : option (app * list bool) :=
  match css with
  | [] => Some (a, [])
  | cs :: r =>
      match collect_entry a cs with
      | None => None
      | Some (a1, b) => match collect_entries a1 r with Some (a2, bs) => Some (a2, b :: bs) | None => None end
      end
  end.
Definition collect_app (a:app) : option (app * list bool) :=
  match aget collector_name (a_eps a) with
  | None => Some (a, [])
  | Some ce => collect_entries a (e_stmts ce)
  end.

(* one application of the sorted loop of postProcess *)
Definition post_app (m:module) (k:string) : option module :=
  match aget k m with
  | None => Some m
  | Some a =>
      (* fixParamTypeRef *)
      let eps := mapv (fun e => E (e_name e) (e_long e) (e_doc e) (e_attrs e) (e_pubsub e) (e_source e)
                                  (mapv (fix_param m k) (e_params e)) (e_rest e) (e_stmts e)) (a_eps a) in
      (* mixins: types of the mixed-in application that this one does not define *)
      let types := fold_left (fun ts mx =>
                     match aget (app_key mx) m with
                     | None => ts
                     | Some src => fold_left (fun ts kv => match aget (fst kv) ts with Some _ => ts | None => ts ++ [kv] end) (a_types src) ts
                     end) (a_mixins a) (a_types a) in
      let m1 := aset k (set_types (set_eps a eps) types) m in
      (* field references of tuples / relations *)
      let m2 := match aget k m1 with
                | Some a1 => aset k (set_types a1 (mapv (fix_type m1 k) (a_types a1))) m1
                | None => m1
                end in
      (* collectorPubSubCalls *)
      match aget k m2 with
      | Some a2 => match collect_app a2 with Some (a3, _) => Some (aset k a3 m2) | None => None end
      | None => Some m2
      end
  end.

(* sort.Strings: bytewise lexicographic *)
Fixpoint insert_sorted (x:string) (l:list string) : list string :=
  match l with
  | [] => [x]
  | y :: r => if String.leb x y then x :: l else y :: insert_sorted x r
  end.
Definition sort_strings (l:list string) : list string := fold_right insert_sorted [] l.

Definition post (m:module) : option module := fold_opt post_app (sort_strings (keys m)) m.

Definition denote (s:spec) : option module :=
  match listen s with Some m => post m | None => None end.
