(* Front/RunDoc.v - correspondence glue for the listener's multi-line constructs (C03): one case = what the
   real parse tree held (events of one endpoint body / TEXT tokens of one `@x =:` block) and what the real
   listener left in the compiled module (Docstring, statement tree with start lines, attribute string). *)
From Coq Require Import Ascii String List NArith Bool.
Import ListNotations.
Require Import Verif.Front.DocStr Verif.Base.Harness.
Local Open Scope N_scope.

Inductive doc_case :=
| DBody (rest:bool) (evs:list ev) (doc:string) (ss:list stmt) (an:option (list string))
| DAnno (texts:list string) (v:string).

Definition doc_ok (c:doc_case) : bool :=
  match c with
  | DBody rest evs d ss an =>
      match body rest evs with
      | BOut d' ss' an' =>
          String.eqb d d' && list_eqb stmt_eqb ss ss' &&
          match an with None => true | Some l => list_eqb String.eqb l an' end
      | _ => false
      end
  | DAnno texts v => String.eqb (anno_of_texts texts) v
  end.
