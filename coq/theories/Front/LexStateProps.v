(* Front/LexStateProps.v - proofs about the full lexer state (Front/LexState.v), for ALL tables, states and token
   streams (no bounds):

     frun_base                 the base component of the full model is Front/Indent.run: every theorem of
                               IndentProps / LinesProps holds for it
     no_op_reads_linenum       the line counter feeds no predicate and no action
     finserted_same_predicates blank-line / comment tokens at any set of line boundaries: every other token - visible or
                               hidden - is matched under the same predicate values, triggers the same mode switches,
                               and the parser reads the same default-channel tokens
     scale_same_predicates     re-indentation by k > 0: the same, PROVIDED no measured width is 1 (`spaces > 1`)
     eol_swap_same_state       a line end spelt with another line-end token whose actions treat the ext part alike
                               (trailing blanks, a comment after the statement): same state afterwards *)
From Coq Require Import List NArith ZArith Bool Lia.
Import ListNotations.
Require Import Verif.Front.Indent Verif.Front.IndentProps Verif.Front.Lines Verif.Front.LinesProps Verif.Front.LexState.
Local Open Scope N_scope.

(* ---------- the base component ---------- *)

Lemma fstep_base F s r : res_map (fun p => (base (fst (fst p)), snd (fst p))) (fstep F s r) = step (f_base F) (base s) r.
Proof.
  unfold fstep. destruct (step (f_base F) (base s) r) as [[b o]| |]; [|reflexivity|reflexivity].
  destruct (ext_ops (ex s) (ops_of F (ty r))) as [e m]. reflexivity.
Qed.

Theorem frun_base F rs : forall s,
  res_map (fun p => (base (fst (fst p)), snd (fst p))) (frun F s rs) = run (f_base F) (base s) rs.
Proof.
  induction rs as [|r rs IH]; intros s; cbn [frun run]; [reflexivity|].
  pose proof (fstep_base F s r) as Hs. destruct (fstep F s r) as [[[s1 o] m]| |]; cbn [res_map fst snd] in Hs;
    rewrite <- Hs; [|reflexivity|reflexivity].
  specialize (IH s1). destruct (frun F s1 rs) as [[[s2 o'] t']| |]; cbn [res_map fst snd] in IH; rewrite <- IH; reflexivity.
Qed.

Corollary fouts_base F s rs : fouts F s rs = res_map snd (run (f_base F) (base s) rs).
Proof.
  unfold fouts. rewrite <- frun_base. destruct (frun F s rs) as [[[s2 o] t]| |]; reflexivity.
Qed.

Theorem frun_total F rs s : exists s2 o t, frun F s rs = Done (s2, o, t).
Proof.
  revert s. induction rs as [|r rs IH]; intros s; cbn [frun]; [eauto|].
  unfold fstep. destruct (step_total (f_base F) (base s) r) as (b & o & ->).
  destruct (ext_ops (ex s) (ops_of F (ty r))) as [e m].
  destruct (IH {| base := b; ex := e |}) as (s2 & o' & t' & ->). eauto.
Qed.

(* ---------- the line counter ---------- *)

Definition nl3 (p:fstate * list out * list meff) := (fs_noline (fst (fst p)), snd (fst p), snd p).

Lemma nl3_inj p p' : nl3 p' = nl3 p ->
  fs_noline (fst (fst p')) = fs_noline (fst (fst p)) /\ snd (fst p') = snd (fst p) /\ snd p' = snd p.
Proof.
  intros H. split; [exact (f_equal (fun q => fst (fst q)) H)|].
  split; [exact (f_equal (fun q => snd (fst q)) H)|exact (f_equal snd H)].
Qed.

Lemma ext_op_nl e e' o : ext_noline e' = ext_noline e ->
  ext_noline (fst (ext_op e' o)) = ext_noline (fst (ext_op e o)) /\ snd (ext_op e' o) = snd (ext_op e o).
Proof.
  intros H. unfold ext_noline in H. injection H as H1 H2 H3 H4 H5 H6.
  destruct o as [| | |b| |b| | | | | | | | | | |]; cbn [ext_op fst snd]; unfold ext_noline; cbn [linenum sq parens block http view nomore];
    try (split; [congruence|reflexivity]).
  - rewrite H5. split; [congruence|reflexivity].
  - rewrite H2. destruct (Z.eqb (parens e) 0); cbn [fst snd linenum sq parens block http view nomore]; (split; [congruence|reflexivity]).
Qed.

Lemma ext_ops_nl l : forall e e', ext_noline e' = ext_noline e ->
  ext_noline (fst (ext_ops e' l)) = ext_noline (fst (ext_ops e l)) /\ snd (ext_ops e' l) = snd (ext_ops e l).
Proof.
  induction l as [|o l IH]; intros e e' H; cbn [ext_ops]; [split; [exact H|reflexivity]|].
  destruct (ext_op_nl e e' o H) as [H1 H2]. destruct (ext_op e o) as [e1 m1], (ext_op e' o) as [e1' m1']. cbn [fst snd] in *.
  destruct (IH e1 e1' H1) as [H3 H4]. destruct (ext_ops e1 l) as [e2 m2], (ext_ops e1' l) as [e2' m2']. cbn [fst snd] in *.
  split; [exact H3|congruence].
Qed.

Lemma noline_base s s' : fs_noline s' = fs_noline s -> base s' = base s.
Proof. intros H. apply (f_equal base) in H. exact H. Qed.
Lemma noline_ext s s' : fs_noline s' = fs_noline s -> ext_noline (ex s') = ext_noline (ex s).
Proof. intros H. apply (f_equal ex) in H. exact H. Qed.

Lemma pv_nl s s' : fs_noline s' = fs_noline s -> pv s' = pv s.
Proof.
  intros H. pose proof (noline_base _ _ H) as Hb. pose proof (noline_ext _ _ H) as He.
  unfold ext_noline in He. injection He as H1 H2 H3 H4 H5 H6. unfold pv. rewrite Hb. congruence.
Qed.

(* no action and no predicate reads linenum: two states that differ in it only take the same step *)
Theorem no_op_reads_linenum F s s' r : fs_noline s' = fs_noline s ->
  res_map nl3 (fstep F s' r) = res_map nl3 (fstep F s r).
Proof.
  intros H. unfold fstep. rewrite (noline_base _ _ H).
  destruct (step (f_base F) (base s) r) as [[b o]| |]; [|reflexivity|reflexivity].
  pose proof (noline_ext _ _ H) as He.
  destruct (ext_ops_nl (ops_of F (ty r)) _ _ He) as [H1 H2].
  destruct (ext_ops (ex s) _) as [e m], (ext_ops (ex s') _) as [e' m']. cbn [fst snd] in *.
  cbn [res_map]. unfold nl3, fs_noline. cbn [fst snd base ex]. rewrite H1, H2. reflexivity.
Qed.

(* ---------- blank lines and whole-line comments ---------- *)

Lemma layout_ops_ext v bz l : forallb (layout_op v bz) l = true -> forall e, view e = v -> N.eqb (block e) 0 = bz ->
  ext_noline (fst (ext_ops e l)) = ext_noline {| linenum := linenum e; sq := sq e; parens := parens e; block := block e; http := if existsb (fun o => match o with OpHttp _ => true | _ => false end) l then false else http e; view := view e; nomore := nomore e |} /\ snd (ext_ops e l) = [].
Proof.
  induction l as [|o l IH]; intros H e Hv Hz; cbn [forallb] in H.
  - cbn. destruct e; split; reflexivity.
  - apply andb_true_iff in H. destruct H as [Ho Hl]. cbn [ext_ops existsb].
    destruct o as [| | |[|]| |b| | | | | | | | | | |]; try discriminate; cbn [layout_op] in Ho; cbn [ext_op].
    + destruct (IH Hl e Hv Hz) as [IH1 IH2]. destruct (ext_ops e l) as [e2 m2]. cbn [fst snd] in *. subst m2. split; [exact IH1|reflexivity].
    + destruct (IH Hl e Hv Hz) as [IH1 IH2]. destruct (ext_ops e l) as [e2 m2]. cbn [fst snd] in *. subst m2. split; [exact IH1|reflexivity].
    + match goal with |- context [ext_ops ?e1 l] => destruct (IH Hl e1 Hv Hz) as [IH1 IH2]; destruct (ext_ops e1 l) as [e2 m2] end.
      cbn [fst snd] in *. subst m2. split; [|reflexivity]. rewrite IH1. cbn [linenum sq parens block http view nomore orb].
      destruct (existsb _ l); reflexivity.
    + match goal with |- context [ext_ops ?e1 l] => destruct (IH Hl e1 Hv Hz) as [IH1 IH2]; destruct (ext_ops e1 l) as [e2 m2] end.
      cbn [fst snd] in *. subst m2. split; [|reflexivity]. rewrite IH1. reflexivity.
    + assert (Eb : N.pred (block e) = block e).
      { rewrite <- Hz in Ho. apply N.eqb_eq in Ho. rewrite Ho. reflexivity. }
      match goal with |- context [ext_ops ?e1 l] => destruct (IH Hl e1 Hv) as [IH1 IH2]; [cbn [block]; rewrite Eb; exact Hz|]; destruct (ext_ops e1 l) as [e2 m2] end.
      cbn [fst snd] in *. subst m2. split; [|reflexivity]. rewrite IH1. cbn [linenum sq parens block http view nomore]. rewrite Eb. reflexivity.
    + assert (Hve : view e = false) by (apply negb_true_iff in Ho; congruence).
      replace (if view e then [MPushView] else []) with (@nil meff) by (rewrite Hve; reflexivity).
      destruct (IH Hl e Hv Hz) as [IH1 IH2]. destruct (ext_ops e l) as [e2 m2]. cbn [fst snd app] in *. subst m2. split; [exact IH1|reflexivity].
Qed.

(* at the start of a line a blank-line / comment token changes the line counter and nothing else *)
Lemma flayout_noop F s b : at_fboundary s = true -> is_flayout F s b = true ->
  exists s1, fstep F s b = Done (s1, [Tok b], []) /\ fs_noline s1 = fs_noline s.
Proof.
  unfold at_fboundary, is_flayout. intros Hb Hl. apply andb_true_iff in Hb, Hl. destruct Hb as [Hb Hh], Hl as [Hl Ho].
  unfold fstep. rewrite (step_layout_noop _ _ _ Hb Hl).
  destruct (layout_ops_ext _ _ _ Ho (ex s) eq_refl eq_refl) as [He Hm]. destruct (ext_ops (ex s) (ops_of F (ty b))) as [e m]. cbn [fst snd] in *. subst m.
  eexists. split; [reflexivity|]. unfold fs_noline. cbn [base ex]. f_equal. rewrite He.
  apply negb_true_iff in Hh. rewrite Hh. destruct (existsb _ _); destruct (ex s); cbn in *; subst; reflexivity.
Qed.

Lemma strip_cons_layout F e t : is_layout (f_base F) (t_tok e) = true -> strip F (e :: t) = strip F t.
Proof. intros H. unfold strip. cbn [filter]. rewrite H. reflexivity. Qed.

Lemma fnext_noline F s s' r : fs_noline s' = fs_noline s -> fs_noline (fnext F s' r) = fs_noline (fnext F s r).
Proof.
  intros H. unfold fnext. pose proof (no_op_reads_linenum F s s' r H) as H2.
  destruct (fstep F s r) as [[[a o] m]| |], (fstep F s' r) as [[[a' o'] m']| |]; cbn [res_map] in H2; try discriminate; try exact H.
  assert (H3 : nl3 (a', o', m') = nl3 (a, o, m)) by congruence. apply nl3_inj in H3. apply H3.
Qed.

Lemma finserted_frun F s rs rs' : finserted F s rs rs' -> forall s', fs_noline s' = fs_noline s ->
  forall s2 o t, frun F s rs = Done (s2, o, t) ->
  exists s2' o' t', frun F s' rs' = Done (s2', o', t') /\ fs_noline s2' = fs_noline s2 /\
                    filter out_vis o' = filter out_vis o /\ strip F t' = strip F t.
Proof.
  induction 1 as [s|s r rs rs' _ IH|s b rs rs' Hb Hl _ IH]; intros s' Hs s2 o t Hr.
  - cbn [frun] in *. injection Hr as <- <- <-. exists s', [], []. repeat split; [exact Hs].
  - cbn [frun] in *. unfold fnext in IH.
    pose proof (no_op_reads_linenum F s s' r Hs) as H2.
    destruct (fstep F s r) as [[[s1 o1] m1]| |]; try discriminate.
    destruct (fstep F s' r) as [[[s1' o1'] m1']| |]; cbn [res_map] in H2; try discriminate.
    assert (H3 : nl3 (s1', o1', m1') = nl3 (s1, o1, m1)) by congruence. apply nl3_inj in H3. cbn [fst snd] in H3.
    destruct H3 as (E1 & E2 & E3). subst o1' m1'.
    destruct (frun F s1 rs) as [[[s3 o3] t3]| |] eqn:Er; try discriminate. injection Hr as <- <- <-.
    destruct (IH s1' E1 _ _ _ eq_refl) as (s2' & o' & t' & Hr' & Hs2 & Ho & Ht). rewrite Hr'.
    exists s2', (o1 ++ o'), ({| t_tok := r; t_pv := pv s'; t_m := m1 |} :: t'). repeat split; [exact Hs2| |].
    + rewrite !filter_app, Ho. reflexivity.
    + rewrite (pv_nl _ _ Hs). unfold strip in *. cbn [filter t_tok]. rewrite Ht. reflexivity.
  - assert (Hb' : at_fboundary s' = true).
    { unfold at_fboundary in *. rewrite (noline_base _ _ Hs).
      assert (http (ex s') = http (ex s)) as -> by (pose proof (noline_ext _ _ Hs) as E; unfold ext_noline in E; congruence). exact Hb. }
    assert (Hl' : is_flayout F s' b = true).
    { unfold is_flayout in *. pose proof (noline_ext _ _ Hs) as E. unfold ext_noline in E.
      assert (view (ex s') = view (ex s)) as -> by congruence. assert (block (ex s') = block (ex s)) as -> by congruence. exact Hl. }
    destruct (flayout_noop F s' b Hb' Hl') as (s1 & Es & Hn).
    destruct (IH s1 (eq_trans Hn Hs) _ _ _ Hr) as (s2' & o' & t' & Hr' & Hs2 & Ho & Ht).
    cbn [frun]. rewrite Es, Hr'. exists s2', ([Tok b] ++ o'), ({| t_tok := b; t_pv := pv s'; t_m := [] |} :: t').
    repeat split; [exact Hs2| |].
    + cbn [app filter]. unfold is_flayout in Hl. apply andb_true_iff in Hl. destruct Hl as [Hl _]. rewrite (layout_hidden _ _ Hl). exact Ho.
    + rewrite strip_cons_layout; [exact Ht|]. unfold is_flayout in Hl. apply andb_true_iff in Hl. apply Hl.
Qed.

(* blank lines and whole-line comments at any set of line boundaries: every other token (hidden ones included) is
   matched under the same predicate values and makes the same mode switches; the default channel is unchanged *)
Theorem finserted_same_predicates F rs rs' : finserted F (finit F) rs rs' ->
  res_map (strip F) (ftrace F (finit F) rs') = res_map (strip F) (ftrace F (finit F) rs) /\
  res_map (filter out_vis) (fouts F (finit F) rs') = res_map (filter out_vis) (fouts F (finit F) rs).
Proof.
  intros H. destruct (frun_total F rs (finit F)) as (s2 & o & t & Hr).
  destruct (finserted_frun F _ _ _ H (finit F) eq_refl _ _ _ Hr) as (s2' & o' & t' & Hr' & _ & Ho & Ht).
  unfold ftrace, fouts. rewrite Hr, Hr'. cbn [res_map fst snd]. rewrite Ho, Ht. split; reflexivity.
Qed.

(* after ANY token that ends a line in every respect the lexer is at a full boundary *)
Definition is_feol (F:ftables) (r:raw) : bool :=
  is_eol (f_base F) r && existsb (fun o => match o with OpHttp false => true | _ => false end) (ops_of F (ty r)) &&
  forallb (fun o => match o with OpHttp true => false | _ => true end) (ops_of F (ty r)).

Lemma ext_ops_http l : forallb (fun o => match o with OpHttp true => false | _ => true end) l = true ->
  forall e, http (fst (ext_ops e l)) = if existsb (fun o => match o with OpHttp false => true | _ => false end) l then false else http e.
Proof.
  induction l as [|o l IH]; intros H e; cbn [forallb] in H; [reflexivity|].
  apply andb_true_iff in H. destruct H as [Ho Hl]. cbn [ext_ops existsb].
  destruct o as [| | |[|]| |b| | | | | | | | | | |]; try discriminate; cbn [ext_op orb];
    try (match goal with |- context [ext_ops ?e1 l] => specialize (IH Hl e1); destruct (ext_ops e1 l) as [e2 m2] end; cbn [fst] in *; exact IH).
  - match goal with |- context [ext_ops ?e1 l] => specialize (IH Hl e1); destruct (ext_ops e1 l) as [e2 m2] end.
    cbn [fst http] in *. rewrite IH. destruct (existsb _ l); reflexivity.
  - destruct (Z.eqb (parens e) 0); match goal with |- context [ext_ops ?e1 l] => specialize (IH Hl e1); destruct (ext_ops e1 l) as [e2 m2] end; cbn [fst http] in *; exact IH.
Qed.

Theorem fboundary_after_eol F s r : is_feol F r = true -> at_fboundary (fnext F s r) = true.
Proof.
  unfold is_feol. intros H. apply andb_true_iff in H. destruct H as [H H3]. apply andb_true_iff in H. destruct H as [H1 H2].
  unfold fnext, fstep. rewrite (step_eol _ (base s) _ H1).
  pose proof (ext_ops_http _ H3 (ex s)) as Hh. destruct (ext_ops (ex s) (ops_of F (ty r))) as [e m]. cbn [fst] in Hh.
  unfold at_fboundary. cbn [base ex]. rewrite Hh, H2. reflexivity.
Qed.

(* ---------- re-indentation ---------- *)

Lemma step_spaces T s r s1 o : step T s r = Done (s1, o) -> spaces s1 = spaces s \/ spaces s1 = 0 \/ spaces s1 = width r.
Proof.
  unfold step.
  assert (He : spaces (effect T s r) = spaces s \/ spaces (effect T s r) = 0 \/ spaces (effect T s r) = width r).
  { unfold effect. destruct (lookup (ty r) (t_actions T)) as [a|]; [|auto]. cbn [spaces]. destruct (a_sp a); auto. }
  set (s0 := effect T s r) in *.
  destruct (nl s0 && mem (ty r) (t_bypass T)); [intros [= <- _]; exact He|].
  destruct (negb (nl s0) && hidden r); [intros [= <- _]; cbn; auto|].
  destruct (N.eqb (ty r) (t_comment T)); [intros [= <- _]; cbn; auto|].
  assert (He2 : spaces (if eof r then set_spaces s0 0 else s0) = spaces s \/ spaces (if eof r then set_spaces s0 0 else s0) = 0 \/
                spaces (if eof r then set_spaces s0 0 else s0) = width r) by (destruct (eof r); cbn; auto).
  set (s2 := if eof r then set_spaces s0 0 else s0) in *.
  destruct (negb (eof r) && negb (nl s2)); [intros [= <- _]; exact He2|].
  destruct (loop _ _ _) as [[lvl o']| |]; try discriminate. intros [= <- _]. cbn [spaces]. exact He2.
Qed.

Lemma gt1_scale k sp : 0 < k -> sp <> 1 -> N.ltb 1 (k * sp) = N.ltb 1 sp.
Proof.
  intros Hk Hs. destruct (N.ltb_spec 1 sp), (N.ltb_spec 1 (k * sp)); try reflexivity; nia.
Qed.

Definition sc_fs (k:N) (s:fstate) : fstate := {| base := scale_st k (base s); ex := ex s |}.

Lemma scale_width_ne1 k r : 0 < k -> width r <> 1 -> width (scale_raw k r) <> 1 \/ k = 1.
Proof. intros Hk Hw. cbn. destruct (N.eq_dec k 1); [right; assumption|left; nia]. Qed.

(* line-leading whitespace multiplied by k > 0, no measured width equal to 1: same predicate values, same mode
   switches, same tokens (widths apart) all along *)
Lemma frun_scale_lead F k : 0 < k -> forall rs s s2 o t,
  spaces (base s) <> 1 -> Forall (fun r => width r <> 1) rs ->
  frun F s rs = Done (s2, o, t) ->
  exists o' t', frun F (sc_fs k s) (scale_lead (f_base F) k (base s) rs) = Done (sc_fs k s2, o', t') /\
                map erase_w o' = map erase_w o /\ map tr_noscale t' = map tr_noscale t.
Proof.
  intros Hk. induction rs as [|r rs IH]; intros s s2 o t Hsp Hw Hr; cbn [frun scale_lead] in *.
  - injection Hr as <- <- <-. exists [], []. repeat split.
  - inversion Hw as [|? ? Hw1 Hw2]; subst.
    unfold fstep in *. cbn [base sc_fs ex]. unfold next_state.
    destruct (step (f_base F) (base s) r) as [[b o1]| |] eqn:Es; try discriminate.
    destruct (ext_ops (ex s) (ops_of F (ty r))) as [e m] eqn:Ee.
    destruct (frun F {| base := b; ex := e |} rs) as [[[s3 o3] t3]| |] eqn:Er; try discriminate. injection Hr as <- <- <-.
    assert (Hb : spaces b <> 1).
    { destruct (step_spaces _ _ _ _ _ Es) as [->| [->| ->]]; [exact Hsp|discriminate|exact Hw1]. }
    destruct (IH {| base := b; ex := e |} _ _ _ Hb Hw2 Er) as (o3' & t3' & Hr' & Ho & Ht). cbn [base] in Hr'.
    assert (Hpv : pv (sc_fs k s) = pv s).
    { unfold pv, sc_fs. cbn [base ex scale_st spaces nl]. rewrite (gt1_scale k _ Hk Hsp). reflexivity. }
    destruct (unmeasured (f_base F) (base s) r) eqn:Eu.
    + pose proof (step_unmeasured _ _ _ Eu) as E1. rewrite Es in E1. injection E1 as -> ->.
      rewrite step_unmeasured by (rewrite unmeasured_scale_st; exact Eu).
      rewrite effect_zero_scale, Ee. unfold sc_fs in Hr'. cbn [base ex] in Hr'. rewrite Hr'.
      eexists _, _. split; [reflexivity|]. split; [cbn [map app]; rewrite Ho; reflexivity|].
      cbn [map]. rewrite Ht, Hpv. reflexivity.
    + rewrite step_scale by exact Hk. rewrite Es. cbn [res_map]. unfold scale_step_res at 1. cbn [fst snd ty scale_raw].
      rewrite Ee. unfold sc_fs in Hr'. cbn [base ex] in Hr'. rewrite Hr'.
      eexists _, _. split; [reflexivity|]. split.
      * rewrite !map_app, Ho, map_map. f_equal. apply map_ext. intros x. apply erase_scale.
      * cbn [map]. rewrite Ht, Hpv. reflexivity.
Qed.

Theorem scale_same_predicates F k rs : 0 < k -> Forall (fun r => width r <> 1) rs ->
  res_map (map tr_noscale) (ftrace F (finit F) (scale_lead (f_base F) k (init (f_base F)) rs)) =
  res_map (map tr_noscale) (ftrace F (finit F) rs).
Proof.
  intros Hk Hw. destruct (frun_total F rs (finit F)) as (s2 & o & t & Hr).
  assert (Hs : spaces (base (finit F)) <> 1) by (cbn; discriminate).
  destruct (frun_scale_lead F k Hk rs _ _ _ _ Hs Hw Hr) as (o' & t' & Hr' & _ & Ht).
  assert (Hi : sc_fs k (finit F) = finit F).
  { unfold sc_fs, finit. cbn [base ex]. rewrite init_scale. reflexivity. }
  rewrite Hi in Hr'. unfold ftrace. cbn [base finit] in Hr'. rewrite Hr, Hr'. cbn [res_map snd]. rewrite Ht. reflexivity.
Qed.

(* ---------- a line end spelt with another line-end token ---------- *)

Lemma ext_ops_relevant l : forall e, ext_ops e l = ext_ops e (filter ext_relevant l).
Proof.
  induction l as [|o l IH]; intros e; [reflexivity|]. cbn [filter].
  destruct (ext_relevant o) eqn:Eo.
  - cbn [ext_ops]. destruct (ext_op e o) as [e1 m1]. rewrite IH. reflexivity.
  - cbn [ext_ops]. assert (ext_op e o = (e, [])) as -> by (destruct o; try discriminate; reflexivity).
    rewrite IH. destruct (ext_ops e (filter ext_relevant l)); reflexivity.
Qed.

(* trailing blanks / a comment after the last token of a line make the generated lexer end the line with another
   token (EMPTY_LINE / INDENTED_COMMENT / EMPTY_COMMENT instead of NEWLINE).  If both are line ends for getNextToken
   and their actions treat the ext part alike, the state afterwards - hence everything that follows - is the same. *)
Theorem eol_swap_same_state F s r1 r2 :
  is_eol (f_base F) r1 = true -> is_eol (f_base F) r2 = true -> same_ext_ops F (ty r1) (ty r2) ->
  exists s1 m, fstep F s r1 = Done (s1, [Tok r1], m) /\ fstep F s r2 = Done (s1, [Tok r2], m).
Proof.
  intros H1 H2 Hs. unfold fstep. rewrite (step_eol _ _ _ H1), (step_eol _ _ _ H2).
  rewrite (ext_ops_relevant (ops_of F (ty r1))), (ext_ops_relevant (ops_of F (ty r2))), Hs.
  destruct (ext_ops (ex s) _) as [e m]. eauto.
Qed.

Corollary eol_swap_same_run F s r1 r2 rs :
  is_eol (f_base F) r1 = true -> is_eol (f_base F) r2 = true -> same_ext_ops F (ty r1) (ty r2) ->
  hidden r1 = true -> hidden r2 = true ->
  res_map (fun p => (fst (fst p), filter out_vis (snd (fst p)), tl (snd p))) (frun F s (r1 :: rs)) =
  res_map (fun p => (fst (fst p), filter out_vis (snd (fst p)), tl (snd p))) (frun F s (r2 :: rs)).
Proof.
  intros H1 H2 Hs Hh1 Hh2. destruct (eol_swap_same_state F s r1 r2 H1 H2 Hs) as (s1 & m & E1 & E2).
  cbn [frun]. rewrite E1, E2. destruct (frun F s1 rs) as [[[s2 o] t]| |]; [|reflexivity|reflexivity].
  cbn [res_map fst snd tl app filter out_vis]. rewrite Hh1, Hh2. reflexivity.
Qed.
