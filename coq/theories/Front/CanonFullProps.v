(* C02: the listener model equals the declarative reading `canonf` (Front/CanonFull.v) on well-formed
   specifications of the WHOLE member language - REST trees, subscriptions and collector blocks included:
       wf_full s = true -> listen s = Some (canonf s)
   and denote s = Some (canonf s) when postProcess has nothing to do (no mixins / re-scoped reference / collector).
   Skeleton: (1) every declaration is a list of lookup-or-create steps on the endpoint map of its application
   (`kstep_ep`, unconditionally - REST trees by nested induction); (2) the listener over all blocks is a fold of
   lookup-or-create steps on the application map, one per ACTION (`kstepA`; a subscription is two actions, one on
   the subscriber and one on the publisher); (3) Group.fold_kstep_grouped twice: actions group by application,
   contributions group by endpoint name - interleaving is irrelevant at both levels; (4) under wf_full each group
   folds to its closed-form image. *)
From Coq Require Import String List ZArith Ascii Bool Lia.
Require Import Verif.Front.Ast Verif.Front.Denote Verif.Front.DenoteProps Verif.Front.Canon Verif.Front.CanonProps
               Verif.Front.Group Verif.Front.CanonFull.
Import ListNotations.
Local Open Scope string_scope.
Local Open Scope list_scope.

(* ================================================================== 1. endpoints: lookup-or-create steps *)
Definition kstep_ep := kstep ckey cinit ceff.
Definition orep (o:option endpoint) (c:contrib) : endpoint := orinit cinit o c.

(* every entry of an endpoint map sits under its own name *)
Definition wk (eps:list (string * endpoint)) : Prop := forall k e, aget k eps = Some e -> e_name e = k.

Lemma cinit_name c : e_name (cinit c) = ckey c.
Proof. destruct c; reflexivity. Qed.
Lemma ceff_name e0 c : e_name e0 = ckey c -> e_name (ceff e0 c) = ckey c.
Proof.
  destruct c; cbn [ceff ckey]; intros H; try reflexivity; try exact H.
  - destruct (match e_rest e0 with Some _ => _ | None => _ end). reflexivity.
  - destruct entries; [exact H|]. exact H.
Qed.
Lemma orep_name eps c : wk eps -> e_name (orep (aget (ckey c) eps) c) = ckey c.
Proof.
  intros Hw. unfold orep, orinit. destruct (aget (ckey c) eps) as [e|] eqn:E; [apply Hw, E|apply cinit_name].
Qed.
Lemma wk_nil : wk [].
Proof. intros k e H. discriminate. Qed.
Lemma wk_aset eps k e : wk eps -> e_name e = k -> wk (aset k e eps).
Proof.
  intros Hw Hn k' e' H. destruct (String.eqb_spec k k') as [<-|Hne].
  - rewrite aget_aset_eq in H. injection H as <-. exact Hn.
  - rewrite aget_aset_ne in H by exact Hne. apply Hw, H.
Qed.
Lemma kstep_ep_wk eps c : wk eps -> wk (kstep_ep eps c).
Proof. intros Hw. unfold kstep_ep, kstep. apply wk_aset; [exact Hw|]. apply ceff_name, orep_name, Hw. Qed.
Lemma fold_kstep_ep_wk : forall cs eps, wk eps -> wk (fold_left kstep_ep cs eps).
Proof. induction cs as [|c r IH]; intros eps Hw; cbn [fold_left]; [exact Hw|]. apply IH, kstep_ep_wk, Hw. Qed.

Lemma put_ep_set a e : put_ep a e = set_eps a (aset (e_name e) e (a_eps a)).
Proof. reflexivity. Qed.
Lemma get_ep_or a n d0 : get_ep a n d0 = match aget n (a_eps a) with Some e => e | None => d0 end.
Proof. reflexivity. Qed.

(* ---- the endpoint-declaring members, as steps (no freshness needed) *)
Lemma dendpoint_k ap a n long ps es annos body : forallb field_ok ps = true ->
  dendpoint ap a n long ps es annos body = Some (set_eps a (kstep_ep (a_eps a) (KEp ap n long ps es annos body))).
Proof.
  intros Hok. unfold dendpoint. rewrite (dparams_image _ _ Hok), stmts_order_nesting, put_ep_set. cbn [e_name].
  unfold kstep_ep, kstep, orinit, get_ep. cbn [ckey cinit ceff]. reflexivity.
Qed.

Lemma devent_k ap a n ps es body : forallb field_ok ps = true -> wk (a_eps a) ->
  devent ap a n ps es body = Some (set_eps a (kstep_ep (a_eps a) (KEvent ap n ps es body))).
Proof.
  intros Hok Hw. unfold devent. rewrite (dparams_image _ _ Hok), stmts_order_nesting, put_ep_set.
  pose proof (orep_name (a_eps a) (KEvent ap n ps es body) Hw) as Hn. cbn [ckey] in Hn.
  unfold kstep_ep, kstep. cbn [ckey ceff]. unfold orep, orinit in Hn |- *. cbn [cinit ckey] in Hn |- *.
  unfold get_ep, event0 in *. unfold ep_with at 1. cbn [e_name]. rewrite Hn. reflexivity.
Qed.

Lemma dmethod_k ap a path urls rattrs md : forallb field_ok (m_params md) = true ->
  dmethod ap a path urls rattrs md = Some (set_eps a (kstep_ep (a_eps a) (KMethod ap path urls rattrs md))).
Proof.
  intros Hok. unfold dmethod. rewrite (dparams_image _ _ Hok).
  unfold kstep_ep, kstep, orinit, get_ep. cbn [ckey cinit ceff]. unfold method_name, method_attrs, query_image.
  set (e0 := match aget _ (a_eps a) with Some e => e | None => _ end).
  destruct (e_rest e0) as [r|]; [destruct (e_stmts e0) as [|s0 ss]|]; rewrite stmts_order_nesting, put_ep_set; reflexivity.
Qed.

Lemma set_eps_set a x y : set_eps (set_eps a x) y = set_eps a y.
Proof. reflexivity. Qed.
Lemma set_eps_same a : set_eps a (a_eps a) = a.
Proof. destruct a; reflexivity. Qed.

Lemma drest_k : forall n ap prefix urls rattrs a, rest_ok n = true ->
  drest ap prefix urls rattrs n a = Some (set_eps a (fold_left kstep_ep (rest_contribs ap prefix urls rattrs n) (a_eps a))).
Proof.
  fix IH 1. intros [segs es children] ap prefix urls rattrs a. cbn [drest rest_contribs rest_ok].
  generalize (opt_attrs es) as own. revert a.
  induction children as [|c r IHr]; intros a own H.
  - cbn [fold_left]. rewrite set_eps_same. reflexivity.
  - destruct c as [md|n'|an].
    + apply andb_true_iff in H as [Hm Hr]. rewrite (dmethod_k _ _ _ _ _ _ Hm). rewrite (IHr _ _ Hr).
      cbn [fold_left]. rewrite set_eps_set. reflexivity.
    + apply andb_true_iff in H as [Hn Hr]. rewrite (IH n' _ _ _ _ _ Hn). rewrite (IHr _ _ Hr).
      rewrite fold_left_app, set_eps_set. reflexivity.
    + apply (IHr _ _ H).
Qed.

Lemma dcollector_k a entries : wk (a_eps a) ->
  dcollector a entries = set_eps a (kstep_ep (a_eps a) (KCollector entries)).
Proof.
  intros Hw. pose proof (orep_name (a_eps a) (KCollector entries) Hw) as Hn. cbn [ckey] in Hn.
  unfold dcollector, kstep_ep, kstep. cbn [ckey ceff]. unfold orep, orinit in Hn |- *. cbn [cinit] in Hn |- *.
  unfold get_ep. destruct entries as [|c r]; rewrite put_ep_set; [rewrite Hn; reflexivity|].
  unfold ep_with at 1. cbn [e_name]. rewrite Hn. reflexivity.
Qed.

Definition sub_ep (ap src:list string) (n:string) (es:list entry) (body:list xstmt) : endpoint :=
  E (sub_name src n) "" "" (opt_attrs es) false src [] None (run_body ap [] body).
Lemma subscriber_k ap a src n es body :
  put_ep a (sub_ep ap src n es body) = set_eps a (kstep_ep (a_eps a) (KSubscriber ap src n es body)).
Proof. unfold sub_ep. rewrite stmts_order_nesting, put_ep_set. reflexivity. Qed.

Definition pub_ep (ap src:list string) (n:string) (a:app) : endpoint :=
  let ev0 := get_ep a n (event0 n) in
  ep_with ev0 (e_attrs ev0) (e_params ev0) (e_stmts ev0 ++ [SCall [] ap (sub_name src n) None]).
Lemma publisher_k ap src n a : wk (a_eps a) ->
  put_ep a (pub_ep ap src n a) = set_eps a (kstep_ep (a_eps a) (KSubCall ap src n)).
Proof.
  intros Hw. pose proof (orep_name (a_eps a) (KSubCall ap src n) Hw) as Hn. cbn [ckey] in Hn.
  unfold pub_ep, kstep_ep, kstep. cbn [ckey ceff]. unfold orep, orinit in Hn |- *. cbn [cinit] in Hn |- *.
  unfold get_ep. rewrite put_ep_set. unfold ep_with at 1. cbn [e_name]. rewrite Hn. reflexivity.
Qed.

(* ================================================================== 2. applications: one step per action *)
Definition ainit (x:act) : app := match x with APub _ src _ => new_app src | _ => new_app [] end.
Definition aeff (a:app) (x:act) : app :=
  A (match x with AHead b => b_app b | _ => a_parts a end)
    (match x with AHead b => match b_long b with Some l => l | None => a_long a end | _ => a_long a end)
    (act_attrs (a_attrs a) x)
    (a_types a ++ act_types x) (fold_left kstep_ep (act_contribs x) (a_eps a)) (a_mixins a ++ act_mixins x).
Definition kstepA := kstep act_key ainit aeff.

(* the model's function for one action on its application *)
Definition amodel (a:app) (x:act) : option app :=
  match x with
  | AHead b => Some (A (b_app b) (match b_long b with Some l => l | None => a_long a end)
                       (match b_attribs b with [] => a_attrs a | es => merge_attrs (make_attrs es) (a_attrs a) end)
                       (a_types a) (a_eps a) (a_mixins a))
  | AMem ap mem =>
      match mem with
      | MSubscribe src n es body => Some (put_ep a (sub_ep ap src n es body))
      | MRest node => drest ap "" [] [] node a
      | MCollector entries => Some (dcollector a entries)
      | _ => amember ap a mem
      end
  | APub ap src n => Some (put_ep a (pub_ep ap src n a))
  end.
Definition astep (m:module) (x:act) : option module :=
  match amodel (orinit ainit (aget (act_key x) m) x) x with
  | Some a' => Some (aset (act_key x) a' m)
  | None => None
  end.

Lemma fold_opt_app {S Y} (f:S -> Y -> option S) : forall l1 l2 s,
  fold_opt f (l1 ++ l2) s = match fold_opt f l1 s with Some s' => fold_opt f l2 s' | None => None end.
Proof.
  induction l1 as [|x r IH]; intros l2 s; cbn [fold_opt List.app]; [reflexivity|].
  destruct (f s x); [apply IH|reflexivity].
Qed.

Lemma in_keys_aget {V} k (m:list (string * V)) : In k (keys m) -> exists v, aget k m = Some v.
Proof.
  induction m as [|[k' v'] r IH]; cbn [keys map fst In aget]; [intros []|]. intros H.
  destruct (String.eqb_spec k k') as [->|Hne]; [eexists; reflexivity|]. apply IH. destruct H; [congruence|assumption].
Qed.

Lemma astep_keys m x m' k : astep m x = Some m' -> In k (keys m) -> In k (keys m').
Proof.
  unfold astep. destruct (amodel _ x); [|discriminate]. intros [= <-] H. apply keys_aset. right. exact H.
Qed.

Lemma dmember_astep ap k m mem : k = app_key ap -> In k (keys m) ->
  dmember ap k m mem = fold_opt astep (mem_acts ap mem) m.
Proof.
  intros -> Hin. destruct (in_keys_aget _ _ Hin) as [a Ha].
  destruct mem; cbn [dmember mem_acts fold_opt]; unfold upd, astep; cbn [act_key amodel amember]; rewrite ?Ha; cbn [orinit];
    try (match goal with |- match ?f with Some _ => _ | None => _ end = _ => destruct f end; reflexivity);
    try reflexivity.
  (* subscription: the subscriber's endpoint, then the call in the publisher's event *)
  unfold dsubscribe, upd. rewrite Ha. cbn [act_key amodel orinit]. unfold ainit, pub_ep, sub_ep, sub_name, event0.
  destruct (aget (app_key a0) _); reflexivity.
Qed.

Lemma dmembers_astep ap k : forall ms m, k = app_key ap -> In k (keys m) ->
  dmembers ap k m ms = fold_opt astep (flat_map (mem_acts ap) ms) m.
Proof.
  induction ms as [|mem r IH]; intros m Hk Hin; cbn [dmembers flat_map]; [reflexivity|].
  rewrite fold_opt_app, <- (dmember_astep ap k m mem Hk Hin).
  destruct (dmember ap k m mem) as [m'|] eqn:Hd; [|reflexivity]. apply IH; [exact Hk|].
  rewrite (dmember_astep ap k m mem Hk Hin) in Hd.
  assert (Hmono : forall l m0 m1, fold_opt astep l m0 = Some m1 -> In k (keys m0) -> In k (keys m1)).
  { induction l as [|x l IHl]; intros m0 m1; cbn [fold_opt]; [intros [= <-] H; exact H|].
    destruct (astep m0 x) as [m2|] eqn:Hs; [|discriminate]. intros H1 H0. eapply IHl; [exact H1|]. eapply astep_keys; eassumption. }
  eapply Hmono; eassumption.
Qed.

Lemma dblock_astep m b : dblock m b = fold_opt astep (block_acts b) m.
Proof.
  unfold dblock, block_acts. cbn [fold_opt]. unfold astep at 1. cbn [act_key amodel]. unfold bkey, orinit. cbn [ainit].
  apply dmembers_astep; [reflexivity|]. apply keys_aset. left. reflexivity.
Qed.

Lemma dblocks_astep : forall bs m, dblocks m bs = fold_opt astep (flat_map block_acts bs) m.
Proof.
  induction bs as [|b r IH]; intros m; cbn [dblocks flat_map]; [reflexivity|].
  rewrite fold_opt_app, <- dblock_astep. destruct (dblock m b); [apply IH|reflexivity].
Qed.

(* ---- a model step is a lookup-or-create step, when the action is acceptable, its type name is new and the
   endpoint map is keyed by name *)
Lemma amodel_aeff a x :
  act_ok x = true -> (forall n t, In (n, t) (act_types x) -> aget n (a_types a) = None) -> wk (a_eps a) ->
  amodel a x = Some (aeff a x).
Proof.
  intros Hok Ht Hw. destruct x as [b|ap mem|ap src n]; unfold aeff; cbn [amodel act_attrs act_types act_contribs act_mixins fold_left].
  - rewrite !app_nil_r. reflexivity.
  - cbn [act_ok] in Hok. cbn [act_types] in Ht.
    assert (Ht' : forall n t, type_image ap mem = Some (n, t) -> aget n (a_types a) = None).
    { intros n t E. apply (Ht n t). rewrite E. left. reflexivity. }
    assert (Hne : forall n e, @None (string * endpoint) = Some (n, e) -> aget n (a_eps a) = None) by discriminate.
    destruct mem as [an|table n es w items|n es annos items|n es annos c t z|n es annos ms|n long ps es annos body|node|x|n ps es body
                    |src n es body|entries]; cbn [member_okf] in Hok.
    + match goal with |- context [amember ?p ?b ?mm] => rewrite (amember_effect p b mm eq_refl Hok Ht' Hne) end. unfold mem_effect. cbn [ep_image type_image opt_list contribs fold_left]. rewrite !app_nil_r. reflexivity.
    + match goal with |- context [amember ?p ?b ?mm] => rewrite (amember_effect p b mm eq_refl Hok Ht' Hne) end. unfold mem_effect. cbn [ep_image type_image opt_list contribs fold_left]. rewrite !app_nil_r. reflexivity.
    + match goal with |- context [amember ?p ?b ?mm] => rewrite (amember_effect p b mm eq_refl Hok Ht' Hne) end. unfold mem_effect. cbn [ep_image type_image opt_list contribs fold_left]. rewrite !app_nil_r. reflexivity.
    + match goal with |- context [amember ?p ?b ?mm] => rewrite (amember_effect p b mm eq_refl Hok Ht' Hne) end. unfold mem_effect. cbn [ep_image type_image opt_list contribs fold_left]. rewrite !app_nil_r. reflexivity.
    + match goal with |- context [amember ?p ?b ?mm] => rewrite (amember_effect p b mm eq_refl Hok Ht' Hne) end. unfold mem_effect. cbn [ep_image type_image opt_list contribs fold_left]. rewrite !app_nil_r. reflexivity.
    + cbn [member_ok] in Hok. cbn [amember]. rewrite (dendpoint_k _ _ _ _ _ _ _ _ Hok).
      cbn [type_image opt_list mem_annos mem_mixins add_annos fold_left contribs]. rewrite !app_nil_r. reflexivity.
    + rewrite (drest_k _ _ _ _ _ _ Hok).
      cbn [type_image opt_list mem_annos mem_mixins add_annos fold_left contribs]. rewrite !app_nil_r. reflexivity.
    + match goal with |- context [amember ?p ?b ?mm] => rewrite (amember_effect p b mm eq_refl Hok Ht' Hne) end. unfold mem_effect. cbn [ep_image type_image opt_list contribs fold_left]. rewrite !app_nil_r. reflexivity.
    + cbn [member_ok] in Hok. cbn [amember]. rewrite (devent_k _ _ _ _ _ _ Hok Hw).
      cbn [type_image opt_list mem_annos mem_mixins add_annos fold_left contribs]. rewrite !app_nil_r. reflexivity.
    + rewrite subscriber_k.
      cbn [type_image opt_list mem_annos mem_mixins add_annos fold_left contribs]. rewrite !app_nil_r. reflexivity.
    + rewrite (dcollector_k _ _ Hw).
      cbn [type_image opt_list mem_annos mem_mixins add_annos fold_left contribs]. rewrite !app_nil_r. reflexivity.
  - rewrite (publisher_k _ _ _ _ Hw). rewrite !app_nil_r. reflexivity.
Qed.

(* ---- the actions on one application, folded: a closed formula *)
Lemma fold_aeff : forall l a,
  fold_left aeff l a =
    A (fold_left (fun p x => match x with AHead b => b_app b | _ => p end) l (a_parts a))
      (fold_left (fun l0 x => match x with AHead b => match b_long b with Some y => y | None => l0 end | _ => l0 end) l (a_long a))
      (fold_left act_attrs l (a_attrs a))
      (a_types a ++ flat_map act_types l)
      (fold_left kstep_ep (flat_map act_contribs l) (a_eps a))
      (a_mixins a ++ flat_map act_mixins l).
Proof.
  induction l as [|x r IH]; intros a; cbn [fold_left flat_map].
  - rewrite !app_nil_r, app_eta. reflexivity.
  - rewrite IH. unfold aeff at 1 2 3 4 5 6. cbn [a_parts a_long a_attrs a_types a_eps a_mixins].
    rewrite fold_left_app, <- !app_assoc. reflexivity.
Qed.

Definition afterA := after act_key ainit aeff.
Lemma ainit_types x : a_types (ainit x) = [].
Proof. destruct x; reflexivity. Qed.
Lemma ainit_eps x : a_eps (ainit x) = [].
Proof. destruct x; reflexivity. Qed.

Lemma afterA_types xs k : a_types (orinit ainit (afterA xs k) (AHead (Bk [] None [] []))) = flat_map act_types (filter (is_akey k) xs).
Proof.
  unfold afterA, after. change (is_key act_key k) with (is_akey k).
  destruct (filter (is_akey k) xs) as [|x r]; cbn [fold_group orinit]; [reflexivity|].
  rewrite fold_aeff. cbn [a_types]. rewrite ainit_types. reflexivity.
Qed.
Lemma afterA_types_x xs k x : a_types (orinit ainit (afterA xs k) x) = flat_map act_types (filter (is_akey k) xs).
Proof.
  rewrite <- afterA_types. destruct (afterA xs k); cbn [orinit]; [reflexivity|]. rewrite !ainit_types. reflexivity.
Qed.
Lemma afterA_wk xs k x : wk (a_eps (orinit ainit (afterA xs k) x)).
Proof.
  unfold afterA, after. destruct (filter (is_key act_key k) xs) as [|y r]; cbn [fold_group orinit].
  - rewrite ainit_eps. apply wk_nil.
  - rewrite fold_aeff. cbn [a_eps]. apply fold_kstep_ep_wk. rewrite ainit_eps. apply wk_nil.
Qed.

(* ================================================================== 3. all blocks *)
Definition akeys (k:string) (l:list act) : list string := keys (flat_map act_types (filter (is_akey k) l)).
Definition WFA (l:list act) : Prop := Forall (fun x => act_ok x = true) l /\ forall k, NoDup (akeys k l).

Lemma in_keys {V} k (v:V) m : In (k, v) m -> In k (keys m).
Proof. intros H. unfold keys. apply in_map_iff. exists (k, v). split; [reflexivity|exact H]. Qed.

Lemma run_acts : forall xs rest, WFA (xs ++ rest) -> fold_opt astep xs [] = Some (fold_left kstepA xs []).
Proof.
  induction xs as [|x xs IH] using rev_ind; intros rest Hwf; [reflexivity|].
  rewrite fold_opt_app, (IH (x :: rest)); [|rewrite <- app_assoc in Hwf; exact Hwf].
  rewrite fold_left_app. cbn [fold_opt fold_left]. unfold kstepA at 2, kstep, astep.
  unfold kstepA. rewrite (fold_kstep_grouped act_key ainit aeff (new_app [])), aget_kgrouped.
  fold afterA. destruct Hwf as [Hall Hk].
  rewrite amodel_aeff; [reflexivity| | |].
  - rewrite Forall_forall in Hall. apply Hall. rewrite !in_app_iff. left. right. left. reflexivity.
  - intros n t Hi. rewrite afterA_types_x. apply aget_notin. intros Hin.
    specialize (Hk (act_key x)). unfold akeys in Hk. rewrite <- app_assoc in Hk. cbn [List.app] in Hk.
    rewrite filter_app in Hk. cbn [filter] in Hk. unfold is_akey at 2 in Hk. rewrite String.eqb_refl in Hk.
    rewrite flat_map_app in Hk. cbn [flat_map] in Hk. rewrite !keys_app in Hk.
    apply (in_keys n t) in Hi.
    revert Hk Hin Hi. generalize (keys (flat_map act_types (filter (is_akey (act_key x)) xs))) as l1.
    generalize (keys (act_types x)) as l2. generalize (keys (flat_map act_types (filter (is_akey (act_key x)) rest))) as l3.
    intros l3 l2 l1 Hnd H1 H2. apply in_split in H2 as (p & q & ->). rewrite <- !app_assoc in Hnd. cbn [List.app] in Hnd.
    rewrite app_assoc in Hnd. apply NoDup_remove_2 in Hnd. apply Hnd. rewrite !in_app_iff. left. left. exact H1.
  - apply afterA_wk.
Qed.

(* ================================================================== 4. the groups, in closed form *)
(* a complete declaration on a fresh endpoint = its image *)
Lemma ceff_cinit_decl c : is_decl c = true -> ceff (cinit c) c = cimage c.
Proof.
  destruct c as [ap n long ps es annos body|ap path urls rattrs md|ap src n es body|entries| |]; cbn [is_decl]; intros H; try discriminate.
  - cbn [ceff cinit cimage new_ep e_long e_doc e_attrs e_pubsub e_source e_params e_rest e_stmts List.app]. destruct es; reflexivity.
  - cbn [ceff cinit cimage e_long e_doc e_attrs e_pubsub e_source e_params e_rest e_stmts List.app r_method r_path r_query r_url].
    destruct urls; reflexivity.
  - reflexivity.
  - cbn [ceff cinit cimage]. destruct entries; reflexivity.
Qed.

(* the parts of an event, folded *)
Lemma ev_fold n : forall l at_ ps ss,
  forallb (fun c => negb (is_decl c)) l = true -> forallb (is_ckey n) l = true ->
  fold_left ceff l (E n "" "" at_ true [] ps None ss) = E n "" "" (ev_attrs at_ l) true [] (ps ++ ev_params l) None (ss ++ ev_stmts l).
Proof.
  induction l as [|c r IH]; intros at_ ps ss Hd Hk; cbn [fold_left ev_attrs ev_params ev_stmts flat_map].
  - rewrite !app_nil_r. reflexivity.
  - cbn [forallb] in Hd, Hk. apply andb_true_iff in Hd as [Hc Hd]. apply andb_true_iff in Hk as [Hn Hk].
    unfold is_ckey in Hn. apply String.eqb_eq in Hn.
    destruct c as [| | | |ap n' ps' es body|ap src n']; cbn [is_decl negb] in Hc; try discriminate; cbn [ckey] in Hn; subst n'.
    + cbn [ceff]. unfold ep_with. cbn [e_name e_long e_doc e_attrs e_pubsub e_source e_params e_rest e_stmts].
      rewrite (IH _ _ _ Hd Hk). unfold ev_attrs, ev_params, ev_stmts. rewrite <- !app_assoc. reflexivity.
    + cbn [ceff]. unfold ep_with. cbn [e_name e_long e_doc e_attrs e_pubsub e_source e_params e_rest e_stmts].
      rewrite (IH _ _ _ Hd Hk). unfold ev_attrs, ev_params, ev_stmts. rewrite <- !app_assoc. reflexivity.
Qed.

Lemma filter_all_key n cs : forallb (is_ckey n) (filter (is_ckey n) cs) = true.
Proof. apply forallb_forall. intros c Hc. apply filter_In in Hc. apply Hc. Qed.

Lemma group_ep_canon n l : l <> [] -> name_ok l = true -> forallb (is_ckey n) l = true ->
  fold_group cinit ceff l = Some (ep_canon n l).
Proof.
  intros Hne Hok Hk. destruct l as [|c r]; [contradiction|]. cbn [fold_group].
  assert (Hev : forallb (fun c => negb (is_decl c)) (c :: r) = true -> fold_left ceff (c :: r) (cinit c) = event_image n (c :: r)).
  { intros Hd. assert (Hc : cinit c = E n "" "" [] true [] [] None []).
    { cbn [forallb] in Hd, Hk. apply andb_true_iff in Hd as [Hc _]. apply andb_true_iff in Hk as [Hn _].
      unfold is_ckey in Hn. apply String.eqb_eq in Hn.
      destruct c; cbn [is_decl negb] in Hc; try discriminate; cbn [ckey] in Hn; subst; reflexivity. }
    rewrite Hc, (ev_fold n _ _ _ _ Hd Hk). reflexivity. }
  destruct r as [|c2 r].
  - cbn [ep_canon]. destruct (is_decl c) eqn:Hd.
    + cbn [fold_left]. rewrite (ceff_cinit_decl _ Hd). reflexivity.
    + rewrite Hev; [reflexivity|]. cbn [forallb]. rewrite Hd. reflexivity.
  - cbn [name_ok] in Hok. rewrite (Hev Hok). reflexivity.
Qed.

Lemma eps_canon cs : eps_ok cs = true -> fold_left kstep_ep cs [] = canon_eps cs.
Proof.
  intros Hok. unfold kstep_ep. rewrite (fold_kstep_grouped ckey cinit ceff (new_ep "")). unfold kgrouped, canon_eps.
  apply map_ext_in. intros n Hn. f_equal. unfold after. change (is_key ckey n) with (is_ckey n).
  unfold eps_ok in Hok. rewrite forallb_forall in Hok.
  rewrite (group_ep_canon n); [reflexivity| |apply Hok, Hn|apply filter_all_key].
  apply filter_key_some. apply (proj2 (dedup_spec (map ckey cs))). exact Hn.
Qed.

Lemma grouped_canonf xs :
  (forall k, In k (dedup (map act_key xs)) -> eps_ok (flat_map act_contribs (filter (is_akey k) xs)) = true) ->
  kgrouped act_key ainit aeff (new_app []) xs = canonf_acts xs.
Proof.
  intros Hok. unfold kgrouped, canonf_acts. apply map_ext_in. intros k Hk. f_equal.
  unfold after. change (is_key act_key k) with (is_akey k). specialize (Hok k Hk).
  destruct (filter (is_akey k) xs) as [|x r] eqn:Hf.
  - exfalso. revert Hf. apply filter_key_some. apply (proj2 (dedup_spec (map act_key xs))). exact Hk.
  - cbn [fold_group]. rewrite fold_aeff. unfold canonf_app. rewrite ainit_types, ainit_eps, (eps_canon _ Hok).
    cbn [List.app]. f_equal; destruct x; reflexivity.
Qed.

(* ================================================================== 5. the theorems *)
Lemma wf_full_WFA s : wf_full s = true ->
  WFA (spec_acts s) /\
  forall k, In k (dedup (map act_key (spec_acts s))) -> eps_ok (flat_map act_contribs (filter (is_akey k) (spec_acts s))) = true.
Proof.
  unfold wf_full. intros H. apply andb_true_iff in H as [Hall Hk]. rewrite forallb_forall in Hk. split; [split|].
  - apply Forall_forall. rewrite forallb_forall in Hall. exact Hall.
  - intros k. destruct (dedup_spec (map act_key (spec_acts s))) as [_ Hin].
    destruct (in_dec string_dec k (map act_key (spec_acts s))) as [Hi|Hi].
    + specialize (Hk k (proj2 (Hin k) Hi)). apply andb_true_iff in Hk as [H1 _]. apply nodupb_NoDup, H1.
    + unfold akeys. change (is_akey k) with (is_key act_key k). rewrite (filter_key_none act_key k (spec_acts s) Hi). constructor.
  - intros k Hi. specialize (Hk k Hi). apply andb_true_iff in Hk as [_ H2]. exact H2.
Qed.

(* the actions of a specification group by application - no well-formedness needed: a subscription acts on two
   applications, blocks of different applications interleave, and still every application ends as the fold of
   the actions on it alone *)
Theorem actions_group_by_application : forall xs,
  fold_left kstepA xs [] = kgrouped act_key ainit aeff (new_app []) xs.
Proof. intros xs. apply fold_kstep_grouped. Qed.
(* ... and the contributions to the endpoints of one application by endpoint name *)
Theorem contributions_group_by_endpoint : forall cs,
  fold_left kstep_ep cs [] = kgrouped ckey cinit ceff (new_ep "") cs.
Proof. intros cs. apply fold_kstep_grouped. Qed.

(* the listener stage on the whole member language: completeness and soundness in one equality *)
Theorem listen_canon_full : forall s, wf_full s = true -> listen s = Some (canonf s).
Proof.
  intros s H. destruct (wf_full_WFA s H) as [Hwfa Heps].
  unfold listen. rewrite dblocks_astep. fold (spec_acts s).
  rewrite (run_acts (spec_acts s) []); [|rewrite app_nil_r; exact Hwfa].
  rewrite actions_group_by_application, (grouped_canonf _ Heps). reflexivity.
Qed.

Theorem denote_canon_full : forall s,
  wf_full s = true -> no_mixins (canonf s) = true -> no_rescope (canonf s) = true -> no_collector (canonf s) = true ->
  denote s = Some (canonf s).
Proof.
  intros s Hwf Hm Hs Hc. unfold denote. rewrite (listen_canon_full s Hwf), (post_id _ Hs Hm Hc). reflexivity.
Qed.

(* with a collector block: postProcess of the declarative reading (CollectProps.v says what it does) *)
Corollary denote_post_canon_full : forall s, wf_full s = true -> denote s = post (canonf s).
Proof. intros s Hwf. unfold denote. rewrite (listen_canon_full s Hwf). reflexivity. Qed.

(* on the sub-language of Canon.v the two readings are the same module *)
Corollary canonf_extends_canon : forall s, wf_sub s = true -> wf_full s = true -> canonf s = canon s.
Proof.
  intros s H1 H2. pose proof (listen_canon s H1) as E1. rewrite (listen_canon_full s H2) in E1. injection E1 as E1. exact E1.
Qed.

(* non-vacuity: a REST tree (two levels, a path variable typed by a reference, a query parameter, an annotation
   between two methods, attributes on both levels), a subscription written BEFORE the publisher's block and one
   after it (the event ends with: first call, own statement, second call), a publisher that no block declares, a
   collector block, over two blocks of one application interleaved with the others *)
Definition sample_full : spec :=
  [[Bk ["Shop"] None [ETag "web"]
      [MRest (RNode [PStatic "orders"] [ENvp "v" (AS "1")]
                [RMethod (Md MGet [] [Qv "page" (XNative NInt) true] [ETag "ro"] [] [" list"; " them"] [XRet "ok <: Orders"]);
                 RAnno (An "team" (NQ "a"));
                 RSub (RNode [PVar "id" (XLocal "OrderId")] [ETag "one"]
                         [RMethod (Md MGet [] [] [] [] [] [XCall [] (Some ["Db"]) "Read" None]);
                          RMethod (Md MDelete [Fd "why" false CNone (XNative NString) (ZSize 20 None) false [] [] None] [] [] [An "audit" (NQ "yes")] []
                                      [XBlock BIf "found" [XAction [] "drop"]])])]);
       MSubscribe ["Bus"] "Paid" [ETag "async"] [XAction [] "ship"];
       MSubscribe ["Ghost"] "Tick" [] [XAction [] "noop"]];
    Bk ["Bus"] (Some "the bus") [] [MEvent "Paid" [Fd "amount" false CNone (XNative NDecimal) (ZSize 9 (Some 2%Z)) false [] [] None] [ENvp "k" (AS "v")] [XAction [] "log"]];
    Bk ["Shop"] None []
      [MCollector [CCall ["Db"] "Read" [ETag "slow"]; CHttp MGet "/orders" [ETag "cached"]];
       MType false "OrderId" [] false [TField (Fd "n" false CNone (XNative NInt) ZNone false [] [] None)]];
    Bk ["Mail"] None [] [MSubscribe ["Bus"] "Paid" [] [XAction [] "mail"]]]].

Example listen_canon_full_nonvacuous :
  wf_full sample_full = true /\ wf_sub sample_full = false /\
  keys (canonf sample_full) = ["Shop"; "Bus"; "Ghost"; "Mail"] /\
  match aget "Shop" (canonf sample_full), aget "Bus" (canonf sample_full), aget "Ghost" (canonf sample_full) with
  | Some shop, Some bus, Some ghost =>
      keys (a_eps shop) = ["GET /orders"; "GET /orders/{id}"; "DELETE /orders/{id}"; "Bus -> Paid"; "Ghost -> Tick"; ".. * <- *"] /\
      match aget "DELETE /orders/{id}" (a_eps shop) with
      | Some e => e_rest e = Some (R MDelete "/orders/{id}" [] [("id", Ty (KRef (Some (Sc ["Shop"] [])) (Sc [] ["OrderId"])) false [] [] "")]) /\
                  aget "team" (e_attrs e) = Some (AS "a") /\ aget "v" (e_attrs e) = Some (AS "1") /\
                  aget patterns (e_attrs e) = Some (AA [AS "rest"; AS "one"])
      | None => False
      end /\
      match aget "GET /orders" (a_eps shop) with
      | Some e => aget "team" (e_attrs e) = None /\ e_doc e = "list them" /\ keys (match e_rest e with Some r => r_query r | None => [] end) = ["page"]
      | None => False
      end /\
      match aget "Paid" (a_eps bus) with
      | Some e => e_stmts e = [SCall [] ["Shop"] "Bus -> Paid" None; SAction [] "log"; SCall [] ["Mail"] "Bus -> Paid" None] /\
                  e_pubsub e = true /\ keys (e_params e) = ["amount"]
      | None => False
      end /\
      a_parts ghost = ["Ghost"] /\ keys (a_eps ghost) = ["Tick"] /\ a_long bus = "the bus"
  | _, _, _ => False
  end /\
  no_mixins (canonf sample_full) = true /\ no_rescope (canonf sample_full) = true /\ no_collector (canonf sample_full) = false.
Proof. vm_compute. repeat split; reflexivity. Qed.

(* the hypotheses are needed: a REST method declared twice, or a subscription to something that is declared as a
   simple endpoint, is outside wf_full *)
Example wf_full_rejects_redeclared_method :
  wf_full [[Bk ["A"] None [] [MRest (RNode [PStatic "x"] [] [RMethod (Md MGet [] [] [] [] [] []); RMethod (Md MGet [] [] [] [] [] [])])]]] = false.
Proof. reflexivity. Qed.
Example wf_full_rejects_subscription_to_endpoint :
  wf_full [[Bk ["A"] None [] [MEndpoint "E" None [] [] [] []]; Bk ["B"] None [] [MSubscribe ["A"] "E" [] []]]] = false.
Proof. reflexivity. Qed.
