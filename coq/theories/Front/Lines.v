(* Front/Lines.v - MODEL (definitions only): whitespace width (calcSpaces) and the layout transformations of
   C03, on token streams whose whitespace tokens still carry their text.

   A `tok` is a token as delivered by the generated ANTLR lexer, before getNextToken: type, channel, the
   bytes of its text as calcSpaces distinguishes them (only whitespace tokens have an action that reads
   them), EOF?.  `to_raw` is what the rule action + getNextToken see of it (Front/Indent.v).

   Transformations (all executable):
     scale_ws k / scale_lead_t  re-indentation by a uniform factor: every byte of the LINE-LEADING whitespace
                                is repeated k times; whitespace between the tokens of a line is left alone
     tabify_at n                the four spaces at offset n of a whitespace text replaced by one tab
                                (n = 0: leading unit; n > 0: spaces THEN tab); `respell` is its closure
     inserted                   blank lines / whole-line comments put at line boundaries: any number of
                                layout tokens at any set of positions where the lexer is at a line start *)
From Coq Require Import List NArith Bool.
Import ListNotations.
Require Import Verif.Front.Indent.
Local Open Scope N_scope.

Inductive wsch := Sp | Tab | Oth.

(* calcSpaces: s := 0; for each byte: if ' ' {s++}; if '\t' {s += 4}.  The two weights are parameters,
   Gen.LexerTables.calc_weights supplies them. *)
Record weights := { w_sp : N; w_tab : N }.
Definition weight (W:weights) (c:wsch) : N := match c with Sp => w_sp W | Tab => w_tab W | Oth => 0 end.
Definition calc_spaces (W:weights) (l:list wsch) : N := fold_left (fun s c => s + weight W c) l 0.

Record tok := { k_ty : N; k_hidden : bool; k_ws : list wsch; k_eof : bool }.
Definition to_raw (W:weights) (t:tok) : raw :=
  {| ty := k_ty t; hidden := k_hidden t; width := calc_spaces W (k_ws t); eof := k_eof t |}.

(* ---- uniform re-indentation ---- *)
Definition scale_ws (k:nat) (l:list wsch) : list wsch := flat_map (fun c => repeat c k) l.
Definition scale_tok (k:nat) (t:tok) : tok :=
  {| k_ty := k_ty t; k_hidden := k_hidden t; k_ws := scale_ws k (k_ws t); k_eof := k_eof t |}.

(* the width of r cannot matter in state s: a hidden token arriving in the middle of a line has its
   `spaces` overwritten with 0 before anything reads it *)
Definition unmeasured (T:tables) (s:st) (r:raw) : bool := negb (nl (effect T s r)) && hidden r.

Definition next_state (T:tables) (s:st) (r:raw) : st :=
  match step T s r with Done (s1, _) => s1 | _ => s end.

(* scale what is measured (line-leading whitespace), keep the rest: raw level and text level *)
Fixpoint scale_lead (T:tables) (k:N) (s:st) (rs:list raw) : list raw :=
  match rs with
  | [] => []
  | r :: rs' => (if unmeasured T s r then r else scale_raw k r) :: scale_lead T k (next_state T s r) rs'
  end.
Fixpoint scale_lead_t (W:weights) (T:tables) (k:nat) (s:st) (ts:list tok) : list tok :=
  match ts with
  | [] => []
  | t :: ts' => (if unmeasured T s (to_raw W t) then t else scale_tok k t)
                :: scale_lead_t W T k (next_state T s (to_raw W t)) ts'
  end.

(* ---- tabs for 4-space units ---- *)
Fixpoint tabify_at (n:nat) (l:list wsch) : option (list wsch) :=
  match n, l with
  | O, Sp :: Sp :: Sp :: Sp :: r => Some (Tab :: r)
  | O, _ => None
  | S n', c :: r => option_map (cons c) (tabify_at n' r)
  | S _, [] => None
  end.

Inductive respell : list wsch -> list wsch -> Prop :=
| rs_refl l : respell l l
| rs_tab n l l' : tabify_at n l = Some l' -> respell l l'
| rs_untab n l l' : tabify_at n l' = Some l -> respell l l'
| rs_trans l1 l2 l3 : respell l1 l2 -> respell l2 l3 -> respell l1 l3.

Definition respell_tok (t t':tok) : Prop :=
  k_ty t = k_ty t' /\ k_hidden t = k_hidden t' /\ k_eof t = k_eof t' /\ respell (k_ws t) (k_ws t').

(* ---- blank lines and whole-line comments ---- *)

(* the lexer is at the start of a line *)
Definition at_boundary (s:st) : bool := nl s && N.eqb (spaces s) 0.

(* r ends a line for getNextToken: its action sets gotNewLine and zeroes spaces, and it is on the bypass list *)
Definition is_eol (T:tables) (r:raw) : bool :=
  match lookup (ty r) (t_actions T) with
  | Some a => a_nl a && (match a_sp a with SpZero => true | _ => false end) && mem (ty r) (t_bypass T)
  | None => false
  end.

(* tokens a blank line or a whole-line comment consists of: hidden; either a line end, or the comment token
   (no action of its own) *)
Definition is_layout (T:tables) (r:raw) : bool :=
  hidden r && negb (eof r) &&
  (is_eol T r || (N.eqb (ty r) (t_comment T) && match lookup (ty r) (t_actions T) with None => true | _ => false end)).

(* rs' is rs with layout tokens inserted at line boundaries (s = the lexer state in front of both) *)
Inductive inserted (T:tables) : st -> list raw -> list raw -> Prop :=
| ins_nil s : inserted T s [] []
| ins_keep s r rs rs' : inserted T (next_state T s r) rs rs' -> inserted T s (r :: rs) (r :: rs')
| ins_add s b rs rs' : at_boundary s = true -> is_layout T b = true -> inserted T s rs rs' -> inserted T s rs (b :: rs').

(* executable form for one position: bs put in front of the n-th token *)
Definition insert_at (n:nat) (bs rs:list raw) : list raw := firstn n rs ++ bs ++ skipn n rs.
Definition boundary_before (T:tables) (n:nat) (rs:list raw) : bool :=
  match run T (init T) (firstn n rs) with Done (s, _) => at_boundary s | _ => false end.

(* an ordinary token in the first column: visible, no action, not on the bypass list, not the comment token *)
Definition plain_visible (T:tables) (r:raw) : bool :=
  negb (hidden r) && negb (eof r) && negb (mem (ty r) (t_bypass T)) && negb (N.eqb (ty r) (t_comment T)) &&
  match lookup (ty r) (t_actions T) with None => true | _ => false end.

(* ---- what is compared ---- *)
Definition erase_w (o:out) : out :=
  match o with
  | Tok r => Tok {| ty := ty r; hidden := hidden r; width := 0; eof := eof r |}
  | x => x
  end.

(* the default-channel tokens (with INDENT / DEDENT), widths erased: what the parser reads *)
Definition vis_outs (os:list out) : list out := map erase_w (filter out_vis os).
Definition lex_vis (W:weights) (T:tables) (ts:list tok) : res (list out) :=
  res_map vis_outs (indent_filter T (map (to_raw W) ts)).

(* one layout transformation of a text, seen on its token stream *)
Inductive layout_step (W:weights) (T:tables) : list tok -> list tok -> Prop :=
| ls_scale k ts : (0 < k)%nat -> layout_step W T ts (scale_lead_t W T k (init T) ts)
| ls_respell ts ts' : Forall2 respell_tok ts ts' -> layout_step W T ts ts'
| ls_insert ts ts' : inserted T (init T) (map (to_raw W) ts) (map (to_raw W) ts') -> layout_step W T ts ts'.

(* any composition, in either direction (shrinking, tabs back to spaces, deleting blank lines / comments) *)
Inductive layout_equiv (W:weights) (T:tables) : list tok -> list tok -> Prop :=
| le_step a b : layout_step W T a b -> layout_equiv W T a b
| le_refl a : layout_equiv W T a a
| le_sym a b : layout_equiv W T a b -> layout_equiv W T b a
| le_trans a b c : layout_equiv W T a b -> layout_equiv W T b c -> layout_equiv W T a c.
