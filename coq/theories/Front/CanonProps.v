(* C02: the listener model equals the declarative reading on well-formed specifications of the sub-language of
   Front/Canon.v:   wf_sub s = true -> listen s = Some (canon s)   and, when no reference is re-scoped by
   postProcess,     denote s = Some (canon s).
   Completeness and soundness in one equality: every declared application / type / field / enum item / alias /
   union member / endpoint / parameter / statement / attribute is in the compiled module exactly as its image, and
   nothing else is - for any number of blocks per application, interleaved in any order. *)
From Coq Require Import String List ZArith Ascii Bool Lia.
Require Import Verif.Front.Ast Verif.Front.Denote Verif.Front.DenoteProps Verif.Front.Canon.
Import ListNotations.
Local Open Scope string_scope.
Local Open Scope list_scope.

(* ================================================================== association lists *)
Lemma keys_app {V} (l1 l2:list (string * V)) : keys (l1 ++ l2) = keys l1 ++ keys l2.
Proof. unfold keys. apply map_app. Qed.

Lemma aget_notin {V} k (m:list (string * V)) : ~ In k (keys m) -> aget k m = None.
Proof.
  induction m as [|[k' v] r IH]; cbn [aget keys map fst In]; [reflexivity|]. intros H.
  destruct (String.eqb_spec k k') as [->|_]; [tauto|]. apply IH. tauto.
Qed.
Lemma aset_fresh {V} k (v:V) m : aget k m = None -> aset k v m = m ++ [(k, v)].
Proof.
  induction m as [|[k' v'] r IH]; cbn [aget aset List.app]; [reflexivity|].
  destruct (String.eqb k k'); [discriminate|]. intros H. rewrite IH by assumption. reflexivity.
Qed.
Lemma aset_same {V} k (v:V) m : aget k m = Some v -> aset k v m = m.
Proof.
  induction m as [|[k' v'] r IH]; cbn [aget aset]; [discriminate|].
  destruct (String.eqb_spec k k') as [->|_]; [intros [= ->]; reflexivity|]. intros H. rewrite IH by assumption. reflexivity.
Qed.
Lemma aset_aset {V} k (v1 v2:V) m : aset k v2 (aset k v1 m) = aset k v2 m.
Proof.
  induction m as [|[k' v'] r IH]; cbn [aset].
  - rewrite String.eqb_refl. reflexivity.
  - destruct (String.eqb_spec k k') as [->|Hne]; cbn [aset].
    + rewrite String.eqb_refl. reflexivity.
    + destruct (String.eqb_spec k k'); [contradiction|]. rewrite IH. reflexivity.
Qed.

Lemma nodup_head_fresh {V} (l:list (string * V)) n rest : NoDup (keys l ++ n :: rest) -> aget n l = None.
Proof. intros H. apply aget_notin. apply NoDup_remove_2 in H. rewrite in_app_iff in H. tauto. Qed.
Lemma nodup_shift {V} (l:list (string * V)) n (v:V) rest : NoDup (keys l ++ n :: rest) -> NoDup (keys (l ++ [(n, v)]) ++ rest).
Proof. intros H. rewrite keys_app. cbn [keys map fst]. rewrite <- app_assoc. exact H. Qed.

(* ================================================================== single declarations *)
Lemma sized_ok ap path t z : size_ok t z = true ->
  sized (fst (base_type ap path t)) (snd (base_type ap path t)) z = Some (tsized (fst (base_type ap path t)) (snd (base_type ap path t)) z).
Proof.
  unfold tsized. destruct t as [n|s|a p|]; cbn [size_ok base_type]; try reflexivity.
  destruct (prim_of n) as [p cs]. cbn [fst snd sized kind_prim]. destruct (apply_spec p cs z); [reflexivity|discriminate].
Qed.

Lemma dfield_image ap path f : field_ok f = true -> dfield ap path f = Some (field_image ap path f).
Proof.
  unfold field_ok, dfield, field_image. intros H. pose proof (sized_ok ap path _ _ H) as Hs.
  destruct (base_type ap path (fd_ty f)) as [k cs0]. cbn [fst snd] in *. rewrite Hs. reflexivity.
Qed.

Lemma dparams_image ap : forall ps, forallb field_ok ps = true -> dparams ap ps = Some (params_image ap ps).
Proof.
  induction ps as [|f r IH]; cbn [forallb dparams params_image map]; [reflexivity|]. intros H.
  apply andb_true_iff in H as [Hf Hr]. rewrite (dfield_image _ _ _ Hf), (IH Hr). reflexivity.
Qed.

Lemma ditems_closed ap tn : forall items fields at_ names,
  forallb item_ok items = true -> NoDup (keys fields ++ item_names items) ->
  ditems ap tn items fields at_ names =
    Some (fields ++ items_fields ap tn items, add_annos at_ (item_annos items), names ++ item_names items).
Proof.
  induction items as [|[f|a|n0 arr0 fs0] r IH]; intros fields at_ names Hok Hnd; cbn [ditems items_fields item_annos item_names flat_map forallb] in *.
  - rewrite !app_nil_r. reflexivity.
  - apply andb_true_iff in Hok as [Hf Hr]. cbn [item_ok] in Hf. rewrite (dfield_image _ _ _ Hf).
    cbn [List.app] in Hnd. rewrite (aset_fresh _ _ _ (nodup_head_fresh _ _ _ Hnd)).
    rewrite (IH _ _ _ Hr (nodup_shift _ _ _ _ Hnd)). cbn [List.app]. rewrite <- !app_assoc. reflexivity.
  - cbn [item_ok andb] in Hok. cbn [List.app] in *. rewrite (IH _ _ _ Hok Hnd). reflexivity.
  - cbn [item_ok andb] in Hok. discriminate.
Qed.
Lemma item_ok_no_tuple items : forallb item_ok items = true -> forallb no_tuple items = true.
Proof.
  induction items as [|i r IH]; cbn [forallb]; [reflexivity|]. intros H. apply andb_true_iff in H as [Hi Hr].
  rewrite (IH Hr). destruct i; cbn [item_ok] in Hi; try discriminate; reflexivity.
Qed.

Lemma dunion_members_image ap n : forall ms,
  forallb (fun m => match um_coll m with CNone => true | _ => size_ok (um_ty m) (um_size m) end) ms = true ->
  dunion_members ap n ms = Some (map (umember_image ap n) ms).
Proof.
  induction ms as [|m r IH]; cbn [forallb dunion_members map]; [reflexivity|]. intros H.
  apply andb_true_iff in H as [Hm Hr]. rewrite (IH Hr). unfold umember_image.
  destruct (base_type ap [n] (um_ty m)) as [k cs0] eqn:Hb. cbn [fst snd].
  destruct (um_coll m); [reflexivity| |];
    (pose proof (sized_ok ap [n] _ _ Hm) as Hs; rewrite Hb in Hs; cbn [fst snd] in Hs; rewrite Hs; reflexivity).
Qed.

(* what one member does to its application, as a closed formula: it appends its images *)
Definition mem_effect (ap:list string) (a:app) (mem:member) : app :=
  A (a_parts a) (a_long a) (add_annos (a_attrs a) (mem_annos mem))
    (a_types a ++ opt_list (type_image ap mem)) (a_eps a ++ opt_list (ep_image ap mem)) (a_mixins a ++ mem_mixins mem).

(* the function the listener applies to the current application for a member of the sub-language *)
Definition amember (ap:list string) (a:app) (mem:member) : option app :=
  match mem with
  | MAnno an => Some (set_aattrs a (add_anno (a_attrs a) an))
  | MType table n es w items => dtable ap a table n es w items
  | MEnum n es annos items => Some (denum a n es annos items)
  | MAlias n es annos c t z => dalias ap a n es annos c t z
  | MUnion n es annos ms => dunion ap a n es annos ms
  | MEndpoint n long ps es annos body => dendpoint ap a n long ps es annos body
  | MEvent n ps es body => devent ap a n ps es body
  | MMixin x => Some (set_mixins a (a_mixins a ++ [x]))
  | _ => None
  end.

Lemma dmember_amember ap k m mem : sub_member mem = true -> dmember ap k m mem = upd m k (fun a => amember ap a mem).
Proof. destruct mem; cbn [sub_member]; intros H; try discriminate; reflexivity. Qed.

Lemma app_eta (a:app) : A (a_parts a) (a_long a) (a_attrs a) (a_types a) (a_eps a) (a_mixins a) = a.
Proof. destruct a; reflexivity. Qed.

Lemma amember_effect ap a mem :
  sub_member mem = true -> member_ok mem = true ->
  (forall n t, type_image ap mem = Some (n, t) -> aget n (a_types a) = None) ->
  (forall n e, ep_image ap mem = Some (n, e) -> aget n (a_eps a) = None) ->
  amember ap a mem = Some (mem_effect ap a mem).
Proof.
  destruct mem as [an|table n es w items|n es annos items|n es annos c t z|n es annos ms|n long ps es annos body| |x|n ps es body| |];
    cbn [sub_member]; intros Hsub Hok Ht He; try discriminate; unfold mem_effect; cbn [amember mem_annos].
  - (* annotation *) cbn [type_image ep_image opt_list add_annos fold_left mem_mixins]. rewrite !app_nil_r. reflexivity.
  - (* !type / !table *)
    cbn [member_ok] in Hok. apply andb_true_iff in Hok as [Hitems Hnd].
    cbn [ep_image opt_list add_annos fold_left]. cbn [mem_mixins]. rewrite !app_nil_r.
    specialize (Ht _ _ eq_refl). unfold dtable. rewrite Ht.
    rewrite (items_ntypes_none ap n items _ (item_ok_no_tuple _ Hitems)).
    rewrite (ditems_closed ap n items [] _ [] Hitems); [|cbn [keys map List.app]; apply nodupb_NoDup, Hnd].
    cbn [List.app negb type_image opt_list]. unfold put_type, set_types. cbn [a_types a_parts a_long a_attrs a_eps a_mixins].
    rewrite (aset_fresh _ _ _ Ht). destruct w; reflexivity.
  - (* !enum *)
    cbn [ep_image opt_list add_annos fold_left type_image]. cbn [mem_mixins]. rewrite !app_nil_r. unfold denum. fold (valid_items items).
    destruct (valid_items items) as [|i its] eqn:Hv.
    + cbn [opt_list]. rewrite !app_nil_r. rewrite app_eta. reflexivity.
    + cbn [opt_list]. unfold put_type, set_types. rewrite (aset_fresh _ _ _ (Ht _ _ ltac:(cbn [type_image]; rewrite Hv; reflexivity))).
      reflexivity.
  - (* !alias *)
    cbn [ep_image opt_list add_annos fold_left]. cbn [mem_mixins]. rewrite !app_nil_r. cbn [member_ok] in Hok.
    specialize (Ht _ _ eq_refl). unfold dalias. cbn [type_image opt_list].
    destruct (base_type ap [n] t) as [k cs0] eqn:Hb. cbn [fst snd].
    assert (Hs : (match c with CNone => Some cs0 | _ => sized k cs0 z end)
                 = Some (match c with CNone => cs0 | _ => tsized k cs0 z end)).
    { destruct c; [reflexivity| |]; (pose proof (sized_ok ap [n] _ _ Hok) as Hs; rewrite Hb in Hs; exact Hs). }
    rewrite Hs. unfold put_type, set_types. rewrite (aset_fresh _ _ _ Ht). reflexivity.
  - (* !union *)
    cbn [ep_image opt_list add_annos fold_left]. cbn [mem_mixins]. rewrite !app_nil_r. cbn [member_ok] in Hok.
    specialize (Ht _ _ eq_refl). unfold dunion. rewrite (dunion_members_image _ _ _ Hok).
    cbn [type_image opt_list]. unfold put_type, set_types. rewrite (aset_fresh _ _ _ Ht). reflexivity.
  - (* endpoint *)
    cbn [type_image opt_list add_annos fold_left]. cbn [mem_mixins]. rewrite !app_nil_r. cbn [member_ok] in Hok.
    specialize (He _ _ eq_refl). unfold dendpoint, get_ep. rewrite He, (dparams_image _ _ Hok).
    cbn [new_ep e_attrs e_long e_doc e_pubsub e_source e_params e_rest e_stmts List.app].
    rewrite stmts_order_nesting. cbn [List.app ep_image opt_list]. unfold put_ep, set_eps. cbn [e_name].
    rewrite (aset_fresh _ _ _ He). destruct es; reflexivity.
  - (* mixin *) cbn [type_image ep_image opt_list add_annos fold_left mem_mixins]. rewrite !app_nil_r. reflexivity.
  - (* event *)
    cbn [type_image opt_list add_annos fold_left]. cbn [mem_mixins]. rewrite !app_nil_r. cbn [member_ok] in Hok.
    specialize (He _ _ eq_refl). unfold devent, get_ep. rewrite He, (dparams_image _ _ Hok).
    unfold ep_with. cbn [e_name e_attrs e_long e_doc e_pubsub e_source e_params e_rest e_stmts List.app].
    rewrite stmts_order_nesting. cbn [List.app ep_image opt_list]. unfold put_ep, set_eps. cbn [e_name].
    rewrite (aset_fresh _ _ _ He). destruct es; reflexivity.
Qed.

(* ================================================================== the members of one block *)
Lemma dmembers_fold ap k : forall ms m a, forallb sub_member ms = true -> aget k m = Some a ->
  dmembers ap k m ms = match fold_opt (amember ap) ms a with Some a' => Some (aset k a' m) | None => None end.
Proof.
  induction ms as [|mem r IH]; intros m a Hsub Ha; cbn [dmembers fold_opt forallb] in *.
  - rewrite (aset_same _ _ _ Ha). reflexivity.
  - apply andb_true_iff in Hsub as [Hm Hr]. rewrite (dmember_amember _ _ _ _ Hm). unfold upd. rewrite Ha.
    destruct (amember ap a mem) as [a1|]; [|reflexivity].
    rewrite (IH _ a1 Hr (aget_aset_eq _ _ _)). destruct (fold_opt (amember ap) r a1); [|reflexivity].
    rewrite aset_aset. reflexivity.
Qed.

Definition types_of_members ap (ms:list member) := flat_map (fun m => opt_list (type_image ap m)) ms.
Definition eps_of_members ap (ms:list member) := flat_map (fun m => opt_list (ep_image ap m)) ms.
Definition mems_effect (ap:list string) (a:app) (ms:list member) : app :=
  A (a_parts a) (a_long a) (add_annos (a_attrs a) (flat_map mem_annos ms))
    (a_types a ++ types_of_members ap ms) (a_eps a ++ eps_of_members ap ms) (a_mixins a ++ flat_map mem_mixins ms).

Lemma add_annos_app at_ l1 l2 : add_annos (add_annos at_ l1) l2 = add_annos at_ (l1 ++ l2).
Proof. unfold add_annos. rewrite fold_left_app. reflexivity. Qed.

Lemma opt_list_fresh {V} (l:list (string * V)) (o:option (string * V)) rest :
  NoDup (keys l ++ keys (opt_list o ++ rest)) ->
  (forall n v, o = Some (n, v) -> aget n l = None) /\ NoDup (keys (l ++ opt_list o) ++ keys rest).
Proof.
  destruct o as [[n v]|]; cbn [opt_list List.app]; intros H.
  - split.
    + intros n' v' [= <- <-]. eapply nodup_head_fresh. exact H.
    + apply nodup_shift. exact H.
  - split; [discriminate|]. rewrite app_nil_r. exact H.
Qed.

Lemma amembers_effect ap : forall ms a,
  forallb sub_member ms = true -> forallb member_ok ms = true ->
  NoDup (keys (a_types a) ++ keys (types_of_members ap ms)) ->
  NoDup (keys (a_eps a) ++ keys (eps_of_members ap ms)) ->
  fold_opt (amember ap) ms a = Some (mems_effect ap a ms).
Proof.
  induction ms as [|mem r IH]; intros a Hsub Hok Ht He; cbn [fold_opt forallb] in *.
  - unfold mems_effect, types_of_members, eps_of_members. cbn [flat_map add_annos fold_left]. rewrite !app_nil_r, app_eta. reflexivity.
  - apply andb_true_iff in Hsub as [Hs Hsr]. apply andb_true_iff in Hok as [Ho Hor].
    unfold types_of_members, eps_of_members in Ht, He. cbn [flat_map] in Ht, He.
    destruct (opt_list_fresh _ _ _ Ht) as [Ht1 Ht2]. destruct (opt_list_fresh _ _ _ He) as [He1 He2].
    rewrite (amember_effect ap a mem Hs Ho Ht1 He1).
    rewrite (IH (mem_effect ap a mem) Hsr Hor Ht2 He2).
    unfold mems_effect, mem_effect, types_of_members, eps_of_members. cbn [a_parts a_long a_attrs a_types a_eps a_mixins flat_map].
    rewrite add_annos_app, <- !app_assoc. reflexivity.
Qed.

(* ================================================================== one block *)
Definition blk_effect (a0:app) (b:block) : app :=
  A (b_app b) (match b_long b with Some l => l | None => a_long a0 end) (blk_attrs (a_attrs a0) b)
    (a_types a0 ++ block_types b) (a_eps a0 ++ block_eps b) (a_mixins a0 ++ block_mixins b).
Definition getapp (k:string) (m:module) : app := match aget k m with Some a => a | None => new_app [] end.
Definition tstep (m:module) (b:block) : module := aset (bkey b) (blk_effect (getapp (bkey b) m) b) m.

Lemma dblock_tstep m b :
  block_ok b = true ->
  NoDup (keys (a_types (getapp (bkey b) m)) ++ keys (block_types b)) ->
  NoDup (keys (a_eps (getapp (bkey b) m)) ++ keys (block_eps b)) ->
  dblock m b = Some (tstep m b).
Proof.
  intros Hok Ht He. unfold block_ok in Hok. apply andb_true_iff in Hok as [Hsub Hmok].
  unfold dblock, tstep, bkey, getapp in *. set (k := app_key (b_app b)) in *.
  set (a0 := match aget k m with Some a => a | None => new_app [] end) in *.
  rewrite (dmembers_fold (b_app b) k (b_members b) _ _ Hsub (aget_aset_eq _ _ _)).
  rewrite (amembers_effect (b_app b) (b_members b) _ Hsub Hmok); [|exact Ht|exact He].
  rewrite aset_aset. reflexivity.
Qed.

(* ================================================================== all blocks: grouping by application *)
Lemma memb_In x l : memb x l = true <-> In x l.
Proof.
  unfold memb. rewrite existsb_exists. split.
  - intros [y [Hy He]]. apply String.eqb_eq in He. subst. exact Hy.
  - intros H. exists x. split; [exact H|apply String.eqb_refl].
Qed.
Lemma dedup_snoc l x : dedup (l ++ [x]) = if memb x (dedup l) then dedup l else dedup l ++ [x].
Proof. unfold dedup. rewrite fold_left_app. reflexivity. Qed.
Lemma nodup_snoc {T} (l:list T) x : NoDup l -> ~ In x l -> NoDup (l ++ [x]).
Proof.
  induction l as [|y r IH]; cbn [List.app]; intros Hnd Hx.
  - constructor; [intros []|constructor].
  - inversion Hnd; subst. constructor.
    + rewrite in_app_iff. cbn [In]. intros [H|[H|[]]]; [contradiction|]. apply Hx. left. symmetry. exact H.
    + apply IH; [assumption|]. intros H. apply Hx. right. exact H.
Qed.
Lemma dedup_spec l : NoDup (dedup l) /\ forall x, In x (dedup l) <-> In x l.
Proof.
  induction l as [|x l IH] using rev_ind.
  - split; [constructor|]. intros x. reflexivity.
  - destruct IH as [Hnd Hin]. rewrite dedup_snoc. destruct (memb x (dedup l)) eqn:Hm.
    + split; [exact Hnd|]. intros y. rewrite in_app_iff, Hin. cbn [In]. apply memb_In in Hm. apply Hin in Hm.
      intuition (subst; assumption).
    + assert (Hx : ~ In x (dedup l)). { intros H. apply memb_In in H. congruence. }
      split; [apply nodup_snoc; assumption|]. intros y. rewrite !in_app_iff, Hin. reflexivity.
Qed.

Lemma aget_map_in {V} (F:string -> V) k l : In k l -> aget k (map (fun x => (x, F x)) l) = Some (F k).
Proof.
  induction l as [|x r IH]; cbn [In map aget]; [intros []|]. intros H.
  destruct (String.eqb_spec k x) as [->|Hne]; [reflexivity|]. apply IH. destruct H; [congruence|assumption].
Qed.
Lemma keys_map {V} (F:string -> V) l : keys (map (fun x => (x, F x)) l) = l.
Proof. unfold keys. rewrite map_map. cbn [fst]. apply map_id. Qed.
Lemma aset_map_in {V} (F:string -> V) k v l : NoDup l -> In k l ->
  aset k v (map (fun x => (x, F x)) l) = map (fun x => (x, if String.eqb x k then v else F x)) l.
Proof.
  induction l as [|x r IH]; cbn [In map aset]; [intros _ []|]. intros Hnd Hin. inversion Hnd as [|? ? Hx Hr]; subst.
  destruct (String.eqb_spec k x) as [->|Hne].
  - rewrite String.eqb_refl. f_equal. apply map_ext_in. intros y Hy.
    destruct (String.eqb_spec y x) as [->|_]; [contradiction|reflexivity].
  - destruct (String.eqb_spec x k) as [->|_]; [congruence|]. f_equal. apply IH; [assumption|].
    destruct Hin; [congruence|assumption].
Qed.

Definition app_after (bs:list block) (k:string) : app := fold_left blk_effect (filter (is_app k) bs) (new_app []).
Definition grouped (bs:list block) : module := map (fun k => (k, app_after bs k)) (dedup (map bkey bs)).

Lemma filter_none k bs : ~ In k (map bkey bs) -> filter (is_app k) bs = [].
Proof.
  induction bs as [|b r IH]; cbn [map In filter]; [reflexivity|]. intros H. unfold is_app at 1.
  destruct (String.eqb_spec (bkey b) k) as [Heq|_]; [tauto|]. apply IH. tauto.
Qed.

Lemma getapp_grouped bs k : getapp k (grouped bs) = app_after bs k.
Proof.
  unfold getapp, grouped. destruct (dedup_spec (map bkey bs)) as [_ Hin].
  destruct (in_dec string_dec k (map bkey bs)) as [H|H].
  - rewrite (aget_map_in (app_after bs) k); [reflexivity|]. apply Hin, H.
  - rewrite aget_notin; [|rewrite keys_map, Hin; exact H]. unfold app_after. rewrite (filter_none _ _ H). reflexivity.
Qed.

Lemma app_after_snoc bs b k :
  app_after (bs ++ [b]) k = if String.eqb k (bkey b) then blk_effect (app_after bs k) b else app_after bs k.
Proof.
  unfold app_after. rewrite filter_app, fold_left_app. cbn [filter].
  assert (He : is_app k b = String.eqb k (bkey b)) by (unfold is_app; apply String.eqb_sym).
  rewrite He. destruct (String.eqb k (bkey b)); reflexivity.
Qed.

(* interleaving is irrelevant: running the block steps over one shared module = grouping the blocks by application *)
Lemma fold_tstep_grouped : forall bs, fold_left tstep bs [] = grouped bs.
Proof.
  induction bs as [|b bs IH] using rev_ind; [reflexivity|].
  rewrite fold_left_app, IH. cbn [fold_left]. unfold tstep. rewrite getapp_grouped.
  unfold grouped at 2. rewrite map_app. cbn [map]. rewrite dedup_snoc.
  destruct (dedup_spec (map bkey bs)) as [Hnd Hin].
  destruct (memb (bkey b) (dedup (map bkey bs))) eqn:Hm.
  - apply memb_In in Hm. unfold grouped. rewrite (aset_map_in _ _ _ _ Hnd Hm). apply map_ext. intros k.
    rewrite app_after_snoc. destruct (String.eqb_spec k (bkey b)) as [->|_]; reflexivity.
  - assert (Hx : ~ In (bkey b) (dedup (map bkey bs))). { intros H. apply memb_In in H. congruence. }
    unfold grouped. rewrite aset_fresh; [|apply aget_notin; rewrite keys_map; exact Hx].
    rewrite map_app. cbn [map]. f_equal.
    + apply map_ext_in. intros k Hk. rewrite app_after_snoc.
      destruct (String.eqb_spec k (bkey b)) as [->|_]; [contradiction|reflexivity].
    + rewrite app_after_snoc, String.eqb_refl. reflexivity.
Qed.

(* the blocks of one application, as a closed formula *)
Lemma fold_blk_effect : forall bsk a,
  fold_left blk_effect bsk a =
    A (fold_left (fun _ b => b_app b) bsk (a_parts a))
      (fold_left (fun l b => match b_long b with Some x => x | None => l end) bsk (a_long a))
      (fold_left blk_attrs bsk (a_attrs a))
      (a_types a ++ flat_map block_types bsk) (a_eps a ++ flat_map block_eps bsk) (a_mixins a ++ flat_map block_mixins bsk).
Proof.
  induction bsk as [|b r IH]; intros a; cbn [fold_left flat_map].
  - rewrite !app_nil_r, app_eta. reflexivity.
  - rewrite IH. unfold blk_effect. cbn [a_parts a_long a_attrs a_types a_eps a_mixins]. rewrite <- !app_assoc. reflexivity.
Qed.
Lemma app_after_canon bs k : app_after bs k = canon_app (filter (is_app k) bs).
Proof. unfold app_after. rewrite fold_blk_effect. reflexivity. Qed.
Lemma grouped_canon bs : grouped bs = canon_blocks bs.
Proof. unfold grouped, canon_blocks. apply map_ext. intros k. rewrite app_after_canon. reflexivity. Qed.

(* ================================================================== the listener over a well-formed specification *)
Definition tkeys (k:string) (l:list block) : list string := keys (flat_map block_types (filter (is_app k) l)).
Definition ekeys (k:string) (l:list block) : list string := keys (flat_map block_eps (filter (is_app k) l)).
Definition WFp (l:list block) : Prop :=
  Forall (fun b => block_ok b = true) l /\ forall k, NoDup (tkeys k l) /\ NoDup (ekeys k l).

Lemma dblocks_app : forall l1 l2 m, dblocks m (l1 ++ l2) = match dblocks m l1 with Some m' => dblocks m' l2 | None => None end.
Proof.
  induction l1 as [|b r IH]; intros l2 m; cbn [dblocks List.app]; [reflexivity|].
  destruct (dblock m b); [apply IH|reflexivity].
Qed.

Lemma tkeys_split k bs b rest : tkeys k ((bs ++ [b]) ++ rest) =
  (tkeys k bs ++ keys (flat_map block_types (filter (is_app k) [b]))) ++ tkeys k rest.
Proof. unfold tkeys. rewrite !filter_app, !flat_map_app, !keys_app. reflexivity. Qed.
Lemma ekeys_split k bs b rest : ekeys k ((bs ++ [b]) ++ rest) =
  (ekeys k bs ++ keys (flat_map block_eps (filter (is_app k) [b]))) ++ ekeys k rest.
Proof. unfold ekeys. rewrite !filter_app, !flat_map_app, !keys_app. reflexivity. Qed.

Lemma nodup_app_l {T} (l1 l2:list T) : NoDup (l1 ++ l2) -> NoDup l1.
Proof.
  induction l1 as [|x r IH]; cbn [List.app]; intros H; [constructor|]. inversion H; subst. constructor.
  - intros Hi. apply H2. apply in_app_iff. left. exact Hi.
  - apply IH. assumption.
Qed.

Lemma listen_blocks : forall bs rest, WFp (bs ++ rest) -> dblocks [] bs = Some (grouped bs).
Proof.
  induction bs as [|b bs IH] using rev_ind; intros rest Hwf; [reflexivity|].
  rewrite dblocks_app. rewrite (IH (b :: rest)); [|rewrite <- app_assoc in Hwf; exact Hwf].
  destruct Hwf as [Hall Hk]. cbn [dblocks].
  assert (Hb : block_ok b = true).
  { rewrite Forall_forall in Hall. apply Hall. rewrite !in_app_iff. left. right. left. reflexivity. }
  destruct (Hk (bkey b)) as [Ht He]. rewrite tkeys_split in Ht. rewrite ekeys_split in He.
  apply nodup_app_l in Ht. apply nodup_app_l in He.
  assert (Hself : is_app (bkey b) b = true) by (unfold is_app; apply String.eqb_refl).
  cbn [filter] in Ht, He. rewrite Hself in Ht, He.
  cbn [flat_map] in Ht, He. rewrite app_nil_r in Ht, He.
  rewrite (dblock_tstep (grouped bs) b Hb).
  - rewrite <- fold_tstep_grouped. change (tstep (fold_left tstep bs []) b) with (fold_left tstep [b] (fold_left tstep bs [])).
    rewrite <- fold_left_app, fold_tstep_grouped. reflexivity.
  - rewrite getapp_grouped. unfold app_after. rewrite fold_blk_effect. cbn [a_types new_app List.app]. exact Ht.
  - rewrite getapp_grouped. unfold app_after. rewrite fold_blk_effect. cbn [a_eps new_app List.app]. exact He.
Qed.

Lemma wf_sub_WFp s : wf_sub s = true -> WFp (concat s).
Proof.
  unfold wf_sub. intros H. apply andb_true_iff in H as [Hall Hk]. split.
  - apply Forall_forall. rewrite forallb_forall in Hall. exact Hall.
  - intros k. destruct (dedup_spec (map bkey (concat s))) as [_ Hin].
    destruct (in_dec string_dec k (map bkey (concat s))) as [Hi|Hi].
    + rewrite forallb_forall in Hk. specialize (Hk k (proj2 (Hin k) Hi)). apply andb_true_iff in Hk as [H1 H2].
      split; apply nodupb_NoDup; assumption.
    + unfold tkeys, ekeys. rewrite (filter_none _ _ Hi). split; constructor.
Qed.

(* the listener stage: completeness and soundness in one equality *)
Theorem listen_canon : forall s, wf_sub s = true -> listen s = Some (canon s).
Proof.
  intros s H. unfold listen, canon. rewrite (listen_blocks (concat s) []); [rewrite grouped_canon; reflexivity|].
  rewrite app_nil_r. apply wf_sub_WFp, H.
Qed.

(* ================================================================== postProcess on the canonical module *)
Lemma fix_ref_stable m cur r : ref_stable m cur r = true -> fix_ref m cur r = r.
Proof.
  unfold ref_stable, fix_ref. destruct r as [ra rp]. cbn [sc_app sc_path].
  destruct ra as [|an [|? ?]]; try reflexivity. destruct rp as [|tn rest]; try reflexivity.
  destruct (String.eqb cur an); [reflexivity|]. destruct (has_type m an tn); [reflexivity|].
  destruct (has_type m cur an); [discriminate|reflexivity].
Qed.
Lemma fix_param_stable m cur t : top_ref_stable m cur t = true -> fix_param m cur t = t.
Proof.
  destruct t as [k o c a d|]; [|reflexivity]. destruct k; try reflexivity. cbn [top_ref_stable fix_param].
  intros H. rewrite (fix_ref_stable _ _ _ H). reflexivity.
Qed.
Lemma fix_top_stable m cur t : top_ref_stable m cur t = true -> fix_top m cur t = t.
Proof.
  destruct t as [k o c a d|]; [|reflexivity]. destruct k; try reflexivity. cbn [top_ref_stable fix_top].
  intros H. rewrite (fix_ref_stable _ _ _ H).
  repeat (match goal with |- context [match ?x with _ => _ end] => destruct x end); reflexivity.
Qed.
Lemma mapv_id {V} (f:V -> V) (l:list (string * V)) : (forall kv, In kv l -> f (snd kv) = snd kv) -> mapv f l = l.
Proof.
  induction l as [|[k v] r IH]; intros H; [reflexivity|]. unfold mapv in *. cbn [map fst snd]. f_equal.
  - f_equal. apply (H (k, v)). left. reflexivity.
  - apply IH. intros kv Hi. apply H. right. exact Hi.
Qed.
Lemma fix_type_stable m cur t : type_refs_stable m cur t = true -> fix_type m cur t = t.
Proof.
  destruct t as [k o c a d|]; [|reflexivity]. destruct k; try reflexivity; cbn [type_refs_stable fix_type]; intros H;
    rewrite forallb_forall in H; rewrite mapv_id; try reflexivity; intros kv Hi; apply fix_top_stable, H, Hi.
Qed.
Lemma aget_In {V} k (m:list (string * V)) v : aget k m = Some v -> In (k, v) m.
Proof.
  induction m as [|[k' v'] r IH]; cbn [aget In]; [discriminate|].
  destruct (String.eqb_spec k k') as [->|_]; [intros [= ->]; left; reflexivity|]. intros H. right. apply IH, H.
Qed.

Lemma post_app_id m k : no_rescope m = true -> no_mixins m = true -> no_collector m = true -> post_app m k = Some m.
Proof.
  intros Hs Hm Hc. unfold post_app. destruct (aget k m) as [a|] eqn:Ha; [|reflexivity].
  pose proof (aget_In _ _ _ Ha) as Hin.
  unfold no_rescope in Hs. rewrite forallb_forall in Hs. specialize (Hs _ Hin). cbn [fst snd] in Hs.
  apply andb_true_iff in Hs as [Hty Hep]. rewrite forallb_forall in Hty, Hep.
  unfold no_mixins in Hm. rewrite forallb_forall in Hm. specialize (Hm _ Hin). cbn [snd] in Hm.
  unfold no_collector in Hc. rewrite forallb_forall in Hc. specialize (Hc _ Hin). cbn [snd] in Hc.
  destruct (a_mixins a) eqn:Hmx; [|discriminate]. cbn [fold_left].
  assert (He : mapv (fun e => E (e_name e) (e_long e) (e_doc e) (e_attrs e) (e_pubsub e) (e_source e)
                                 (mapv (fix_param m k) (e_params e)) (e_rest e) (e_stmts e)) (a_eps a) = a_eps a).
  { apply mapv_id. intros ke Hi. specialize (Hep _ Hi). rewrite forallb_forall in Hep.
    rewrite mapv_id; [destruct (snd ke); reflexivity|]. intros p Hp. apply fix_param_stable, Hep, Hp. }
  rewrite He.
  assert (Hsame : set_types (set_eps a (a_eps a)) (a_types a) = a) by (destruct a; reflexivity).
  rewrite Hsame, (aset_same _ _ _ Ha), Ha.
  rewrite mapv_id; [|intros kt Hi; apply fix_type_stable, Hty, Hi].
  assert (Hsame2 : set_types a (a_types a) = a) by (destruct a; reflexivity).
  rewrite Hsame2, (aset_same _ _ _ Ha), Ha. unfold collect_app.
  destruct (aget collector_name (a_eps a)); [discriminate|]. rewrite (aset_same _ _ _ Ha). reflexivity.
Qed.
Lemma post_id m : no_rescope m = true -> no_mixins m = true -> no_collector m = true -> post m = Some m.
Proof.
  intros Hs Hm Hc. unfold post. induction (sort_strings (keys m)) as [|k r IH]; cbn [fold_opt]; [reflexivity|].
  rewrite (post_app_id _ _ Hs Hm Hc). exact IH.
Qed.

(* C02 on the sub-language: for every well-formed specification in which postProcess re-scopes no reference, the
   compiled module IS the declarative reading - nothing declared is missing or altered, nothing undeclared appears *)
Theorem denote_canon : forall s,
  wf_sub s = true -> no_mixins (canon s) = true -> no_rescope (canon s) = true -> no_collector (canon s) = true ->
  denote s = Some (canon s).
Proof.
  intros s Hwf Hm Hs Hc. unfold denote. rewrite (listen_canon s Hwf), (post_id _ Hs Hm Hc). reflexivity.
Qed.

(* non-vacuity: two applications in four interleaved blocks, a table with a key and an optional sequence of a
   cross-application reference, an enum with a value >= 2^16, an alias, a union, endpoints with parameters,
   attributes and nested statements with an else-branch of five statements *)
Definition sample_spec : spec :=
  [[Bk ["Ns"; "A"] (Some "the A") [ETag "db"; ENvp "owner" (AS "x")]
      [MType true "T" [ETag "t1"] false
         [TField (Fd "id" false CNone (XNative NInt64) ZNone false [ETag "pk"] [] None);
          TAnno (An "note" (NQ "hello"));
          TField (Fd "refs" false CSeq (XRef ["B"] ["U"]) ZNone true [] [] (Some "doc"));
          TField (Fd "name" false CNone (XNative NString) (ZSize 40 None) false [] [] None)];
       MEndpoint "Get" (Some "get it") [Fd "key" false CNone (XLocal "T") ZNone true [] [] None] [ETag "ro"] []
         [XBlock BIf "x" [XAction [] "a"]; XBlock BElse "" [XAction [] "1"; XAction [] "2"; XAction [] "3"; XAction [] "4"; XRet "ok <: T"]]];
    Bk ["B"] None [] [MEnum "Colour" [] [] [("red", 1%Z); ("big", 70000%Z)]; MType false "U" [] false []];
    Bk ["Ns"; "A"] None [ETag "v2"] [MAnno (An "team" (NArr (AA [AS "a"; AS "b"]))); MAlias "Ids" [] [] CSet (XNative NInt) (ZArr 1 (Some 9%Z));
                                     MEndpoint "Put" None [] [] [An "d" (NMulti [" line one"; " line two"])] [XCall [] None "Get" (Some ["x"])]];
    Bk ["B"] (Some "the B") [] [MUnion "Either" [] [] [Um CNone (XLocal "U") ZNone; Um CSeq (XNative NDecimal) (ZSize 9 (Some 2%Z))]]]].

Example denote_canon_nonvacuous :
  wf_sub sample_spec = true /\ no_mixins (canon sample_spec) = true /\ no_rescope (canon sample_spec) = true /\
  no_collector (canon sample_spec) = true /\
  keys (canon sample_spec) = ["Ns :: A"; "B"] /\
  match aget "Ns :: A" (canon sample_spec) with
  | Some a => keys (a_types a) = ["T"; "Ids"] /\ keys (a_eps a) = ["Get"; "Put"] /\ a_long a = "the A"
  | None => False
  end.
Proof. vm_compute. repeat split; reflexivity. Qed.

(* the hypotheses are needed: a type declared twice in one application is outside wf_sub *)
Example wf_sub_rejects_redeclared :
  wf_sub [[Bk ["A"] None [] [MType true "T" [] false []]; Bk ["A"] None [] [MEnum "T" [] [] [("a", 1%Z)]]]] = false.
Proof. reflexivity. Qed.
