(* C08 - proofs about the model Loc/Model.v. *)
From Coq Require Import List NArith PArith Bool Lia Arith.
Import ListNotations.
Require Import Verif.Loc.Model.
Local Open Scope N_scope.

(* ---------- where the renderer wrote an item: read off the text structure, independently of ANTLR's counting ---------- *)

(* the o-th item of a line with the number of characters in front of it *)
Fixpoint locate_line (l : line) (o : nat) (col : N) : option (N * item) :=
  match l, o with
  | [], _ => None
  | it :: _, O => Some (col, it)
  | it :: r, Datatypes.S o' => locate_line r o' (col + item_w it)
  end.

(* the o-th item of a text: zero-based index of its line, characters in front of it on that line, the item *)
Fixpoint locate (ls : list line) (o : nat) (ln : N) : option (N * N * item) :=
  match ls with
  | [] => None
  | l :: r => if (o <? length l)%nat
              then match locate_line l o 0 with Some (c, it) => Some (ln, c, it) | None => None end
              else locate r (o - length l) (ln + 1)
  end.

Definition written_at (ls : list line) (o : N) : option (N * N * item) := locate ls (N.to_nat o) 0.

Definition line_width (l : line) : N := fold_right (fun i a => item_w i + a) 0 l.

(* (ln, c) is a character position of the text *)
Definition in_file (ls : list line) (ln c : N) : bool :=
  match nth_error ls (N.to_nat ln) with Some l => c <? line_width l | None => false end.

(* ---------- ANTLR's positions agree with the text structure ---------- *)

Lemma pos_line_length dl ln col l : length (pos_line dl ln col l) = length l.
Proof. revert col. induction l as [|[w len|] l IH]; intros col; cbn [pos_line length]; [reflexivity| |]; rewrite IH; reflexivity. Qed.

Lemma nth_pos_line dl ln : forall l o col c w len,
  locate_line l o col = Some (c, R w len) ->
  nth o (pos_line dl ln col l) dtok = {| pline := ln; pcol := c; plen := len |}.
Proof.
  induction l as [|it l IH]; intros o col c w len H; [destruct o; discriminate|].
  destruct o as [|o].
  - cbn [locate_line] in H. injection H as <- ->. reflexivity.
  - cbn [locate_line] in H. destruct it as [w' len'|]; cbn [pos_line nth item_w] in *.
    + eapply IH; eassumption.
    + rewrite N.add_0_r in H. eapply IH; eassumption.
Qed.

Lemma nth_pos_lines dl : forall ls o ln0 ln c w len,
  locate ls o ln0 = Some (ln, c, R w len) ->
  nth o (pos_lines dl (ln0 + 1) ls) dtok = {| pline := ln + 1; pcol := c; plen := len |}.
Proof.
  induction ls as [|l ls IH]; intros o ln0 ln c w len H; [discriminate|].
  cbn [locate] in H. cbn [pos_lines].
  destruct (Nat.ltb_spec o (length l)) as [Hlt|Hge].
  - destruct (locate_line l o 0) as [[c' it]|] eqn:E; [|discriminate].
    injection H as <- <- ->.
    rewrite app_nth1 by (rewrite pos_line_length; exact Hlt).
    eapply nth_pos_line; eassumption.
  - rewrite app_nth2 by (rewrite pos_line_length; exact Hge).
    rewrite pos_line_length. eapply IH; eassumption.
Qed.

(* start of a context as sourceCtxHelper.get computes it from the first token *)
Definition start_of (toks : list ptok) (o : N) : loc :=
  {| lline := pline (tok_at toks o) - 1; lcol := pcol (tok_at toks o) |}.

(* ANTLR counts lines from 1 and get subtracts 1: together, the zero-based line and the characters in front *)
Lemma start_of_written dl ls o ln c w len :
  written_at ls o = Some (ln, c, R w len) ->
  start_of (positions dl ls) o = {| lline := ln; lcol := c |}.
Proof.
  intros H. unfold start_of, tok_at, positions.
  change 1 with (0 + 1). erewrite nth_pos_lines by exact H. cbn [pline pcol]. f_equal. lia.
Qed.

Lemma locate_line_bound : forall l o col c it,
  locate_line l o col = Some (c, it) -> col <= c /\ c + item_w it <= col + line_width l.
Proof.
  induction l as [|i l IH]; intros o col c it H; [destruct o; discriminate|].
  destruct o as [|o]; cbn [locate_line] in H; cbn [line_width fold_right]; fold (line_width l).
  - injection H as <- <-. lia.
  - apply IH in H. lia.
Qed.

Lemma locate_inside : forall ls o ln0 ln c it,
  locate ls o ln0 = Some (ln, c, it) ->
  exists j l, ln = ln0 + N.of_nat j /\ nth_error ls j = Some l /\ c + item_w it <= line_width l.
Proof.
  induction ls as [|l ls IH]; intros o ln0 ln c it H; [discriminate|].
  cbn [locate] in H. destruct (o <? length l)%nat.
  - destruct (locate_line l o 0) as [[c' it']|] eqn:E; [|discriminate]. injection H as <- <- <-.
    exists O, l. apply locate_line_bound in E. cbn. split; [lia|]. split; [reflexivity|lia].
  - apply IH in H. destruct H as (j & l' & -> & Hn & Hw). exists (Datatypes.S j), l'. cbn [nth_error].
    split; [lia|]. split; assumption.
Qed.

Lemma written_inside ls o ln c w len :
  written_at ls o = Some (ln, c, R w len) -> 0 < w -> in_file ls ln c = true.
Proof.
  intros H Hw. apply locate_inside in H. destruct H as (j & l & -> & Hn & Hl). cbn [item_w] in Hl.
  unfold in_file. rewrite N.add_0_l, Nat2N.id, Hn. apply N.ltb_lt. lia.
Qed.

(* ---------- the listener records exactly one context per declaration, in order, starting at its first token ---------- *)

(* the declarations that record a context: key, ordinal of first token, kind, ordinal of the stop token - in the order
   the listener meets them *)
Record dcl := { dk_key : N; dk_first : N; dk_kind : N; dk_last : N }.
Fixpoint decls (n : pnode) : list dcl :=
  match n with
  | P k key first last tlen attrs kids =>
      (if attr_before k then flat_map decls attrs else [])
      ++ (if has_own k then [{| dk_key := key; dk_first := first; dk_kind := k; dk_last := last |}] else [])
      ++ (if attr_after k then flat_map decls attrs else [])
      ++ flat_map decls kids
      ++ (if attr_last k then flat_map decls attrs else [])
  end.

Definition key_start (e : entry) : N * loc := (ekey e, cstart (ectx e)).
Definition want (toks : list ptok) (d : dcl) : N * loc := (dk_key d, start_of toks (dk_first d)).

Section pnode_induction.
  Variable Pn : pnode -> Prop.
  Hypothesis Hn : forall k key f l t attrs kids, Forall Pn attrs -> Forall Pn kids -> Pn (P k key f l t attrs kids).
  Fixpoint pnode_ind2 (n : pnode) : Pn n :=
    match n with
    | P k key f l t attrs kids =>
        Hn k key f l t attrs kids
           ((fix go (ns : list pnode) : Forall Pn ns :=
               match ns with [] => Forall_nil _ | m :: r => Forall_cons m (pnode_ind2 m) (go r) end) attrs)
           ((fix go (ns : list pnode) : Forall Pn ns :=
               match ns with [] => Forall_nil _ | m :: r => Forall_cons m (pnode_ind2 m) (go r) end) kids)
    end.
End pnode_induction.

Lemma flat_app a b : flat (a ++ b) = flat a ++ flat b.
Proof. unfold flat. apply flat_map_app. Qed.

Lemma flat_cons r rs : flat (r :: rs) = flat1 r ++ flat rs.
Proof. reflexivity. Qed.

Lemma key_start_set_own le r : map key_start (flat1 (set_own_end le r)) = map key_start (flat1 r).
Proof. unfold flat1, set_own_end. cbn. destruct (w_own r); rewrite !map_app; reflexivity. Qed.

Lemma key_start_fix_last le : forall rs, map key_start (flat (fix_last le rs)) = map key_start (flat rs).
Proof.
  induction rs as [|r rs IH]; [reflexivity|]. cbn [fix_last].
  destruct (existsb w_stmt rs).
  - rewrite !flat_cons, !map_app, IH. reflexivity.
  - destruct (w_stmt r); [|reflexivity]. rewrite !flat_cons, !map_app, key_start_set_own. reflexivity.
Qed.

Lemma thread_key_start file toks : forall ns,
  Forall (fun m => forall le, map key_start (flat1 (snd (walk file toks m le))) = map (want toks) (decls m)) ns ->
  forall le, map key_start (flat (snd (thread (walk file toks) ns le))) = map (want toks) (flat_map decls ns).
Proof.
  induction 1 as [|m r Hm Hr IH]; intros le; [reflexivity|].
  cbn [thread]. specialize (Hm le). destruct (walk file toks m le) as [le1 r1]. specialize (IH le1).
  fold (thread (walk file toks)). destruct (thread (walk file toks) r le1) as [le2 rs].
  cbn [snd] in *. cbn [flat_map]. rewrite flat_cons, !map_app, Hm, IH. reflexivity.
Qed.

Lemma own_ctx_start file toks k f l t : cstart (own_ctx file toks k f l t) = start_of toks f.
Proof. unfold own_ctx. destruct (k =? kText); reflexivity. Qed.

Theorem walk_key_start file toks : forall n le,
  map key_start (flat1 (snd (walk file toks n le))) = map (want toks) (decls n).
Proof.
  induction n as [k key f l t attrs kids Ha Hk] using pnode_ind2. intros le.
  pose proof (thread_key_start file toks attrs Ha) as TA.
  pose proof (thread_key_start file toks kids Hk) as TK.
  cbn [walk decls].
  assert (E1 : forall le, exists le1 pre,
    (if attr_before k then thread (walk file toks) attrs le else (le, [])) = (le1, pre) /\
    map key_start (flat pre) = map (want toks) (if attr_before k then flat_map decls attrs else [])).
  { intros le0. destruct (attr_before k).
    - specialize (TA le0). destruct (thread (walk file toks) attrs le0) as [a b]. eauto.
    - eauto. }
  assert (E2 : forall le, exists le1 pre,
    (if attr_after k then thread (walk file toks) attrs le else (le, [])) = (le1, pre) /\
    map key_start (flat pre) = map (want toks) (if attr_after k then flat_map decls attrs else [])).
  { intros le0. destruct (attr_after k).
    - specialize (TA le0). destruct (thread (walk file toks) attrs le0) as [a b]. eauto.
    - eauto. }
  assert (E3 : forall le, exists le1 pre,
    (if attr_last k then thread (walk file toks) attrs le else (le, [])) = (le1, pre) /\
    map key_start (flat pre) = map (want toks) (if attr_last k then flat_map decls attrs else [])).
  { intros le0. destruct (attr_last k).
    - specialize (TA le0). destruct (thread (walk file toks) attrs le0) as [a b]. eauto.
    - eauto. }
  destruct (E1 le) as (le1 & pre & -> & P1).
  set (own := own_ctx file toks k f l t).
  set (le2 := if has_own k then cend own else le1).
  destruct (E2 le2) as (le3 & mid & -> & P2).
  specialize (TK le3). destruct (thread (walk file toks) kids le3) as [le4 krs]. cbn [snd] in TK.
  destruct (E3 le4) as (le5 & post & -> & P3).
  cbn [snd]. unfold flat1. cbn [w_pre w_own w_post]. rewrite !map_app, P1, P2, P3.
  assert (K : map key_start (flat (if is_scope k then fix_last le4 krs else krs)) = map (want toks) (flat_map decls kids)).
  { destruct (is_scope k); [rewrite key_start_fix_last|]; exact TK. }
  rewrite K. f_equal. f_equal.
  destruct (has_own k); [|reflexivity]. cbn [opt_list map]. unfold key_start, want. cbn [ekey ectx fst snd].
  destruct (fix_end k); cbn [set_cend cstart]; subst own; rewrite ?own_ctx_start; reflexivity.
Qed.

Lemma walk_list_key_start file toks ns le :
  map key_start (flat (snd (walk_list file toks ns le))) = map (want toks) (flat_map decls ns).
Proof.
  unfold walk_list. apply thread_key_start. apply Forall_forall. intros m _ le0. apply walk_key_start.
Qed.

Lemma own_tag file toks k key f l t (b1 b2 : bool) le :
  Forall (fun e => cfile (ectx e) = file)
    (opt_list (if b1 then Some {| ekey := key; ekind := k; ectx := if b2 then set_cend le (own_ctx file toks k f l t) else own_ctx file toks k f l t |} else None)).
Proof.
  destruct b1; cbn [opt_list]; [|apply Forall_nil]. apply Forall_cons; [|apply Forall_nil].
  cbn [ectx]. unfold own_ctx. destruct b2, (k =? kText); reflexivity.
Qed.

Lemma walk_file_tag file toks : forall n le, Forall (fun e => cfile (ectx e) = file) (flat1 (snd (walk file toks n le))).
Proof.
  induction n as [k key f l t attrs kids Ha Hk] using pnode_ind2. intros le.
  assert (T : forall ns, Forall (fun m => forall le, Forall (fun e => cfile (ectx e) = file) (flat1 (snd (walk file toks m le)))) ns ->
              forall le, Forall (fun e => cfile (ectx e) = file) (flat (snd (thread (walk file toks) ns le)))).
  { induction 1 as [|m r Hm Hr IH]; intros le0; [constructor|].
    cbn [thread]. specialize (Hm le0). destruct (walk file toks m le0) as [le1 r1]. specialize (IH le1).
    fold (thread (walk file toks)). destruct (thread (walk file toks) r le1) as [le2 rs].
    cbn [snd] in *. rewrite flat_cons. apply Forall_app. split; assumption. }
  assert (FL : forall le rs, Forall (fun e => cfile (ectx e) = file) (flat rs) -> Forall (fun e => cfile (ectx e) = file) (flat (fix_last le rs))).
  { intros le0. induction rs as [|r rs IH]; intros H; [constructor|]. cbn [fix_last].
    rewrite flat_cons in H. apply Forall_app in H. destruct H as [H1 H2].
    destruct (existsb w_stmt rs).
    - rewrite flat_cons. apply Forall_app. split; [exact H1|apply IH; exact H2].
    - destruct (w_stmt r); rewrite flat_cons; apply Forall_app; split; try assumption.
      unfold flat1, set_own_end in *. cbn. apply Forall_app in H1. destruct H1 as [A B]. apply Forall_app in B. destruct B as [B C].
      apply Forall_app. split; [exact A|]. apply Forall_app. split; [|exact C].
      revert B. destruct (w_own r) as [e|]; intros B; [|constructor]. inversion B; subst. constructor; [|constructor]. cbn. first [assumption|reflexivity]. }
  pose proof (T attrs Ha) as TA. pose proof (T kids Hk) as TK.
  assert (E : forall (b : bool) le, exists le1 pre,
    (if b then thread (walk file toks) attrs le else (le, [])) = (le1, pre) /\
    Forall (fun e => cfile (ectx e) = file) (flat pre)).
  { intros b le0. destruct b.
    - specialize (TA le0). destruct (thread (walk file toks) attrs le0) as [x y]. eauto.
    - exists le0, []. split; [reflexivity|constructor]. }
  cbn [walk].
  destruct (E (attr_before k) le) as (le1 & pre & -> & X1).
  set (own := own_ctx file toks k f l t). set (le2 := if has_own k then cend own else le1).
  destruct (E (attr_after k) le2) as (le3 & mid & -> & X2).
  pose proof (TK le3) as X3. destruct (thread (walk file toks) kids le3) as [le4 krs]. cbn [snd] in X3.
  destruct (E (attr_last k) le4) as (le5 & post & -> & X4).
  cbn [snd]. unfold flat1. cbn [w_pre w_own w_post].
  apply Forall_app; split; [exact X1|]. apply Forall_app; split; [subst own; apply own_tag|].
  apply Forall_app; split; [exact X2|]. apply Forall_app; split; [|exact X4].
  destruct (is_scope k); [apply FL|]; exact X3.
Qed.

(* ---------- the whole module: one context per declaration, in declaration order, in the declaring file ---------- *)

Record drec := { d_key : N; d_file : N; d_lines : list line; d_dl : N; d_first : N; d_kind : N; d_last : N }.

(* every declaration that records a context, file by file in the order the files are compiled *)
Fixpoint declarations_from (idx : N) (fs : list file) : list drec :=
  match fs with
  | [] => []
  | f :: r => map (fun d => {| d_key := dk_key d; d_file := idx; d_lines := f_lines f; d_dl := f_dl f; d_first := dk_first d;
                               d_kind := dk_kind d; d_last := dk_last d |})
                  (flat_map decls (f_forest f))
              ++ declarations_from (idx + 1) r
  end.
Definition declarations (fs : list file) : list drec := declarations_from 0 fs.

Definition triple (e : entry) : N * N * loc := (ekey e, cfile (ectx e), cstart (ectx e)).
Definition dtriple (d : drec) : N * N * loc := (d_key d, d_file d, start_of (positions (d_dl d) (d_lines d)) (d_first d)).

Lemma triple_tag idx toks : forall es ds,
  Forall (fun e => cfile (ectx e) = idx) es -> map key_start es = map (want toks) ds ->
  map triple es = map (fun d => (dk_key d, idx, start_of toks (dk_first d))) ds.
Proof.
  induction es as [|e es IH]; intros [|d ds] HF HM; try discriminate; [reflexivity|].
  inversion HF as [|? ? Hc Hr]; subst. cbn [map] in *. unfold key_start at 1, want at 1 in HM.
  inversion HM as [[Q1 Q2 Q3]].
  rewrite (IH ds Hr Q3). unfold triple. rewrite Q1, Q2. reflexivity.
Qed.

Lemma compile_from_triples : forall fs idx le, map triple (compile_from idx fs le) = map dtriple (declarations_from idx fs).
Proof.
  induction fs as [|f fs IH]; intros idx le; [reflexivity|].
  cbn [compile_from declarations_from].
  pose proof (walk_list_key_start idx (positions (f_dl f) (f_lines f)) (f_forest f) le) as K.
  assert (T : Forall (fun e => cfile (ectx e) = idx) (flat (snd (walk_list idx (positions (f_dl f) (f_lines f)) (f_forest f) le)))).
  { unfold walk_list. generalize (f_forest f) le. induction l as [|m r IHr]; intros le0; [constructor|].
    cbn [thread]. pose proof (walk_file_tag idx (positions (f_dl f) (f_lines f)) m le0) as Hm.
    destruct (walk idx (positions (f_dl f) (f_lines f)) m le0) as [le1 r1]. specialize (IHr le1).
    fold (thread (walk idx (positions (f_dl f) (f_lines f)))). destruct (thread (walk idx (positions (f_dl f) (f_lines f))) r le1) as [le2 rs].
    cbn [snd] in *. rewrite flat_cons. apply Forall_app. split; assumption. }
  destruct (walk_list idx (positions (f_dl f) (f_lines f)) (f_forest f) le) as [le1 rs]. cbn [snd] in *.
  rewrite !map_app, IH. f_equal. rewrite (triple_tag idx _ _ _ T K), map_map. reflexivity.
Qed.

(* HEADLINE 1+4 (list form): the contexts of the compiled module are, in order, one per declaration, each in the
   declaring file and starting where sourceCtxHelper.get puts the declaration's first token *)
(* the listener state spelled out: the helper is replaced for every file, lastEnd is threaded *)
Lemma compile_st_eq : forall fs idx st, compile_st idx fs st = compile_from idx fs (l_lastEnd st).
Proof.
  induction fs as [|f fs IH]; intros idx st; [reflexivity|].
  cbn [compile_st compile_from switch_file l_sc l_lastEnd h_file].
  destruct (walk_list idx (positions (f_dl f) (f_lines f)) (f_forest f) (l_lastEnd st)) as [le1 rs].
  rewrite IH. reflexivity.
Qed.

Lemma compile_eq fs : compile fs = compile_from 0 fs loc0.
Proof. unfold compile. rewrite compile_st_eq. reflexivity. Qed.

Theorem compile_triples fs : map triple (compile fs) = map dtriple (declarations fs).
Proof. rewrite compile_eq. apply compile_from_triples. Qed.

Lemma map_eq_Forall2 {A B C} (f : A -> C) (g : B -> C) : forall l l', map f l = map g l' -> Forall2 (fun a b => f a = g b) l l'.
Proof. induction l as [|a l IH]; intros [|b l'] H; try discriminate; constructor; injection H; auto. Qed.

Lemma Forall2_weaken {A B} (P Q : A -> B -> Prop) (H : forall a b, P a b -> Q a b) : forall l l', Forall2 P l l' -> Forall2 Q l l'.
Proof. induction 1; constructor; auto. Qed.

(* HEADLINE loc_start_exact + loc_inside_file: for EVERY text (all layouts: any lines of any items) and every
   declaration forest, the k-th context of the module belongs to the k-th declaration, names its file, starts exactly
   at the zero-based line and character column where the declaration's first token stands in the text, and that
   position lies inside the file *)
Theorem loc_start_exact fs :
  Forall2 (fun e d =>
             ekey e = d_key d /\ cfile (ectx e) = d_file d /\
             forall ln c w len, written_at (d_lines d) (d_first d) = Some (ln, c, R w len) ->
               cstart (ectx e) = {| lline := ln; lcol := c |} /\ (0 < w -> in_file (d_lines d) ln c = true))
          (compile fs) (declarations fs).
Proof.
  pose proof (map_eq_Forall2 _ _ _ _ (compile_triples fs)) as H.
  eapply Forall2_weaken; [|exact H]. intros e d E. unfold triple, dtriple in E. injection E as E1 E2 E3.
  split; [exact E1|]. split; [exact E2|]. intros ln c w len W. rewrite E3. split.
  - eapply start_of_written; exact W.
  - intros Hw. eapply written_inside; eassumption.
Qed.

Lemma filter_map_comm {A B} (f : A -> B) (p : B -> bool) : forall l, filter p (map f l) = map f (filter (fun a => p (f a)) l).
Proof. induction l as [|a l IH]; [reflexivity|]. cbn. destruct (p (f a)); cbn; rewrite IH; reflexivity. Qed.

(* HEADLINE decl_count: an element declared n times carries exactly n contexts, in declaration order, each starting at
   its declaration *)
Theorem decl_count fs k :
  map (fun c => (cfile c, cstart c)) (contexts_of k (compile fs))
  = map (fun d => (d_file d, start_of (positions (d_dl d) (d_lines d)) (d_first d)))
        (filter (fun d => d_key d =? k) (declarations fs)).
Proof.
  unfold contexts_of. rewrite map_map.
  transitivity (map (fun t : N * N * loc => (snd (fst t), snd t)) (filter (fun t => fst (fst t) =? k) (map triple (compile fs)))).
  - rewrite filter_map_comm, map_map. reflexivity.
  - rewrite compile_triples, filter_map_comm, map_map. reflexivity.
Qed.

Corollary decl_count_length fs k :
  length (contexts_of k (compile fs)) = length (filter (fun d => d_key d =? k) (declarations fs)).
Proof.
  pose proof (f_equal (@length _) (decl_count fs k)) as H. rewrite !map_length in H. exact H.
Qed.

(* ---------- end is never before start ---------- *)

Definition loc_le (a b : loc) : Prop := lline a < lline b \/ (lline a = lline b /\ lcol a <= lcol b).

Lemma loc_le_trans a b c : loc_le a b -> loc_le b c -> loc_le a c.
Proof. unfold loc_le. lia. Qed.

Definition is_real (ls : list line) (o : N) : bool :=
  match written_at ls o with Some (_, _, R _ _) => true | _ => false end.
Definition is_valid (ls : list line) (o : N) : bool :=
  match written_at ls o with Some _ => true | None => false end.

Definition first_of (n : pnode) : N := match n with P _ _ f _ _ _ _ => f end.

(* siblings stand in text order: each is checked against the first token of the one before it *)
Definition chain {A} (wf : N -> A -> bool) (fst_of : A -> N) : N -> list A -> bool :=
  fix go (b : N) (ns : list A) {struct ns} : bool :=
    match ns with [] => true | m :: r => wf b m && go (fst_of m) r end.

(* a declaration tree fits the text: every rule starts at a real token at or after the start of its parent and of
   its elder siblings, and ends at a token (real or DEDENT) not before its start *)
Fixpoint wfb (ls : list line) (b : N) (n : pnode) {struct n} : bool :=
  match n with
  | P k key f l t attrs kids =>
      (b <=? f) && (f <=? l) && is_real ls f && is_valid ls l
      && chain (wfb ls) first_of f attrs && chain (wfb ls) first_of f kids
  end.

Definition wf_file (f : file) : bool := chain (wfb (f_lines f)) first_of 0 (f_forest f).

Definition endp (toks : list ptok) (o : N) : loc :=
  {| lline := pline (tok_at toks o) - 1; lcol := pcol (tok_at toks o) + plen (tok_at toks o) |}.

Lemma nth_pos_line_any dl ln : forall l o col c it,
  locate_line l o col = Some (c, it) ->
  pline (nth o (pos_line dl ln col l) dtok) = ln /\ c <= pcol (nth o (pos_line dl ln col l) dtok).
Proof.
  induction l as [|i l IH]; intros o col c it H; [destruct o; discriminate|].
  destruct o as [|o]; cbn [locate_line] in H.
  - injection H as <- <-. destruct i; cbn; split; try reflexivity; lia.
  - destruct i as [w len|]; cbn [pos_line nth item_w] in *.
    + eapply IH; eassumption.
    + rewrite N.add_0_r in H. eapply IH; eassumption.
Qed.

Lemma nth_pos_lines_any dl : forall ls o ln0 ln c it,
  locate ls o ln0 = Some (ln, c, it) ->
  pline (nth o (pos_lines dl (ln0 + 1) ls) dtok) = ln + 1 /\ c <= pcol (nth o (pos_lines dl (ln0 + 1) ls) dtok).
Proof.
  induction ls as [|l ls IH]; intros o ln0 ln c it H; [discriminate|].
  cbn [locate] in H. cbn [pos_lines].
  destruct (Nat.ltb_spec o (length l)) as [Hlt|Hge].
  - destruct (locate_line l o 0) as [[c' it']|] eqn:E; [|discriminate]. injection H as <- <- <-.
    rewrite app_nth1 by (rewrite pos_line_length; exact Hlt). eapply nth_pos_line_any; eassumption.
  - rewrite app_nth2 by (rewrite pos_line_length; exact Hge). rewrite pos_line_length. eapply IH; eassumption.
Qed.

Lemma locate_line_mono : forall l o1 o2 col c1 i1 c2 i2, (o1 <= o2)%nat ->
  locate_line l o1 col = Some (c1, i1) -> locate_line l o2 col = Some (c2, i2) -> c1 <= c2.
Proof.
  induction l as [|i l IH]; intros o1 o2 col c1 i1 c2 i2 Hle H1 H2; [destruct o1; discriminate|].
  destruct o1 as [|o1], o2 as [|o2]; cbn [locate_line] in *; try lia.
  - injection H1 as <- <-. injection H2 as <- <-. lia.
  - injection H1 as <- <-. apply locate_line_bound in H2. lia.
  - eapply IH; [|eassumption|eassumption]. lia.
Qed.

Lemma locate_mono : forall ls o1 o2 ln0 l1 c1 i1 l2 c2 i2, (o1 <= o2)%nat ->
  locate ls o1 ln0 = Some (l1, c1, i1) -> locate ls o2 ln0 = Some (l2, c2, i2) ->
  l1 < l2 \/ (l1 = l2 /\ c1 <= c2).
Proof.
  induction ls as [|l ls IH]; intros o1 o2 ln0 l1 c1 i1 l2 c2 i2 Hle H1 H2; [discriminate|].
  cbn [locate] in *.
  destruct (Nat.ltb_spec o1 (length l)) as [A|A], (Nat.ltb_spec o2 (length l)) as [B|B]; try lia.
  - destruct (locate_line l o1 0) as [[a1 b1]|] eqn:E1; [|discriminate].
    destruct (locate_line l o2 0) as [[a2 b2]|] eqn:E2; [|discriminate].
    injection H1 as <- <- <-. injection H2 as <- <- <-. right. split; [reflexivity|]. exact (locate_line_mono l o1 o2 0 _ _ _ _ Hle E1 E2).
  - destruct (locate_line l o1 0) as [[a1 b1]|] eqn:E1; [|discriminate]. injection H1 as <- <- <-.
    apply locate_inside in H2. destruct H2 as (j & l' & -> & _). left. lia.
  - eapply IH; [|eassumption|eassumption]. lia.
Qed.

Section ends.
  Variable dl : N.
  Variable ls : list line.
  Variable file : N.
  Let toks := positions dl ls.

  Definition G (o : N) (le : loc) : Prop := loc_le (start_of toks o) le.

  Lemma real_valid o : is_real ls o = true -> is_valid ls o = true.
  Proof. unfold is_real, is_valid. destruct (written_at ls o) as [[[? ?] ?]|]; [reflexivity|discriminate]. Qed.

  (* a real token never starts after a later token of the text *)
  Lemma start_le_pos o1 o2 : is_real ls o1 = true -> is_valid ls o2 = true -> o1 <= o2 ->
    lline (start_of toks o1) < pline (tok_at toks o2) - 1 \/
    (lline (start_of toks o1) = pline (tok_at toks o2) - 1 /\ lcol (start_of toks o1) <= pcol (tok_at toks o2)).
  Proof.
    unfold is_real, is_valid, written_at. intros R1 V2 Hle.
    destruct (locate ls (N.to_nat o1) 0) as [[[l1 c1] i1]|] eqn:E1; [|discriminate]. destruct i1 as [w1 len1|]; [|discriminate].
    destruct (locate ls (N.to_nat o2) 0) as [[[l2 c2] i2]|] eqn:E2; [|discriminate].
    assert (Hn : (N.to_nat o1 <= N.to_nat o2)%nat) by lia.
    pose proof (locate_mono _ _ _ _ _ _ _ _ _ _ Hn E1 E2) as M.
    unfold toks. rewrite (start_of_written dl ls o1 l1 c1 w1 len1 E1). cbn [lline lcol].
    unfold tok_at, positions. change 1 with (0 + 1).
    destruct (nth_pos_lines_any dl _ _ _ _ _ _ E2) as [P1 P2]. rewrite P1. lia.
  Qed.

  Lemma start_le_start o1 o2 : is_real ls o1 = true -> is_real ls o2 = true -> o1 <= o2 ->
    loc_le (start_of toks o1) (start_of toks o2).
  Proof.
    intros R1 R2 Hle. pose proof (start_le_pos o1 o2 R1 (real_valid _ R2) Hle) as H. unfold loc_le, start_of in *. cbn [lline lcol] in *. lia.
  Qed.

  Lemma start_le_endp o1 o2 : is_real ls o1 = true -> is_valid ls o2 = true -> o1 <= o2 -> G o1 (endp toks o2).
  Proof.
    intros R1 V2 Hle. pose proof (start_le_pos o1 o2 R1 V2 Hle) as H. unfold G, loc_le, endp, start_of in *. cbn [lline lcol] in *. lia.
  Qed.

  Lemma own_ge k f l t : is_real ls f = true -> is_valid ls l = true -> f <= l -> G f (cend (own_ctx file toks k f l t)).
  Proof.
    intros R1 V2 Hle. pose proof (start_le_pos f l R1 V2 Hle) as H. unfold G, loc_le, own_ctx, sc_get, start_of in *.
    destruct (k =? kText); cbn [cend set_cend lline lcol cstart] in *; lia.
  Qed.

  (* lastEnd is the end of a context whose rule starts at or after token b *)
  Definition GE (b : N) (le : loc) : Prop := exists f', b <= f' /\ is_real ls f' = true /\ G f' le.

  Lemma GE_G b le o : GE b le -> is_real ls o = true -> o <= b -> G o le.
  Proof.
    intros (f' & Hb & Hr & Hg) Ro Hle. unfold G in *. eapply loc_le_trans; [|exact Hg]. apply start_le_start; [assumption|assumption|lia].
  Qed.

  Lemma GE_down b b0 le : GE b le -> b0 <= b -> GE b0 le.
  Proof. intros (f' & Hb & Hr & Hg) H. exists f'. split; [lia|]. split; assumption. Qed.

  Definition Q (e : entry) : Prop := loc_le (cstart (ectx e)) (cend (ectx e)).

  Definition node_ok (n : pnode) : Prop :=
    forall b le le' r, wfb ls b n = true -> walk file toks n le = (le', r) ->
      (le' = le \/ GE b le')
      /\ (w_own r <> None -> GE (first_of n) le')
      /\ Forall Q (flat1 r)
      /\ (forall e, w_own r = Some e -> cstart (ectx e) = start_of toks (first_of n) /\ is_real ls (first_of n) = true).

  Lemma thread_ok : forall ns, Forall node_ok ns ->
    forall b le le' rs, chain (wfb ls) first_of b ns = true -> thread (walk file toks) ns le = (le', rs) ->
      (le' = le \/ GE b le')
      /\ Forall Q (flat rs)
      /\ Forall (fun r => forall e, w_own r = Some e -> loc_le (cstart (ectx e)) le') rs.
  Proof.
    induction 1 as [|m r Hm Hr IH]; intros b le le' rs W T.
    - cbn in T. injection T as <- <-. split; [left; reflexivity|]. split; constructor.
    - cbn [chain] in W. apply andb_true_iff in W. destruct W as [W1 W2].
      cbn [thread] in T. destruct (walk file toks m le) as [le1 r1] eqn:E1.
      fold (thread (walk file toks)) in T. destruct (thread (walk file toks) r le1) as [le2 rs2] eqn:E2.
      injection T as <- <-.
      destruct (Hm b le le1 r1 W1 E1) as (A1 & A2 & A3 & A4).
      destruct (IH (first_of m) le1 le2 rs2 W2 E2) as (B1 & B2 & B3).
      assert (Hb : b <= first_of m).
      { destruct m as [k key f l t attrs kids]. cbn [wfb first_of] in *. repeat (apply andb_true_iff in W1; destruct W1 as [W1 ?]). apply N.leb_le in W1. exact W1. }
      split; [|split].
      + destruct B1 as [->|B1]; [exact A1|]. right. eapply GE_down; eassumption.
      + rewrite flat_cons. apply Forall_app. split; assumption.
      + constructor; [|exact B3]. intros e He. destruct (A4 e He) as [S1 S2]. rewrite S1.
        assert (Hg : GE (first_of m) le2).
        { destruct B1 as [->|B1]; [|exact B1]. apply A2. rewrite He. discriminate. }
        eapply GE_G; [exact Hg|exact S2|lia].
  Qed.

  Lemma fix_last_ok le : forall rs, Forall Q (flat rs) ->
    Forall (fun r => forall e, w_own r = Some e -> loc_le (cstart (ectx e)) le) rs ->
    Forall Q (flat (fix_last le rs)).
  Proof.
    induction rs as [|r rs IH]; intros H1 H2; [constructor|]. cbn [fix_last].
    rewrite flat_cons in H1. apply Forall_app in H1. destruct H1 as [Ha Hb]. inversion H2 as [|? ? Hc Hd]; subst.
    destruct (existsb w_stmt rs).
    - rewrite flat_cons. apply Forall_app. split; [exact Ha|]. apply IH; assumption.
    - destruct (w_stmt r); rewrite flat_cons; apply Forall_app; split; try assumption.
      unfold flat1, set_own_end in *. cbn [w_pre w_own w_post].
      apply Forall_app in Ha. destruct Ha as [X Y]. apply Forall_app in Y. destruct Y as [Y Z].
      apply Forall_app. split; [exact X|]. apply Forall_app. split; [|exact Z].
      destruct (w_own r) as [e|]; [|constructor]. constructor; [|constructor].
      unfold Q. cbn [ectx set_cend cstart cend]. apply Hc. reflexivity.
  Qed.

  Lemma walk_ok : forall n, node_ok n.
  Proof.
    induction n as [k key f l t attrs kids Ha Hk] using pnode_ind2.
    pose proof (thread_ok attrs Ha) as TA. pose proof (thread_ok kids Hk) as TK.
    intros b le le' r W E.
    cbn [wfb] in W. repeat (apply andb_true_iff in W; destruct W as [W ?]).
    match goal with H : chain _ _ _ kids = true |- _ => rename H into Wk end.
    match goal with H : chain _ _ _ attrs = true |- _ => rename H into Wa end.
    match goal with H : is_valid _ _ = true |- _ => rename H into Vl end.
    match goal with H : is_real _ _ = true |- _ => rename H into Rf end.
    match goal with H : (f <=? l) = true |- _ => apply N.leb_le in H; rename H into Hfl end.
    apply N.leb_le in W.
    (* the three places where the attributes may be walked *)
    assert (EA : forall (c : bool) le0, exists le1 pre,
      (if c then thread (walk file toks) attrs le0 else (le0, [])) = (le1, pre) /\
      (le1 = le0 \/ GE f le1) /\ Forall Q (flat pre)).
    { intros c le0. destruct c.
      - destruct (thread (walk file toks) attrs le0) as [x y] eqn:E0. destruct (TA f le0 x y Wa E0) as (A1 & A2 & _). eauto.
      - exists le0, []. split; [reflexivity|]. split; [left; reflexivity|constructor]. }
    cbn [walk] in E.
    destruct (EA (attr_before k) le) as (le1 & pre & EQ1 & P1 & P1'). rewrite EQ1 in E.
    set (own := own_ctx file toks k f l t) in *.
    set (le2 := if has_own k then cend own else le1) in *.
    destruct (EA (attr_after k) le2) as (le3 & mid & EQ2 & P2 & P2'). rewrite EQ2 in E.
    destruct (thread (walk file toks) kids le3) as [le4 krs] eqn:EK.
    destruct (TK f le3 le4 krs Wk EK) as (K1 & K2 & K3).
    destruct (EA (attr_last k) le4) as (le5 & post & EQ3 & P3 & P3'). rewrite EQ3 in E.
    injection E as <- <-.
    assert (Gown : G f (cend own)) by (subst own; apply own_ge; assumption).
    assert (GEown : GE f (cend own)) by (exists f; split; [lia|]; split; assumption).
    (* after the attributes-before: le1 ; after own: le2 *)
    assert (S2 : (le2 = le \/ GE f le2) /\ (has_own k = true -> GE f le2)).
    { subst le2. destruct (has_own k); split; auto. intros; discriminate. }
    destruct S2 as [S2 S2'].
    assert (S3 : (le3 = le \/ GE f le3) /\ (has_own k = true -> GE f le3)).
    { destruct P2 as [->|P2]; auto. }
    destruct S3 as [S3 S3'].
    assert (S4 : (le4 = le \/ GE f le4) /\ (has_own k = true -> GE f le4)).
    { destruct K1 as [->|K1]; auto. }
    destruct S4 as [S4 S4'].
    assert (S5 : (le5 = le \/ GE f le5) /\ (has_own k = true -> GE f le5)).
    { destruct P3 as [->|P3]; auto. }
    destruct S5 as [S5 S5'].
    cbn [w_own first_of].
    split; [|split; [|split]].
    - destruct S5 as [->|S5]; [left; reflexivity|]. right. eapply GE_down; eassumption.
    - intros Hne. apply S5'. destruct (has_own k); [reflexivity|]. exfalso. apply Hne. reflexivity.
    - unfold flat1. cbn [w_pre w_own w_post].
      apply Forall_app; split; [exact P1'|]. apply Forall_app; split.
      + destruct (has_own k) eqn:HO; cbn [opt_list]; [|constructor]. constructor; [|constructor].
        unfold Q. cbn [ectx]. destruct (fix_end k); cbn [set_cend cstart cend].
        * subst own. rewrite own_ctx_start. eapply GE_G; [apply S4'; reflexivity|exact Rf|lia].
        * subst own. rewrite own_ctx_start. exact Gown.
      + apply Forall_app; split; [exact P2'|]. apply Forall_app; split; [|exact P3'].
        destruct (is_scope k); [apply fix_last_ok; assumption|exact K2].
    - intros e He. destruct (has_own k); [|discriminate]. injection He as <-. cbn [ectx].
      split; [|exact Rf]. destruct (fix_end k); cbn [set_cend cstart]; subst own; apply own_ctx_start.
  Qed.

  (* HEADLINE loc_end_ge_start: whatever the layout, if the declaration tree fits the text, no recorded context ends
     before it starts - including the ends patched through lastEnd *)
  Theorem file_end_ge_start forest le :
    chain (wfb ls) first_of 0 forest = true ->
    Forall Q (flat (snd (walk_list file toks forest le))).
  Proof.
    intros W. unfold walk_list. destruct (thread (walk file toks) forest le) as [le' rs] eqn:E.
    assert (F : Forall node_ok forest) by (apply Forall_forall; intros; apply walk_ok).
    destruct (thread_ok forest F 0 le le' rs W E) as (_ & H & _). exact H.
  Qed.
End ends.

Theorem loc_end_ge_start : forall fs, forallb wf_file fs = true ->
  Forall (fun e => loc_le (cstart (ectx e)) (cend (ectx e))) (compile fs).
Proof.
  intros fs. rewrite compile_eq. generalize 0 loc0. induction fs as [|f fs IH]; intros idx le W; [constructor|].
  cbn [forallb] in W. apply andb_true_iff in W. destruct W as [W1 W2].
  cbn [compile_from]. pose proof (file_end_ge_start (f_dl f) (f_lines f) idx (f_forest f) le W1) as H.
  destruct (walk_list idx (positions (f_dl f) (f_lines f)) (f_forest f) le) as [le1 rs]. cbn [snd] in H.
  apply Forall_app. split; [exact H|]. apply IH. exact W2.
Qed.

(* ---------- specifications with an import graph: declaration order = flatten order ---------- *)

(* the headline theorems hold of the files taken in flatten order, whatever the import graph (cross edges, diamonds,
   back edges): an element re-opened in several files carries its locations in the depth-first preorder of the graph *)
Theorem decl_count_spec fs g k :
  map (fun c => (cfile c, cstart c)) (contexts_of k (compile_spec fs g))
  = map (fun d => (d_file d, start_of (positions (d_dl d) (d_lines d)) (d_first d)))
        (filter (fun d => d_key d =? k) (declarations (map (fun i => nth (N.to_nat i) fs dfile) (flatten g)))).
Proof. apply decl_count. Qed.

(* flatten on the graph of the regression the check once missed: main imports a, b; a imports b, c *)
Example flatten_cross_edge : flatten [[1; 2]; [2; 3]; []; []] = [0; 1; 2; 3].
Proof. reflexivity. Qed.
Example flatten_back_edge : flatten [[2; 1]; [0; 3]; [1]; [2]] = [0; 2; 1; 3].
Proof. reflexivity. Qed.

(* ---------- ends that the code computes from the stop token are exact (round 3) ---------- *)

Definition kind_end (e : entry) : N * option loc :=
  (ekind e, if end_exact_kind (ekind e) then Some (cend (ectx e)) else None).
Definition want_end (toks : list ptok) (d : dcl) : N * option loc :=
  (dk_kind d, if end_exact_kind (dk_kind d) then Some (endp toks (dk_last d)) else None).

(* only statements are patched by popScope *)
Definition stmt_inv (r : wres) : Prop := forall e, w_own r = Some e -> w_stmt r = is_stmt (ekind e).

Lemma exact_not_stmt k : is_stmt k = true -> end_exact_kind k = false.
Proof. intros H. unfold end_exact_kind. rewrite H. apply andb_false_r. Qed.

Lemma exact_not_text k : end_exact_kind k = true -> (k =? kText) = false.
Proof.
  intros H. destruct (N.eqb_spec k kText) as [->|]; [|reflexivity]. vm_compute in H. discriminate.
Qed.

Lemma exact_not_fix k : end_exact_kind k = true -> fix_end k = false.
Proof.
  unfold end_exact_kind. intros H. apply andb_true_iff in H. destruct H as [H _]. apply andb_true_iff in H.
  destruct H as [_ H]. apply negb_true_iff in H. exact H.
Qed.

Lemma walk_stmt_inv file toks n le : stmt_inv (snd (walk file toks n le)).
Proof.
  destruct n as [k key f l t attrs kids]. cbn [walk].
  destruct (if attr_before k then thread (walk file toks) attrs le else (le, [])) as [le1 pre].
  destruct (if attr_after k then thread (walk file toks) attrs _ else _) as [le3 mid].
  destruct (thread (walk file toks) kids le3) as [le4 krs].
  destruct (if attr_last k then thread (walk file toks) attrs le4 else (le4, [])) as [le5 post].
  cbn [snd]. intros e He. cbn [w_own w_stmt] in *. destruct (has_own k); [|discriminate].
  injection He as <-. reflexivity.
Qed.

Lemma thread_stmt_inv file toks : forall ns le, Forall stmt_inv (snd (thread (walk file toks) ns le)).
Proof.
  induction ns as [|m r IH]; intros le; [constructor|].
  cbn [thread]. pose proof (walk_stmt_inv file toks m le) as Hm. destruct (walk file toks m le) as [le1 r1].
  specialize (IH le1). fold (thread (walk file toks)). destruct (thread (walk file toks) r le1) as [le2 rs].
  cbn [snd] in *. constructor; assumption.
Qed.

Lemma kind_end_set_own le r : stmt_inv r -> w_stmt r = true -> map kind_end (flat1 (set_own_end le r)) = map kind_end (flat1 r).
Proof.
  intros Hi Hs. unfold flat1, set_own_end. cbn [w_pre w_own w_post]. rewrite !map_app. f_equal. f_equal.
  destruct (w_own r) as [e|] eqn:E; [|reflexivity]. cbn [opt_list map]. f_equal.
  unfold kind_end. cbn [ekind ectx]. rewrite exact_not_stmt; [reflexivity|]. rewrite <- (Hi e E). exact Hs.
Qed.

Lemma kind_end_fix_last le : forall rs, Forall stmt_inv rs -> map kind_end (flat (fix_last le rs)) = map kind_end (flat rs).
Proof.
  induction rs as [|r rs IH]; intros H; [reflexivity|]. inversion H as [|? ? Hr Hrs]; subst. cbn [fix_last].
  destruct (existsb w_stmt rs).
  - rewrite !flat_cons, !map_app, IH by assumption. reflexivity.
  - destruct (w_stmt r) eqn:Hs; [|reflexivity]. rewrite !flat_cons, !map_app, kind_end_set_own by assumption. reflexivity.
Qed.

Lemma thread_kind_end file toks : forall ns,
  Forall (fun m => forall le, map kind_end (flat1 (snd (walk file toks m le))) = map (want_end toks) (decls m)) ns ->
  forall le, map kind_end (flat (snd (thread (walk file toks) ns le))) = map (want_end toks) (flat_map decls ns).
Proof.
  induction 1 as [|m r Hm Hr IH]; intros le; [reflexivity|].
  cbn [thread]. specialize (Hm le). destruct (walk file toks m le) as [le1 r1]. specialize (IH le1).
  fold (thread (walk file toks)). destruct (thread (walk file toks) r le1) as [le2 rs].
  cbn [snd] in *. cbn [flat_map]. rewrite flat_cons, !map_app, Hm, IH. reflexivity.
Qed.

Theorem walk_kind_end file toks : forall n le,
  map kind_end (flat1 (snd (walk file toks n le))) = map (want_end toks) (decls n).
Proof.
  induction n as [k key f l t attrs kids Ha Hk] using pnode_ind2. intros le.
  pose proof (thread_kind_end file toks attrs Ha) as TA.
  pose proof (thread_kind_end file toks kids Hk) as TK.
  cbn [walk decls].
  assert (E : forall (b : bool) le, exists le1 pre,
    (if b then thread (walk file toks) attrs le else (le, [])) = (le1, pre) /\
    map kind_end (flat pre) = map (want_end toks) (if b then flat_map decls attrs else [])).
  { intros b le0. destruct b.
    - specialize (TA le0). destruct (thread (walk file toks) attrs le0) as [x y]. eauto.
    - eauto. }
  destruct (E (attr_before k) le) as (le1 & pre & -> & P1).
  set (own := own_ctx file toks k f l t).
  set (le2 := if has_own k then cend own else le1).
  destruct (E (attr_after k) le2) as (le3 & mid & -> & P2).
  pose proof (thread_stmt_inv file toks kids le3) as SI.
  specialize (TK le3). destruct (thread (walk file toks) kids le3) as [le4 krs]. cbn [snd] in TK, SI.
  destruct (E (attr_last k) le4) as (le5 & post & -> & P3).
  cbn [snd]. unfold flat1. cbn [w_pre w_own w_post]. rewrite !map_app, P1, P2, P3.
  assert (K : map kind_end (flat (if is_scope k then fix_last le4 krs else krs)) = map (want_end toks) (flat_map decls kids)).
  { destruct (is_scope k); [rewrite kind_end_fix_last by exact SI|]; exact TK. }
  rewrite K. f_equal. f_equal.
  destruct (has_own k); [|reflexivity]. cbn [opt_list map]. unfold kind_end, want_end. cbn [ekind ectx dk_kind dk_last].
  destruct (end_exact_kind k) eqn:X; [|reflexivity].
  rewrite (exact_not_fix k X). subst own. unfold own_ctx. rewrite (exact_not_text k X). reflexivity.
Qed.

Lemma walk_list_kind_end file toks ns le :
  map kind_end (flat (snd (walk_list file toks ns le))) = map (want_end toks) (flat_map decls ns).
Proof.
  unfold walk_list. apply thread_kind_end. apply Forall_forall. intros m _ le0. apply walk_kind_end.
Qed.

Definition dkind_end (d : drec) : N * option loc :=
  (d_kind d, if end_exact_kind (d_kind d) then Some (endp (positions (d_dl d) (d_lines d)) (d_last d)) else None).

Lemma compile_from_kind_end : forall fs idx le, map kind_end (compile_from idx fs le) = map dkind_end (declarations_from idx fs).
Proof.
  induction fs as [|f fs IH]; intros idx le; [reflexivity|].
  cbn [compile_from declarations_from].
  pose proof (walk_list_kind_end idx (positions (f_dl f) (f_lines f)) (f_forest f) le) as K.
  destruct (walk_list idx (positions (f_dl f) (f_lines f)) (f_forest f) le) as [le1 rs]. cbn [snd] in K.
  rewrite !map_app, IH, K, !map_map. reflexivity.
Qed.

(* where a stop token ends, read off the text structure: a real token ends behind its last byte (sourceCtxHelper.get adds
   the BYTE length of the token text to the CHARACTER column); a DEDENT stands behind the token that triggered it (the
   next real item of the line) and "is" dl bytes long *)
Fixpoint rest_line (l : line) (o : nat) : line :=
  match l, o with [], _ => [] | _ :: r, O => r | _ :: r, Datatypes.S o' => rest_line r o' end.
Fixpoint rest_at (ls : list line) (o : nat) : line :=
  match ls with
  | [] => []
  | l :: r => if (o <? length l)%nat then rest_line l o else rest_at r (o - length l)
  end.
(* width of the token whose arrival made the lexer emit the DEDENT written as item o *)
Definition trigger_width (ls : list line) (o : N) : N := next_w (rest_at ls (N.to_nat o)).

Lemma nth_pos_line_S dl ln : forall l o col c,
  locate_line l o col = Some (c, S) ->
  nth o (pos_line dl ln col l) dtok = {| pline := ln; pcol := c + next_w (rest_line l o); plen := dl |}.
Proof.
  induction l as [|it l IH]; intros o col c H; [destruct o; discriminate|].
  destruct o as [|o].
  - cbn [locate_line] in H. injection H as <- ->. reflexivity.
  - cbn [locate_line] in H. destruct it as [w' len'|]; cbn [pos_line nth item_w rest_line] in *.
    + eapply IH; eassumption.
    + rewrite N.add_0_r in H. eapply IH; eassumption.
Qed.

Lemma nth_pos_lines_S dl : forall ls o ln0 ln c,
  locate ls o ln0 = Some (ln, c, S) ->
  nth o (pos_lines dl (ln0 + 1) ls) dtok = {| pline := ln + 1; pcol := c + next_w (rest_at ls o); plen := dl |}.
Proof.
  induction ls as [|l ls IH]; intros o ln0 ln c H; [discriminate|].
  cbn [locate] in H. cbn [pos_lines rest_at].
  destruct (Nat.ltb_spec o (length l)) as [Hlt|Hge].
  - destruct (locate_line l o 0) as [[c' it]|] eqn:E; [|discriminate].
    injection H as <- <- ->.
    rewrite app_nth1 by (rewrite pos_line_length; exact Hlt).
    eapply nth_pos_line_S; eassumption.
  - rewrite app_nth2 by (rewrite pos_line_length; exact Hge).
    rewrite pos_line_length. eapply IH; eassumption.
Qed.

Lemma endp_written_real dl ls o ln c w len :
  written_at ls o = Some (ln, c, R w len) -> endp (positions dl ls) o = {| lline := ln; lcol := c + len |}.
Proof.
  intros H. unfold endp, tok_at, positions. change 1 with (0 + 1). erewrite nth_pos_lines by exact H.
  cbn [pline pcol plen]. f_equal. lia.
Qed.

Lemma endp_written_dedent dl ls o ln c :
  written_at ls o = Some (ln, c, S) -> endp (positions dl ls) o = {| lline := ln; lcol := c + trigger_width ls o + dl |}.
Proof.
  intros H. unfold endp, tok_at, positions, trigger_width. change 1 with (0 + 1). erewrite nth_pos_lines_S by exact H.
  cbn [pline pcol plen]. f_equal. lia.
Qed.

(* HEADLINE end_exact: for EVERY text and every declaration forest, the k-th context has the kind of the k-th declaration
   and, when that kind takes its end from the stop token (field, parameter, event, REST method, annotation, attribute,
   modifier, array item, import, enum, alias, union, union member, query parameter), the end is exactly where the stop token ends in the
   text: behind a real token, or - for a rule closed by a DEDENT - behind the token that triggered the DEDENT plus the
   byte length of the first character of the file *)
Theorem loc_end_exact fs :
  Forall2 (fun e d =>
             ekind e = d_kind d /\
             (end_exact_kind (d_kind d) = true ->
                (forall ln c w len, written_at (d_lines d) (d_last d) = Some (ln, c, R w len) ->
                   cend (ectx e) = {| lline := ln; lcol := c + len |}) /\
                (forall ln c, written_at (d_lines d) (d_last d) = Some (ln, c, S) ->
                   cend (ectx e) = {| lline := ln; lcol := c + trigger_width (d_lines d) (d_last d) + d_dl d |})))
          (compile fs) (declarations fs).
Proof.
  assert (H : map kind_end (compile fs) = map dkind_end (declarations fs)) by (rewrite compile_eq; apply compile_from_kind_end).
  apply map_eq_Forall2 in H. eapply Forall2_weaken; [|exact H]. intros e d E. unfold kind_end, dkind_end in E.
  injection E as E1 E2. split; [exact E1|]. intros X. rewrite E1, X in E2. injection E2 as E2. split.
  - intros ln c w len W. rewrite E2. eapply endp_written_real; exact W.
  - intros ln c W. rewrite E2. apply endp_written_dedent; exact W.
Qed.

(* ---------- the "..." body of an application: an endpoint of the module that records no location ---------- *)

Fixpoint holders (n : pnode) : list N :=
  match n with
  | P k key _ _ _ attrs kids => (if k =? kHolder then [key] else []) ++ flat_map holders attrs ++ flat_map holders kids
  end.
Definition file_holders (f : file) : list N := flat_map holders (f_forest f).

(* PARTIAL: whatever is written, an element gets exactly the contexts of the declarations that record one (decl_count);
   for a key that only "..." bodies carry that is none *)
Theorem placeholder_no_location fs k :
  ~ In k (map d_key (declarations fs)) -> contexts_of k (compile fs) = [].
Proof.
  intros H. pose proof (decl_count_length fs k) as L.
  assert (E : filter (fun d => d_key d =? k) (declarations fs) = []).
  { revert H. generalize (declarations fs). induction l as [|d ds IH]; intros H; [reflexivity|]. cbn [filter]. cbn [map] in H.
    destruct (N.eqb_spec (d_key d) k) as [Hk|Hn]; [exfalso; apply H; left; exact Hk|].
    apply IH. intros Hin. apply H. right. exact Hin. }
  rewrite E in L. destruct (contexts_of k (compile fs)); [reflexivity|discriminate].
Qed.

(* REFUTED: "every endpoint compiled from the text records where it was declared" - a body-less application `X:` / `...`
   has the endpoint "..." (written once, at token 2) and no location for it *)
Definition holder_file : file :=
  F 1 [ [R 1 1; R 1 1]; [R 4 4; R 3 3]; [] ] [P kApp 1 0 0 0 [] [P kHolder 2 3 3 0 [] []]].
Theorem placeholder_refuted :
  exists fs k, In k (flat_map file_holders fs) /\ contexts_of k (compile fs) = [].
Proof. exists [holder_file], 2. split; [vm_compute; auto|reflexivity]. Qed.
