(* C08 - obligations against the CURRENT source: the shapes the model transliterates, as the translator
   translate/locrules.go reads them from pkg/parse/utils.go and pkg/parse/listener_impl.go on every run.
   Each Example is closed by reflexivity and breaks when the source changes shape. *)
From Coq Require Import String List NArith Bool.
Import ListNotations.
Require Import Verif.Gen.LocRules Verif.Loc.Model.
Local Open Scope string_scope.

(* sourceCtxHelper.get: both lines minus one, columns unchanged, end column advanced by the text length -
   Model.sc_get *)
Example get_shape :
  (get_start_line, get_start_col, get_end_line, get_end_col, get_end_adds_text_len)
  = ("int32(start.GetLine() - 1)", "int32(start.GetColumn())", "int32(end.GetLine() - 1)", "int32(end.GetColumn())", true).
Proof. reflexivity. Qed.

(* getSrcCtxFor stores the End of every context it hands out in s.lastEnd - Model.walk (le2) *)
Example lastend_is_recorded : lastend_recorded = true.
Proof. reflexivity. Qed.

(* EnterText_stmt - Model.own_ctx *)
Example text_end_shape : text_end = "sc.Start.Col + int32(len(str))".
Proof. reflexivity. Qed.

Definition order_eqb (a b : order) : bool :=
  match a, b with
  | AttrsBeforeOwn, AttrsBeforeOwn | AttrsAfterOwn, AttrsAfterOwn | OwnOnly, OwnOnly | AttrsOnly, AttrsOnly | Neither, Neither => true
  | _, _ => false
  end.

Fixpoint order_of (f : string) (t : list (string * order)) : order :=
  match t with [] => Neither | (g, o) :: r => if String.eqb f g then o else order_of f r end.

Definition is (f : string) (o : order) : bool := order_eqb (order_of f enter_order) o.

(* the order of "attributes" and "own context" in each handler is the one the model walks in *)
Definition orders_agree : bool :=
  (* app header, simple endpoint, REST method: attributes first *)
  is "EnterName_with_attribs" AttrsBeforeOwn && attr_before kApp && has_own kApp
  && is "EnterSimple_endpoint" AttrsBeforeOwn && attr_before kEndpoint && has_own kEndpoint
  && is "EnterMethod_def" AttrsBeforeOwn && attr_before kMethod && has_own kMethod
  (* REST path: attributes only, no context of its own *)
  && is "EnterRest_endpoint" AttrsOnly && attr_before kRestPath && negb (has_own kRestPath)
  (* type / table and field: own context in the rule's handler, attributes in the child rule's handler *)
  && is "EnterTable" OwnOnly && is "EnterTable_def" AttrsOnly && attr_after kType && has_own kType
  && is "EnterField" OwnOnly && is "EnterField_type" AttrsOnly && attr_after kField && has_own kField
  && is "EnterEvent" AttrsAfterOwn && attr_after kEvent && has_own kEvent
  (* statements: attributes when the statement is left *)
  && is "ExitStatements" AttrsOnly && attr_last kText && attr_last kPlain && attr_last kBlock && attr_last kOneOf
  && is "EnterAnnotation" OwnOnly && has_own kAnno
  (* round 3: enum: own context, then attributes; alias and union: attributes first; union member and import statement:
     own context only; a parameter is a field rule (EnterField / EnterField_type); a mixin records nothing *)
  && is "EnterEnum" AttrsAfterOwn && attr_after kEnum && has_own kEnum
  && is "EnterAlias" AttrsBeforeOwn && attr_before kAlias && has_own kAlias
  && is "EnterUnion" AttrsBeforeOwn && attr_before kUnion && has_own kUnion
  && is "EnterUnion_type" OwnOnly && has_own kMember
  && is "EnterImport_stmt" OwnOnly && has_own kImport
  && attr_after kParam && has_own kParam
  && is "EnterMixin" Neither
  && attr_last kDoc && has_own kDoc
  (* the "..." body of an application: an endpoint without any context *)
  && whatever_endpoint_records_nothing && negb (has_own kHolder)
  (* round 3, second pass: query and typed path parameters: own context only; the collector: own context, no attributes,
     nothing on exit; its four statement forms: own context, the attributes when the statement is left
     (ExitCollector_stmts); a subscription: own context, then the attributes (then its context once more, see
     subscribe_reown), nothing on exit *)
  && is "EnterQuery_var" OwnOnly && has_own kQuery
  && is "EnterHttp_path_var_with_type" OwnOnly && has_own kPathVar
  && is "EnterCollector" OwnOnly && is "ExitCollector" Neither && has_own kCollector && is_scope kCollector && negb (fix_end kCollector)
  && is "EnterCollector_call_stmt" OwnOnly && is "EnterCollector_http_stmt" OwnOnly
  && is "EnterCollector_pubsub_call" OwnOnly && is "EnterCollector_action_stmt" OwnOnly
  && is "ExitCollector_stmts" AttrsOnly && attr_last kCollStmt && has_own kCollStmt && is_stmt kCollStmt
  && is "EnterSubscribe" AttrsAfterOwn && is "ExitSubscribe" Neither && attr_after kSubscribe && has_own kSubscribe
  && is_scope kSubscribe && negb (fix_end kSubscribe) && has_own kSubCall && negb (is_stmt kSubCall).

Example orders_ok : orders_agree = true.
Proof. reflexivity. Qed.

(* EnterSubscribe is the only handler that computes its rule's context again behind the attributes (for the call statement
   it appends to the publisher's event): lastEnd is the END OF THE RULE again when the body starts - the harness hands the
   model that further context as node kSubCall at the head of the subscription's body (walked behind the attributes, no
   statement of the scope) *)
Example subscribe_reown : own_again_after_attrs = ["EnterSubscribe"].
Proof. reflexivity. Qed.

(* exactly these functions overwrite an End with lastEnd - Model.fix_end (app, type, simple endpoint) and
   Model.fix_last (popScope) *)
Example end_fixups_ok : end_fixups = ["ExitApp_decl"; "ExitSimple_endpoint"; "ExitTable"; "popScope"].
Proof. reflexivity. Qed.

Example fix_end_kinds : map fix_end [kApp; kType; kEndpoint; kField; kEvent; kMethod; kText; kPlain; kBlock; kOneOf; kAnno; kNvp; kMod; kItem;
                                     kImport; kEnum; kAlias; kUnion; kMember; kDoc; kParam;
                                     kQuery; kPathVar; kCollector; kCollStmt; kSubscribe; kSubCall]
                        = [true; true; true; false; false; false; false; false; false; false; false; false; false; false;
                           false; false; false; false; false; false; false;
                           false; false; false; false; false; false].
Proof. reflexivity. Qed.

(* every handler of an element that can be declared again appends to the element's list (decl_count):
   app, type/table, field, simple endpoint, REST method. (EnterEvent does NOT: known finding, see notes/C08.md) *)
Example appenders_ok :
  forallb (fun f => existsb (String.eqb f) appenders)
          ["EnterName_with_attribs"; "EnterTable"; "EnterField"; "EnterSimple_endpoint"; "EnterMethod_def"; "EnterCollector"] = true.
Proof. reflexivity. Qed.

(* ---------- round 3: the position helper across the files of one compilation ---------- *)

(* sourceCtxHelper holds the file name and the version and nothing else; the listener keeps it by value; get reads the
   two fields, writes nothing, calls only the token accessors and touches no identifier outside its own scope: a context
   is a function of the current file name and the two tokens - Model.sc_get / Model.helper *)
Example helper_is_stateless :
  (helper_fields, listener_sc_type, get_receiver_reads, get_receiver_writes, get_foreign_idents)
  = (["filename string"; "version string"], "sourceCtxHelper", ["s.filename"; "s.version"], [], []).
Proof. reflexivity. Qed.

Example get_calls_ok :
  get_calls = ["end.GetColumn"; "end.GetLine"; "end.GetText"; "int32"; "len"; "start.GetColumn"; "start.GetLine"].
Proof. reflexivity. Qed.

Definition switch_eqb (a b : switch_kind) : bool :=
  match a, b with FreshLiteral, FreshLiteral | FieldAssign, FieldAssign | SwitchUnknown, SwitchUnknown => true | _, _ => false end.

(* parseSpecs gives the listener a FRESH helper literal for every file, inside the loop over the files, and assigns
   nothing else of the position state (lastEnd survives) - Model.switch_file *)
Example file_switch_ok :
  switch_eqb sc_switch FreshLiteral && sc_switch_in_file_loop = true
  /\ parsespecs_listener_writes = ["listener.base"; "listener.sc"].
Proof. split; reflexivity. Qed.

(* lastEnd is written by getSrcCtxFor and by the text statement only - Model.walk / Model.own_ctx; the text statement
   replaces the end column only when the statement is not a doc string (kDoc keeps get's end) *)
Example lastend_writers_ok : lastend_writers = ["EnterText_stmt"; "getSrcCtxFor"] /\ text_end_only_in_nondoc_branch = true.
Proof. split; reflexivity. Qed.

(* end_exact_kind: the kinds whose End nothing overwrites *)
Example end_exact_kinds :
  filter end_exact_kind [kApp; kType; kField; kEndpoint; kEvent; kRestPath; kMethod; kText; kPlain; kBlock; kOneOf; kCase; kAnno; kNvp;
                         kMod; kItem; kImport; kEnum; kAlias; kUnion; kMember; kDoc; kParam; kHolder; kQuery;
                         kPathVar; kCollector; kCollStmt; kSubscribe; kSubCall]
  = [kField; kEvent; kMethod; kAnno; kNvp; kMod; kItem; kImport; kEnum; kAlias; kUnion; kMember; kParam; kQuery;
     kPathVar; kCollector; kSubscribe; kSubCall].
Proof. reflexivity. Qed.
