(* C08 - obligations against the CURRENT source: the shapes the model transliterates, as the translator
   translate/locrules.go reads them from pkg/parse/utils.go and pkg/parse/listener_impl.go on every run.
   Each Example is closed by reflexivity and breaks when the source changes shape. *)
From Coq Require Import String List NArith Bool.
Import ListNotations.
Require Import Verif.Gen.LocRules Verif.Loc.Model.
Local Open Scope string_scope.

(* sourceCtxHelper.get: both lines minus one, columns unchanged, end column advanced by the text length -
   Model.sc_get *)
Example get_shape :
  (get_start_line, get_start_col, get_end_line, get_end_col, get_end_adds_text_len)
  = ("int32(start.GetLine() - 1)", "int32(start.GetColumn())", "int32(end.GetLine() - 1)", "int32(end.GetColumn())", true).
Proof. reflexivity. Qed.

(* getSrcCtxFor stores the End of every context it hands out in s.lastEnd - Model.walk (le2) *)
Example lastend_is_recorded : lastend_recorded = true.
Proof. reflexivity. Qed.

(* EnterText_stmt - Model.own_ctx *)
Example text_end_shape : text_end = "sc.Start.Col + int32(len(str))".
Proof. reflexivity. Qed.

Definition order_eqb (a b : order) : bool :=
  match a, b with
  | AttrsBeforeOwn, AttrsBeforeOwn | AttrsAfterOwn, AttrsAfterOwn | OwnOnly, OwnOnly | AttrsOnly, AttrsOnly | Neither, Neither => true
  | _, _ => false
  end.

Fixpoint order_of (f : string) (t : list (string * order)) : order :=
  match t with [] => Neither | (g, o) :: r => if String.eqb f g then o else order_of f r end.

Definition is (f : string) (o : order) : bool := order_eqb (order_of f enter_order) o.

(* the order of "attributes" and "own context" in each handler is the one the model walks in *)
Definition orders_agree : bool :=
  (* app header, simple endpoint, REST method: attributes first *)
  is "EnterName_with_attribs" AttrsBeforeOwn && attr_before kApp && has_own kApp
  && is "EnterSimple_endpoint" AttrsBeforeOwn && attr_before kEndpoint && has_own kEndpoint
  && is "EnterMethod_def" AttrsBeforeOwn && attr_before kMethod && has_own kMethod
  (* REST path: attributes only, no context of its own *)
  && is "EnterRest_endpoint" AttrsOnly && attr_before kRestPath && negb (has_own kRestPath)
  (* type / table and field: own context in the rule's handler, attributes in the child rule's handler *)
  && is "EnterTable" OwnOnly && is "EnterTable_def" AttrsOnly && attr_after kType && has_own kType
  && is "EnterField" OwnOnly && is "EnterField_type" AttrsOnly && attr_after kField && has_own kField
  && is "EnterEvent" AttrsAfterOwn && attr_after kEvent && has_own kEvent
  (* statements: attributes when the statement is left *)
  && is "ExitStatements" AttrsOnly && attr_last kText && attr_last kPlain && attr_last kBlock && attr_last kOneOf
  && is "EnterAnnotation" OwnOnly && has_own kAnno.

Example orders_ok : orders_agree = true.
Proof. reflexivity. Qed.

(* exactly these functions overwrite an End with lastEnd - Model.fix_end (app, type, simple endpoint) and
   Model.fix_last (popScope) *)
Example end_fixups_ok : end_fixups = ["ExitApp_decl"; "ExitSimple_endpoint"; "ExitTable"; "popScope"].
Proof. reflexivity. Qed.

Example fix_end_kinds : map fix_end [kApp; kType; kEndpoint; kField; kEvent; kMethod; kText; kPlain; kBlock; kOneOf; kAnno; kNvp; kMod; kItem]
                        = [true; true; true; false; false; false; false; false; false; false; false; false; false; false].
Proof. reflexivity. Qed.

(* every handler of an element that can be declared again appends to the element's list (decl_count):
   app, type/table, field, simple endpoint, REST method. (EnterEvent does NOT: known finding, see notes/C08.md) *)
Example appenders_ok :
  forallb (fun f => existsb (String.eqb f) appenders)
          ["EnterName_with_attribs"; "EnterTable"; "EnterField"; "EnterSimple_endpoint"; "EnterMethod_def"] = true.
Proof. reflexivity. Qed.
