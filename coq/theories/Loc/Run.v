(* C08 - correspondence glue: case type and the comparison of the model with what the real parser recorded. *)
From Coq Require Import List NArith PArith Bool.
Import ListNotations.
Require Import Verif.Loc.Model Verif.Loc.LocProps Verif.Base.Harness.
Local Open Scope N_scope.

Inductive obs_ctx := X (file sl sc el ec : N).
(* files in the order of the specification (root first), the import graph, and what the parser recorded per element;
   an observed file number is the position of the file in the order the oracle expects (depth-first preorder) *)
Inductive c08_case := C (files : list file) (graph : list (list N)) (observed : list (N * list obs_ctx)).

Definition ctx_eqb (c : ctx) (o : obs_ctx) : bool :=
  match o with X f sl sc el ec =>
    (cfile c =? f) && (lline (cstart c) =? sl) && (lcol (cstart c) =? sc) && (lline (cend c) =? el) && (lcol (cend c) =? ec)
  end.

Fixpoint all2 {A B} (f : A -> B -> bool) (x : list A) (y : list B) : bool :=
  match x, y with [], [] => true | a :: x', b :: y' => f a b && all2 f x' y' | _, _ => false end.

Definition c08_ok (c : c08_case) : bool :=
  match c with C fs g obs =>
    let out := compile_spec fs g in
    forallb (fun ko => all2 ctx_eqb (contexts_of (fst ko) out) (snd ko)) obs
    && forallb wf_file fs      (* the hypothesis of loc_end_ge_start holds of the case *)
  end.

(* diagnostics: the keys on which model and observation differ, with both lists *)
Definition c08_diff (c : c08_case) : list (N * list ctx * list obs_ctx) :=
  match c with C fs g obs =>
    let out := compile_spec fs g in
    flat_map (fun ko => if all2 ctx_eqb (contexts_of (fst ko) out) (snd ko) then []
                        else [(fst ko, contexts_of (fst ko) out, snd ko)]) obs
  end.
