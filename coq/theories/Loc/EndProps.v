(* C08 - the ends that the code takes from lastEnd (round 3, second pass).

   ExitApp_decl, ExitTable and ExitSimple_endpoint overwrite the End of the context they recorded on entry with
   s.lastEnd, and getSrcCtxFor stores the End of EVERY context it hands out in s.lastEnd. So the End of an application,
   a type / table and a simple endpoint is the End of the LAST context computed between the rule's own getSrcCtx and its
   exit. This file proves that for the walk model, for every text and every declaration forest:

     walk_lastend     the lastEnd a rule leaves behind is the end of the last getSrcCtx call made inside it (or the
                      lastEnd it was entered with, if it makes none)
     loc_end_lastend  the k-th context of the compiled module has the kind of the k-th declaration and, for the kinds
                      whose End is overwritten on exit (app, type, simple endpoint), its End is exactly the raw end of
                      the last call of the rule (`inner_calls`: attributes, own context, body - in handler order)
     raw_end_*        where such a raw end lies in the text: behind the stop token of that last call (real token: its
                      character column + byte length; DEDENT: behind the triggering token + dl; text statement: the
                      start column of the statement + the byte length of its text) *)
From Coq Require Import List NArith PArith Bool Lia.
Import ListNotations.
Require Import Verif.Loc.Model Verif.Loc.LocProps.
Local Open Scope N_scope.

(* one getSrcCtx call: the kind of the rule, its first and stop token, the text length (text statements) *)
Record call := { c_kind : N; c_first : N; c_last : N; c_tlen : N }.

(* the End sourceCtxHelper.get (and EnterText_stmt) gives the context of that call *)
Definition raw_end (toks : list ptok) (c : call) : loc :=
  if c_kind c =? kText
  then {| lline := lline (endp toks (c_last c)); lcol := lcol (start_of toks (c_first c)) + c_tlen c |}
  else endp toks (c_last c).

Lemma own_ctx_end file toks k f l t :
  cend (own_ctx file toks k f l t) = raw_end toks {| c_kind := k; c_first := f; c_last := l; c_tlen := t |}.
Proof. unfold own_ctx, raw_end. cbn [c_kind c_first c_last c_tlen]. destruct (k =? kText); reflexivity. Qed.

(* the getSrcCtx calls of a rule in the order the listener makes them *)
Fixpoint calls (n : pnode) : list call :=
  match n with
  | P k key f l t attrs kids =>
      (if attr_before k then flat_map calls attrs else [])
      ++ (if has_own k then [{| c_kind := k; c_first := f; c_last := l; c_tlen := t |}] else [])
      ++ (if attr_after k then flat_map calls attrs else [])
      ++ flat_map calls kids
      ++ (if attr_last k then flat_map calls attrs else [])
  end.

(* ... up to the moment the rule is left (Exit<rule>; the attributes of ExitStatements come later) *)
Definition inner_calls (n : pnode) : list call :=
  match n with
  | P k key f l t attrs kids =>
      (if attr_before k then flat_map calls attrs else [])
      ++ (if has_own k then [{| c_kind := k; c_first := f; c_last := l; c_tlen := t |}] else [])
      ++ (if attr_after k then flat_map calls attrs else [])
      ++ flat_map calls kids
  end.

Lemma last_cons {A} (x : A) : forall l d, last (x :: l) d = last l x.
Proof.
  intros l. revert x. induction l as [|y l IH]; intros x d; [reflexivity|].
  change (last (x :: y :: l) d) with (last (y :: l) d). rewrite (IH y d), (IH y x). reflexivity.
Qed.

Lemma last_app {A} : forall (a b : list A) d, last (a ++ b) d = last b (last a d).
Proof.
  induction a as [|x a IH]; intros b d; [reflexivity|].
  rewrite <- app_comm_cons, last_cons, IH, last_cons. reflexivity.
Qed.

Lemma thread_lastend file toks : forall ns,
  Forall (fun m => forall le, fst (walk file toks m le) = last (map (raw_end toks) (calls m)) le) ns ->
  forall le, fst (thread (walk file toks) ns le) = last (map (raw_end toks) (flat_map calls ns)) le.
Proof.
  induction 1 as [|m r Hm Hr IH]; intros le; [reflexivity|].
  cbn [thread]. specialize (Hm le). destruct (walk file toks m le) as [le1 r1]. specialize (IH le1).
  fold (thread (walk file toks)). destruct (thread (walk file toks) r le1) as [le2 rs].
  cbn [fst] in *. cbn [flat_map]. rewrite map_app, last_app, <- Hm, <- IH. reflexivity.
Qed.

(* what one attribute pass contributes *)
Lemma pass_lastend file toks attrs
  (TA : forall le, fst (thread (walk file toks) attrs le) = last (map (raw_end toks) (flat_map calls attrs)) le) :
  forall (b : bool) le, exists le1 pre,
    (if b then thread (walk file toks) attrs le else (le, [])) = (le1, pre) /\
    le1 = last (map (raw_end toks) (if b then flat_map calls attrs else [])) le.
Proof.
  intros b le. destruct b.
  - specialize (TA le). destruct (thread (walk file toks) attrs le) as [x y]. cbn [fst] in TA. eauto.
  - exists le, []. split; reflexivity.
Qed.

(* the lastEnd a rule leaves behind = the end of its last getSrcCtx call *)
Theorem walk_lastend file toks : forall n le,
  fst (walk file toks n le) = last (map (raw_end toks) (calls n)) le.
Proof.
  induction n as [k key f l t attrs kids Ha Hk] using pnode_ind2. intros le.
  pose proof (thread_lastend file toks attrs Ha) as TA.
  pose proof (thread_lastend file toks kids Hk) as TK.
  pose proof (pass_lastend file toks attrs TA) as E.
  cbn [walk calls].
  destruct (E (attr_before k) le) as (le1 & pre & -> & P1).
  set (own := own_ctx file toks k f l t).
  set (le2 := if has_own k then cend own else le1).
  destruct (E (attr_after k) le2) as (le3 & mid & -> & P2).
  specialize (TK le3). destruct (thread (walk file toks) kids le3) as [le4 krs]. cbn [fst] in TK.
  destruct (E (attr_last k) le4) as (le5 & post & -> & P3).
  cbn [fst]. rewrite !map_app, !last_app, <- P1.
  assert (O : last (map (raw_end toks) (if has_own k then [{| c_kind := k; c_first := f; c_last := l; c_tlen := t |}] else [])) le1 = le2).
  { subst le2 own. destruct (has_own k); [|reflexivity]. cbn [map last]. rewrite own_ctx_end. reflexivity. }
  rewrite O, <- P2, <- TK, <- P3. reflexivity.
Qed.

Lemma walk_list_lastend file toks ns le :
  fst (walk_list file toks ns le) = last (map (raw_end toks) (flat_map calls ns)) le.
Proof. unfold walk_list. apply thread_lastend. apply Forall_forall. intros m _ le0. apply walk_lastend. Qed.

(* ---------- the entries: kind, and the End of the kinds whose End is overwritten on exit ---------- *)

Definition fend (e : entry) : N * option loc :=
  (ekind e, if fix_end (ekind e) then Some (cend (ectx e)) else None).

(* per declaration that records a context (same order as LocProps.decls): its kind and, for app / type / simple
   endpoint, the raw end of the last call made before the rule is left *)
Fixpoint dends (toks : list ptok) (n : pnode) : list (N * option loc) :=
  match n with
  | P k key f l t attrs kids =>
      (if attr_before k then flat_map (dends toks) attrs else [])
      ++ (if has_own k
          then [(k, if fix_end k then Some (last (map (raw_end toks) (inner_calls (P k key f l t attrs kids))) loc0) else None)]
          else [])
      ++ (if attr_after k then flat_map (dends toks) attrs else [])
      ++ flat_map (dends toks) kids
      ++ (if attr_last k then flat_map (dends toks) attrs else [])
  end.

Lemma fix_has_own k : fix_end k = true -> has_own k = true.
Proof.
  unfold fix_end, mem. cbn [existsb]. rewrite !orb_true_iff. intros [H|[H|[H|H]]]; try discriminate;
    apply N.eqb_eq in H; subst; reflexivity.
Qed.

Lemma fix_not_stmt k : is_stmt k = true -> fix_end k = false.
Proof.
  intros H. destruct (fix_end k) eqn:F; [|reflexivity]. exfalso. revert F. unfold fix_end, mem. cbn [existsb].
  rewrite !orb_true_iff. intros [F|[F|[F|F]]]; try discriminate; apply N.eqb_eq in F; subst; vm_compute in H; discriminate.
Qed.

Lemma fend_set_own le r : stmt_inv r -> w_stmt r = true -> map fend (flat1 (set_own_end le r)) = map fend (flat1 r).
Proof.
  intros Hi Hs. unfold flat1, set_own_end. cbn [w_pre w_own w_post]. rewrite !map_app. f_equal. f_equal.
  destruct (w_own r) as [e|] eqn:E; [|reflexivity]. cbn [opt_list map]. f_equal.
  unfold fend. cbn [ekind ectx]. rewrite fix_not_stmt; [reflexivity|]. rewrite <- (Hi e E). exact Hs.
Qed.

Lemma fend_fix_last le : forall rs, Forall stmt_inv rs -> map fend (flat (fix_last le rs)) = map fend (flat rs).
Proof.
  induction rs as [|r rs IH]; intros H; [reflexivity|]. inversion H as [|? ? Hr Hrs]; subst. cbn [fix_last].
  destruct (existsb w_stmt rs).
  - rewrite !flat_cons, !map_app, IH by assumption. reflexivity.
  - destruct (w_stmt r) eqn:Hs; [|reflexivity]. rewrite !flat_cons, !map_app, fend_set_own by assumption. reflexivity.
Qed.

Lemma thread_fend file toks : forall ns,
  Forall (fun m => forall le, map fend (flat1 (snd (walk file toks m le))) = dends toks m) ns ->
  forall le, map fend (flat (snd (thread (walk file toks) ns le))) = flat_map (dends toks) ns.
Proof.
  induction 1 as [|m r Hm Hr IH]; intros le; [reflexivity|].
  cbn [thread]. specialize (Hm le). destruct (walk file toks m le) as [le1 r1]. specialize (IH le1).
  fold (thread (walk file toks)). destruct (thread (walk file toks) r le1) as [le2 rs].
  cbn [snd] in *. cbn [flat_map]. rewrite flat_cons, !map_app, Hm, IH. reflexivity.
Qed.

Theorem walk_fend file toks : forall n le,
  map fend (flat1 (snd (walk file toks n le))) = dends toks n.
Proof.
  induction n as [k key f l t attrs kids Ha Hk] using pnode_ind2. intros le.
  pose proof (thread_fend file toks attrs Ha) as TA.
  pose proof (thread_fend file toks kids Hk) as TK.
  assert (LA : forall le, fst (thread (walk file toks) attrs le) = last (map (raw_end toks) (flat_map calls attrs)) le).
  { apply thread_lastend. apply Forall_forall. intros m _ le0. apply walk_lastend. }
  assert (LK : forall le, fst (thread (walk file toks) kids le) = last (map (raw_end toks) (flat_map calls kids)) le).
  { apply thread_lastend. apply Forall_forall. intros m _ le0. apply walk_lastend. }
  assert (E : forall (b : bool) le, exists le1 pre,
    (if b then thread (walk file toks) attrs le else (le, [])) = (le1, pre) /\
    map fend (flat pre) = (if b then flat_map (dends toks) attrs else []) /\
    le1 = last (map (raw_end toks) (if b then flat_map calls attrs else [])) le).
  { intros b le0. destruct b.
    - specialize (TA le0). specialize (LA le0). destruct (thread (walk file toks) attrs le0) as [x y]. cbn [fst snd] in *. eauto.
    - exists le0, []. repeat split. }
  cbn [walk dends inner_calls].
  destruct (E (attr_before k) le) as (le1 & pre & -> & P1 & L1).
  set (own := own_ctx file toks k f l t).
  set (le2 := if has_own k then cend own else le1).
  destruct (E (attr_after k) le2) as (le3 & mid & -> & P2 & L2).
  pose proof (thread_stmt_inv file toks kids le3) as SI.
  specialize (TK le3). specialize (LK le3). destruct (thread (walk file toks) kids le3) as [le4 krs]. cbn [fst snd] in TK, SI, LK.
  destruct (E (attr_last k) le4) as (le5 & post & -> & P3 & _).
  cbn [snd]. unfold flat1. cbn [w_pre w_own w_post]. rewrite !map_app, P1, P2, P3.
  assert (K : map fend (flat (if is_scope k then fix_last le4 krs else krs)) = flat_map (dends toks) kids).
  { destruct (is_scope k); [rewrite fend_fix_last by exact SI|]; exact TK. }
  rewrite K. f_equal. f_equal.
  destruct (has_own k) eqn:HO; [|reflexivity]. cbn [opt_list map]. unfold fend. cbn [ekind ectx].
  destruct (fix_end k) eqn:X; [|reflexivity].
  cbn [set_cend cend]. do 3 f_equal.
  (* le4 = the last raw end among: attributes-before, own, attributes-after, body *)
  rewrite ?map_app, !last_app. cbn [last].
  rewrite LK, L2. subst le2 own. rewrite own_ctx_end. reflexivity.
Qed.

Lemma walk_list_fend file toks ns le :
  map fend (flat (snd (walk_list file toks ns le))) = flat_map (dends toks) ns.
Proof. unfold walk_list. apply thread_fend. apply Forall_forall. intros m _ le0. apply walk_fend. Qed.

(* the whole module, file by file in compile order *)
Fixpoint fixed_ends (fs : list file) : list (N * option loc) :=
  match fs with
  | [] => []
  | f :: r => flat_map (dends (positions (f_dl f) (f_lines f))) (f_forest f) ++ fixed_ends r
  end.

Lemma compile_from_fend : forall fs idx le, map fend (compile_from idx fs le) = fixed_ends fs.
Proof.
  induction fs as [|f fs IH]; intros idx le; [reflexivity|].
  cbn [compile_from fixed_ends].
  pose proof (walk_list_fend idx (positions (f_dl f) (f_lines f)) (f_forest f) le) as K.
  destruct (walk_list idx (positions (f_dl f) (f_lines f)) (f_forest f) le) as [le1 rs]. cbn [snd] in K.
  rewrite !map_app, IH, K. reflexivity.
Qed.

(* HEADLINE: for EVERY text and every declaration forest, the k-th context of the module has the kind of the k-th
   declaration, and the End of an application, a type / table and a simple endpoint - the kinds whose End the code
   overwrites with lastEnd when the rule is left - is exactly the end of the last context computed inside the rule *)
Theorem loc_end_lastend fs :
  Forall2 (fun e x => ekind e = fst x /\ (fix_end (ekind e) = true -> snd x = Some (cend (ectx e))))
          (compile fs) (fixed_ends fs).
Proof.
  assert (H : map fend (compile fs) = map (fun x => x) (fixed_ends fs)) by (rewrite compile_eq, map_id; apply compile_from_fend).
  apply map_eq_Forall2 in H. eapply Forall2_weaken; [|exact H]. intros e x E. unfold fend in E. destruct x as [k o].
  injection E as E1 E2. cbn [fst snd]. split; [exact E1|]. intros X. rewrite X in E2. symmetry. exact E2.
Qed.

(* fixed_ends runs parallel to the declarations of LocProps: same length, same kinds *)
Lemma dends_kinds toks : forall n, map fst (dends toks n) = map dk_kind (decls n).
Proof.
  induction n as [k key f l t attrs kids Ha Hk] using pnode_ind2.
  assert (T : forall ns, Forall (fun m => map fst (dends toks m) = map dk_kind (decls m)) ns ->
              map fst (flat_map (dends toks) ns) = map dk_kind (flat_map decls ns)).
  { induction 1 as [|m r Hm Hr IH]; [reflexivity|]. cbn [flat_map]. rewrite !map_app, Hm, IH. reflexivity. }
  cbn [dends decls]. rewrite !map_app.
  destruct (attr_before k), (has_own k), (attr_after k), (attr_last k); cbn [map fst dk_kind];
    rewrite ?(T attrs Ha), ?(T kids Hk); reflexivity.
Qed.

Theorem fixed_ends_kinds : forall fs, map fst (fixed_ends fs) = map d_kind (declarations fs).
Proof.
  unfold declarations. generalize 0. intros idx fs. revert idx.
  induction fs as [|f fs IH]; intros idx; [reflexivity|].
  cbn [fixed_ends declarations_from]. rewrite !map_app, (IH (idx + 1)), map_map. cbn [d_kind]. f_equal.
  induction (f_forest f) as [|m r IHr]; [reflexivity|]. cbn [flat_map]. rewrite !map_app, IHr, dends_kinds. reflexivity.
Qed.

(* ---------- where a raw end lies in the text ---------- *)

Lemma raw_end_real dl ls c ln col w len :
  (c_kind c =? kText) = false -> written_at ls (c_last c) = Some (ln, col, R w len) ->
  raw_end (positions dl ls) c = {| lline := ln; lcol := col + len |}.
Proof. intros K W. unfold raw_end. rewrite K. eapply endp_written_real; exact W. Qed.

Lemma raw_end_dedent dl ls c ln col :
  (c_kind c =? kText) = false -> written_at ls (c_last c) = Some (ln, col, S) ->
  raw_end (positions dl ls) c = {| lline := ln; lcol := col + trigger_width ls (c_last c) + dl |}.
Proof. intros K W. unfold raw_end. rewrite K. apply endp_written_dedent; exact W. Qed.

(* a text statement ends on the line of its stop token, at its start column + the byte length of its text *)
Lemma raw_end_text dl ls c ln0 col0 w0 len0 ln col w len :
  (c_kind c =? kText) = true ->
  written_at ls (c_first c) = Some (ln0, col0, R w0 len0) -> written_at ls (c_last c) = Some (ln, col, R w len) ->
  raw_end (positions dl ls) c = {| lline := ln; lcol := col0 + c_tlen c |}.
Proof.
  intros K W0 W. unfold raw_end. rewrite K.
  rewrite (endp_written_real dl ls _ _ _ _ _ W), (start_of_written dl ls _ _ _ _ _ W0). reflexivity.
Qed.

(* the last call of a rule whose End is overwritten is never "nothing": it makes at least its own call *)
Lemma inner_calls_nonempty k key f l t attrs kids : fix_end k = true -> inner_calls (P k key f l t attrs kids) <> [].
Proof.
  intros X. cbn [inner_calls]. rewrite (fix_has_own k X).
  destruct (if attr_before k then flat_map calls attrs else []); discriminate.
Qed.

(* Example (a test by vm_compute, non-vacuity of loc_end_lastend): an application with an attribute, holding a type with
   one field and an endpoint with a text statement that carries an attribute: the type ends where its field ends, the
   endpoint where the statement's attribute ends (ExitStatements comes before ExitSimple_endpoint), the application where
   the endpoint ends *)
Definition le_file : file :=
  F 1 [ [R 2 2; R 1 1; R 1 1; R 1 1; R 2 2; R 1 1; R 1 1];                          (* A0 [~m1]:           *)
        [R 4 4; R 5 5; R 1 1; R 2 2; R 1 1];                                         (*     !type T0:       *)
        [R 8 8; R 2 2; R 1 1; R 2 2; R 1 1; R 3 3];                                  (*         f0 <: int   *)
        [S; R 4 4; R 2 2; R 1 1];                                                    (*     E0:             *)
        [R 8 8; R 4 6; R 1 1; R 1 1; R 1 1; R 2 2; R 1 1];                           (*         wörk [~s1]  *)
        [S; S] ]
    [P kApp 1 0 5 0 [P kMod 2 3 4 0 [] []]
       [P kType 3 8 18 0 [] [P kField 4 13 17 0 [] []];
        P kEndpoint 5 20 29 0 [] [P kText 6 23 23 6 [P kMod 7 26 27 0 [] []] []]]].

Example lastend_example :
  map fend (compile [le_file])
  = [(kMod, None);
     (kApp, Some {| lline := 4; lcol := 17 |});        (* = the end of ~s1, the last context inside the application *)
     (kType, Some {| lline := 2; lcol := 17 |});       (* = the end of the field f0 <: int *)
     (kField, None);
     (kEndpoint, Some {| lline := 4; lcol := 17 |});   (* = the end of ~s1: the statement's attributes are read when it is left *)
     (kText, None); (kMod, None)]
  /\ map fend (compile [le_file]) = fixed_ends [le_file].
Proof. split; vm_compute; reflexivity. Qed.
