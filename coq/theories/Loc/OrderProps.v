(* C08 - declaration order across the files of a specification (round 3).

   Model.flatten is the transliteration of parse.go flattenSpecs used by compile_spec. Here it is tied to the
   specification of the depth-first preorder that C05 proves the parser follows (Imports/Collect.dfs, with the generic
   theorems of Imports/FlattenProps.v), for EVERY import graph - cross edges, diamonds, back edges / cycles, imports of
   files that are not part of the specification - and the order of the contexts of an element declared in several
   files is derived from it (decl_order). *)
From Coq Require Import List NArith Arith Bool Lia Sorted.
Import ListNotations.
Require Verif.Imports.Collect Verif.Imports.FlattenProps.
Require Import Verif.Loc.Model Verif.Loc.LocProps.
Local Open Scope N_scope.

(* the import graph as C05 sees it: imports in textual order, and which indices are files of the specification *)
Definition graph_of (g : list (list N)) : Collect.graph := fun i => nth (N.to_nat i) g [].
Definition present_of (g : list (list N)) : N -> bool := fun i => i <? N.of_nat (length g).

Lemma flatten_from_dfs g : forall fuel acc i r,
  Collect.dfs fuel (graph_of g) (present_of g) acc i = Some r -> flatten_from fuel g acc i = r.
Proof.
  induction fuel as [|k IH]; intros acc i r H; [discriminate|].
  rewrite FlattenProps.dfs_S in H. cbn [flatten_from].
  change (Collect.mem i acc) with (mem i acc) in H.
  destruct (mem i acc); [injection H as <-; reflexivity|].
  unfold present_of in H at 1. destruct (i <? N.of_nat (length g)); [|injection H as <-; reflexivity].
  assert (F : forall l a r0, fold_left (FlattenProps.dstep (graph_of g) (present_of g) k) l (Some a) = Some r0 ->
                             fold_left (flatten_from k g) l a = r0).
  { induction l as [|c l IHl]; intros a r0 Hf.
    - cbn in Hf. injection Hf as <-. reflexivity.
    - rewrite FlattenProps.fold_cons in Hf. cbn [fold_left].
      destruct (Collect.dfs k (graph_of g) (present_of g) a c) as [a1|] eqn:Hc; [|rewrite FlattenProps.fold_none in Hf; discriminate].
      rewrite (IH _ _ _ Hc). apply IHl, Hf. }
  apply F. exact H.
Qed.

Definition universe (g : list (list N)) : list N := map N.of_nat (seq 0 (length g)).

Lemma universe_covers g f : present_of g f = true -> In f (universe g).
Proof.
  unfold present_of, universe. intros H. apply N.ltb_lt in H.
  replace f with (N.of_nat (N.to_nat f)) by apply N2Nat.id. apply in_map, in_seq. lia.
Qed.

(* the fuel of Model.flatten (one more than there are files) always suffices, whatever the graph: flatten never
   stops early, and what it returns IS the depth-first preorder of C05 *)
Theorem flatten_is_dfs g :
  Collect.dfs (Datatypes.S (length g)) (graph_of g) (present_of g) [] 0 = Some (flatten g).
Proof.
  destruct (FlattenProps.dfs_enough (graph_of g) (present_of g) (universe g) (universe_covers g) (Datatypes.S (length g)) [] 0) as [r Hr].
  { rewrite FlattenProps.miss_nil. unfold universe. rewrite map_length, seq_length. lia. }
  rewrite Hr. f_equal. symmetry. apply flatten_from_dfs. exact Hr.
Qed.

(* each file once *)
Theorem flatten_nodup g : NoDup (flatten g).
Proof.
  destruct (FlattenProps.dfs_incl_nodup _ _ _ _ _ _ (flatten_is_dfs g)) as [_ H]. apply H. constructor.
Qed.

(* the root is parsed, every parsed file is a file of the specification, and every file of the specification that a
   parsed file imports is parsed too *)
Theorem flatten_closed g :
  (g <> [] -> In 0 (flatten g)) /\
  forall x, In x (flatten g) -> present_of g x = true /\
    forall c, In c (graph_of g x) -> present_of g c = true -> In c (flatten g).
Proof.
  destruct (FlattenProps.dfs_closed _ _ _ _ _ _ (flatten_is_dfs g)) as [H1 H2]. split.
  - intros Hg. apply H1. unfold present_of. apply N.ltb_lt. destruct g; [contradiction|cbn [length]; lia].
  - intros x Hx. destruct (H2 x Hx) as [[]|[Hp Hc]]. split; assumption.
Qed.

(* what is already listed stays in front: the order only grows at its end *)
Lemma flatten_from_prefix g : forall fuel acc i, exists s, flatten_from fuel g acc i = acc ++ s.
Proof.
  induction fuel as [|k IH]; intros acc i; [exists []; cbn; rewrite app_nil_r; reflexivity|].
  cbn [flatten_from]. destruct (mem i acc); [exists []; rewrite app_nil_r; reflexivity|].
  destruct (i <? N.of_nat (length g)); [|exists []; rewrite app_nil_r; reflexivity].
  assert (F : forall l a, exists s, fold_left (flatten_from k g) l a = a ++ s).
  { induction l as [|c l IHl]; intros a; [exists []; cbn; rewrite app_nil_r; reflexivity|].
    cbn [fold_left]. destruct (IH a c) as [s1 ->]. destruct (IHl (a ++ s1)) as [s2 ->].
    exists (s1 ++ s2). rewrite app_assoc. reflexivity. }
  destruct (F (nth (N.to_nat i) g []) (acc ++ [i])) as [s ->]. exists ([i] ++ s). rewrite app_assoc. reflexivity.
Qed.

(* the root file is parsed first *)
Theorem flatten_root_first g : g <> [] -> exists s, flatten g = 0 :: s.
Proof.
  intros Hg. unfold flatten. cbn [flatten_from mem existsb].
  assert (L : (0 <? N.of_nat (length g)) = true) by (apply N.ltb_lt; destruct g; [contradiction|cbn [length]; lia]).
  rewrite L. cbn [app].
  assert (F : forall l a, exists s, fold_left (flatten_from (length g) g) l a = a ++ s).
  { induction l as [|c l IHl]; intros a; [exists []; cbn; rewrite app_nil_r; reflexivity|].
    cbn [fold_left]. destruct (flatten_from_prefix g (length g) a c) as [s1 ->]. destruct (IHl (a ++ s1)) as [s2 ->].
    exists (s1 ++ s2). rewrite app_assoc. reflexivity. }
  destruct (F (nth (N.to_nat 0) g []) [0]) as [s ->]. exists s. reflexivity.
Qed.

(* ---------- decl_order ---------- *)

(* the declarations of element k in one file, tagged with the position of the file in the parse order *)
Definition file_decls (k p : N) (f : file) : list (N * loc) :=
  map (fun d => (p, start_of (positions (f_dl f) (f_lines f)) (dk_first d)))
      (filter (fun d => dk_key d =? k) (flat_map decls (f_forest f))).

Fixpoint per_file (k p : N) (fs : list file) : list (N * loc) :=
  match fs with [] => [] | f :: r => file_decls k p f ++ per_file k (p + 1) r end.

Lemma decls_per_file k : forall fs idx,
  map (fun d => (d_file d, start_of (positions (d_dl d) (d_lines d)) (d_first d)))
      (filter (fun d => d_key d =? k) (declarations_from idx fs)) = per_file k idx fs.
Proof.
  induction fs as [|f fs IH]; intros idx; [reflexivity|].
  cbn [declarations_from per_file]. rewrite filter_app, map_app, IH. f_equal.
  unfold file_decls. rewrite filter_map_comm, map_map. reflexivity.
Qed.

(* HEADLINE decl_order: for every specification (files + import graph, any graph) the contexts of an element are its
   declarations file by file in the order the files are parsed - the depth-first preorder of the import graph, each
   file once - and inside a file in text order; the file number of a context is the position of its file in that order *)
Theorem decl_order fs g k :
  map (fun c => (cfile c, cstart c)) (contexts_of k (compile_spec fs g))
  = per_file k 0 (map (fun i => nth (N.to_nat i) fs dfile) (flatten g)).
Proof. rewrite decl_count_spec. apply decls_per_file. Qed.

Lemma per_file_ge k : forall fs p, Forall (fun x => p <= fst x) (per_file k p fs).
Proof.
  induction fs as [|f fs IH]; intros p; [constructor|]. cbn [per_file]. apply Forall_app. split.
  - unfold file_decls. apply Forall_forall. intros x Hx. apply in_map_iff in Hx. destruct Hx as (d & <- & _). cbn. lia.
  - eapply Forall_impl; [|apply (IH (p + 1))]. cbn. intros a Ha. lia.
Qed.

Lemma per_file_sorted k : forall fs p, StronglySorted N.le (map fst (per_file k p fs)).
Proof.
  induction fs as [|f fs IH]; intros p; [constructor|]. cbn [per_file]. rewrite map_app.
  pose proof (per_file_ge k fs (p + 1)) as G. specialize (IH (p + 1)).
  unfold file_decls. rewrite map_map. cbn [fst].
  induction (filter (fun d => dk_key d =? k) (flat_map decls (f_forest f))) as [|d ds IHd]; [exact IH|].
  cbn [map app]. constructor; [exact IHd|]. apply Forall_app. split.
  - apply Forall_forall. intros x Hx. apply in_map_iff in Hx. destruct Hx as (? & <- & _). lia.
  - apply Forall_forall. intros x Hx. apply in_map_iff in Hx. destruct Hx as (y & <- & Hy).
    rewrite Forall_forall in G. specialize (G y Hy). lia.
Qed.

(* ... in particular a context recorded earlier never belongs to a file parsed later *)
Corollary decl_order_sorted fs g k :
  StronglySorted N.le (map cfile (contexts_of k (compile_spec fs g))).
Proof.
  replace (map cfile (contexts_of k (compile_spec fs g)))
    with (map fst (map (fun c => (cfile c, cstart c)) (contexts_of k (compile_spec fs g)))) by (rewrite map_map; reflexivity).
  rewrite decl_order. apply per_file_sorted.
Qed.

(* tests (vm_compute over samples, not theorems): a cross edge, a back edge, a self import, an import of a file that is
   not part of the specification *)
Example flatten_samples :
  flatten [[1; 2]; [2; 3]; []; []] = [0; 1; 2; 3] /\ flatten [[2; 1]; [0; 3]; [1]; [2]] = [0; 2; 1; 3]
  /\ flatten [[0; 1]; [1; 0]] = [0; 1] /\ flatten [[5; 1]; []] = [0; 1] /\ flatten [] = [].
Proof. repeat split; reflexivity. Qed.
