(* C08 - MODEL (definitions only, executable).

   How source locations are computed, transliterated from
     pkg/parse/utils.go           sourceCtxHelper.get
     pkg/parse/listener_impl.go   getSrcCtx / getSrcCtxFor (lastEnd), the Enter*/Exit* handlers that record a
                                  context (order of the get calls per rule), the End := lastEnd fix-ups in
                                  ExitApp_decl, ExitTable, ExitSimple_endpoint and popScope, the text-statement
                                  end column, and
     pkg/grammar/lexer_impl.go    createDedentToken (a DEDENT has no text position of its own: ANTLR stamps it
                                  with the lexer's position AFTER the token that triggered it, and its text is the
                                  first character of the file)
   together with ANTLR's own counting of token positions (line starts at 1 and grows at every newline, column =
   number of code points since the newline; a tab is one column, a non-ASCII character is one column).

   A file is a list of lines, a line a list of items: R w len = a real token (visible or hidden) that is w code
   points wide and len bytes long; S = a synthetic DEDENT, written in front of the item that triggered it.
   The parse tree arrives as a forest of declaration nodes that name their first and last token by ordinal
   (position in the flattened item list); which token is first / last for a rule is grammar knowledge of the
   harness, tied by correspondence only. *)
From Coq Require Import List NArith PArith Bool.
Import ListNotations.
Local Open Scope N_scope.

(* ---------- text and ANTLR positions ---------- *)
Inductive item := R (w len : N) | S.
Definition line := list item.

Record ptok := { pline : N; pcol : N; plen : N }.   (* as antlr.Token: GetLine (1-based), GetColumn, len(GetText) *)

Definition item_w (i : item) : N := match i with R w _ => w | S => 0 end.

(* width of the next real item of the line: the token whose arrival made the lexer emit the DEDENTs before it *)
Fixpoint next_w (l : line) : N :=
  match l with [] => 0 | R w _ :: _ => w | S :: r => next_w r end.

Fixpoint pos_line (dl ln col : N) (l : line) : list ptok :=
  match l with
  | [] => []
  | R w len :: r => {| pline := ln; pcol := col; plen := len |} :: pos_line dl ln (col + w) r
  | S :: r => {| pline := ln; pcol := col + next_w r; plen := dl |} :: pos_line dl ln col r
  end.

Fixpoint pos_lines (dl ln : N) (ls : list line) : list ptok :=
  match ls with [] => [] | l :: r => pos_line dl ln 0 l ++ pos_lines dl (ln + 1) r end.

(* dl: byte length of the first character of the file (the text of every DEDENT) *)
Definition positions (dl : N) (ls : list line) : list ptok := pos_lines dl 1 ls.

(* ---------- sourceCtxHelper.get ---------- *)
Record loc := { lline : N; lcol : N }.
Record ctx := { cfile : N; cstart : loc; cend : loc }.

Definition sc_get (file : N) (st en : ptok) : ctx :=
  {| cfile := file;
     cstart := {| lline := pline st - 1; lcol := pcol st |};
     cend := {| lline := pline en - 1; lcol := pcol en + plen en |} |}.

Definition set_cend (e : loc) (c : ctx) : ctx := {| cfile := cfile c; cstart := cstart c; cend := e |}.

(* ---------- declaration nodes ---------- *)
Inductive pnode := P (k : N) (key : N) (first last tlen : N) (attrs kids : list pnode).

Definition kApp := 1. Definition kType := 2. Definition kField := 3. Definition kEndpoint := 4.
Definition kEvent := 5. Definition kRestPath := 6. Definition kMethod := 7. Definition kText := 8.
Definition kPlain := 9. Definition kBlock := 10. Definition kOneOf := 11. Definition kCase := 12.
Definition kAnno := 13. Definition kNvp := 14. Definition kMod := 15. Definition kItem := 16.
(* round 3: import statement, !enum, !alias, !union and its members, "| text" doc-string statement, endpoint /
   event / method parameter (a field rule inside "(...)") *)
Definition kImport := 17. Definition kEnum := 18. Definition kAlias := 19. Definition kUnion := 20.
Definition kMember := 21. Definition kDoc := 22. Definition kParam := 23.
(* the "..." body of an application: EnterSimple_endpoint makes an endpoint named "..." and returns before getSrcCtx *)
Definition kHolder := 24.
(* a query parameter of a REST method (EnterQuery_var): own context only *)
Definition kQuery := 25.
(* round 3, second pass: a typed path parameter "{id <: int}" of a REST path (EnterHttp_path_var_with_type: own context
   only; walked after the path's attributes, before its body); the collector ".. * <- *:" (EnterCollector: own context,
   no attributes, a statement scope left by popScope, End NOT overwritten) and its statements (the four
   EnterCollector_*_stmt handlers: own context; ExitCollector_stmts: the attributes, when the statement is left); a
   subscription "Pub -> Event [..]:" (EnterSubscribe: own context, then the attributes, then the SAME rule's context once
   more for the call statement it appends to the publisher's event - kSubCall, handed to the model as the first node of
   the subscription's body: it is walked behind the attributes and is no statement of the scope -, then a statement
   scope; End not overwritten) *)
Definition kPathVar := 26. Definition kCollector := 27. Definition kCollStmt := 28.
Definition kSubscribe := 29. Definition kSubCall := 30.

Definition mem (k : N) (l : list N) : bool := existsb (N.eqb k) l.

(* rest_endpoint (a path) and one_of_cases record no context of their own *)
Definition has_own (k : N) : bool := negb (mem k [kRestPath; kCase; kHolder]).
(* makeAttributeArray runs before the rule's own getSrcCtx: EnterName_with_attribs, EnterSimple_endpoint,
   EnterRest_endpoint, EnterMethod_def *)
Definition attr_before (k : N) : bool := mem k [kApp; kEndpoint; kRestPath; kMethod; kAlias; kUnion].
(* ... after it, before the body: EnterTable -> EnterTable_def, EnterField -> EnterField_type, EnterEvent *)
Definition attr_after (k : N) : bool := mem k [kType; kField; kEvent; kEnum; kParam; kSubscribe].
(* ... after the body: ExitStatements *)
Definition attr_last (k : N) : bool := negb (attr_before k) && negb (attr_after k).
(* End := lastEnd on exit: ExitApp_decl, ExitTable, ExitSimple_endpoint *)
Definition fix_end (k : N) : bool := mem k [kApp; kType; kEndpoint].
(* popScope on a statement scope: the LAST statement of the scope gets End := lastEnd *)
Definition is_scope (k : N) : bool := mem k [kEndpoint; kEvent; kMethod; kBlock; kCase; kCollector; kSubscribe].
Definition is_stmt (k : N) : bool := mem k [kText; kPlain; kBlock; kOneOf; kDoc; kCollStmt].
(* the End of the context is the one sourceCtxHelper.get computes from the rule's stop token and nothing overwrites it
   later: no End := lastEnd on exit, not a statement (popScope may patch the last statement of a scope; the text
   statement replaces the end column) *)
Definition end_exact_kind (k : N) : bool := has_own k && negb (fix_end k) && negb (is_stmt k).

Record entry := { ekey : N; ekind : N; ectx : ctx }.
Record wres := { w_pre : list entry; w_own : option entry; w_post : list entry; w_stmt : bool }.

Definition opt_list {A} (o : option A) : list A := match o with Some a => [a] | None => [] end.
Definition flat1 (r : wres) : list entry := w_pre r ++ opt_list (w_own r) ++ w_post r.
Definition flat (rs : list wres) : list entry := flat_map flat1 rs.

Definition set_own_end (le : loc) (r : wres) : wres :=
  {| w_pre := w_pre r;
     w_own := match w_own r with Some e => Some {| ekey := ekey e; ekind := ekind e; ectx := set_cend le (ectx e) |} | None => None end;
     w_post := w_post r; w_stmt := w_stmt r |}.

(* popScope: lastStatement() of the scope gets the current lastEnd *)
Fixpoint fix_last (le : loc) (rs : list wres) : list wres :=
  match rs with
  | [] => []
  | r :: rest =>
      if existsb w_stmt rest then r :: fix_last le rest
      else if w_stmt r then set_own_end le r :: rest else r :: rest
  end.

Definition dtok : ptok := {| pline := 0; pcol := 0; plen := 0 |}.
Definition tok_at (toks : list ptok) (o : N) : ptok := nth (N.to_nat o) toks dtok.

(* the rule's own context; EnterText_stmt: End.Col = Start.Col + len(text) *)
Definition own_ctx (file : N) (toks : list ptok) (k first last tlen : N) : ctx :=
  let c := sc_get file (tok_at toks first) (tok_at toks last) in
  if k =? kText then set_cend {| lline := lline (cend c); lcol := lcol (cstart c) + tlen |} c else c.

(* run a walker over a list of nodes, threading lastEnd through *)
Definition thread {A} (f : A -> loc -> loc * wres) : list A -> loc -> loc * list wres :=
  fix go (ns : list A) (le : loc) {struct ns} : loc * list wres :=
    match ns with
    | [] => (le, [])
    | m :: r => let '(le1, r1) := f m le in
                let '(le2, rs) := go r le1 in (le2, r1 :: rs)
    end.

Fixpoint walk (file : N) (toks : list ptok) (n : pnode) (le : loc) {struct n} : loc * wres :=
  match n with
  | P k key first last tlen attrs kids =>
      let wl := thread (walk file toks) in
      let '(le1, pre) := if attr_before k then wl attrs le else (le, []) in
      let own := own_ctx file toks k first last tlen in
      let le2 := if has_own k then cend own else le1 in            (* getSrcCtxFor: s.lastEnd = sc.End *)
      let '(le3, mid) := if attr_after k then wl attrs le2 else (le2, []) in
      let '(le4, krs) := wl kids le3 in
      let krs' := if is_scope k then fix_last le4 krs else krs in   (* popScope *)
      let own' := if fix_end k then set_cend le4 own else own in     (* Exit...: End = s.lastEnd *)
      let '(le5, post) := if attr_last k then wl attrs le4 else (le4, []) in   (* ExitStatements *)
      (le5, {| w_pre := flat pre;
               w_own := if has_own k then Some {| ekey := key; ekind := k; ectx := own' |} else None;
               w_post := flat mid ++ flat krs' ++ flat post;
               w_stmt := is_stmt k |})
  end.

Definition walk_list (file : N) (toks : list ptok) : list pnode -> loc -> loc * list wres :=
  thread (walk file toks).

(* ---------- files and the module ---------- *)
Record file := F { f_dl : N; f_lines : list line; f_forest : list pnode }.

(* The position state of the listener that lives across the files of one compilation (parse.go parseSpecs, one
   TreeShapeListener for all files): `sc`, a sourceCtxHelper VALUE whose only fields are the file name and the version
   (Gen: helper_fields), and `lastEnd`. sourceCtxHelper.get reads the two fields and writes nothing (Gen:
   get_receiver_writes, get_foreign_idents): a context depends on the current file name and the two tokens only, never
   on a context handed out before. For every file parseSpecs assigns a FRESH literal `sourceCtxHelper{file, version}`
   to listener.sc (Gen: sc_switch = FreshLiteral, inside the per-file loop) and touches nothing else of the position
   state (Gen: parsespecs_listener_writes): lastEnd survives from file to file. *)
Record helper := { h_file : N }.
Record lstate := { l_sc : helper; l_lastEnd : loc }.
Definition switch_file (st : lstate) (idx : N) : lstate :=
  {| l_sc := {| h_file := idx |}; l_lastEnd := l_lastEnd st |}.

(* one listener walks the files in the order flattenSpecs gives them *)
Fixpoint compile_st (idx : N) (fs : list file) (st : lstate) : list entry :=
  match fs with
  | [] => []
  | f :: r => let st1 := switch_file st idx in
              let '(le1, rs) := walk_list (h_file (l_sc st1)) (positions (f_dl f) (f_lines f)) (f_forest f) (l_lastEnd st1) in
              flat rs ++ compile_st (idx + 1) r {| l_sc := l_sc st1; l_lastEnd := le1 |}
  end.

(* the same with the state spelled out as its two components (the form the proofs use; compile_st_eq) *)
Fixpoint compile_from (idx : N) (fs : list file) (le : loc) : list entry :=
  match fs with
  | [] => []
  | f :: r => let '(le1, rs) := walk_list idx (positions (f_dl f) (f_lines f)) (f_forest f) le in
              flat rs ++ compile_from (idx + 1) r le1
  end.

Definition loc0 : loc := {| lline := 0; lcol := 0 |}.
Definition st0 : lstate := {| l_sc := {| h_file := 0 |}; l_lastEnd := loc0 |}.
Definition compile (fs : list file) : list entry := compile_st 0 fs st0.

(* ---------- the order in which the files are compiled ---------- *)

(* parse.go flattenSpecs: a file is added once, when first met, and its imports are then followed in the order of
   the import statements (depth-first preorder; C05 proves this is what the parser does). g: for every file of the
   specification (by index) the indices of the files it imports, in textual order. *)
Fixpoint flatten_from (fuel : nat) (g : list (list N)) (acc : list N) (i : N) : list N :=
  match fuel with
  | O => acc
  | Datatypes.S fuel' =>
      if mem i acc then acc                                   (* an element of specs has the same index: return *)
      else if i <? N.of_nat (length g)                        (* fi, found := retrieved.l[index]; if found { ... } *)
      then fold_left (flatten_from fuel' g) (nth (N.to_nat i) g []) (acc ++ [i])
      else acc
  end.

(* the recursion is at most one level deeper than there are files *)
Definition flatten (g : list (list N)) : list N := flatten_from (Datatypes.S (length g)) g [] 0.

Definition dfile : file := F 0 [] [].

(* the module compiled from a specification given as its files (by index) and its import graph:
   declaration order = flatten order *)
Definition compile_spec (fs : list file) (g : list (list N)) : list entry :=
  compile (map (fun i => nth (N.to_nat i) fs dfile) (flatten g)).

(* every (re)declaration appends its context to the element it names: the contexts of an element, in order *)
Definition contexts_of (k : N) (es : list entry) : list ctx :=
  map ectx (filter (fun e => N.eqb (ekey e) k) es).
