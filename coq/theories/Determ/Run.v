(* Correspondence glue for C19: one case = (function, ordinal of the map range in it, the keys in the order the
   generated model declares them, the order in which the real output shows them). *)
From Coq Require Import String List Bool.
Import ListNotations.
Require Import Verif.Determ.SortPerm Verif.Determ.MapOrder Verif.Base.Harness.

Definition c19_case := (string * nat * list string * list string)%type.

(* the declared order plays the role of one arbitrary iteration oracle: emission_order with the identity oracle *)
Definition c19_ok (table:list map_range) (c:c19_case) : bool :=
  match c with (fn, n, keys, obs) =>
    match class_of table fn n with
    | Some CollectSort => list_eqb String.eqb obs (emission_order String.leb CollectSort (fun l => l) keys)
    | Some _ => list_eqb String.eqb (go_sort_strings obs) (go_sort_strings keys)   (* some permutation *)
    | None => false
    end
  end.

(* Sort sites: (function, ordinal, the elements in declaration order with the projections the comparator compares,
   the labels in the order the real output shows them).  The site must be in Gen.MapRanges.sort_sites, its comparator
   must have exactly as many links as the harness printed projections, and the observed order must be the model's sort
   under the lexicographic chain of those projections (for a comparator that is total on the printed rows every
   sort_result is this one: SortSitesProps.lex_total_unique). *)
Require Import Verif.Determ.SortSites.
Definition c19_sort_case := (string * nat * list row * list string)%type.

Definition c19_sort_ok (table:list sort_site) (c:c19_sort_case) : bool :=
  match c with (fn, n, rows, obs) =>
    match site_of table fn n with
    | Some s =>
        let k := List.length (ss_keys s) in
        negb (Nat.eqb k 0) && forallb (fun r => Nat.eqb (List.length (snd r)) k) rows &&
        list_eqb String.eqb obs (map fst (go_sort_stable (less (columns k)) rows))
    | None => false
    end
  end.
