(* Correspondence glue for C19: one case = (function, ordinal of the map range in it, the keys in the order the
   generated model declares them, the order in which the real output shows them). *)
From Coq Require Import String List Bool.
Import ListNotations.
Require Import Verif.Determ.SortPerm Verif.Determ.MapOrder Verif.Base.Harness.

Definition c19_case := (string * nat * list string * list string)%type.

(* the declared order plays the role of one arbitrary iteration oracle: emission_order with the identity oracle *)
Definition c19_ok (table:list map_range) (c:c19_case) : bool :=
  match c with (fn, n, keys, obs) =>
    match class_of table fn n with
    | Some CollectSort => list_eqb String.eqb obs (emission_order String.leb CollectSort (fun l => l) keys)
    | Some _ => list_eqb String.eqb (go_sort_strings obs) (go_sort_strings keys)   (* some permutation *)
    | None => false
    end
  end.
