(* C19 proofs over Determ/MapOrder.v: which loop shapes are independent of the iteration oracle (all inputs,
   all oracles, no bounds) and which are not (refutations with witnesses). *)
From Coq Require Import String Ascii List Bool Permutation Sorted NArith Lia.
Import ListNotations.
Require Import Verif.Determ.SortPerm Verif.Determ.MapOrder.

(* ------------------------------------------------------------------ byte-wise string order is a total order *)

Lemma ascii_compare_refl : forall a, Ascii.compare a a = Eq.
Proof. intros a; unfold Ascii.compare; apply N.compare_refl. Qed.

Lemma string_compare_trans_le : forall s1 s2 s3,
  String.compare s1 s2 <> Gt -> String.compare s2 s3 <> Gt -> String.compare s1 s3 <> Gt.
Proof.
  induction s1 as [|a s1 IH]; intros [|b s2] [|c s3]; cbn [String.compare]; try congruence.
  destruct (Ascii.compare a b) eqn:E1; destruct (Ascii.compare b c) eqn:E2; intros H1 H2; try congruence.
  - apply Ascii.compare_eq_iff in E1; apply Ascii.compare_eq_iff in E2; subst.
    rewrite ascii_compare_refl. apply (IH s2 s3); assumption.
  - apply Ascii.compare_eq_iff in E1; subst. rewrite E2. discriminate.
  - apply Ascii.compare_eq_iff in E2; subst. rewrite E1. discriminate.
  - unfold Ascii.compare in *. rewrite N.compare_lt_iff in E1, E2.
    assert (E : (N_of_ascii a ?= N_of_ascii c)%N = Lt) by (apply N.compare_lt_iff; lia).
    rewrite E. discriminate.
Qed.

Lemma string_leb_trans : forall x y z, String.leb x y = true -> String.leb y z = true -> String.leb x z = true.
Proof.
  unfold String.leb; intros x y z H1 H2.
  assert (A : String.compare x y <> Gt) by (destruct (String.compare x y); congruence).
  assert (B : String.compare y z <> Gt) by (destruct (String.compare y z); congruence).
  pose proof (string_compare_trans_le x y z A B) as C.
  destruct (String.compare x z); congruence.
Qed.

(* sort.Strings after collecting the keys of a map: the result does not depend on the collection order *)
Theorem go_sort_strings_perm_invariant : forall l1 l2, Permutation l1 l2 -> go_sort_strings l1 = go_sort_strings l2.
Proof.
  intros l1 l2 H. unfold go_sort_strings.
  apply (isort_perm_invariant string String.leb String.leb_total string_leb_trans String.leb_antisym); exact H.
Qed.

Theorem go_sort_strings_sorted : forall l, StronglySorted (le String.leb) (go_sort_strings l).
Proof. intro l. apply (isort_sorted string String.leb String.leb_total string_leb_trans). Qed.

Theorem go_sort_strings_perm : forall l, Permutation l (go_sort_strings l).
Proof. intro l. apply isort_perm. Qed.

(* ------------------------------------------------------------------ helper: filter respects permutations *)

Lemma Permutation_filter' {A} (p:A -> bool) : forall l1 l2, Permutation l1 l2 -> Permutation (filter p l1) (filter p l2).
Proof.
  induction 1 as [|x l1 l2 H IH|x y l|l1 l2 l3 H1 IH1 H2 IH2]; cbn [filter].
  - constructor.
  - destruct (p x); [apply perm_skip|]; exact IH.
  - destruct (p x), (p y); try reflexivity. apply perm_swap.
  - etransitivity; eassumption.
Qed.

Lemma Permutation_flat_map' {A B} (g:A -> list B) : forall l1 l2, Permutation l1 l2 -> Permutation (flat_map g l1) (flat_map g l2).
Proof.
  induction 1 as [|x l1 l2 H IH|x y l|l1 l2 l3 H1 IH1 H2 IH2]; cbn [flat_map].
  - constructor.
  - apply Permutation_app_head, IH.
  - rewrite !app_assoc. apply Permutation_app_tail, Permutation_app_comm.
  - etransitivity; eassumption.
Qed.

(* ------------------------------------------------------------------ collect - sort - emit *)

Section CollectSort.
  Variables K V O : Type.
  Variable leb : K -> K -> bool.
  Variable keqb : K -> K -> bool.
  Hypothesis leb_total : forall x y, leb x y = true \/ leb y x = true.
  Hypothesis leb_trans : forall x y z, leb x y = true -> leb y z = true -> leb x z = true.
  Hypothesis leb_antisym : forall x y, leb x y = true -> leb y x = true -> x = y.

  Lemma collect_perm : forall (ord1 ord2:list (K * V) -> list (K * V)) keep m,
    Permutation (ord1 m) m -> Permutation (ord2 m) m ->
    Permutation (collect ord1 keep m) (collect ord2 keep m).
  Proof.
    intros ord1 ord2 keep m H1 H2. unfold collect.
    apply Permutation_map, Permutation_filter'.
    etransitivity; [exact H1|apply Permutation_sym; exact H2].
  Qed.

  (* HEADLINE: the collect-sort-emit shape yields the same output under any two iteration oracles *)
  Theorem emit_sorted_order_independent : forall (ord1 ord2:list (K * V) -> list (K * V)) keep (emit:K -> option V -> list O) m,
    Permutation (ord1 m) m -> Permutation (ord2 m) m ->
    collect_sort_emit leb keqb ord1 keep emit m = collect_sort_emit leb keqb ord2 keep emit m.
  Proof.
    intros ord1 ord2 keep emit m H1 H2. unfold collect_sort_emit.
    rewrite (isort_perm_invariant K leb leb_total leb_trans leb_antisym _ _ (collect_perm ord1 ord2 keep m H1 H2)).
    reflexivity.
  Qed.

  (* ... and what it emits is exactly the kept keys, each once per occurrence, in sorted order *)
  Theorem emit_sorted_is_sorted_keys : forall (ord:list (K * V) -> list (K * V)) keep m,
    Permutation (ord m) m ->
    let ks := isort leb (collect ord keep m) in
    StronglySorted (le leb) ks /\ Permutation ks (map fst (filter (fun kv => keep (fst kv) (snd kv)) m)).
  Proof.
    intros ord keep m H ks. split; [apply isort_sorted; assumption|].
    subst ks. etransitivity; [apply Permutation_sym, isort_perm|].
    unfold collect. apply Permutation_map, Permutation_filter', H.
  Qed.

  Theorem emission_order_sorted_independent : forall (ord1 ord2:list K -> list K) keys,
    Permutation (ord1 keys) keys -> Permutation (ord2 keys) keys ->
    emission_order leb CollectSort ord1 keys = emission_order leb CollectSort ord2 keys.
  Proof.
    intros ord1 ord2 keys H1 H2. cbn [emission_order].
    apply (isort_perm_invariant K leb leb_total leb_trans leb_antisym).
    etransitivity; [exact H1|apply Permutation_sym; exact H2].
  Qed.

  (* direct emission in loop order depends on the oracle as soon as the map has two different keys *)
  Theorem emit_unsorted_dependent : forall (a b:K) (t:list K), a <> b ->
    exists ord1 ord2 : list K -> list K,
      Permutation (ord1 (a :: b :: t)) (a :: b :: t) /\ Permutation (ord2 (a :: b :: t)) (a :: b :: t) /\
      emission_order leb Emit ord1 (a :: b :: t) <> emission_order leb Emit ord2 (a :: b :: t).
  Proof.
    intros a b t Hab.
    exists (fun l => l), (fun l => match l with x :: y :: r => y :: x :: r | _ => l end).
    split; [reflexivity|]. split; [apply perm_swap|].
    cbn [emission_order]. intros E. injection E as E1 _. exact (Hab E1).
  Qed.
End CollectSort.

(* concrete refutation for the shape `for k, v := range m { emit k v }` (today: see Classified.v for where it occurs) *)
Theorem emit_unsorted_refuted : exists (ord1 ord2:list (string * nat) -> list (string * nat)) (m:list (string * nat)),
  Permutation (ord1 m) m /\ Permutation (ord2 m) m /\ NoDup (map fst m) /\
  range_emit ord1 (fun k _ => [k]) m <> range_emit ord2 (fun k _ => [k]) m.
Proof.
  exists (fun l => l), (@rev _), [("onpremise"%string, 1); ("cloud"%string, 2)].
  split; [reflexivity|]. split; [apply Permutation_sym, Permutation_rev|].
  split; [repeat constructor; cbn; intuition discriminate|].
  cbn. discriminate.
Qed.

(* Sorting with a comparator that is not antisymmetric on what is being sorted (sort.Slice by source line,
   when two entries share a line) does NOT erase the oracle: the antisymmetry hypothesis of
   sort_perm_unique is necessary. *)
Theorem sort_by_noninjective_key_refuted : exists (l1 l2:list (nat * string)),
  Permutation l1 l2 /\
  isort (fun x y => Nat.leb (fst x) (fst y)) l1 <> isort (fun x y => Nat.leb (fst x) (fst y)) l2.
Proof.
  exists [(3, "T1"%string); (3, "T2"%string)], [(3, "T2"%string); (3, "T1"%string)].
  split; [apply perm_swap|]. cbn. discriminate.
Qed.

(* ------------------------------------------------------------------ map-to-map *)

Section MapToMapProps.
  Variables K V K' V' : Type.
  Variable k'eqb : K' -> K' -> bool.
  Hypothesis k'eqb_eq : forall a b, k'eqb a b = true <-> a = b.

  Definition entries (f:K -> V -> option (K' * option V')) (m:list (K * V)) : list (K' * option V') :=
    flat_map (fun kv => match f (fst kv) (snd kv) with Some e => [e] | None => [] end) m.

  Lemma written_entries : forall f m, written f m = map fst (entries f m).
  Proof.
    intros f m; induction m as [|kv m IH]; [reflexivity|].
    unfold written, entries in *. cbn [flat_map]. rewrite map_app, <- IH.
    destruct (f (fst kv) (snd kv)) as [[k' v']|]; reflexivity.
  Qed.

  Definition apply_entries (es:list (K' * option V')) (d:dmap K' V') : dmap K' V' :=
    fold_left (fun d e => dstore k'eqb d (fst e) (snd e)) es d.

  Lemma loop_as_entries : forall f l d,
    fold_left (fun d kv => match f (fst kv) (snd kv) with Some (k', v') => dstore k'eqb d k' v' | None => d end) l d
    = apply_entries (entries f l) d.
  Proof.
    intros f l; induction l as [|kv l IH]; intro d; cbn; [reflexivity|].
    unfold apply_entries. rewrite fold_left_app. fold (apply_entries (entries f l)).
    rewrite IH. destruct (f (fst kv) (snd kv)) as [[k' v']|]; reflexivity.
  Qed.

  Definition assoc (x:K') (es:list (K' * option V')) := find (fun e => k'eqb x (fst e)) es.

  Lemma apply_entries_spec : forall es d x, NoDup (map fst es) ->
    apply_entries es d x = match assoc x es with Some e => snd e | None => d x end.
  Proof.
    induction es as [|[k v] es IH]; intros d x ND; cbn; [reflexivity|].
    inversion ND as [|? ? Hni ND']; subst.
    unfold apply_entries in *. cbn [fold_left fst snd]. rewrite (IH _ x ND').
    unfold assoc; cbn [find fst snd]. unfold dstore at 1.
    destruct (k'eqb x k) eqn:E.
    - apply k'eqb_eq in E; subst x.
      assert (N : find (fun e => k'eqb k (fst e)) es = None).
      { destruct (find (fun e => k'eqb k (fst e)) es) as [e|] eqn:F; [|reflexivity].
        apply find_some in F as [Hin He]. apply k'eqb_eq in He. exfalso; apply Hni.
        rewrite He. apply in_map, Hin. }
      rewrite N. reflexivity.
    - reflexivity.
  Qed.

  Lemma assoc_perm : forall x es es', Permutation es es' -> NoDup (map fst es) -> assoc x es = assoc x es'.
  Proof.
    intros x es es' HP; induction HP as [|e l1 l2 H IH|e1 e2 l|l1 l2 l3 H1 IH1 H2 IH2]; intro ND.
    - reflexivity.
    - unfold assoc in *; cbn [find]. destruct (k'eqb x (fst e)); [reflexivity|].
      apply IH. inversion ND; assumption.
    - unfold assoc; cbn [find].
      destruct (k'eqb x (fst e1)) eqn:E1; destruct (k'eqb x (fst e2)) eqn:E2; try reflexivity.
      exfalso. apply k'eqb_eq in E1; apply k'eqb_eq in E2.
      inversion ND as [|? ? Hni _]; subst. apply Hni. cbn [map]. left. congruence.
    - rewrite IH1 by exact ND. apply IH2.
      eapply Permutation_NoDup; [apply Permutation_map; exact H1|exact ND].
  Qed.

  (* HEADLINE (map-to-map): if no two source entries write the same destination key, the destination map is the
     same, key by key, whatever the iteration order. *)
  Theorem map_insert_order_independent : forall (ord1 ord2:list (K * V) -> list (K * V))
      (f:K -> V -> option (K' * option V')) (dst:dmap K' V') m,
    Permutation (ord1 m) m -> Permutation (ord2 m) m -> NoDup (written f m) ->
    forall x, map_insert_loop k'eqb ord1 f dst m x = map_insert_loop k'eqb ord2 f dst m x.
  Proof.
    intros ord1 ord2 f dst m H1 H2 ND x. unfold map_insert_loop.
    rewrite !loop_as_entries.
    assert (P1 : Permutation (entries f (ord1 m)) (entries f m)) by (apply Permutation_flat_map', H1).
    assert (P2 : Permutation (entries f (ord2 m)) (entries f m)) by (apply Permutation_flat_map', H2).
    rewrite written_entries in ND.
    assert (N1 : NoDup (map fst (entries f (ord1 m)))) by
      (eapply Permutation_NoDup; [apply Permutation_map, Permutation_sym; exact P1|exact ND]).
    assert (N2 : NoDup (map fst (entries f (ord2 m)))) by
      (eapply Permutation_NoDup; [apply Permutation_map, Permutation_sym; exact P2|exact ND]).
    rewrite (apply_entries_spec _ dst x N1), (apply_entries_spec _ dst x N2).
    rewrite (assoc_perm x _ _ P1 N1), (assoc_perm x _ _ (Permutation_sym P2) ND) at 1.
    reflexivity.
  Qed.
End MapToMapProps.

(* When two entries of the ranged map store under the SAME destination key, the last writer wins and the
   result depends on the oracle (pkg/datamodeldiagram: outmap[outputDir] with an output name that does not
   contain %(epname); pkg/exporter: swaggerTypes[attK] for equal attribute names in two types). *)
Theorem map_insert_collision_refuted : exists (ord1 ord2:list (string * nat) -> list (string * nat)) (m:list (string * nat)) x,
  Permutation (ord1 m) m /\ Permutation (ord2 m) m /\ NoDup (map fst m) /\
  map_insert_loop String.eqb ord1 (fun _ v => Some ("out.png"%string, Some v)) (fun _ => None) m x
  <> map_insert_loop String.eqb ord2 (fun _ v => Some ("out.png"%string, Some v)) (fun _ => None) m x.
Proof.
  exists (fun l => l), (@rev _), [("view_b"%string, 1); ("View_a"%string, 2)], "out.png"%string.
  split; [reflexivity|]. split; [apply Permutation_sym, Permutation_rev|].
  split; [repeat constructor; cbn; intuition discriminate|].
  cbn. discriminate.
Qed.

(* non-vacuity of the hypotheses above *)
Example map_insert_nonvacuous :
  let m := [("b"%string, 1); ("a"%string, 2); ("c"%string, 3)] in
  Permutation (rev m) m /\ NoDup (written (fun k v => Some (k, Some v)) m) /\
  map_insert_loop String.eqb (@rev _) (fun k v => Some (k, Some v)) (fun _ => None) m "a"%string = Some 2.
Proof.
  cbn. split; [apply Permutation_sym, (Permutation_rev [("b"%string, 1); ("a"%string, 2); ("c"%string, 3)])|].
  split; [repeat constructor; cbn; intuition discriminate|reflexivity].
Qed.

Example collect_sort_nonvacuous :
  let m := [("beta10"%string, 1); ("Zeta"%string, 2); ("alpha"%string, 3); ("B"%string, 4)] in
  collect_sort_emit String.leb String.eqb (@rev _) (fun _ v => negb (Nat.eqb v 3)) (fun k _ => [k]) m
  = ["B"%string; "Zeta"%string; "beta10"%string].
Proof. reflexivity. Qed.
