(* C19 proofs over Determ/SortSites.v: when is the result of sort.Slice / sort.SliceStable / sort.Sort independent of the
   order in which the slice was filled (all element types, all comparators of the lexicographic-chain shape, all
   inputs, no bounds), and when is it not (refutations, general and with witnesses). *)
From Coq Require Import String List Bool Permutation Sorted NArith Lia.
Import ListNotations.
Require Import Verif.Determ.SortPerm Verif.Determ.SortSites Verif.Determ.MapOrderProps.

Section Props.
  Variable A : Type.

  (* a projection compared three-way: antisymmetric, Eq is a congruence, Lt is transitive.  Every
     `a.k < b.k` / strings.Compare(a.k, b.k) on integers or strings is one (see key_component_wf). *)
  Definition wf (c:component A) : Prop :=
    (forall x y, c y x = CompOpp (c x y)) /\
    (forall x y z o, c x y = Eq -> c y z = o -> c x z = o) /\
    (forall x y z, c x y = Lt -> c y z = Lt -> c x z = Lt).

  (* the projection is unique in the slice *)
  Definition inj_on (c:component A) (l:list A) : Prop := forall x y, In x l -> In y l -> c x y = Eq -> x = y.

  Definition ltof (c:component A) : A -> A -> bool := fun x y => match c x y with Lt => true | _ => false end.

  Lemma less_ltof : forall cs : list (component A), less cs = ltof (lex cs).
  Proof. reflexivity. Qed.

  Lemma wf_refl : forall c, wf c -> forall x, c x x = Eq.
  Proof. intros c (Ha & _ & _) x. specialize (Ha x x). destruct (c x x); cbn in Ha; congruence. Qed.

  Lemma wf_lt_eq : forall c, wf c -> forall x y z, c x y = Lt -> c y z = Eq -> c x z = Lt.
  Proof.
    intros c (Ha & He & _) x y z H1 H2.
    assert (E : c z y = Eq) by (rewrite (Ha y z), H2; reflexivity).
    assert (G : c y x = Gt) by (rewrite (Ha x y), H1; reflexivity).
    pose proof (He z y x Gt E G) as Hz. rewrite (Ha z x), Hz. reflexivity.
  Qed.

  Lemma tied_eq : forall c, wf c -> forall x y, tied (ltof c) x y = true <-> c x y = Eq.
  Proof.
    intros c (Ha & _) x y. unfold tied, ltof. rewrite (Ha x y).
    destruct (c x y); cbn; intuition congruence.
  Qed.

  (* ---------------------------------------------------------------- the chain is again such a comparison *)
  Lemma lex_wf : forall cs : list (component A), Forall wf cs -> wf (lex cs).
  Proof.
    induction 1 as [|c r Hc Hr IH].
    - repeat split; cbn [lex]; intros; congruence.
    - destruct IH as (Ia & Ie & It). pose proof Hc as (Ha & He & Ht).
      repeat split.
      + intros x y. cbn [lex]. rewrite (Ha x y). destruct (c x y); cbn [CompOpp]; [apply Ia|reflexivity|reflexivity].
      + intros x y z o H1 H2. cbn [lex] in *. destruct (c x y) eqn:E1; try discriminate.
        destruct (c y z) eqn:E2.
        * rewrite (He x y z Eq E1 E2). eapply Ie; eassumption.
        * rewrite (He x y z Lt E1 E2). exact H2.
        * rewrite (He x y z Gt E1 E2). exact H2.
      + intros x y z H1 H2. cbn [lex] in *.
        destruct (c x y) eqn:E1; try discriminate; destruct (c y z) eqn:E2; try discriminate.
        * rewrite (He x y z Eq E1 E2). eapply It; eassumption.
        * rewrite (He x y z Lt E1 E2). reflexivity.
        * rewrite (wf_lt_eq c Hc x y z E1 E2). reflexivity.
        * rewrite (Ht x y z E1 E2). reflexivity.
  Qed.

  Lemma lex_eq_all : forall (cs : list (component A)) x y, lex cs x y = Eq -> Forall (fun c => c x y = Eq) cs.
  Proof.
    induction cs as [|c r IH]; intros x y H; cbn [lex] in H; [constructor|].
    destruct (c x y) eqn:E; try discriminate. constructor; auto.
  Qed.

  (* a tie of the chain is a tie of every link: one unique projection anywhere in the chain breaks all ties *)
  Lemma lex_inj_on : forall (cs : list (component A)) l, Exists (fun c => inj_on c l) cs -> inj_on (lex cs) l.
  Proof.
    intros cs l HE x y Hx Hy H. apply lex_eq_all in H. apply Exists_exists in HE as (c & Hc & Hi).
    rewrite Forall_forall in H. exact (Hi x y Hx Hy (H c Hc)).
  Qed.

  (* ---------------------------------------------------------------- TOTAL ORDER ON KEY  =>  unique result *)
  Lemma sorted_perm_unique_on : forall (R:A -> A -> Prop) l1 l2,
    Permutation l1 l2 -> StronglySorted R l1 -> StronglySorted R l2 ->
    (forall x y, In x l1 -> In y l1 -> R x y -> R y x -> x = y) -> l1 = l2.
  Proof.
    intros R; induction l1 as [|a t1 IH]; intros l2 HP H1 H2 Hanti.
    - apply Permutation_nil in HP; subst; reflexivity.
    - destruct l2 as [|b t2]; [apply Permutation_sym, Permutation_nil in HP; discriminate|].
      inversion H1 as [|? ? Ht1 Ha]; subst. inversion H2 as [|? ? Ht2 Hb]; subst.
      assert (Ia : In a (b :: t2)) by (eapply Permutation_in; [exact HP|left; reflexivity]).
      assert (Ib : In b (a :: t1)) by (eapply Permutation_in; [apply Permutation_sym; exact HP|left; reflexivity]).
      assert (Hab : a = b).
      { destruct Ia as [E|Ia']; [symmetry; exact E|]. destruct Ib as [E|Ib']; [exact E|].
        rewrite Forall_forall in Ha, Hb.
        apply Hanti; [left; reflexivity|right; exact Ib'|apply Ha, Ib'|apply Hb, Ia']. }
      subst b. f_equal. apply IH; [eapply Permutation_cons_inv; exact HP|assumption|assumption|].
      intros x y Hx Hy. apply Hanti; right; assumption.
  Qed.

  (* HEADLINE: two fillings of the slice in different orders (two map-iteration oracles), ANY two outcomes the sort
     may produce for them (stable or not): equal, provided the compared key is unique in the slice *)
  Theorem total_comparator_unique : forall c, wf c -> forall in1 in2 out1 out2,
    Permutation in1 in2 -> inj_on c in1 ->
    sort_result (ltof c) in1 out1 -> sort_result (ltof c) in2 out2 -> out1 = out2.
  Proof.
    intros c Hwf in1 in2 out1 out2 HP Hinj (P1 & S1) (P2 & S2).
    apply (sorted_perm_unique_on (fun x y => ltof c y x = false)); [|exact S1|exact S2|].
    - etransitivity; [apply Permutation_sym, P1|]. etransitivity; [exact HP|exact P2].
    - intros x y Hx Hy Rxy Ryx. apply Hinj.
      + eapply Permutation_in; [apply Permutation_sym, P1|exact Hx].
      + eapply Permutation_in; [apply Permutation_sym, P1|exact Hy].
      + apply (tied_eq c Hwf). unfold tied. rewrite Rxy, Ryx. reflexivity.
  Qed.

  (* ... for the chain `if a.k1 != b.k1 {...}; ...; return a.kn < b.kn`: ONE unique link suffices *)
  Theorem lex_total_unique : forall cs : list (component A), Forall wf cs -> forall in1 in2 out1 out2,
    Permutation in1 in2 -> Exists (fun c => inj_on c in1) cs ->
    sort_result (less cs) in1 out1 -> sort_result (less cs) in2 out2 -> out1 = out2.
  Proof.
    intros cs Hwf in1 in2 out1 out2 HP HE R1 R2. rewrite less_ltof in R1, R2.
    exact (total_comparator_unique (lex cs) (lex_wf cs Hwf) in1 in2 out1 out2 HP (lex_inj_on cs in1 HE) R1 R2).
  Qed.

  (* ---------------------------------------------------------------- PARTIAL + stable: a function of the input order *)
  Lemma stable_core : forall lt : A -> A -> bool, (forall x, tied lt x x = true) -> forall out1 out2,
    consistent lt out1 -> consistent lt out2 ->
    (forall x, filter (tied lt x) out1 = filter (tied lt x) out2) -> out1 = out2.
  Proof.
    intros lt Hrefl; induction out1 as [|a t1 IH]; intros out2 S1 S2 HF.
    - destruct out2 as [|b t2]; [reflexivity|]. specialize (HF b). cbn [filter] in HF. rewrite Hrefl in HF. discriminate.
    - destruct out2 as [|b t2]; [specialize (HF a); cbn [filter] in HF; rewrite Hrefl in HF; discriminate|].
      inversion S1 as [|? ? St1 Ha]; subst. inversion S2 as [|? ? St2 Hb]; subst.
      rewrite Forall_forall in Ha, Hb.
      assert (Laa : lt a a = false).
      { pose proof (Hrefl a) as H. unfold tied in H. destruct (lt a a); [discriminate|reflexivity]. }
      assert (Ia : In a (b :: t2)).
      { pose proof (HF a) as H. cbn [filter] in H. rewrite (Hrefl a) in H.
        assert (I : In a (filter (tied lt a) (b :: t2))) by (cbn [filter]; rewrite <- H; left; reflexivity).
        apply filter_In in I. exact (proj1 I). }
      assert (Ib : In b (a :: t1)).
      { pose proof (HF b) as H. cbn [filter] in H. rewrite (Hrefl b) in H.
        assert (I : In b (filter (tied lt b) (a :: t1))) by (cbn [filter]; rewrite H; left; reflexivity).
        apply filter_In in I. exact (proj1 I). }
      assert (Lab : lt a b = false) by (destruct Ia as [E|I]; [subst b; exact Laa|exact (Hb a I)]).
      assert (Lba : lt b a = false) by (destruct Ib as [E|I]; [subst b; exact Laa|exact (Ha b I)]).
      assert (Hab : a = b).
      { pose proof (HF a) as H. cbn [filter] in H. rewrite (Hrefl a) in H.
        unfold tied at 2 in H. rewrite Lab, Lba in H. cbn [negb andb] in H. injection H as E _. exact E. }
      subst b. f_equal. apply IH; [assumption|assumption|].
      intros x. pose proof (HF x) as H. cbn [filter] in H. destruct (tied lt x a); [injection H as H; exact H|exact H].
  Qed.

  (* sort.SliceStable / sort.Stable with ANY comparator of the shape (ties allowed): the result is determined by the
     input order - more precisely by the input order WITHIN every class of tied elements *)
  Theorem stable_result_unique : forall c, wf c -> forall in1 in2 out1 out2,
    (forall x, filter (tied (ltof c) x) in1 = filter (tied (ltof c) x) in2) ->
    stable_result (ltof c) in1 out1 -> stable_result (ltof c) in2 out2 -> out1 = out2.
  Proof.
    intros c Hwf in1 in2 out1 out2 HF ((_ & S1) & F1) ((_ & S2) & F2).
    apply (stable_core (ltof c)); [|exact S1|exact S2|].
    - intro x. apply (tied_eq c Hwf). apply wf_refl, Hwf.
    - intro x. rewrite F1, F2. apply HF.
  Qed.

  Corollary stable_result_deterministic_input : forall c, wf c -> forall input out1 out2,
    stable_result (ltof c) input out1 -> stable_result (ltof c) input out2 -> out1 = out2.
  Proof. intros c Hwf input out1 out2. apply (stable_result_unique c Hwf). reflexivity. Qed.

  (* ---------------------------------------------------------------- the executable stable sort is a stable result *)
  Lemma SS_impl : forall (R1 R2:A -> A -> Prop) l, (forall x y, R1 x y -> R2 x y) -> StronglySorted R1 l -> StronglySorted R2 l.
  Proof.
    intros R1 R2 l Himp H; induction H as [|a l Hl IH Ha]; constructor; [exact IH|].
    eapply Forall_impl; [|exact Ha]. intros y; apply Himp.
  Qed.

  Lemma insert_filter : forall c, wf c -> forall x a s,
    filter (tied (ltof c) x) (insert (fun u v => negb (ltof c v u)) a s) = filter (tied (ltof c) x) (a :: s).
  Proof.
    intros c Hwf x a s; induction s as [|y s IH]; [reflexivity|].
    cbn [insert]. destruct (negb (ltof c y a)) eqn:L; [reflexivity|].
    cbn [filter] in *. rewrite IH.
    destruct (tied (ltof c) x y) eqn:Ty; destruct (tied (ltof c) x a) eqn:Ta; try reflexivity.
    exfalso. apply (tied_eq c Hwf) in Ty. apply (tied_eq c Hwf) in Ta.
    destruct Hwf as (Ha & He & _).
    assert (Eyx : c y x = Eq) by (rewrite (Ha x y), Ty; reflexivity).
    pose proof (He y x a Eq Eyx Ta) as Eya.
    unfold ltof in L. rewrite Eya in L. discriminate.
  Qed.

  Theorem go_sort_stable_is_stable_result : forall c, wf c -> forall l,
    stable_result (ltof c) l (go_sort_stable (ltof c) l).
  Proof.
    intros c Hwf l. unfold go_sort_stable. set (lebc := fun x y => negb (ltof c y x)).
    pose proof Hwf as (Ha & He & Ht).
    assert (Htot : forall x y, lebc x y = true \/ lebc y x = true).
    { intros x y. unfold lebc, ltof. rewrite (Ha x y). destruct (c x y); cbn; auto. }
    assert (Htr : forall x y z, lebc x y = true -> lebc y z = true -> lebc x z = true).
    { intros x y z; unfold lebc, ltof. intros H1 H2.
      destruct (c z x) eqn:Ezx; try reflexivity. exfalso.
      destruct (c z y) eqn:Ezy; cbn in H2; try discriminate.
      - rewrite (He z y x (c y x) Ezy eq_refl) in Ezx. rewrite Ezx in H1. discriminate.
      - assert (Eyz : c y z = Lt) by (rewrite (Ha z y), Ezy; reflexivity).
        rewrite (Ht y z x Eyz Ezx) in H1. discriminate. }
    repeat split.
    - apply isort_perm.
    - unfold consistent. eapply SS_impl; [|apply (isort_sorted A lebc Htot Htr)].
      intros x y H. unfold le, lebc in H. destruct (ltof c y x); [discriminate|reflexivity].
    - intro x. induction l as [|a t IH]; [reflexivity|].
      cbn [isort]. unfold lebc. rewrite (insert_filter c Hwf). cbn [filter]. fold lebc. rewrite IH. reflexivity.
  Qed.

  (* ---------------------------------------------------------------- PARTIAL: refuted *)
  (* an unstable sort with a tie: both orders of the tied pair are outcomes the specification allows *)
  Theorem sort_partial_not_unique : forall (lt:A -> A -> bool) a b, a <> b -> tied lt a b = true ->
    sort_result lt [a; b] [a; b] /\ sort_result lt [a; b] [b; a] /\ [a; b] <> [b; a].
  Proof.
    intros lt a b Hab T. unfold tied in T. apply andb_true_iff in T as (T1 & T2).
    apply negb_true_iff in T1. apply negb_true_iff in T2.
    repeat split.
    - reflexivity.
    - repeat constructor. exact T2.
    - apply perm_swap.
    - repeat constructor. exact T1.
    - intro E. injection E as E _. exact (Hab E).
  Qed.

  (* a STABLE sort with a tie, input in map order: two iteration oracles, two results *)
  Theorem stable_partial_on_map_order_refuted : forall (lt:A -> A -> bool) a b, a <> b -> tied lt a b = true ->
    exists in1 in2 out1 out2, Permutation in1 in2 /\
      stable_result lt in1 out1 /\ stable_result lt in2 out2 /\ out1 <> out2.
  Proof.
    intros lt a b Hab T. destruct (sort_partial_not_unique lt a b Hab T) as ((_ & S1) & (_ & S2) & Hne).
    exists [a; b], [b; a], [a; b], [b; a].
    split; [apply perm_swap|]. repeat split; try reflexivity; assumption.
  Qed.
End Props.

Arguments wf {A}. Arguments inj_on {A}. Arguments ltof {A}.

(* ------------------------------------------------------------------ the links that occur: keys of numbers and strings *)
Lemma N_compare_wf : forall (A:Type) (k:A -> N), wf (fun x y => N.compare (k x) (k y)).
Proof.
  intros A k. repeat split.
  - intros x y. apply N.compare_antisym.
  - intros x y z o H1 H2. apply N.compare_eq in H1. rewrite H1. exact H2.
  - intros x y z H1 H2. rewrite N.compare_lt_iff in *. lia.
Qed.

Lemma string_compare_antisym' : forall a b, String.compare b a = CompOpp (String.compare a b).
Proof. intros a b. apply String.compare_antisym. Qed.

Lemma string_compare_lt_trans : forall a b c, String.compare a b = Lt -> String.compare b c = Lt -> String.compare a c = Lt.
Proof.
  intros a b c H1 H2.
  assert (L1 : String.leb a b = true) by (unfold String.leb; rewrite H1; reflexivity).
  assert (L2 : String.leb b c = true) by (unfold String.leb; rewrite H2; reflexivity).
  pose proof (string_leb_trans a b c L1 L2) as L3. unfold String.leb in L3.
  destruct (String.compare a c) eqn:E; [|reflexivity|discriminate].
  apply String.compare_eq_iff in E. subst c.
  rewrite (string_compare_antisym' a b), H1 in H2. discriminate.
Qed.

Lemma string_compare_wf : forall (A:Type) (k:A -> string), wf (fun x y => String.compare (k x) (k y)).
Proof.
  intros A k. repeat split.
  - intros x y. apply string_compare_antisym'.
  - intros x y z o H1 H2. apply String.compare_eq_iff in H1. rewrite H1. exact H2.
  - intros x y z. apply string_compare_lt_trans.
Qed.

Lemma key_cmp_wf : forall (A:Type) (k:A -> key_val), wf (fun x y => key_cmp (k x) (k y)).
Proof.
  intros A k. repeat split.
  - intros x y. destruct (k x), (k y); cbn; try reflexivity; [apply N.compare_antisym|apply string_compare_antisym'].
  - intros x y z o. destruct (k x), (k y); cbn; try discriminate; intro H1.
    + apply N.compare_eq in H1. subst. auto.
    + apply String.compare_eq_iff in H1. subst. auto.
  - intros x y z. destruct (k x), (k y), (k z); cbn; try discriminate; try reflexivity.
    + rewrite !N.compare_lt_iff. lia.
    + apply string_compare_lt_trans.
Qed.

Lemma columns_wf : forall n, Forall wf (columns n).
Proof.
  intro n. unfold columns. apply Forall_forall. intros c Hc. apply in_map_iff in Hc as (i & <- & _).
  unfold column. apply (key_cmp_wf row (fun r => nth i (snd r) (KN 0))).
Qed.

(* a projection that is injective on the slice gives a link that is *)
Lemma key_inj_on : forall (A:Type) (k:A -> key_val) l, NoDup (map k l) ->
  inj_on (fun x y => key_cmp (k x) (k y)) l.
Proof.
  intros A k l ND x y Hx Hy E.
  assert (Ek : k x = k y).
  { destruct (k x), (k y); cbn in E; try discriminate.
    - apply N.compare_eq in E. congruence.
    - apply String.compare_eq_iff in E. congruence. }
  clear E. induction l as [|a l IH]; [destruct Hx|].
  cbn [map] in ND. inversion ND as [|? ? Hni ND']; subst.
  destruct Hx as [->|Hx], Hy as [->|Hy]; auto.
  - exfalso. apply Hni. rewrite Ek. apply in_map, Hy.
  - exfalso. apply Hni. rewrite <- Ek. apply in_map, Hx.
Qed.

(* ------------------------------------------------------------------ witnesses *)
(* declarations from two files on one line, sorted by line only (syslutil.NamedTypes.Less before its repair) *)
Definition by_line : component (nat * string) := fun x y => Nat.compare (fst x) (fst y).

Theorem sort_by_line_on_map_order_refuted : exists (in1 in2 out1 out2:list (nat * string)),
  Permutation in1 in2 /\ stable_result (ltof by_line) in1 out1 /\ stable_result (ltof by_line) in2 out2 /\ out1 <> out2.
Proof.
  apply (stable_partial_on_map_order_refuted _ (ltof by_line) (3, "Zed"%string) (3, "account"%string)).
  - discriminate.
  - reflexivity.
Qed.

(* the repaired comparator: line, then name; names are map keys *)
Example line_then_name_nonvacuous :
  let l := [KS "Zed"; KS "account"; KS "B2"] in
  let rows : list row := [("Zed"%string, [KN 3; KS "Zed"]); ("account"%string, [KN 3; KS "account"]); ("B2"%string, [KN 2; KS "B2"])] in
  Forall wf (columns 2) /\ Exists (fun c => inj_on c rows) (columns 2) /\
  map fst (go_sort_stable (less (columns 2)) rows) = ["B2"%string; "Zed"%string; "account"%string].
Proof.
  cbn zeta. split; [apply columns_wf|]. split; [|reflexivity].
  apply Exists_cons_tl, Exists_cons_hd. unfold column.
  apply (key_inj_on row (fun r => nth 1 (snd r) (KN 0))).
  cbn. repeat constructor; cbn; intuition discriminate.
Qed.
