(* C19 MODEL (definitions only): the discipline for Go map iteration and the loop shapes that the MapRanges
   translator recognises in the generator packages.

   A Go map is a duplicate-free association list; `for k, v := range m` visits `ord m` where the oracle
   `ord` is arbitrary except that its result is a permutation of its argument (Go re-randomises per loop,
   so every loop gets its own oracle).  Determinism of a generator = its output is the same for any two
   oracles.  The three loop bodies that occur in the generators are transliterated once, generically:

     collect_sort_emit   keys := nil; for k, v := range m { if keep k v { keys = append(keys, k) } }
                         sort.Strings(keys); for _, k := range keys { emit k m[k] }
     range_emit          for k, v := range m { emit k v }                         (written / appended in loop order)
     map_insert_loop     for k, v := range m { if f k v = (k', v') { dst[k'] = v' } }   (map-to-map, delete likewise)

   and `emission_order` is the order in which the per-key payloads of a loop of a given class reach ordered
   output; the class of every real loop comes from Gen.MapRanges (regenerated from the Go source each run). *)
From Coq Require Import String List Bool.
Import ListNotations.
Require Import Verif.Determ.SortPerm.

(* classes assigned by translate/mapranges_classify.go *)
Inductive range_class :=
| CollectSort   (* appends only to slices that are sorted after the loop (+ map stores) *)
| MapInsert     (* map stores / deletes only *)
| Reduce        (* counters, exists/forall probes *)
| NoEffect
| LogOnly       (* logger calls only: diagnostics, not output *)
| Delegate      (* calls whose effect is not visible in the loop *)
| Emit          (* writes / last-writer assignments / first-match exits / appends never sorted *)
| Unknown.      (* the translator could not type the ranged expression *)

Definition class_eqb (a b:range_class) : bool :=
  match a, b with
  | CollectSort, CollectSort | MapInsert, MapInsert | Reduce, Reduce | NoEffect, NoEffect
  | LogOnly, LogOnly | Delegate, Delegate | Emit, Emit | Unknown, Unknown => true
  | _, _ => false
  end.

(* order-independent by shape alone *)
Definition safe_class (c:range_class) : bool :=
  match c with CollectSort | MapInsert | Reduce | NoEffect => true | _ => false end.

(* one `range` over a map: "package.Func" (methods: "package.Recv.Func"), ordinal among the map ranges of
   that function in source order, class *)
Inductive map_range := MR (fn : string) (ordinal : nat) (class : range_class).
Definition mr_fn (r:map_range) := let (f, _, _) := r in f.
Definition mr_ord (r:map_range) := let (_, o, _) := r in o.
Definition mr_class (r:map_range) := let (_, _, c) := r in c.

Definition class_of (table:list map_range) (fn:string) (ordinal:nat) : option range_class :=
  match find (fun r => String.eqb (mr_fn r) fn && Nat.eqb (mr_ord r) ordinal) table with
  | Some r => Some (mr_class r)
  | None => None
  end.

Section Loops.
  Variables K V O : Type.
  Variable leb : K -> K -> bool.
  Variable keqb : K -> K -> bool.

  Definition gomap := list (K * V).
  Definition oracle := gomap -> gomap.

  Definition lookup (k:K) (m:gomap) : option V :=
    match find (fun kv => keqb (fst kv) k) m with Some kv => Some (snd kv) | None => None end.

  (* for k, v := range m { if keep k v { keys = append(keys, k) } }; sort(keys); for _, k := range keys { emit k m[k] } *)
  Definition collect (ord:oracle) (keep:K -> V -> bool) (m:gomap) : list K :=
    map fst (filter (fun kv => keep (fst kv) (snd kv)) (ord m)).

  Definition collect_sort_emit (ord:oracle) (keep:K -> V -> bool) (emit:K -> option V -> list O) (m:gomap) : list O :=
    flat_map (fun k => emit k (lookup k m)) (isort leb (collect ord keep m)).

  (* for k, v := range m { emit k v } *)
  Definition range_emit (ord:oracle) (emit:K -> V -> list O) (m:gomap) : list O :=
    flat_map (fun kv => emit (fst kv) (snd kv)) (ord m).

  (* the order in which keys reach ordered output, by class of the loop *)
  Definition emission_order (c:range_class) (ord:list K -> list K) (keys:list K) : list K :=
    match c with
    | CollectSort => isort leb (ord keys)
    | _ => ord keys
    end.
End Loops.

Section MapToMap.
  Variables K V K' V' : Type.
  Variable k'eqb : K' -> K' -> bool.

  (* destination map as a lookup function: what a later reader (or a sorting encoder) can observe of it *)
  Definition dmap := K' -> option V'.
  Definition dstore (d:dmap) (k:K') (v:option V') : dmap := fun x => if k'eqb x k then v else d x.

  (* for k, v := range m { switch f k v { case some (k', Some v'): dst[k'] = v'; case some (k', None): delete(dst, k') } } *)
  Definition map_insert_loop (ord:list (K * V) -> list (K * V)) (f:K -> V -> option (K' * option V')) (dst:dmap) (m:list (K * V)) : dmap :=
    fold_left (fun d kv => match f (fst kv) (snd kv) with Some (k', v') => dstore d k' v' | None => d end) (ord m) dst.

  Definition written (f:K -> V -> option (K' * option V')) (m:list (K * V)) : list K' :=
    flat_map (fun kv => match f (fst kv) (snd kv) with Some (k', _) => [k'] | None => [] end) m.
End MapToMap.

Arguments lookup {K V}. Arguments collect {K V}. Arguments collect_sort_emit {K V O}. Arguments range_emit {K V O}.
Arguments emission_order {K}. Arguments map_insert_loop {K V K' V'}. Arguments dstore {K' V'}. Arguments written {K V K' V'}.

(* Go compares strings byte-wise; Coq's String.leb is the lexicographic order on the byte codes *)
Definition go_sort_strings (l:list string) : list string := isort String.leb l.
