(* C19 MODEL (definitions only): the comparators of sort.Slice / sort.SliceStable / sort.Sort / sort.Stable.

   Every comparator found in the generator packages is a lexicographic chain
       if a.k1 != b.k1 { return a.k1 < b.k1 }; ...; return a.kn < b.kn
   of projections k1 .. kn of the element.  One projection is a `component`: a three-way comparison of two elements
   by that projection; `lex` is the chain, `less` the boolean the Go comparator returns.

   sort.Slice is NOT modelled by an algorithm: its documentation promises a permutation of the input that is sorted
   with respect to `less` and nothing else ("not guaranteed to be stable"), so the model is a relation
       sort_result less input out  :=  out is a permutation of input in which no later element is less than an earlier one
   (any permutation consistent with the comparator).  The stable variants additionally keep the input order of
   elements that tie: for every x, the elements tied with x form the same subsequence in `out` as in `input`.
   `go_sort_stable` is the executable stable sort (insertion sort placing an element in front of the first element
   that is not less than it) used by the correspondence; SortSitesProps.v proves it is a stable_result.

   `sort_site` is the row type of Gen.MapRanges.sort_sites (translate/mapranges_sorts.go). *)
From Coq Require Import String List Bool Permutation Sorted NArith.
Import ListNotations.
Require Import Verif.Determ.SortPerm.

Inductive sort_api := ApiSlice | ApiSliceStable | ApiSort | ApiStable.
(* KElem: the whole element is compared (a tie = equal elements); KMapKey: a field the filling loop initialises with
   the key of the ranged map (unique in the slice); KProj: any other projection (ties possible) *)
Inductive key_kind := KElem | KMapKey | KProj.
(* where the order of the slice comes from: appended to inside a range over a map in the same function / built in the
   same function otherwise / a parameter, field or call result *)
Inductive sort_src := SrcMapRange | SrcLocal | SrcParam.

Inductive sort_site := SS (fn : string) (ordinal : nat) (api : sort_api) (keys : list (key_kind * string)) (src : sort_src).
Definition ss_fn (s:sort_site) := let (f, _, _, _, _) := s in f.
Definition ss_ord (s:sort_site) := let (_, o, _, _, _) := s in o.
Definition ss_api (s:sort_site) := let (_, _, a, _, _) := s in a.
Definition ss_keys (s:sort_site) := let (_, _, _, k, _) := s in k.
Definition ss_src (s:sort_site) := let (_, _, _, _, r) := s in r.

Definition injective_kind (k:key_kind) : bool := match k with KElem | KMapKey => true | KProj => false end.
Definition stable_api (a:sort_api) : bool := match a with ApiSliceStable | ApiStable => true | _ => false end.
Definition map_ordered (r:sort_src) : bool := match r with SrcMapRange => true | _ => false end.

(* TOTAL-ORDER-ON-KEY: a recognised chain (non-empty) in which some projection is unique in the slice; else PARTIAL *)
Definition total_on_key (s:sort_site) : bool := existsb (fun k => injective_kind (fst k)) (ss_keys s).

Definition site_of (table:list sort_site) (fn:string) (ordinal:nat) : option sort_site :=
  find (fun s => String.eqb (ss_fn s) fn && Nat.eqb (ss_ord s) ordinal) table.

(* package-level variables of the generator packages (state that could survive from one generator run to the next) *)
Inductive var_kind := VMap | VSlice | VPointer | VFunc | VStruct | VScalar | VOther.
Inductive pkg_var := PV (name : string) (kind : var_kind) (written : bool).
Definition pv_name (v:pkg_var) := let (n, _, _) := v in n.
Definition pv_written (v:pkg_var) := let (_, _, w) := v in w.

Section Comparator.
  Variable A : Type.

  Definition component := A -> A -> comparison.

  (* if a.k != b.k { return a.k < b.k }; <rest> *)
  Fixpoint lex (cs:list component) (x y:A) : comparison :=
    match cs with
    | [] => Eq
    | c :: r => match c x y with Eq => lex r x y | o => o end
    end.

  Definition less (cs:list component) (x y:A) : bool := match lex cs x y with Lt => true | _ => false end.

  Variable lt : A -> A -> bool.

  (* what a sort leaves behind: no later element is less than an earlier one *)
  Definition consistent (out:list A) : Prop := StronglySorted (fun x y => lt y x = false) out.
  Definition sort_result (input out:list A) : Prop := Permutation input out /\ consistent out.

  Definition tied (x y:A) : bool := negb (lt x y) && negb (lt y x).
  Definition stable_result (input out:list A) : Prop :=
    sort_result input out /\ forall x, filter (tied x) out = filter (tied x) input.

  Definition go_sort_stable (l:list A) : list A := isort (fun x y => negb (lt y x)) l.
End Comparator.

Arguments lex {A}. Arguments less {A}. Arguments consistent {A}. Arguments sort_result {A}. Arguments tied {A}.
Arguments stable_result {A}. Arguments go_sort_stable {A}.

(* correspondence: an element of a sorted slice as the harness prints it = its projections, one per link of the chain,
   numbers and strings (Go compares strings byte-wise) *)
Inductive key_val := KN (n:N) | KS (s:string).
Definition key_cmp (a b:key_val) : comparison :=
  match a, b with
  | KN x, KN y => N.compare x y
  | KS x, KS y => String.compare x y
  | KN _, KS _ => Lt
  | KS _, KN _ => Gt
  end.
Definition row := (string * list key_val)%type.   (* label shown in the output, compared projections *)
Definition column (i:nat) : component row := fun x y => key_cmp (nth i (snd x) (KN 0)) (nth i (snd y) (KN 0)).
Definition columns (n:nat) : list (component row) := map column (seq 0 n).
