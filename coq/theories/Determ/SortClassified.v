(* C19 obligations on the comparators of the CURRENT source: Gen.MapRanges.sort_sites is regenerated on every run from every
   sort.Slice / sort.SliceStable / sort.Sort / sort.Stable call in the generator packages (translate/mapranges_sorts.go).

     TOTAL-ORDER-ON-KEY  the comparator is a recognised lexicographic chain and one of its links compares the whole element
                         or a field that the filling loop sets to the key of the ranged map: SortSitesProps.lex_total_unique
                         applies, whatever order the slice was filled in and whether or not the sort is stable
     PARTIAL             anything else; must be in `reviewed_sorts`, either because the projection is unique for a reason
                         the translator does not see (UniqueKey), or because ties are possible but the sort is stable and
                         the slice is not filled in map order (StableFixedSource: checked against the table row -
                         SortSitesProps.stable_result_unique applies).  A PARTIAL comparator on a slice filled in map
                         order cannot be reviewed away: SortSitesProps.stable_partial_on_map_order_refuted.

   Breaks (by design): a tie-break removed from a comparator, a new sort whose comparator compares a projection only,
   a comparator rewritten into a shape the translator does not recognise, a SliceStable turned into Slice or a stable
   sort moved onto a slice filled in map order at a StableFixedSource site, a reviewed site that disappears. *)
From Coq Require Import String List Bool Permutation NArith.
Import ListNotations.
Require Import Verif.Determ.SortPerm Verif.Determ.SortSites Verif.Determ.SortSitesProps Verif.Gen.MapRanges.
Local Open Scope string_scope.

Inductive sort_review := UniqueKey | StableFixedSource.

(* one line per site, keyed by function *)
Definition reviewed_sorts : list (string * sort_review) := [
  (* (Category, Order): Order = len(v.symbols) when the symbol is created and symbols are never removed: unique *)
  ("cmdutils.SequenceDiagramVisitor.visitEndpointCollection", UniqueKey);
  (* the slice is rebuilt from a map keyed by the field name that is compared *)
  ("importer.FieldList.SortWithoutDupl", UniqueKey);
  (* one Endpoint per (method, OpenAPI path); getSyslSafeURI is injective (url.PathEscape, then fixed substitutions of characters PathEscape never emits) *)
  ("importer.MethodEndpoints.Sort", UniqueKey);
  (* body parameters come out of Parameters, a map keyed by the parameter name that is compared *)
  ("importer.buildRequestBodyString", UniqueKey);
  (* the elements are the keys of schema.Types; "%s:%s" of (Space, Local) is injective because an XML local name has no colon *)
  ("importer.loadSchemaTypes", UniqueKey);
  (* type names: every place that adds a type of a derived name looks the name up first or derives it from a unique path; see notes/C19.md *)
  ("importer.TypeList.Sort", UniqueKey);
  (* the sub-commands of the sysl binary, a fixed list with distinct names (help text / flag registration order) *)
  ("cmd/sysl.cmdRunner.Configure", UniqueKey)
].

Definition review_of (fn:string) : option sort_review :=
  match find (fun r => String.eqb (fst r) fn) reviewed_sorts with Some r => Some (snd r) | None => None end.

Definition site_ok (s:sort_site) : bool :=
  total_on_key s ||
  match review_of (ss_fn s) with
  | Some UniqueKey => true
  | Some StableFixedSource => stable_api (ss_api s) && negb (map_ordered (ss_src s))
  | None => false
  end.

(* OBLIGATION 5 (sorts_classified): every comparator is total on a unique key or reviewed *)
Lemma sort_sites_classified : forallb site_ok sort_sites = true.
Proof. vm_compute. reflexivity. Qed.

(* OBLIGATION 6: no stale review: every reviewed function still has a sort whose comparator is PARTIAL by shape *)
Lemma reviewed_sorts_exist :
  forallb (fun r => existsb (fun s => String.eqb (ss_fn s) (fst r) && negb (total_on_key s)) sort_sites) reviewed_sorts = true.
Proof. vm_compute. reflexivity. Qed.

(* OBLIGATION 7: the comparators whose tie-break is a repair delivered with this check, or that the correspondence
   observes, keep it: (function, number of links of the chain) *)
Definition required_total : list (string * nat) := [
  ("database.sortNamesByLine", 2);                 (* line, then name (round 2) *)
  ("syslutil.NamedTypesInSourceOrder", 2);         (* fix C19-11: line, then name *)
  ("datamodeldiagram.DataModelView.DrawEnum", 2);  (* fix C19-12: value, then name *)
  ("exporter.convertEnum", 1);
  ("mermaid/datamodeldiagram.printEnum", 1)
].

Lemma required_sorts_total :
  forallb (fun r => existsb (fun s => String.eqb (ss_fn s) (fst r) && total_on_key s && Nat.eqb (length (ss_keys s)) (snd r)) sort_sites)
          required_total = true.
Proof. vm_compute. reflexivity. Qed.

(* OBLIGATION 8 (no state between runs): the package-level variables of the generator packages that some function body
   writes (assigns, stores into, appends to, deletes from, takes the address of, calls a pointer method on) are the
   reviewed ones - today: none.  Every other package-level variable is initialised once and only read. *)
Definition reviewed_written_vars : list string := [].

Lemma written_package_vars_reviewed :
  map pv_name (filter pv_written package_vars) = reviewed_written_vars.
Proof. vm_compute. reflexivity. Qed.

Example package_vars_nonvacuous : (10 <= length package_vars)%nat.
Proof. vm_compute. repeat constructor. Qed.

(* What the table buys, over the model: a comparator realises a table row when it is a chain with one link per listed
   projection and the links listed as unique (KElem, KMapKey) are unique on the slice. *)
Definition realises {A} (s:sort_site) (cs:list (component A)) (l:list A) : Prop :=
  Forall2 (fun k c => injective_kind (fst k) = true -> inj_on c l) (ss_keys s) cs.

Lemma realises_exists : forall A (ks:list (key_kind * string)) (cs:list (component A)) l,
  Forall2 (fun k c => injective_kind (fst k) = true -> inj_on c l) ks cs ->
  existsb (fun k => injective_kind (fst k)) ks = true -> Exists (fun c => inj_on c l) cs.
Proof.
  intros A ks cs l H; induction H as [|k c ks cs Hk Hr IH]; cbn [existsb]; intro E; [discriminate|].
  apply orb_true_iff in E as [E|E]; [apply Exists_cons_hd, Hk, E|apply Exists_cons_tl, IH, E].
Qed.

Theorem total_sites_unique_result : forall s, In s sort_sites -> total_on_key s = true ->
  forall (A:Type) (cs:list (component A)) (in1 in2 out1 out2:list A),
    Forall wf cs -> realises s cs in1 -> Permutation in1 in2 ->
    sort_result (less cs) in1 out1 -> sort_result (less cs) in2 out2 -> out1 = out2.
Proof.
  intros s _ Ht A cs in1 in2 out1 out2 Hwf Hr HP R1 R2.
  apply (lex_total_unique A cs Hwf in1 in2 out1 out2 HP); [|exact R1|exact R2].
  exact (realises_exists A (ss_keys s) cs in1 Hr Ht).
Qed.

(* every site: total, or reviewed *)
Theorem every_sort_total_or_reviewed : forall s, In s sort_sites ->
  total_on_key s = true \/ review_of (ss_fn s) = Some UniqueKey \/
  (review_of (ss_fn s) = Some StableFixedSource /\ stable_api (ss_api s) = true /\ map_ordered (ss_src s) = false).
Proof.
  intros s Hin. pose proof sort_sites_classified as H. rewrite forallb_forall in H. specialize (H s Hin).
  unfold site_ok in H. destruct (total_on_key s); [left; reflexivity|right]. cbn [orb] in H.
  destruct (review_of (ss_fn s)) as [[|]|]; [left; reflexivity| |discriminate].
  right. apply andb_true_iff in H as (H1 & H2). apply negb_true_iff in H2. auto.
Qed.

(* non-vacuity: the table has a total site that is realised by a concrete comparator on a concrete slice with a tie on
   its first link (two declarations on line 3) *)
Example total_site_nonvacuous :
  let rows : list row := [("Zed", [KN 3; KS "Zed"]); ("account", [KN 3; KS "account"]); ("B2", [KN 2; KS "B2"])] in
  exists s, In s sort_sites /\ total_on_key s = true /\ Forall wf (columns 2) /\ realises s (columns 2) rows.
Proof.
  cbn zeta. exists (SS "database.sortNamesByLine" 1 ApiSlice [(KProj, "line(_)"); (KElem, "_")] SrcParam).
  split; [vm_compute; tauto|]. split; [reflexivity|]. split; [apply columns_wf|].
  unfold realises; cbn [ss_keys columns seq map]. constructor; [cbn; discriminate|]. constructor; [|constructor].
  intros _. unfold column. apply (key_inj_on row (fun r => nth 1 (snd r) (KN 0))).
  cbn. repeat constructor; cbn; intuition discriminate.
Qed.
