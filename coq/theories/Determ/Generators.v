(* C19, per generator: the uniform statement  "forall ord1 ord2 (each a permutation), G ord1 m = G ord2 m"  for every
   generator whose Gallina model (built by the sub-task that owns it) takes an explicit map-iteration oracle.
   Nothing is re-modelled here: the models and their lemmas are imported, the statements are brought to one form.

     generator                              model                      how the oracle enters
     OpenAPI 3 export                       Export.OasExport           oracle : list N -> list N at every map range
     module post-processing after parsing   Conc.Post                  ord over mod.Apps (mixins / collectors)
     relational model (relmod.Normalize)    Relmod.Model               two readings of the same Go maps -> wrapper `reread`
     database scripts: table depth pass     Db.Depth                   ord r over the incomplete-table map, per pass r
     import collection (concurrent reads)   Imports.Collect            schedule (goroutine interleaving), not a map

   Generators whose models have NO oracle parameter (Ints, Seq, DataModel: they take names already in sort.Strings
   order) are covered by the map-range classification (Determ/Classified.v) and by repetition only: wrapping them
   in a sort would prove a property of the wrapper, not of the code. *)
From Coq Require Import String List NArith Bool Permutation.
Import ListNotations.
Require Import Verif.Export.OasTypes Verif.Export.OasExport Verif.Export.OasCurrent Verif.Export.GoMapProps
               Verif.Export.OasExportProps Verif.Gen.ExportTables.
Require Import Verif.Conc.Post Verif.Conc.PostProps Verif.Gen.ConcShape.
Require Import Verif.Relmod.Model Verif.Relmod.OrderProps.
Require Verif.Db.Depth Verif.Db.DepthProps Verif.Gen.DbTables.
Require Verif.Imports.Collect Verif.Imports.Current Verif.Gen.ImportRules.

(* ---------------------------------------------------------------- OpenAPI 3 export, tables of the CURRENT source *)
Theorem openapi3_export_order_independent : forall o1 o2 a,
  GoMapProps.perm_oracle o1 -> GoMapProps.perm_oracle o2 -> wf_app a ->
  export3_with tables3_of_source o1 a = export3_with tables3_of_source o2 a.
Proof. intros o1 o2 a H1 H2 Hwf. rewrite tables3_current. apply export_order_independent; assumption. Qed.

(* ---------------------------------------------------------------- post-processing of the parsed module (every command) *)
Theorem postprocess_order_independent : forall m ord1 ord2, map_order ord1 -> map_order ord2 ->
  post_process sorted_apps ord1 m = post_process sorted_apps ord2 m.
Proof.
  (* only the one fact about the source that matters here is taken from Gen.ConcShape (not Conc/Current.v, whose other
     obligations - lexer state, package-level variables - belong to C07) *)
  apply (proj2 (order_independent_iff_sorted sorted_apps)). reflexivity.
Qed.

(* ---------------------------------------------------------------- relational model *)
(* The Relmod model receives each application's endpoint, type and view maps as lists ("one reading of the Go
   maps").  `reread` is another reading: every such map of every application passed through an oracle. *)
Record relmod_oracle := { o_eps : list endpoint -> list endpoint; o_types : list typedecl -> list typedecl;
                          o_views : list view -> list view }.
Definition relmod_perm (o:relmod_oracle) : Prop :=
  (forall l, Permutation (o_eps o l) l) /\ (forall l, Permutation (o_types o l) l) /\ (forall l, Permutation (o_views o l) l).

Definition reread_app (o:relmod_oracle) (ap:app) : app :=
  {| ap_name := ap_name ap; ap_sname := ap_sname ap; ap_long := ap_long ap; ap_doc := ap_doc ap; ap_attrs := ap_attrs ap; ap_mixins := ap_mixins ap;
     ap_eps := o_eps o (ap_eps ap); ap_types := o_types o (ap_types ap); ap_views := o_views o (ap_views ap) |}.
Definition reread (o:relmod_oracle) (m:module) : module := map (reread_app o) m.

(* Go map keys are distinct *)
Definition relmod_wf (m:module) : Prop :=
  Forall (fun ap => NoDup (map e_name (ap_eps ap)) /\ NoDup (map t_name (ap_types ap)) /\ NoDup (map v_name (ap_views ap))) m.

Lemma type_equiv_refl : forall t, type_equiv t t.
Proof. intro t. unfold type_equiv. repeat split; try reflexivity. apply TE_same. Qed.

Lemma Forall2_refl {A} (R:A -> A -> Prop) : (forall x, R x x) -> forall l, Forall2 R l l.
Proof. intros H l; induction l; constructor; auto. Qed.

Lemma reread_equiv : forall o1 o2 ap, relmod_perm o1 -> relmod_perm o2 ->
  NoDup (map e_name (ap_eps ap)) /\ NoDup (map t_name (ap_types ap)) /\ NoDup (map v_name (ap_views ap)) ->
  app_equiv (reread_app o1 ap) (reread_app o2 ap).
Proof.
  intros o1 o2 ap (E1 & T1 & V1) (E2 & T2 & V2) (Ne & Nt & Nv).
  unfold app_equiv, reread_app; cbn [ap_name ap_long ap_doc ap_attrs ap_mixins ap_eps ap_types ap_views].
  repeat split; try reflexivity.
  - eapply Permutation_NoDup; [apply Permutation_map, Permutation_sym, E1|exact Ne].
  - etransitivity; [apply E1|apply Permutation_sym, E2].
  - eapply Permutation_NoDup; [apply Permutation_map, Permutation_sym, T1|exact Nt].
  - exists (o_types o2 (ap_types ap)). split; [etransitivity; [apply T1|apply Permutation_sym, T2]|].
    apply Forall2_refl, type_equiv_refl.
  - eapply Permutation_NoDup; [apply Permutation_map, Permutation_sym, V1|exact Nv].
  - etransitivity; [apply V1|apply Permutation_sym, V2].
Qed.

Theorem relmod_normalize_order_independent : forall cm am g o1 o2 m,
  relmod_perm o1 -> relmod_perm o2 -> relmod_wf m ->
  normalize cm am g (reread o1 m) = normalize cm am g (reread o2 m).
Proof.
  intros cm am g o1 o2 m H1 H2 Hwf. apply normalize_order_independent.
  unfold reread. induction Hwf as [|ap m Hap Hm IH]; cbn [map]; constructor; [|exact IH].
  apply reread_equiv; assumption.
Qed.

(* ---------------------------------------------------------------- database scripts: the depth pass *)
(* PARTIAL for the script as a whole: what is proved for two oracles is that every table gets the same depth (the
   level a table is created in).  Within a level the code orders tables and columns by (line, name); that the whole
   script is then equal is covered by classification (database.* ranges) + repetition, incl. line ties. *)
Theorem db_depth_order_independent : forall m d ord1 ord2 fuel,
  DepthProps.wf m -> DepthProps.is_depth m d -> DepthProps.perm_oracle ord1 -> DepthProps.perm_oracle ord2 -> (length m < fuel)%nat ->
  exists st1 st2, Depth.depth_map DbTables.depth_stop fuel ord1 m = Depth.Ok st1 /\
                  Depth.depth_map DbTables.depth_stop fuel ord2 m = Depth.Ok st2 /\
    forall tb, In tb m -> Depth.depth_get (Depth.complete st1) (Depth.tname tb) = Depth.depth_get (Depth.complete st2) (Depth.tname tb).
Proof. exact (DepthProps.depth_order_independent DbTables.depth_stop). Qed.

(* ---------------------------------------------------------------- import collection: any two goroutine schedules *)
Theorem imports_schedule_independent : forall g root s1 s2,
  Collect.quiescent (Collect.run ImportRules.current_rules g 0 root s1) = true ->
  Collect.quiescent (Collect.run ImportRules.current_rules g 0 root s2) = true ->
  Imports.Current.final_cur g root 0 s1 = Imports.Current.final_cur g root 0 s2.
Proof. exact Imports.Current.closure_unlimited_independent_current. Qed.

(* non-vacuity: a permuting oracle exists and a well-formed module exists *)
Example relmod_oracle_nonvacuous : relmod_perm {| o_eps := @rev _; o_types := @rev _; o_views := @rev _ |}.
Proof. repeat split; intro l; apply Permutation_sym, Permutation_rev. Qed.
