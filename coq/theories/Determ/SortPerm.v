(* C19 base lemmas: a sorted permutation is unique, hence sorting erases the order in which a Go map was
   ranged over.  Generic in the element type and the (boolean, total, transitive, antisymmetric) order;
   instantiated at byte-wise string order (what Go's sort.Strings / `<` on strings is) in MapOrderProps.v. *)
From Coq Require Import List Bool Permutation Sorted.
Import ListNotations.

Section Sort.
  Variable A : Type.
  Variable leb : A -> A -> bool.

  Fixpoint insert (x:A) (l:list A) : list A :=
    match l with
    | [] => [x]
    | y :: t => if leb x y then x :: l else y :: insert x t
    end.

  Fixpoint isort (l:list A) : list A :=
    match l with
    | [] => []
    | x :: t => insert x (isort t)
    end.

  Definition le (x y:A) : Prop := leb x y = true.

  Lemma insert_perm : forall x l, Permutation (x :: l) (insert x l).
  Proof.
    intros x l; induction l as [|y t IH]; cbn [insert]; [reflexivity|].
    destruct (leb x y); [reflexivity|].
    etransitivity; [apply perm_swap|]. apply perm_skip, IH.
  Qed.

  Lemma isort_perm : forall l, Permutation l (isort l).
  Proof.
    induction l as [|x t IH]; cbn [isort]; [constructor|].
    etransitivity; [apply perm_skip, IH|apply insert_perm].
  Qed.

  Hypothesis leb_total : forall x y, leb x y = true \/ leb y x = true.
  Hypothesis leb_trans : forall x y z, leb x y = true -> leb y z = true -> leb x z = true.

  Lemma insert_sorted : forall x l, StronglySorted le l -> StronglySorted le (insert x l).
  Proof.
    intros x l H; induction H as [|y t Ht IH Hy]; cbn [insert].
    - constructor; constructor.
    - destruct (leb x y) eqn:E.
      + constructor; [constructor; assumption|].
        constructor; [exact E|].
        eapply Forall_impl; [|exact Hy]. intros z Hz. eapply leb_trans; [exact E|exact Hz].
      + constructor; [exact IH|].
        assert (Hyx : le y x) by (destruct (leb_total x y) as [C|C]; [rewrite C in E; discriminate|exact C]).
        eapply Permutation_Forall; [apply insert_perm|]. constructor; assumption.
  Qed.

  Lemma isort_sorted : forall l, StronglySorted le (isort l).
  Proof. induction l as [|x t IH]; cbn [isort]; [constructor|apply insert_sorted, IH]. Qed.

  Hypothesis leb_antisym : forall x y, leb x y = true -> leb y x = true -> x = y.

  (* The base lemma of C19.  No duplicate-freeness is needed when the order is antisymmetric. *)
  Theorem sort_perm_unique : forall l1 l2,
    Permutation l1 l2 -> StronglySorted le l1 -> StronglySorted le l2 -> l1 = l2.
  Proof.
    induction l1 as [|a t1 IH]; intros l2 HP H1 H2.
    - apply Permutation_nil in HP; subst; reflexivity.
    - destruct l2 as [|b t2]; [apply Permutation_sym, Permutation_nil in HP; discriminate|].
      inversion H1 as [|? ? Ht1 Ha]; subst. inversion H2 as [|? ? Ht2 Hb]; subst.
      assert (Hab : a = b).
      { assert (Ia : In a (b :: t2)) by (eapply Permutation_in; [exact HP|left; reflexivity]).
        assert (Ib : In b (a :: t1)) by (eapply Permutation_in; [apply Permutation_sym; exact HP|left; reflexivity]).
        destruct Ia as [E|Ia]; [symmetry; exact E|]. destruct Ib as [E|Ib]; [exact E|].
        rewrite Forall_forall in Ha, Hb. apply leb_antisym; [apply Ha, Ib|apply Hb, Ia]. }
      subst b. f_equal. apply IH; [eapply Permutation_cons_inv; exact HP|assumption|assumption].
  Qed.

  (* collect-then-sort is oracle independent *)
  Corollary isort_perm_invariant : forall l1 l2, Permutation l1 l2 -> isort l1 = isort l2.
  Proof.
    intros l1 l2 HP. apply sort_perm_unique; [|apply isort_sorted|apply isort_sorted].
    etransitivity; [apply Permutation_sym, isort_perm|]. etransitivity; [exact HP|apply isort_perm].
  Qed.

  Corollary isort_of_sorted : forall l, StronglySorted le l -> isort l = l.
  Proof. intros l H. apply sort_perm_unique; [apply Permutation_sym, isort_perm|apply isort_sorted|exact H]. Qed.
End Sort.

Arguments insert {A}. Arguments isort {A}. Arguments le {A}.
