(* C11 - "running the import again gives identical text": the map-order obligations over pkg/importer.

   Gen.MapRanges (the translator of C19, regenerated on every run) lists every `range` over a map in the generator
   packages with the syntactic class of its body. The ranges of package importer that are NOT order-independent by
   shape alone must be exactly the ones listed here, each with the reason why the order cannot reach the text -
   a theorem of this property where the loop is inside the Coq model, repetition in the harness (every generated
   document of the Go-writer path is imported 16 times in one process, some also in 16 fresh processes) otherwise.
   A new loop over a map in pkg/importer that appends or writes in map order breaks `importer_unsafe_ranges_reviewed`. *)
From Coq Require Import String List Bool.
Import ListNotations.
Require Import Verif.Determ.MapOrder Verif.Gen.MapRanges.
Local Open Scope string_scope.

Definition in_importer (r:map_range) : bool := String.prefix "importer." (mr_fn r).
Definition importer_unsafe : list map_range :=
  filter (fun r => in_importer r && negb (safe_class (mr_class r))) ranges.

Definition importer_reviewed : list map_range := [
  (* (the definitions are no longer a map range: since 3a34129 convertSpec visits utils.OrderedKeys of them -
     Gen convert_shape; C11_import_any_order.) The properties of one definition: proved, C11_import_deterministic
     (any order of each properties map gives the same LIST: SortWithoutDupl) *)
  MR "importer.OpenAPI3Importer.loadTypeSchema" 1 Emit;
  (* min / max / regex attributes of array and string DEFINITIONS: collected in map order, but writeExternalAlias
     does not write the attributes of an Array and a string definition is an Alias without attributes *)
  MR "importer.attrsForArray" 1 Emit;
  MR "importer.attrsForString" 1 Emit;
  (* the responses of one operation: one return line each, sorted by writeEndpoint (sort.Strings(outs)); the
     generated response types are named by path + status code, distinct within one operation; methods and paths
     are visited in a fixed order since fixes/C11-7 (Gen endpoint_loops) - repetition *)
  MR "importer.OpenAPI3Importer.buildEndpoint" 1 Delegate;
  (* the request body's media types: proved, C11_body_text_deterministic (the body parameters are written sorted
     by name), for distinct names; refuted otherwise (C11_body_media_name_collision_refuted: known finding) *)
  MR "importer.OpenAPI3Importer.buildRequests" 2 Delegate;
  MR "importer.OpenAPI3Importer.buildRequests" 3 Delegate;
  (* the response's media types: fields of the generated type, sorted by SortProperties; a single one is used
     directly; response headers likewise - repetition *)
  MR "importer.OpenAPI3Importer.buildResponses" 2 Emit;
  MR "importer.OpenAPI3Importer.buildResponses" 3 Emit;
  MR "importer.OpenAPI3Importer.buildResponses" 4 Emit;
  (* chains of strings.ReplaceAll: proved, C11_escape_order_irrelevant (any permutation of the table gives the
     same text); getSyslSafeURI puts eight of the escapes back: same shape, keys are %XX blocks - repetition *)
  MR "importer.escapeUnsafeSyslChars" 1 Emit;
  MR "importer.getSyslSafeURI" 1 Emit;
  (* registers the fixed XSD builtin table into a type list that is only searched by name (Gen xsd_type_table) *)
  MR "importer.loadSchemaTypes" 1 Delegate
].

Definition mr_same (a b:map_range) : bool :=
  String.eqb (mr_fn a) (mr_fn b) && Nat.eqb (mr_ord a) (mr_ord b) && class_eqb (mr_class a) (mr_class b).
Definition subset (a b:list map_range) : bool := forallb (fun x => existsb (mr_same x) b) a.

Lemma importer_unsafe_ranges_reviewed :
  subset importer_unsafe importer_reviewed = true /\ subset importer_reviewed importer_unsafe = true.
Proof. split; vm_compute; reflexivity. Qed.

(* no range in pkg/importer that the translator could not type *)
Lemma importer_ranges_all_typed :
  forallb (fun r => negb (in_importer r && class_eqb (mr_class r) Unknown)) ranges = true.
Proof. vm_compute. reflexivity. Qed.
