(* C11 - proofs about Foreign/NestedSpec.v (OpenAPI 2 definitions with nested schemas), for ALL schemas and ANY
   naming functions.

     names_of / bnames_with   the names of the types the importer generates below a schema (a pure function of the
                              schema and the name stack: no type list involved)
     covered L ty s           the field type `ty`, read against the type list L, says everything the schema s says:
                              an inline object has its type in L (written name = the field's word) with a field for
                              every property (name, optional iff not required, its type covered in turn), an array
                              of arrays has a named array type in L whose items are covered, arrays of inline
                              objects likewise; leaves carry the word of their type
     load_spec / bfield_spec  (one nested induction) loadTypeSchema / buildField only APPEND to the type list, the
                              names appended are exactly names_of / bnames_with, the type returned carries the name
                              asked for, and the result is covered in every list that contains the new one
     dedup / merge lemmas     SortWithoutDupl keeps every field (or fails), the allOf merge keeps every field name
     nested_complete          every definition that the loop of convertSpec loads is covered in the final list;
                              with distinct generated names no definition is skipped *)
From Coq Require Import String Ascii List NArith Bool Lia Permutation.
Import ListNotations.
Require Import Verif.Foreign.NameEscape Verif.Foreign.NameEscapeProps Verif.Foreign.ImportSpec
  Verif.Foreign.ImportProps Verif.Foreign.NestedSpec.
Local Open Scope list_scope.

(* ---------------- induction over nested schemas ---------------- *)
Section NInd.
  Variable P : nschema -> Prop.
  Hypothesis HP : forall ty fmt, P (NPrim ty fmt).
  Hypothesis HE : P NEnumS.
  Hypothesis HR : forall r, P (NRef r).
  Hypothesis HA : forall i, P i -> P (NArr i).
  Hypothesis HO : forall allof props req,
    Forall P allof -> Forall (fun np:bs * nschema => P (snd np)) props -> P (NObj allof props req).
  Fixpoint nschema_ind' (s:nschema) : P s :=
    match s with
    | NPrim ty fmt => HP ty fmt
    | NEnumS => HE
    | NRef r => HR r
    | NArr i => HA i (nschema_ind' i)
    | NObj allof props req =>
        HO allof props req
          ((fix go (l:list nschema) : Forall P l :=
              match l with [] => Forall_nil _ | x :: r => Forall_cons _ (nschema_ind' x) (go r) end) allof)
          ((fix go (l:list (bs * nschema)) : Forall (fun np:bs * nschema => P (snd np)) l :=
              match l with
              | [] => Forall_nil _
              | x :: r => Forall_cons _ (match x as x0 return P (snd x0) with (_, p) => nschema_ind' p end) (go r)
              end) props)
    end.
End NInd.

(* ---------------- pure list lemmas: SortWithoutDupl, the allOf merge ---------------- *)
Lemma ityp_eqb_eq a b : ityp_eqb a b = true -> a = b.
Proof.
  destruct a, b; cbn [ityp_eqb]; try discriminate; intros H; apply bs_eqb_eq in H; subst; reflexivity.
Qed.
Lemma ifield_eqb_eq f g : ifield_eqb f g = true -> f = g.
Proof.
  unfold ifield_eqb. intros H. apply andb_true_iff in H. destruct H as [H Ho]. apply andb_true_iff in H.
  destruct H as [Hn Ht]. apply bs_eqb_eq in Hn. apply ityp_eqb_eq in Ht. apply eqb_prop in Ho.
  destruct f, g. cbn in *. subst. reflexivity.
Qed.
Lemma find_field_In n l f : find_field n l = Some f -> In f l /\ if_name f = n.
Proof.
  induction l as [|g l IH]; cbn [find_field]; [discriminate|].
  destruct (bs_eqb (if_name g) n) eqn:E.
  - intros [= ->]. apply bs_eqb_eq in E. split; [left; reflexivity|exact E].
  - intros H. destruct (IH H) as [Hi Hn]. split; [right; exact Hi|exact Hn].
Qed.
Lemma find_field_None n l : find_field n l = None -> ~ In n (map if_name l).
Proof.
  induction l as [|g l IH]; cbn [find_field map In]; [tauto|].
  destruct (bs_eqb (if_name g) n) eqn:E; [discriminate|]. intros H [Hg|Hl].
  - rewrite Hg, bs_eqb_refl in E. discriminate.
  - exact (IH H Hl).
Qed.
Lemma find_field_notin n l : ~ In n (map if_name l) -> find_field n l = None.
Proof.
  induction l as [|g l IH]; cbn [find_field map In]; [reflexivity|]. intros H.
  rewrite bs_eqb_neq; [apply IH; tauto|tauto].
Qed.

(* SortWithoutDupl never drops a field: when it succeeds every field is in the result *)
Lemma dedup_In l d : dedup l = Some d -> forall f, In f l -> In f d.
Proof.
  revert d. induction l as [|g l IH]; intros d H f Hf; [destruct Hf|].
  cbn [dedup] in H. destruct (dedup l) as [r'|] eqn:Er; [|discriminate].
  destruct (find_field (if_name g) r') as [h|] eqn:Ef.
  - destruct (ifield_eqb g h) eqn:Eq; [|discriminate]. injection H as <-.
    destruct Hf as [<-|Hf]; [|apply (IH _ eq_refl _ Hf)].
    apply ifield_eqb_eq in Eq. subst h. apply (find_field_In _ _ _ Ef).
  - injection H as <-. destruct Hf as [<-|Hf]; [left; reflexivity|right; apply (IH _ eq_refl _ Hf)].
Qed.
Lemma dedup_sub l d : dedup l = Some d -> forall f, In f d -> In f l.
Proof.
  revert d. induction l as [|g l IH]; intros d H f Hf; cbn [dedup] in H.
  - injection H as <-. destruct Hf.
  - destruct (dedup l) as [r'|] eqn:Er; [|discriminate].
    destruct (find_field (if_name g) r') as [h|] eqn:Ef.
    + destruct (ifield_eqb g h); [|discriminate]. injection H as <-. right. apply (IH _ eq_refl _ Hf).
    + injection H as <-. destruct Hf as [<-|Hf]; [left; reflexivity|right; apply (IH _ eq_refl _ Hf)].
Qed.
Lemma dedup_distinct l : NoDup (map if_name l) -> dedup l = Some l.
Proof.
  induction l as [|g l IH]; intros Hn; [reflexivity|]. cbn [map] in Hn. apply NoDup_cons_iff in Hn.
  destruct Hn as [Hg Hn]. cbn [dedup]. rewrite (IH Hn). rewrite find_field_notin; [reflexivity|exact Hg].
Qed.
Lemma sort_without_dupl_In l fs : sort_without_dupl l = Some fs -> forall f, In f l <-> In f fs.
Proof.
  unfold sort_without_dupl. destruct (dedup l) as [d|] eqn:E; [|discriminate]. intros [= <-] f.
  rewrite sort_In. split; [apply (dedup_In _ _ E)|apply (dedup_sub _ _ E)].
Qed.

(* the allOf merge: what is there stays; of a later part every field NAME is there afterwards *)
Lemma merge_step_keeps a f g : In g a -> In g (merge_step a f).
Proof. unfold merge_step. destruct (find_field _ a); [tauto|]. intros H. apply in_or_app. left. exact H. Qed.
Lemma fold_merge_keeps sub : forall a g, In g a -> In g (fold_left merge_step sub a).
Proof. induction sub as [|f sub IH]; intros a g H; [exact H|]. cbn [fold_left]. apply IH, merge_step_keeps, H. Qed.
Lemma merge_keeps acc sub g : In g acc -> In g (merge_fields acc sub).
Proof. unfold merge_fields. destruct acc as [|a acc]; [intros []|]. apply fold_merge_keeps. Qed.
Lemma fold_merge_names sub : forall a f, In f sub -> exists g, In g (fold_left merge_step sub a) /\ if_name g = if_name f.
Proof.
  induction sub as [|h sub IH]; intros a f Hf; [destruct Hf|]. cbn [fold_left]. destruct Hf as [<-|Hf]; [|apply IH, Hf].
  unfold merge_step at 2. destruct (find_field (if_name h) a) as [g|] eqn:E.
  - destruct (find_field_In _ _ _ E) as [Hg Hn]. exists g. split; [apply fold_merge_keeps, Hg|exact Hn].
  - exists h. split; [apply fold_merge_keeps, in_or_app; right; left; reflexivity|reflexivity].
Qed.
Lemma merge_names acc sub f : In f sub -> exists g, In g (merge_fields acc sub) /\ if_name g = if_name f.
Proof.
  unfold merge_fields. destruct acc as [|a acc]; [intros H; exists f; auto|]. apply fold_merge_names.
Qed.
Lemma fold_merge_distinct sub : forall a,
  NoDup (map if_name (a ++ sub)) -> fold_left merge_step sub a = a ++ sub.
Proof.
  induction sub as [|h sub IH]; intros a Hn; cbn [fold_left]; [rewrite app_nil_r; reflexivity|].
  unfold merge_step at 2. rewrite find_field_notin.
  - rewrite IH; rewrite <- app_assoc; [reflexivity|exact Hn].
  - rewrite map_app in Hn. cbn [map] in Hn. apply NoDup_remove_2 in Hn. intros H. apply Hn. apply in_or_app. left. exact H.
Qed.
(* distinct names: the merge is the concatenation - every field of every part is kept as it is *)
Lemma merge_distinct acc sub : NoDup (map if_name (acc ++ sub)) -> merge_fields acc sub = acc ++ sub.
Proof. unfold merge_fields. destruct acc as [|a acc]; [reflexivity|]. apply fold_merge_distinct. Qed.

Lemma join_us_nonempty a b l : join_us (a :: b :: l) <> [].
Proof. cbn [join_us]. destruct a; discriminate. Qed.
Lemma join_us_app_nonempty stack n : stack <> [] -> join_us (stack ++ [n]) <> [].
Proof.
  destruct stack as [|a [|b l]]; [congruence| |]; intros _; cbn [app]; apply join_us_nonempty.
Qed.
Lemma add_type_app st t : itype_name t <> [] -> add_type st t = st ++ [t].
Proof. unfold add_type. destruct (itype_name t); [congruence|reflexivity]. Qed.
Lemma find_type_In st n t : find_type st n = Some t -> In t st /\ itype_name t = n.
Proof.
  induction st as [|u st IH]; cbn [find_type]; [discriminate|]. destruct (bs_eqb (itype_name u) n) eqn:E.
  - intros [= ->]. apply bs_eqb_eq in E. split; [left; reflexivity|exact E].
  - intros H. destruct (IH H). split; [right|]; assumption.
Qed.

Section NestedProps.
  Variable safe : bs -> bs.
  Variable is_builtin : bs -> bool.
  Variable tname : bs -> bs.
  Variable map_type : string -> string -> bs.

  Notation type_name := (type_name safe map_type).
  Notation tword := (tword tname).
  Notation item_word := (item_word tname).
  Notation type_alias := (type_alias safe is_builtin tname map_type).
  Notation items_word := (items_word safe is_builtin tname map_type).
  Notation load := (load safe is_builtin tname map_type).
  Notation bfield_with := (bfield_with safe is_builtin tname map_type).
  Notation parts_with := (parts_with).
  Notation fields_with := (fields_with safe is_builtin tname map_type).

  (* ---------------- the names of the generated types ---------------- *)
  Section WithNames.
    Variable nm : nschema -> list bs -> bs -> list bs.
    Definition bnames_with (p:nschema) (stack:list bs) (name:bs) : list bs :=
      let j := join_us (stack ++ [name]) in
      match p with
      | NRef _ => []
      | NArr (NRef _) => []
      | NArr items => if bs_eqb (type_name p) object_word || is_arr items then nm items [] j ++ [j] else []
      | _ => if bs_eqb (type_name p) object_word then nm p [] j ++ [j] else []
      end.
  End WithNames.
  Fixpoint names_of (s:nschema) (stack:list bs) (name:bs) {struct s} : list bs :=
    let stack1 := stack ++ [name] in
    match s with
    | NArr items =>
        let n1 := name ++ "_"%char :: obj_suffix in
        if bs_eqb (type_name items) object_word || is_arr items
        then names_of items (stack1 ++ [obj_suffix]) n1 ++ [n1] else []
    | NObj allof props _ =>
        flat_map (fun p => names_of p stack1 []) allof
        ++ flat_map (fun np:bs * nschema => bnames_with names_of (snd np) stack1 (fst np)) props
    | _ => []
    end.

  (* ---------------- what a field type must say about its schema ---------------- *)
  Definition leaf_word (ty:ityp) (mk:bs -> ityp) (s:nschema) : Prop :=
    bs_eqb (type_name s) object_word = false -> is_builtin (type_name s) = true -> ty = mk (type_name s).

  Fixpoint covered (L:list itype) (ty:ityp) (s:nschema) {struct s} : Prop :=
    match s with
    | NRef r => ty = INamed (safe r)
    | NPrim _ _ | NEnumS => leaf_word ty INamed s
    | NObj allof props req =>
        match allof, props with
        | [], [] => exists n, ty = INamed (external_prefix ++ n) /\ In (IExt n) L
        | [], _ =>
            exists n fs, ty = INamed (tname n) /\ In (IStandard n fs) L /\
              (fix fc (ps:list (bs * nschema)) : Prop :=
                 match ps with
                 | [] => True
                 | np :: r =>
                     (match np with
                      | (pn, p) => exists f, In f fs /\ if_name f = pn /\ if_opt f = negb (bmem pn req)
                                             /\ covered L (if_type f) p
                      end) /\ fc r
                 end) props
        | _, _ => True   (* allOf: see parts_spec and the merge lemmas *)
        end
    | NArr items =>
        match items with
        | NRef r => ty = ISeq (safe r)
                    \/ exists t, In t L /\ itype_name t = safe r /\ ty = ISeq (item_word t)
        | NArr _ => exists n w, ty = ISeq n /\ In (IArray n w) L /\ covered L (ISeq w) items
        | NObj _ _ _ => exists w, ty = ISeq w /\ covered L (INamed w) items
        | _ => leaf_word ty ISeq items
        end
    end.

  (* the field clause as a quantified statement *)
  Definition field_for (L:list itype) (fs:list ifield) (req:list bs) (np:bs * nschema) : Prop :=
    exists f, In f fs /\ if_name f = fst np /\ if_opt f = negb (bmem (fst np) req) /\ covered L (if_type f) (snd np).

  Notation fc_fix L fs req :=
    (fix fc (ps:list (bs * nschema)) : Prop :=
       match ps with
       | [] => True
       | np :: r =>
           (match np with
            | (pn, p) => exists f, In f fs /\ if_name f = pn /\ if_opt f = negb (bmem pn req)
                                   /\ covered L (if_type f) p
            end) /\ fc r
       end).
  Lemma fc_iff L fs req ps : fc_fix L fs req ps <-> forall np, In np ps -> field_for L fs req np.
  Proof.
    induction ps as [|[pn p] ps IH].
    - split; [intros _ np []|intros _; exact I].
    - split.
      + intros [Hf Hr] np [<-|Hnp]; [exact Hf|apply (proj1 IH Hr np Hnp)].
      + intros H. split; [exact (H (pn, p) (or_introl eq_refl))|].
        apply (proj2 IH). intros np Hnp. apply H. right. exact Hnp.
  Qed.

  Lemma covered_obj L n fs props req :
    props <> [] -> In (IStandard n fs) L -> (forall np, In np props -> field_for L fs req np) ->
    covered L (INamed (tname n)) (NObj [] props req).
  Proof.
    intros Hne Hin Hall. destruct props as [|np0 props0]; [congruence|].
    change (exists n' fs', INamed (tname n) = INamed (tname n') /\ In (IStandard n' fs') L /\ fc_fix L fs' req (np0 :: props0)).
    exists n, fs. split; [reflexivity|]. split; [exact Hin|]. apply (proj2 (fc_iff L fs req (np0 :: props0))). exact Hall.
  Qed.

  Lemma covered_obj_inv L ty props req :
    props <> [] -> covered L ty (NObj [] props req) ->
    exists n fs, ty = INamed (tname n) /\ In (IStandard n fs) L /\ forall np, In np props -> field_for L fs req np.
  Proof.
    intros Hne H. destruct props as [|np0 props0]; [congruence|].
    change (exists n' fs', ty = INamed (tname n') /\ In (IStandard n' fs') L /\ fc_fix L fs' req (np0 :: props0)) in H.
    destruct H as [n [fs [Ety [Hin Hfc]]]]. exists n, fs. split; [exact Ety|]. split; [exact Hin|].
    apply (proj1 (fc_iff L fs req (np0 :: props0))). exact Hfc.
  Qed.

  Definition top_ityp (t:itype) : ityp := match t with IArray _ w => ISeq w | _ => INamed (tword t) end.
  Definition is_leaf (s:nschema) : bool := match s with NArr _ | NObj _ _ _ => false | _ => true end.

  (* ---------------- shapes of what loadTypeSchema returns ---------------- *)
  Lemma load_arr_shape i st stack name t st' :
    load (NArr i) st stack name = Some (t, st') -> exists w, t = IArray name w.
  Proof.
    cbn [NestedSpec.load]. destruct (bs_eqb _ object_word || is_arr i).
    - destruct (NestedSpec.load _ _ _ _ i _ _ _) as [[t1 st1]|]; [|discriminate]. intros [= <- _]. eexists. reflexivity.
    - intros [= <- _]. eexists. reflexivity.
  Qed.
  Lemma load_obj_shape a p r st stack name t st' :
    load (NObj a p r) st stack name = Some (t, st') -> t = IExt name \/ exists fs, t = IStandard name fs.
  Proof.
    cbn [NestedSpec.load]. destruct (NestedSpec.parts_with _ _ _ _ _) as [[inh st1]|]; [|discriminate].
    destruct (NestedSpec.fields_with _ _ _ _ _ _ _ _ _) as [[own st2]|]; [|discriminate].
    destruct (inh ++ own) as [|x l]; [intros [= <- _]; left; reflexivity|].
    destruct (sort_without_dupl _) as [fs|]; [|discriminate]. intros [= <- _]. right. eexists. reflexivity.
  Qed.

  (* ---------------- the specification of loadTypeSchema and buildField ---------------- *)
  Definition load_spec (s:nschema) : Prop := forall st stack name t st',
    load s st stack name = Some (t, st') ->
    itype_name t = name /\
    exists ext, st' = st ++ ext /\ map itype_name ext = names_of s stack name /\
      (is_leaf s = false -> forall L, incl st' L -> In t L -> covered L (top_ityp t) s).
  Definition bfield_spec (p:nschema) : Prop := forall st stack name ty st',
    stack <> [] -> bfield_with load p st stack name = Some (ty, st') ->
    exists ext, st' = st ++ ext /\ map itype_name ext = bnames_with names_of p stack name /\
      forall L, incl st' L -> covered L ty p.

  (* an array whose items have a type of their own *)
  Lemma arr_covered i t1 L :
    load_spec i -> forall st stack name st1,
    load i st stack name = Some (t1, st1) -> incl st1 L -> In t1 L ->
    (bs_eqb (type_name i) object_word || is_arr i = true) ->
    covered L (ISeq (item_word t1)) (NArr i).
  Proof.
    intros Hspec st stack name st1 Hl Hinc Hin Hc.
    destruct (Hspec _ _ _ _ _ Hl) as [Hname [ext [Est [_ Hcov]]]].
    destruct i as [ty fmt| |r|i'|a p r]; cbn [covered].
    - intros Ho _. cbn [is_arr] in Hc. rewrite orb_false_r in Hc. congruence.
    - intros Ho _. cbn [is_arr] in Hc. rewrite orb_false_r in Hc. congruence.
    - cbn [NestedSpec.load] in Hl. discriminate.
    - destruct (load_arr_shape _ _ _ _ _ _ Hl) as [w ->]. exists name, w. split; [reflexivity|]. split; [exact Hin|].
      apply (Hcov eq_refl L Hinc Hin).
    - exists (tword t1). split.
      + destruct (load_obj_shape _ _ _ _ _ _ _ _ Hl) as [->|[fs ->]]; reflexivity.
      + specialize (Hcov eq_refl L Hinc Hin).
        destruct (load_obj_shape _ _ _ _ _ _ _ _ Hl) as [->|[fs ->]]; exact Hcov.
  Qed.

  Lemma object_word_refl : bs_eqb object_word object_word = true.
  Proof. apply bs_eqb_refl. Qed.

  Lemma obj_name_nonempty name : name ++ "_"%char :: obj_suffix <> [].
  Proof. destruct name; discriminate. Qed.

  Lemma type_alias_leaf st stack p mk :
    (mk = INamed /\ is_arr p = false \/ mk = ISeq /\ is_arr p = true) ->
    bs_eqb (type_name p) object_word = false ->
    is_builtin (type_name p) = true -> type_alias st stack p = mk (type_name p).
  Proof.
    intros Hmk Ho Hb. unfold NestedSpec.type_alias. rewrite Ho, Hb. unfold wrap.
    destruct Hmk as [[-> ->]|[-> ->]]; reflexivity.
  Qed.

  (* the loop over the allOf parts only appends, under the names of the parts' own generated types *)
  Lemma parts_spec stack1 l : Forall load_spec l -> forall st acc r st',
    parts_with load stack1 l st acc = Some (r, st') ->
    exists ext, st' = st ++ ext /\ map itype_name ext = flat_map (fun p => names_of p stack1 []) l.
  Proof.
    induction 1 as [|p l Hp _ IH]; intros st acc r st' H; cbn [NestedSpec.parts_with] in H.
    - injection H as _ <-. exists []. rewrite app_nil_r. split; reflexivity.
    - destruct (load p st stack1 []) as [[t st1]|] eqn:El; [|discriminate].
      destruct (Hp _ _ _ _ _ El) as [_ [e1 [-> [Hn1 _]]]].
      destruct (IH _ _ _ _ H) as [e2 [-> Hn2]]. exists (e1 ++ e2). rewrite <- app_assoc. split; [reflexivity|].
      cbn [flat_map]. rewrite map_app, Hn1, Hn2. reflexivity.
  Qed.

  (* the loop over the properties: appends, names, and one field per property, covered *)
  Lemma fields_spec stack1 req l : stack1 <> [] -> Forall (fun np:bs * nschema => bfield_spec (snd np)) l ->
    forall st fs st', fields_with load stack1 req l st = Some (fs, st') ->
    exists ext, st' = st ++ ext /\
      map itype_name ext = flat_map (fun np:bs * nschema => bnames_with names_of (snd np) stack1 (fst np)) l /\
      map if_name fs = map fst l /\
      forall L, incl st' L -> forall np, In np l -> field_for L fs req np.
  Proof.
    intros Hs. induction 1 as [|np l Hp _ IH]; intros st fs st' H; cbn [NestedSpec.fields_with] in H.
    - injection H as <- <-. exists []. rewrite app_nil_r. repeat split; try reflexivity. intros L _ np [].
    - destruct (bfield_with load (snd np) st stack1 (fst np)) as [[ty st1]|] eqn:Eb; [|discriminate].
      destruct (fields_with load stack1 req l st1) as [[fs1 st2]|] eqn:Ef; [|discriminate].
      injection H as <- <-. destruct (Hp _ _ _ _ _ Hs Eb) as [e1 [-> [Hn1 Hc1]]].
      destruct (IH _ _ _ Ef) as [e2 [-> [Hn2 [Hnames Hc2]]]]. exists (e1 ++ e2).
      split; [rewrite app_assoc; reflexivity|]. split; [cbn [flat_map]; rewrite map_app, Hn1, Hn2; reflexivity|].
      split; [cbn [map if_name]; rewrite Hnames; reflexivity|].
      intros L Hinc q [<-|Hq].
      + eexists. split; [left; reflexivity|]. cbn [if_name if_opt if_type]. repeat split.
        apply Hc1. intros x Hx. apply Hinc. apply in_or_app. left. exact Hx.
      + destruct (Hc2 L Hinc q Hq) as [f [Hf Hrest]]. exists f. split; [right; exact Hf|exact Hrest].
  Qed.

  Theorem load_bfield_spec s : load_spec s /\ bfield_spec s.
  Proof.
    induction s as [ty fmt| |r|i [IHl IHb]|allof props req Hparts Hprops] using nschema_ind'.
    - (* NPrim *) split.
      + intros st stack name t st' H. cbn [NestedSpec.load] in H. injection H as <- <-.
        split; [destruct (is_builtin _); reflexivity|]. exists []. rewrite app_nil_r. repeat split. discriminate.
      + intros st stack name ty' st' Hs H. unfold NestedSpec.bfield_with in H.
        destruct (bs_eqb (type_name (NPrim ty fmt)) object_word) eqn:Eo.
        * cbn [NestedSpec.load] in H. injection H as <- <-. unfold bnames_with. rewrite Eo. cbn [names_of app].
          rewrite add_type_app by (destruct (is_builtin _); apply join_us_app_nonempty, Hs).
          eexists. split; [reflexivity|]. split; [destruct (is_builtin _); reflexivity|].
          intros L _. cbn [covered]. unfold leaf_word. congruence.
        * injection H as <- <-. exists []. rewrite app_nil_r. unfold bnames_with. rewrite Eo. repeat split.
          intros L _. cbn [covered]. intros _ Hb. apply type_alias_leaf; [left; split; reflexivity|exact Eo|exact Hb].
    - (* NEnumS *) split.
      + intros st stack name t st' H. cbn [NestedSpec.load] in H. injection H as <- <-.
        split; [reflexivity|]. exists []. rewrite app_nil_r. repeat split. discriminate.
      + intros st stack name ty' st' Hs H. unfold NestedSpec.bfield_with in H.
        destruct (bs_eqb (type_name NEnumS) object_word) eqn:Eo.
        * cbn [NestedSpec.load] in H. injection H as <- <-. unfold bnames_with. rewrite Eo. cbn [names_of app].
          rewrite add_type_app by (apply join_us_app_nonempty, Hs).
          eexists. split; [reflexivity|]. split; [reflexivity|].
          intros L _. cbn [covered]. unfold leaf_word. congruence.
        * injection H as <- <-. exists []. rewrite app_nil_r. unfold bnames_with. rewrite Eo. repeat split.
          intros L _. cbn [covered]. intros _ Hb. apply type_alias_leaf; [left; split; reflexivity|exact Eo|exact Hb].
    - (* NRef *) split.
      + intros st stack name t st' H. cbn [NestedSpec.load] in H. discriminate.
      + intros st stack name ty' st' Hs H. cbn [NestedSpec.bfield_with] in H. injection H as <- <-.
        exists []. rewrite app_nil_r. repeat split.
    - (* NArr *) split.
      + intros st stack name t st' H. cbn [NestedSpec.load] in H. cbn [names_of].
        destruct (bs_eqb (type_name i) object_word || is_arr i) eqn:Ec.
        * destruct (load i st ((stack ++ [name]) ++ [obj_suffix]) (name ++ "_"%char :: obj_suffix)) as [[t1 st1]|] eqn:El;
            [|discriminate].
          injection H as <- <-. destruct (IHl _ _ _ _ _ El) as [Hn1 [e1 [-> [Hnames _]]]].
          split; [reflexivity|]. rewrite add_type_app by (rewrite Hn1; apply obj_name_nonempty).
          exists (e1 ++ [t1]). split; [rewrite app_assoc; reflexivity|].
          split; [rewrite map_app, Hnames; cbn [map]; rewrite Hn1; reflexivity|].
          intros _ L Hinc _. cbn [top_ityp]. eapply arr_covered; [exact IHl|exact El| | |exact Ec].
          -- intros x Hx. apply Hinc. apply in_or_app. left. exact Hx.
          -- apply Hinc. apply in_or_app. right. left. reflexivity.
        * injection H as <- <-. split; [reflexivity|]. exists []. rewrite app_nil_r. repeat split.
          intros _ L Hinc _. cbn [top_ityp]. apply orb_false_iff in Ec. destruct Ec as [Eo Ea].
          destruct i as [ty fmt| |r|i'|a p r0]; cbn [covered].
          -- intros _ Hb. unfold NestedSpec.items_word. rewrite type_alias_leaf with (mk := INamed); auto.
          -- intros _ Hb. unfold NestedSpec.items_word. rewrite type_alias_leaf with (mk := INamed); auto.
          -- unfold NestedSpec.items_word. destruct (is_builtin (safe r)); [left; reflexivity|].
             destruct (find_type st (safe r)) as [t|] eqn:Ef; [|left; reflexivity]. right.
             destruct (find_type_In _ _ _ Ef) as [Hin Hnm]. exists t. split; [apply Hinc, Hin|]. split; [exact Hnm|reflexivity].
          -- discriminate Ea.
          -- cbn [NestedSpec.type_name] in Eo. rewrite object_word_refl in Eo. discriminate.
      + intros st stack name ty' st' Hs H.
        assert (Hgen: bs_eqb (type_name (NArr i)) object_word || is_arr i = true ->
                      match load i st [] (join_us (stack ++ [name])) with
                      | Some (t, st1) => Some (ISeq (item_word t), add_type st1 t)
                      | None => None
                      end = Some (ty', st') ->
                      exists ext, st' = st ++ ext /\
                        map itype_name ext = names_of i [] (join_us (stack ++ [name])) ++ [join_us (stack ++ [name])] /\
                        forall L, incl st' L -> covered L ty' (NArr i)).
        { intros Ec H0. destruct (load i st [] (join_us (stack ++ [name]))) as [[t1 st1]|] eqn:El; [|discriminate].
          injection H0 as <- <-. destruct (IHl _ _ _ _ _ El) as [Hn1 [e1 [-> [Hnames _]]]].
          rewrite add_type_app by (rewrite Hn1; apply join_us_app_nonempty, Hs).
          exists (e1 ++ [t1]). split; [rewrite app_assoc; reflexivity|].
          split; [rewrite map_app, Hnames; cbn [map]; rewrite Hn1; reflexivity|].
          intros L Hinc. eapply arr_covered; [exact IHl|exact El| | |exact Ec].
          - intros x Hx. apply Hinc. apply in_or_app. left. exact Hx.
          - apply Hinc. apply in_or_app. right. left. reflexivity. }
        destruct i as [ty fmt| |r|i'|a p r0].
        * (* array of a primitive *)
          cbn [NestedSpec.bfield_with] in H. unfold bnames_with.
          destruct (bs_eqb (type_name (NArr (NPrim ty fmt))) object_word || is_arr (NPrim ty fmt)) eqn:Ec.
          -- exact (Hgen eq_refl H).
          -- injection H as <- <-. exists []. rewrite app_nil_r. repeat split. intros L _. cbn [covered].
             intros Eo Hb.
             exact (type_alias_leaf st _ (NArr (NPrim ty fmt)) ISeq (or_intror (conj eq_refl eq_refl)) Eo Hb).
        * cbn [NestedSpec.bfield_with] in H. unfold bnames_with.
          destruct (bs_eqb (type_name (NArr NEnumS)) object_word || is_arr NEnumS) eqn:Ec.
          -- exact (Hgen eq_refl H).
          -- injection H as <- <-. exists []. rewrite app_nil_r. repeat split. intros L _. cbn [covered].
             intros Eo Hb.
             exact (type_alias_leaf st _ (NArr NEnumS) ISeq (or_intror (conj eq_refl eq_refl)) Eo Hb).
        * cbn [NestedSpec.bfield_with] in H. injection H as <- <-. exists []. rewrite app_nil_r. repeat split.
          intros L _. cbn [covered]. left. reflexivity.
        * cbn [NestedSpec.bfield_with] in H. unfold bnames_with.
          assert (Ec: bs_eqb (type_name (NArr (NArr i'))) object_word || is_arr (NArr i') = true)
            by (cbn [is_arr]; apply orb_true_r).
          rewrite Ec in H |- *. exact (Hgen Ec H).
        * cbn [NestedSpec.bfield_with] in H. unfold bnames_with.
          assert (Ec: bs_eqb (type_name (NArr (NObj a p r0))) object_word || is_arr (NObj a p r0) = true)
            by (cbn [NestedSpec.type_name]; rewrite object_word_refl; reflexivity).
          rewrite Ec in H |- *. exact (Hgen Ec H).
    - (* NObj *)
      assert (HL: load_spec (NObj allof props req)).
      { intros st stack name t st' H. cbn [NestedSpec.load] in H. cbn [names_of].
        destruct (parts_with load (stack ++ [name]) allof st []) as [[inh st1]|] eqn:Ep; [|discriminate].
        destruct (fields_with load (stack ++ [name]) req props st1) as [[own st2]|] eqn:Ef; [|discriminate].
        assert (Hparts': Forall load_spec allof)
          by (eapply Forall_impl; [|exact Hparts]; intros p0 [Hl0 _]; exact Hl0).
        destruct (parts_spec _ _ Hparts' _ _ _ _ Ep) as [e1 [-> Hn1]].
        assert (Hs1: stack ++ [name] <> []) by (destruct stack; discriminate).
        assert (Hprops': Forall (fun np:bs * nschema => bfield_spec (snd np)) props)
          by (eapply Forall_impl; [|exact Hprops]; intros np [_ Hb]; exact Hb).
        destruct (fields_spec _ req _ Hs1 Hprops' _ _ _ Ef) as [e2 [-> [Hn2 [Hnames Hcov]]]].
        assert (Hext: exists ext, (st ++ e1) ++ e2 = st ++ ext /\
                  map itype_name ext = flat_map (fun p => names_of p (stack ++ [name]) []) allof
                    ++ flat_map (fun np:bs * nschema => bnames_with names_of (snd np) (stack ++ [name]) (fst np)) props).
        { exists (e1 ++ e2). rewrite <- app_assoc. split; [reflexivity|]. rewrite map_app, Hn1, Hn2. reflexivity. }
        destruct (inh ++ own) as [|x all] eqn:Eall.
        - injection H as <- <-. split; [reflexivity|]. destruct Hext as [ext [-> Hn]]. exists ext.
          split; [reflexivity|]. split; [exact Hn|]. intros _ L Hinc Hin. cbn [top_ityp NestedSpec.tword covered].
          destruct allof as [|a0 allof0]; [|destruct props; exact I].
          apply app_eq_nil in Eall. destruct Eall as [_ ->]. destruct props as [|np0 props0]; [|discriminate Hnames].
          exists name. split; [reflexivity|exact Hin].
        - destruct (sort_without_dupl (x :: all)) as [fs|] eqn:Es; [|discriminate]. injection H as <- <-.
          split; [reflexivity|]. destruct Hext as [ext [Eext Hn]]. exists ext. split; [exact Eext|]. split; [exact Hn|].
          intros _ L Hinc Hin. cbn [top_ityp NestedSpec.tword].
          destruct allof as [|a0 allof0]; [|cbn [covered]; destruct props; exact I].
          cbn [NestedSpec.parts_with] in Ep. injection Ep as Einh _. subst inh. cbn [app] in Eall.
          apply (covered_obj L name fs props req); [|exact Hin|].
          + intros ->. cbn [map] in Hnames. destruct own; [discriminate Eall|discriminate Hnames].
          + intros np Hnp. destruct (Hcov L Hinc np Hnp) as [f [Hf Hrest]]. exists f. split; [|exact Hrest].
            apply (sort_without_dupl_In _ _ Es). rewrite <- Eall. exact Hf. }
      split; [exact HL|].
      intros st stack name ty' st' Hs H. unfold NestedSpec.bfield_with in H. unfold bnames_with.
      cbn [NestedSpec.type_name] in H |- *. rewrite object_word_refl in H |- *.
      destruct (load (NObj allof props req) st [] (join_us (stack ++ [name]))) as [[t1 st1]|] eqn:El; [|discriminate].
      injection H as <- <-. destruct (HL _ _ _ _ _ El) as [Hn1 [e1 [-> [Hnames Hcov]]]].
      rewrite add_type_app by (rewrite Hn1; apply join_us_app_nonempty, Hs).
      exists (e1 ++ [t1]). split; [rewrite app_assoc; reflexivity|].
      split; [rewrite map_app, Hnames; cbn [map]; rewrite Hn1; reflexivity|].
      intros L Hinc.
      assert (Hin: In t1 L) by (apply Hinc; apply in_or_app; right; left; reflexivity).
      assert (Hinc1: incl (st ++ e1) L) by (intros x Hx; apply Hinc; apply in_or_app; left; exact Hx).
      specialize (Hcov eq_refl L Hinc1 Hin).
      destruct (load_obj_shape _ _ _ _ _ _ _ _ El) as [->|[fs ->]]; exact Hcov.
  Qed.

  Corollary load_ok s : load_spec s.
  Proof. apply load_bfield_spec. Qed.
  Corollary bfield_ok s : bfield_spec s.
  Proof. apply load_bfield_spec. Qed.

  (* ---------------- allOf: no field name of any part is lost, nor any own property ---------------- *)
  Lemma parts_fields stack1 l : forall st acc r st',
    parts_with load stack1 l st acc = Some (r, st') ->
    (forall g, In g acc -> In g r) /\
    forall p, In p l -> exists stp t stp', load p stp stack1 [] = Some (t, stp') /\
      forall fs, std_fields t = Some fs -> forall f, In f fs -> exists g, In g r /\ if_name g = if_name f.
  Proof.
    induction l as [|p l IH]; intros st acc r st' H; cbn [NestedSpec.parts_with] in H.
    - injection H as <- <-. split; [auto|intros p []].
    - destruct (load p st stack1 []) as [[t st1]|] eqn:El; [|discriminate].
      destruct (IH _ _ _ _ H) as [Hkeep Hparts]. split.
      + intros g Hg. apply Hkeep. destruct (std_fields t); [apply merge_keeps|]; exact Hg.
      + intros q [<-|Hq]; [|apply Hparts, Hq]. exists st, t, st1. split; [exact El|].
        intros fs Efs f Hf. rewrite Efs in Hkeep. destruct (merge_names acc fs f Hf) as [g [Hg Hn]].
        exists g. split; [apply Hkeep, Hg|exact Hn].
  Qed.

  Definition final_fields (t:itype) : list ifield := match t with IStandard _ fs => fs | _ => [] end.

  Theorem allof_complete allof props req st stack name t st' :
    load (NObj allof props req) st stack name = Some (t, st') ->
    (forall p, In p allof -> exists stp tp stp', load p stp (stack ++ [name]) [] = Some (tp, stp') /\
       forall fs, std_fields tp = Some fs -> forall f, In f fs ->
         exists g, In g (final_fields t) /\ if_name g = if_name f) /\
    (forall np, In np props -> exists g, In g (final_fields t) /\ if_name g = fst np
                                        /\ if_opt g = negb (bmem (fst np) req)).
  Proof.
    intros H. cbn [NestedSpec.load] in H.
    destruct (parts_with load (stack ++ [name]) allof st []) as [[inh st1]|] eqn:Ep; [|discriminate].
    destruct (fields_with load (stack ++ [name]) req props st1) as [[own st2]|] eqn:Ef; [|discriminate].
    destruct (parts_fields _ _ _ _ _ _ Ep) as [_ Hparts].
    assert (Hs1: stack ++ [name] <> []) by (destruct stack; discriminate).
    assert (Hprops: Forall (fun np:bs * nschema => bfield_spec (snd np)) props)
      by (apply Forall_forall; intros np _; apply bfield_ok).
    destruct (fields_spec _ req _ Hs1 Hprops _ _ _ Ef) as [e2 [_ [_ [_ Hcov]]]].
    assert (Hall: forall f, In f (inh ++ own) -> In f (final_fields t)).
    { destruct (inh ++ own) as [|x all] eqn:Eall; [intros f []|].
      destruct (sort_without_dupl (x :: all)) as [fs|] eqn:Es; [|discriminate]. injection H as <- _.
      intros f Hf. cbn [final_fields]. apply (sort_without_dupl_In _ _ Es). exact Hf. }
    split.
    - intros p Hp. destruct (Hparts p Hp) as [stp [tp [stp' [El Hf]]]]. exists stp, tp, stp'. split; [exact El|].
      intros fs Efs f Hin. destruct (Hf fs Efs f Hin) as [g [Hg Hn]]. exists g. split; [|exact Hn].
      apply Hall. apply in_or_app. left. exact Hg.
    - intros np Hnp. destruct (Hcov _ (incl_refl _) np Hnp) as [f [Hf [Hn [Ho _]]]]. exists f.
      split; [apply Hall; apply in_or_app; right; exact Hf|]. split; [exact Hn|exact Ho].
  Qed.

  (* ---------------- the loop of convertSpec ---------------- *)
  Notation nconvert_step := (nconvert_step safe is_builtin tname map_type).
  Notation nloaded_list := (nloaded_list safe is_builtin tname map_type).
  Notation nconvert := (nconvert safe is_builtin tname map_type).

  (* the names a definition brings into the type list: those of its generated types, then its own *)
  Definition def_names (d:ndef) : list bs := names_of (snd d) [] (safe (fst d)) ++ [safe (fst d)].
  Definition def_covered (l:list itype) (d:ndef) : Prop :=
    exists t, In t l /\ itype_name t = safe (fst d) /\
      (is_leaf (snd d) = false -> forall L, incl l L -> covered L (top_ityp t) (snd d)).

  Lemma fold_none defs : fold_left nconvert_step defs None = None.
  Proof. induction defs as [|d defs IH]; [reflexivity|exact IH]. Qed.

  Lemma fold_nested defs : forall acc l,
    fold_left nconvert_step defs (Some acc) = Some l ->
    (forall d, In d defs -> is_builtin (safe (fst d)) = false /\ safe (fst d) <> []) ->
    NoDup (map itype_name acc ++ flat_map def_names defs) ->
    exists ext, l = acc ++ ext /\ map itype_name ext = flat_map def_names defs /\
                forall d, In d defs -> def_covered l d.
  Proof.
    induction defs as [|d defs IH]; intros acc l H Hd Hn.
    - cbn [fold_left] in H. injection H as <-. exists []. rewrite app_nil_r. repeat split. intros d [].
    - cbn [fold_left] in H. unfold NestedSpec.nconvert_step at 2 in H.
      destruct (Hd d (or_introl eq_refl)) as [Hb Hne].
      assert (Hfresh: ~ In (safe (fst d)) (map itype_name acc)).
      { intros Hin. cbn [flat_map] in Hn. unfold def_names at 1 in Hn.
        rewrite <- !app_assoc in Hn. rewrite app_assoc in Hn.
        apply NoDup_remove_2 in Hn. apply Hn. apply in_or_app. left. apply in_or_app. left. exact Hin. }
      rewrite (find_false is_builtin acc _ Hb Hfresh) in H.
      destruct (load (snd d) acc [] (safe (fst d))) as [[t st1]|] eqn:El; [|rewrite fold_none in H; discriminate].
      destruct (load_ok _ _ _ _ _ _ El) as [Hname [e1 [-> [Hnames Hcov]]]].
      rewrite add_type_app in H by (rewrite Hname; exact Hne).
      destruct (IH _ _ H) as [e2 [-> [Hn2 Hc2]]].
      + intros d' Hd'. apply Hd. right. exact Hd'.
      + rewrite !map_app. cbn [map]. rewrite Hnames, Hname. cbn [flat_map] in Hn. unfold def_names at 1 in Hn.
        repeat rewrite <- app_assoc in Hn. repeat rewrite <- app_assoc. exact Hn.
      + exists ((e1 ++ [t]) ++ e2). split; [rewrite <- !app_assoc; reflexivity|].
        split; [cbn [flat_map]; unfold def_names at 1; rewrite !map_app, Hnames, Hn2; cbn [map]; rewrite Hname; reflexivity|].
        intros d' [<-|Hd'].
        * exists t. split; [apply in_or_app; left; apply in_or_app; right; left; reflexivity|].
          split; [exact Hname|]. intros Hl L Hinc. apply (Hcov Hl).
          -- intros x Hx. apply Hinc. apply in_or_app. left. apply in_or_app. left. exact Hx.
          -- apply Hinc. apply in_or_app. left. apply in_or_app. right. left. reflexivity.
        * apply Hc2. exact Hd'.
  Qed.

  Definition ndoc_ok (doc:ndoc) : Prop :=
    (forall d, In d doc -> is_builtin (safe (fst d)) = false /\ safe (fst d) <> []) /\
    NoDup (flat_map def_names (sort_by (fun d:ndef => fst d) doc)).

  (* every definition is loaded - none is skipped -, exactly the types of names_of are generated, and every
     definition is covered in the final list *)
  Theorem nested_complete doc l : ndoc_ok doc -> nloaded_list doc = Some l ->
    map itype_name l = flat_map def_names (sort_by (fun d:ndef => fst d) doc) /\
    forall d, In d doc -> def_covered l d.
  Proof.
    intros [Hd Hn] H. unfold NestedSpec.nloaded_list in H.
    destruct (fold_nested _ _ _ H) as [ext [-> [Hnames Hcov]]].
    - intros d Hin. apply Hd. apply (proj1 (sort_In _ _ _) Hin).
    - exact Hn.
    - split; [exact Hnames|]. intros d Hin. apply Hcov. apply (proj2 (sort_In _ _ _) Hin).
  Qed.

  (* nothing else appears: every type of the list is a definition or one of the generated types of names_of *)
  Corollary nested_sound doc l t : ndoc_ok doc -> nloaded_list doc = Some l -> In t l ->
    exists d, In d doc /\ In (itype_name t) (def_names d).
  Proof.
    intros Hok H Hin. destruct (nested_complete _ _ Hok H) as [Hnames _].
    assert (Hi: In (itype_name t) (map itype_name l)) by (apply in_map; exact Hin).
    rewrite Hnames in Hi. apply in_flat_map in Hi. destruct Hi as [d [Hd Hdn]]. exists d.
    split; [apply (proj1 (sort_In _ _ _) Hd)|exact Hdn].
  Qed.

  (* the written / compiled side *)
  Variable fname : bs -> bs.
  Variable unesc : bs -> bs.
  Variable native : bs -> option (string * N).
  Notation import_nested := (import_nested safe is_builtin tname map_type fname unesc native).
  Notation ctype := (ctype tname fname unesc native).

  Theorem nested_import_complete doc pr : ndoc_ok doc -> import_nested doc = Some pr ->
    exists L, nconvert doc = Some L /\
      (forall t, In t L -> In (ctype t) pr) /\
      forall d, In d doc -> def_covered L d.
  Proof.
    intros Hok H. unfold NestedSpec.import_nested in H. destruct (nconvert doc) as [L|] eqn:Ec; [|discriminate].
    injection H as <-. exists L. split; [reflexivity|]. split.
    - intros t Ht. apply in_map. apply (proj2 (In_write_order _ _)). exact Ht.
    - unfold NestedSpec.nconvert in Ec. destruct (nloaded_list doc) as [l|] eqn:El; [|discriminate].
      injection Ec as <-. destruct (nested_complete _ _ Hok El) as [_ Hcov]. intros d Hd.
      destruct (Hcov d Hd) as [t [Ht [Hn Hc]]]. exists t. split; [apply (proj2 (sort_In _ _ _) Ht)|].
      split; [exact Hn|]. intros Hl L' Hinc. apply (Hc Hl). intros x Hx. apply Hinc. apply (proj2 (sort_In _ _ _) Hx).
  Qed.
End NestedProps.
