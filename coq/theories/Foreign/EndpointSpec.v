(* C11 - parameters of OpenAPI 2 operations (pkg/importer/endpoints.go Parameters.Add / Extend,
   openapi3_legacy.go buildEndpoint / buildParams / buildRequests / fieldForMediaType, writer.go writeEndpoint) and
   what the compiler makes of them, for parameters with plain names and primitive types, and a $ref body that may
   be sent in several media types. Definitions only.

   Transliterated: Parameters is a map keyed by the parameter NAME (not by (name, in)) plus the order of first
   insertion; `commonParams.Extend(params)` re-adds the path-level parameters and then the operation's own into a
   FRESH Parameters; buildRequests then adds one body parameter per request media type (the content map of the
   request body: its keys are distinct), named  <type> ++ [ToCamel(cleanMediaType(media)) if there are several]
   ++ "Request"  - into the SAME name-keyed map; findParams filters by location in insertion order;
   p.Optional = !Required; path parameters are never optional in the compiled model; every body parameter carries
   its media type in the attribute `mediatype`.
   Not modelled: responses, descriptions, array-typed parameters / bodies, escaping of parameter names, request
   bodies whose media types have different schemas. *)
From Coq Require Import String Ascii List NArith Bool.
Import ListNotations.
Require Import Verif.Foreign.NameEscape Verif.Foreign.ImportSpec.
Local Open Scope list_scope.

Record oparam := mkq { q_name : bs; q_in : string; q_required : bool; q_ty : string; q_fmt : string }.
(* e_consumes: the request media types in effect (operation-level `consumes`, else the document's, else
   application/json), in the order in which Go happens to range over the content map *)
Record oendpoint := mke { e_path : bs; e_method : string; e_common : list oparam; e_own : list oparam;
                          e_body : option bs; e_consumes : list bs }.

(* Parameters.Add: a new name is appended, a known one replaced where it stands *)
Section Padd.
  Context {A:Type} (key:A -> bs).
  Fixpoint padd (p:A) (l:list A) : list A :=
    match l with
    | [] => [p]
    | q :: r => if bs_eqb (key q) (key p) then p :: r else q :: padd p r
    end.
  Definition padd_all (ps acc:list A) : list A := fold_left (fun a p => padd p a) ps acc.
End Padd.
(* commonParams.Extend(params) *)
Definition extend (common own:list oparam) : list oparam := padd_all q_name own (padd_all q_name common []).

(* an entry of the operation's Parameters: a primitive-typed parameter, or a body parameter (name, $ref type, media) *)
Inductive eparam := EPrim (p:oparam) | EBody (name ref media:bs).
Definition ekey (x:eparam) : bs := match x with EPrim p => q_name p | EBody n _ _ => n end.

(* utils.go cleanMediaType; pkg/utils ToCamel (on ASCII bytes) *)
Definition clean_media (s:bs) : bs :=
  map (fun c => if amem c ["/"; "+"; "-"; "."; "*"]%char then "_"%char else c) s.
Definition upper1 (c:ascii) : ascii := if is_lower c then ascii_of_N (code c - 32) else c.
Fixpoint camel (up:bool) (s:bs) : bs :=
  match s with
  | [] => []
  | c :: r => if aeqb c "_"%char then camel true r else (if up then upper1 c else c) :: camel false r
  end.
Definition to_camel (s:bs) : bs := camel true s.
Definition media_name (mt:bs) : bs := to_camel (clean_media mt).
Definition request_suffix : bs := of_string "Request".

Record epproj := mkep { ep_query : list (bs * field); ep_url : list (bs * field); ep_header : list (bs * field);
                        ep_body : list (bs * bs) (* type, media type *) }.

Section Endpoints.
  Variable safe : bs -> bs.
  Variable unesc : bs -> bs.
  Variable map_type : string -> string -> bs.
  Variable native : bs -> option (string * N).

  Definition in_loc (loc:string) (p:oparam) : bool := String.eqb (q_in p) loc.
  Definition pfield (opt:bool) (p:oparam) : bs * field :=
    (q_name p, word unesc native (prim_word map_type (q_ty p) (q_fmt p)) opt false).

  (* buildRequests + fieldForMediaType: one body parameter per media type; the media name is part of the
     parameter's name only when there are several (mtMultiReq) *)
  Definition body_entries (e:oendpoint) : list eparam :=
    match e_body e with
    | None => []
    | Some b =>
        let t := safe b in
        let multi := Nat.ltb 1 (List.length (e_consumes e)) in
        map (fun mt => EBody (t ++ (if multi then media_name mt else []) ++ request_suffix) t mt) (e_consumes e)
    end.

  Definition all_params (e:oendpoint) : list eparam :=
    padd_all ekey (body_entries e) (map EPrim (extend (e_common e) (e_own e))).

  Definition prims (l:list eparam) : list oparam :=
    flat_map (fun x => match x with EPrim p => [p] | EBody _ _ _ => [] end) l.
  Definition bodies (l:list eparam) : list (bs * bs) :=
    flat_map (fun x => match x with EPrim _ => [] | EBody _ r m => [(unesc r, m)] end) l.

  (* writer.go buildRequestBodyString: the body parameters (findParams "body": insertion order) are SORTED by name
     (sort.SliceStable + strings.Compare) before they are written: the order of the text *)
  Definition is_body (x:eparam) : bool := match x with EBody _ _ _ => true | EPrim _ => false end.
  Definition body_text_order (e:oendpoint) : list eparam := sort_by ekey (filter is_body (all_params e)).

  Definition endpoint_proj (e:oendpoint) : bs * epproj :=
    let eff := prims (all_params e) in
    (of_string (e_method e) ++ (" "%char :: e_path e),
     mkep (map (fun p => pfield (negb (q_required p)) p) (filter (in_loc "query") eff))
          (map (pfield false) (filter (in_loc "path") eff))
          (map (fun p => pfield (negb (q_required p)) p) (filter (in_loc "header") eff))
          (bodies (all_params e))).

  Definition import_endpoints (eps:list oendpoint) : list (bs * epproj) := map endpoint_proj eps.
End Endpoints.

Definition pair_eqb (x y:bs * bs) : bool := bs_eqb (fst x) (fst y) && bs_eqb (snd x) (snd y).
Definition list_pair_eqb (x y:list (bs * bs)) : bool :=
  Nat.eqb (List.length x) (List.length y) && forallb (fun b => existsb (pair_eqb b) y) x
  && forallb (fun b => existsb (pair_eqb b) x) y.
Definition epproj_eqb (a b:epproj) : bool :=
  assoc_eqb field_eqb (ep_query a) (ep_query b) && assoc_eqb field_eqb (ep_url a) (ep_url b)
  && assoc_eqb field_eqb (ep_header a) (ep_header b) && list_pair_eqb (ep_body a) (ep_body b).
