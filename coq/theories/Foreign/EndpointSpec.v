(* C11 - parameters of OpenAPI 2 operations (pkg/importer/endpoints.go Parameters.Add / Extend,
   openapi3_legacy.go buildEndpoint / buildParams / buildRequests, writer.go writeEndpoint) and what the compiler
   makes of them, for parameters with plain names and primitive types, and a $ref body. Definitions only.

   Transliterated: Parameters is a map keyed by the parameter NAME (not by (name, in)) plus the order of first
   insertion; `commonParams.Extend(params)` re-adds the path-level parameters and then the operation's own into a
   FRESH Parameters; the body parameter is added last; findParams filters by location in insertion order;
   p.Optional = !Required; path parameters are never optional in the compiled model.
   Not modelled: responses, descriptions, media types, array-typed parameters, escaping of parameter names. *)
From Coq Require Import String Ascii List NArith Bool.
Import ListNotations.
Require Import Verif.Foreign.NameEscape Verif.Foreign.ImportSpec.
Local Open Scope list_scope.

Record oparam := mkq { q_name : bs; q_in : string; q_required : bool; q_ty : string; q_fmt : string }.
Record oendpoint := mke { e_path : bs; e_method : string; e_common : list oparam; e_own : list oparam; e_body : option bs }.

(* Parameters.Add: a new name is appended, a known one replaced where it stands *)
Fixpoint padd (p:oparam) (l:list oparam) : list oparam :=
  match l with
  | [] => [p]
  | q :: r => if bs_eqb (q_name q) (q_name p) then p :: r else q :: padd p r
  end.
Definition padd_all (ps acc:list oparam) : list oparam := fold_left (fun a p => padd p a) ps acc.
(* commonParams.Extend(params) *)
Definition extend (common own:list oparam) : list oparam := padd_all own (padd_all common []).

Record epproj := mkep { ep_query : list (bs * field); ep_url : list (bs * field); ep_header : list (bs * field);
                        ep_body : list bs }.

Section Endpoints.
  Variable safe : bs -> bs.
  Variable unesc : bs -> bs.
  Variable map_type : string -> string -> bs.
  Variable native : bs -> option (string * N).

  Definition in_loc (loc:string) (p:oparam) : bool := String.eqb (q_in p) loc.
  Definition pfield (opt:bool) (p:oparam) : bs * field :=
    (q_name p, word unesc native (prim_word map_type (q_ty p) (q_fmt p)) opt false).

  Definition endpoint_proj (e:oendpoint) : bs * epproj :=
    let eff := extend (e_common e) (e_own e) in
    (of_string (e_method e) ++ (" "%char :: e_path e),
     mkep (map (fun p => pfield (negb (q_required p)) p) (filter (in_loc "query") eff))
          (map (pfield false) (filter (in_loc "path") eff))
          (map (fun p => pfield (negb (q_required p)) p) (filter (in_loc "header") eff))
          (match e_body e with Some b => [unesc (safe b)] | None => [] end)).

  Definition import_endpoints (eps:list oendpoint) : list (bs * epproj) := map endpoint_proj eps.
End Endpoints.

Definition list_bs_eqb (x y:list bs) : bool :=
  Nat.eqb (List.length x) (List.length y) && forallb (fun b => bmem b y) x.
Definition epproj_eqb (a b:epproj) : bool :=
  assoc_eqb field_eqb (ep_query a) (ep_query b) && assoc_eqb field_eqb (ep_url a) (ep_url b)
  && assoc_eqb field_eqb (ep_header a) (ep_header b) && list_bs_eqb (ep_body a) (ep_body b).
