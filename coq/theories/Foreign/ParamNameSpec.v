(* C11 - the names the Go writer gives OpenAPI 2 parameters (definitions only).

   Transliterated:
     openapi3_legacy.go buildParams     a QUERY parameter's name goes through convertToSyslSafe first
                                        (Foreign/ImportRun.to_sysl_safe: '-' upper-cases the next byte, ' ' is dropped)
     writer.go buildQueryString         name := url.QueryEscape(p.Name); name = ReplaceAll(name, ".", "%2E");
                                        "name=type" + "?" if optional, joined by "&" behind " ?"
     writer.go buildRequestString       header (and cookie) parameters: regexp "( |-)+" -> "_", strings.ToLower, then
                                        `<that> <: type[?] [~header, name="<quoted original>"]`, joined by ", "
     net/url QueryEscape                shouldEscape(c, encodeQueryComponent): letters, digits, '-', '_', '.', '~'
                                        stay; ' ' becomes '+'; every other byte %XX (upper-case hex)
   ASCII model: strings.ToUpper / ToLower on bytes >= 0x80 (they act on runes) are the identity here. *)
From Coq Require Import String Ascii List NArith Bool.
Import ListNotations.
Require Import Verif.Foreign.NameEscape Verif.Foreign.ImportSpec Verif.Foreign.EndpointSpec Verif.Foreign.ImportRun.
Local Open Scope list_scope.

Definition q_unreserved (c:ascii) : bool := is_alnum c || amem c ["-"; "_"; "."; "~"]%char.
Definition qesc1 (c:ascii) : bs := if aeqb c " " then ["+"%char] else if q_unreserved c then [c] else pct c.
Definition query_escape (s:bs) : bs := flat_map qesc1 s.
Definition dot_escaped : bs := of_string "%2E".
(* what buildQueryString writes for a parameter called s *)
Definition query_written (s:bs) : bs := replace_char "." dot_escaped (query_escape s).
(* ... for the OpenAPI name n (buildParams has renamed it before) *)
Definition query_name (n:bs) : bs := query_written (to_sysl_safe n).

(* regexp.MustCompile("( |-)+").ReplaceAll(name, "_") *)
Fixpoint collapse (in_run:bool) (s:bs) : bs :=
  match s with
  | [] => []
  | c :: r => if aeqb c " " || aeqb c "-"
              then (if in_run then collapse true r else "_"%char :: collapse true r)
              else c :: collapse false r
  end.
Definition header_field_name (n:bs) : bs := lower (collapse false n).

(* the method line of an operation that has only required query parameters of type string ... *)
Fixpoint join_with (sep:bs) (l:list bs) : bs :=
  match l with [] => [] | [x] => x | x :: r => x ++ sep ++ join_with sep r end.
Definition query_line (method:bs) (names:list bs) : bs :=
  method ++ of_string " ?" ++ join_with ["&"%char] (map (fun n => query_name n ++ of_string "=string") names) ++ [":"%char].
(* ... and of one that has only required header parameters of type string *)
Definition header_text (n:bs) : bs :=
  header_field_name n ++ of_string " <: string [~header, name=" ++ quote n ++ of_string "]".
Definition header_line (method:bs) (names:list bs) : bs :=
  method ++ of_string " (" ++ join_with (of_string ", ") (map header_text names) ++ of_string "):".

(* buildPathString: the variable {name} of the written path (getSyslSafeURI) gets its type only if the text
   "{name}" occurs in it *)
Fixpoint has_infix (fuel:nat) (p s:bs) : bool :=
  match fuel with
  | O => false
  | S f => match strip_prefix p s with
           | Some _ => true
           | None => match s with [] => false | _ :: r => has_infix f p r end
           end
  end.
Definition path_var_typed (path name:bs) : bool :=
  let w := safe_uri_c path in has_infix (S (List.length w)) ("{"%char :: name ++ ["}"%char]) w.

(* correspondence: names, the two observed method lines *)
Definition pname_case := (list bs * (bs * bs))%type.
Definition pname_ok (c:pname_case) : bool :=
  bs_eqb (query_line (of_string "GET") (fst c)) (fst (snd c))
  && bs_eqb (header_line (of_string "GET") (fst c)) (snd (snd c)).
