(* C11 - the OpenAPI type x format table and its callers, request media types, the XSD builtin table: obligations over
   Gen/ForeignTables.v and theorems over ALL format strings (the table is finite, the formats are not).

   mapOpenAPITypeAndFormatToType (pkg/importer/openapi.go) is ImportRun.map_type_l on lower-cased inputs: a listed
   (type, format) gives its entry, an unlisted format the entry of the bare type, an unknown type comes back as it
   is. Its callers: typeNameFromSchemaRef (properties, array items, parameters, responses: boolean is answered
   before the table is asked) = ImportSpec.prim_word; the default arm of loadTypeSchema (top-level definitions:
   the table is asked directly and the result kept only if it is a builtin type name) = ImportSpec.load, OPrim. *)
From Coq Require Import String Ascii List NArith Bool.
Import ListNotations.
Require Import Verif.Gen.ForeignTables Verif.Foreign.NameEscape Verif.Foreign.NameEscapeProps Verif.Foreign.Tables
  Verif.Foreign.ImportSpec Verif.Foreign.ImportProps Verif.Foreign.ImportRun Verif.Foreign.ImportTheorems
  Verif.Foreign.EndpointSpec.
Local Open Scope string_scope.
Local Open Scope list_scope.

(* ---------------- statement shapes (reflexivity against the regenerated tables) ---------------- *)
Lemma map_type_shape_ok : map_type_shape =
  ["typeName = strings.ToLower(typeName)";
   "format = strings.ToLower(format)";
   "conversions := <table>";
   "if formatMap, ok := conversions[typeName]; ok { if result, ok := formatMap[format]; ok { return result } logger.Debugf(""Unhandled (type, format) -> (%s, %s), ignoring...\n"", typeName, format) return mapOpenAPITypeAndFormatToType(typeName, """", logger) }";
   "return typeName"].
Proof. reflexivity. Qed.

Lemma type_name_shape_ok : type_name_shape =
  ["case ref.Value.Type.Is(openapi3.TypeArray): if ref.Value.Items == nil { return OpenAPI_OBJECT } return o.typeNameFromSchemaRef(ref.Value.Items)";
   "case ref.Value.Type.Is(openapi3.TypeObject), ref.Value.Type.Is(OpenAPI_EMPTY), ref.Value.Type == nil: return OpenAPI_OBJECT";
   "case ref.Value.Type.Is(openapi3.TypeBoolean): return syslutil.Type_BOOL";
   "case ref.Value.Type.Is(openapi3.TypeString), ref.Value.Type.Is(openapi3.TypeInteger), ref.Value.Type.Is(openapi3.TypeNumber): return mapOpenAPITypeAndFormatToType(ref.Value.Type.Slice()[0], ref.Value.Format, logrus.StandardLogger())";
   "default: refValueType := OpenAPI_EMPTY if len(ref.Value.Type.Slice()) > 0 { refValueType = ref.Value.Type.Slice()[0] } return o.existingTypeOrSyslSafeName(refValueType)"].
Proof. reflexivity. Qed.

Lemma prim_def_shape_ok : prim_def_shape =
  ["if schema.Type.Is(openapi3.TypeString) && schema.Enum != nil { return &Enum{baseType{name: name, attrs: attrsForStrings(schema)}}, nil }";
   "schemaType := OpenAPI_EMPTY";
   "if len(schema.Type.Slice()) > 0 { schemaType = schema.Type.Slice()[0] }";
   "if t, ok := checkBuiltInTypes(mapOpenAPITypeAndFormatToType(schemaType, schema.Format, o.logger)); ok { return &Alias{baseType: baseType{name: name}, Target: t}, nil }";
   "o.logger.Warnf(""unknown scheme type: %s"", schema.Type)";
   "return NewStringAlias(name), nil"].
Proof. reflexivity. Qed.

Lemma requests_shape_ok : requests_shape =
  ["if req == nil { return nil }";
   "if ep == nil { return errors.New(""nil endpoint"") }";
   "fields := make(map[string]map[string]*openapi3.MediaType)";
   "for mediaType, obj := range req.Value.Content { schema := obj.Schema tname := o.typeNameFromSchemaRef(schema) if _, ok := fields[tname]; !ok { fields[tname] = make(map[string]*openapi3.MediaType) } fields[tname][mediaType] = obj }";
   "for _, content := range fields { mtType := mtReq if len(content) > 1 { mtType = mtMultiReq } for mediaType, obj := range content { field, err := o.fieldForMediaType(mediaType, obj, mtType) if err != nil { return err } ep.Params.Add(Param{In: ""body"", Field: field}) } }";
   "return nil"].
Proof. reflexivity. Qed.

Lemma media_field_shape_ok : media_field_shape =
  ["schema := mediaObj.Schema";
   "tname := o.typeNameFromSchemaRef(schema)";
   "medianame, typeSuffix := """", """"";
   "if mtType == mtMultiReq || mtType == mtMultiResp { medianame = utils.ToCamel(cleanMediaType(mediatype)) }";
   "if mtType == mtReq || mtType == mtMultiReq { typeSuffix = ""Request"" }";
   "field, err := o.buildField(tname+medianame+typeSuffix, schema)"].
Proof. reflexivity. Qed.

Lemma body_string_shape_ok : body_string_shape =
  ["body := """"";
   "if len(params) > 0 { sort.SliceStable(params, func(i, j int) bool { return strings.Compare(params[i].Name, params[j].Name) < 0 }) var parts []string for _, p := range params { attrs := appendAttrsString("""", append(p.Field.Attrs, ""~body"")) parts = append(parts, fmt.Sprintf(""%s <: %s%s"", p.Name, getSyslTypeName(p.Type), attrs)) } body = strings.Join(parts, "", "") }";
   "return body"].
Proof. reflexivity. Qed.

Lemma clean_media_shape_ok : clean_media_shape =
  ["return strings.NewReplacer( ""/"", ""_"", ""+"", ""_"", ""-"", ""_"", ""."", ""_"", ""*"", ""_"").Replace(path)"].
Proof. reflexivity. Qed.

Lemma to_camel_shape_ok : to_camel_shape =
  ["runes := []rune(in)";
   "var out []rune";
   "for i, r := range runes { if r == '_' { continue } if i == 0 || runes[i-1] == '_' { out = append(out, unicode.ToUpper(r)) continue } out = append(out, r) }";
   "return string(out)"].
Proof. reflexivity. Qed.

Lemma xsd_builtin_shape_ok : xsd_builtin_shape =
  ["typeStr := syslutil.Type_STRING";
   "switch from { case xsd.Integer, xsd.Int: typeStr = syslutil.Type_INT }";
   "t, _ := knownTypes.Find(typeStr)";
   "return t"].
Proof. reflexivity. Qed.

(* ---------------- determinism of the endpoint side, query parameters ---------------- *)
Lemma endpoint_loops_ok : endpoint_loops =
  ["convertSpec: for _, path := range utils.OrderedKeys(pathItems)";
   "buildEndpoint: for _, method := range methodDisplayOrder"].
Proof. reflexivity. Qed.

Lemma resp_clash_shape_ok : resp_clash_shape =
  ["if existing, found := o.types.Find(respType.Name()); found { if st, ok := existing.(*StandardType); ok && reflect.DeepEqual(st.Properties, respType.Properties) { respType = st } else { respType.SetName(fmt.Sprintf(""%s_%s"", method, respType.Name())) } }"].
Proof. reflexivity. Qed.

Lemma query_string_shape_ok : query_string_shape =
  ["query := """"";
   "if len(params) > 0 { var parts []string for _, p := range params { optional := """" if p.Optional { optional = ""?"" } typeString := getSyslTypeName(p.Type) if !isNativeDataType(typeString) { typeString = ""{"" + typeString + ""}"" } name := url.QueryEscape(p.Name) name = strings.ReplaceAll(name, ""."", ""%2E"") parts = append(parts, fmt.Sprintf(""%s=%s%s"", name, typeString, optional)) } query = "" ?"" + strings.Join(parts, ""&"") }";
   "return query"].
Proof. reflexivity. Qed.

(* the importer's list of type words that may be written bare in a query parameter is the lexer's NativeDataTypes
   rule, and both are the words of the compiler model's native_table (ImportRun) *)
Lemma native_types_agree :
  importer_native_types = lexer_native_types
  /\ forallb (fun k => smem k lexer_native_types) (map fst native_table) = true
  /\ forallb (fun k => smem k (map fst native_table)) lexer_native_types = true.
Proof. repeat split; reflexivity. Qed.

(* ---------------- the table ---------------- *)
Lemma sassoc_In {V} k (v:V) l : sassoc k l = Some v -> In (k, v) l.
Proof.
  induction l as [|[k' v'] r IH]; cbn [sassoc]; [discriminate|].
  destruct (String.eqb k k') eqn:E.
  - intros H. injection H as ->. apply String.eqb_eq in E. subst. left. reflexivity.
  - intros H. right. exact (IH H).
Qed.

(* no row without an entry for the bare type: the recursive call of the Go function always ends *)
Definition has_bare (fm:list (string * string)) : bool := match sassoc "" fm with Some _ => true | None => false end.
Lemma type_table_rows_have_bare_entry : forallb (fun row => has_bare (snd row)) oas_type_table = true.
Proof. reflexivity. Qed.

Lemma row_has_bare ty fm : sassoc ty oas_type_table = Some fm -> exists r0, sassoc "" fm = Some r0.
Proof.
  intros H. apply sassoc_In in H.
  pose proof (proj1 (forallb_forall _ _) type_table_rows_have_bare_entry _ H) as Hb. cbn [snd] in Hb.
  unfold has_bare in Hb. destruct (sassoc "" fm) as [r0|]; [exists r0; reflexivity|discriminate].
Qed.

(* whatever the format, the answer for a known type is one of the values of its row *)
Lemma map_type_l_in_row ty fm fmt : sassoc ty oas_type_table = Some fm -> In (map_type_l ty fmt) (map snd fm).
Proof.
  intros H. destruct (row_has_bare _ _ H) as [r0 H0]. unfold map_type_l. rewrite H.
  destruct (sassoc fmt fm) as [r|] eqn:E.
  - apply sassoc_In in E. apply in_map_iff. exists (fmt, r). split; [reflexivity|exact E].
  - rewrite H0. apply sassoc_In in H0. apply in_map_iff. exists ("", r0). split; [reflexivity|exact H0].
Qed.

(* THE FALLBACK: a format the row does not list gives what the bare type gives *)
Theorem map_type_fallback ty fm fmt :
  sassoc ty oas_type_table = Some fm -> sassoc fmt fm = None -> map_type_l ty fmt = map_type_l ty "".
Proof. intros H E. unfold map_type_l. rewrite H, E. destruct (sassoc "" fm); reflexivity. Qed.

Theorem map_type_unknown_type ty fmt : sassoc ty oas_type_table = None -> map_type_l ty fmt = ty.
Proof. intros H. unfold map_type_l. rewrite H. reflexivity. Qed.

(* the same at the level of the type word of a property / array item / parameter (typeNameFromSchemaRef) *)
Theorem unlisted_format_is_bare_type ty fm fmt :
  sassoc (slower ty) oas_type_table = Some fm -> sassoc (slower fmt) fm = None ->
  prim_word map_type_c ty fmt = prim_word map_type_c ty "".
Proof.
  intros H E. unfold prim_word. destruct (String.eqb ty "boolean"); [reflexivity|].
  unfold map_type_c. cbn [slower]. rewrite (map_type_fallback _ _ _ H E). reflexivity.
Qed.

(* ---------------- every type with every format is a primitive of the type's kind ---------------- *)
Definition oas_types : list string := ["string"; "integer"; "number"; "boolean"].
Definition allowed_kinds (ty:string) : list string :=
  if String.eqb ty "integer" then ["INT"]
  else if String.eqb ty "number" then ["FLOAT"]
  else if String.eqb ty "boolean" then ["BOOL"]
  else if String.eqb ty "string" then ["STRING"; "DATE"; "DATETIME"; "BYTES"]
  else [].
Definition uuid_word : bs := of_string "uuid".
(* a type word is fine for an OpenAPI type: the compiler reads it as a primitive of one of the type's kinds; or it
   is `uuid` for a string - Sysl's builtin type NAME, which the grammar does not know as a native type: it compiles
   to a reference to `uuid`, never to a reference named like the OpenAPI type *)
Definition word_ok (ty:string) (w:bs) : bool :=
  match native_c w with
  | Some (k, _) => smem k (allowed_kinds ty)
  | None => String.eqb ty "string" && bs_eqb w uuid_word
  end.

Lemma table_words_ok :
  forallb (fun row => forallb (fun kv => word_ok (fst row) (of_string (snd kv))) (snd row)) oas_type_table = true.
Proof. vm_compute. reflexivity. Qed.

Lemma known_type_word_ok ty fm fmt :
  sassoc ty oas_type_table = Some fm -> word_ok ty (of_string (map_type_l ty fmt)) = true.
Proof.
  intros H. pose proof (map_type_l_in_row ty fm fmt H) as Hin. apply in_map_iff in Hin.
  destruct Hin as [[k v] [Ev Hkv]]. cbn [snd] in Ev. subst v.
  apply sassoc_In in H.
  pose proof (proj1 (forallb_forall _ _) table_words_ok _ H) as Hrow. cbn [fst snd] in Hrow.
  exact (proj1 (forallb_forall _ _) Hrow _ Hkv).
Qed.

Theorem every_format_is_a_primitive : forall ty fmt,
  In ty oas_types -> word_ok ty (prim_word map_type_c ty fmt) = true.
Proof.
  intros ty fmt Hty. unfold oas_types in Hty.
  destruct Hty as [<-|[<-|[<-|[<-|[]]]]]; unfold prim_word; cbn [String.eqb Ascii.eqb Bool.eqb];
    try (vm_compute; reflexivity); unfold map_type_c.
  - cbn [slower lower1]. destruct (sassoc "string" oas_type_table) as [fm|] eqn:E; [|vm_compute in E; discriminate].
    change (slower "string") with "string". exact (known_type_word_ok _ _ _ E).
  - destruct (sassoc "integer" oas_type_table) as [fm|] eqn:E; [|vm_compute in E; discriminate].
    change (slower "integer") with "integer". exact (known_type_word_ok _ _ _ E).
  - destruct (sassoc "number" oas_type_table) as [fm|] eqn:E; [|vm_compute in E; discriminate].
    change (slower "number") with "number". exact (known_type_word_ok _ _ _ E).
Qed.

(* read out on the compiled field (property, array item: seq = true, parameter): a primitive of the type's kind;
   the only reference is `uuid` *)
Theorem format_field_kind : forall ty fmt opt seq,
  In ty oas_types ->
  let f := word unesc_c native_c (prim_word map_type_c ty fmt) opt seq in
  f_opt f = opt /\ f_seq f = seq /\
  (In (f_kind f) (allowed_kinds ty) \/ (ty = "string" /\ f_kind f = "REF" /\ f_ref f = uuid_word)).
Proof.
  intros ty fmt opt seq Hty f. pose proof (every_format_is_a_primitive ty fmt Hty) as Hw.
  unfold word_ok in Hw. subst f. unfold word.
  destruct (native_c (prim_word map_type_c ty fmt)) as [[k bits]|] eqn:En; cbn [f_opt f_seq f_kind f_ref].
  - repeat split. left. unfold smem in Hw. apply existsb_exists in Hw. destruct Hw as [x [Hx Ex]].
    apply String.eqb_eq in Ex. subst x. exact Hx.
  - apply andb_true_iff in Hw. destruct Hw as [Hs Hu]. apply String.eqb_eq in Hs. apply bs_eqb_eq in Hu.
    repeat split. right. rewrite Hu. split; [exact Hs|split; [reflexivity|vm_compute; reflexivity]].
Qed.

(* the type word of an integer / number / boolean never depends on anything but the type's kind; bit widths only
   for the two listed integer formats *)
Example format_examples :
  map (fun tf => native_c (prim_word map_type_c (fst tf) (snd tf)))
      [("integer", "uint32"); ("integer", "int64"); ("number", "decimal"); ("integer", "date"); ("string", "email");
       ("boolean", "int32"); ("string", "byte"); ("integer", "byte")]
  = [Some ("INT", 0%N); Some ("INT", 64%N); Some ("FLOAT", 0%N); Some ("INT", 0%N); Some ("STRING", 0%N);
     Some ("BOOL", 0%N); Some ("BYTES", 0%N); Some ("INT", 0%N)].
Proof. vm_compute. reflexivity. Qed.
(* string + uuid: the word is Sysl's builtin name, which compiles to a reference *)
Example uuid_format_is_a_reference :
  word unesc_c native_c (prim_word map_type_c "string" "uuid") false false = mkf "REF" 0 uuid_word false false.
Proof. vm_compute. reflexivity. Qed.

(* ---------------- top-level definitions (default arm of loadTypeSchema) ---------------- *)
Lemma table_words_builtin :
  forallb (fun row => forallb (fun kv => is_builtin_c (of_string (snd kv))) (snd row)) oas_type_table = true.
Proof. vm_compute. reflexivity. Qed.

Lemma known_type_builtin ty fm fmt :
  sassoc ty oas_type_table = Some fm -> is_builtin_c (of_string (map_type_l ty fmt)) = true.
Proof.
  intros H. pose proof (map_type_l_in_row ty fm fmt H) as Hin. apply in_map_iff in Hin.
  destruct Hin as [[k v] [Ev Hkv]]. cbn [snd] in Ev. subst v. apply sassoc_In in H.
  pose proof (proj1 (forallb_forall _ _) table_words_builtin _ H) as Hrow. cbn [snd] in Hrow.
  exact (proj1 (forallb_forall _ _) Hrow _ Hkv).
Qed.

(* a definition of a type the table knows, with ANY format, is an alias of the mapped builtin - never the
   `unknown scheme type` string alias under the EXTERNAL_ name *)
Theorem prim_definition_is_alias : forall doc n ty fmt fm,
  doc_ok safe_name_cur is_builtin_c tname_c map_type_c doc -> NoDup (map fst (import_c doc)) ->
  In (n, OPrim ty fmt) doc -> sassoc (slower ty) oas_type_table = Some fm ->
  lookup (unesc_c (safe_name_cur n)) (import_c doc)
  = Some (TAlias (word unesc_c native_c (map_type_c ty fmt) false false))
  /\ word_ok (slower ty) (map_type_c ty fmt) = true.
Proof.
  intros doc n ty fmt fm Hok Hk Hin Hrow. split.
  - exact (import_complete_alias safe_name_cur is_builtin_c tname_c fname_c unesc_c map_type_c native_c
             doc n (OPrim ty fmt) Hok Hk Hin (known_type_builtin _ _ _ Hrow)).
  - exact (known_type_word_ok _ _ _ Hrow).
Qed.

(* boolean is a known type (after fixes/C11-5; before, the definition came out as `!alias EXTERNAL_Flag: string`) *)
Example boolean_definition_is_bool :
  import_c [(of_string "Flag", OPrim "boolean" ""); (of_string "Cnt", OPrim "integer" "uint64")]
  = [(of_string "Cnt", TAlias (mkf "INT" 0 [] false false)); (of_string "Flag", TAlias (mkf "BOOL" 0 [] false false))].
Proof. vm_compute. reflexivity. Qed.

(* the table as it stood before fixes/C11-5 (no boolean row): the model reproduces the defect *)
Definition map_type_before_fix (ty fmt:string) : bs :=
  if String.eqb ty "boolean" then of_string "boolean" else map_type_c ty fmt.
Example boolean_definition_before_fix_refuted :
  import_oas2 safe_name_cur is_builtin_c tname_c fname_c unesc_c map_type_before_fix native_c
    [(of_string "Flag", OPrim "boolean" "")]
  = [(of_string "EXTERNAL_Flag", TAlias (mkf "STRING" 0 [] false false))].
Proof. vm_compute. reflexivity. Qed.

(* ---------------- XSD builtins (findType / makeXsdBuiltinType over Gen xsd_type_table) ---------------- *)
Lemma xsd_table_words_native :
  forallb (fun kv => match native_c (of_string (snd kv)) with Some _ => true | None => false end) xsd_type_table = true.
Proof. vm_compute. reflexivity. Qed.

(* whatever the builtin's name: its word is a native primitive, or the name itself is one of Sysl's builtin type
   names that the grammar has no native type for (none of them is the name of an XSD builtin) *)
Theorem xsd_builtin_is_primitive : forall p,
  native_c (xprim_word_c p) <> None \/ (is_builtin_c (of_string p) = true /\ xprim_word_c p = of_string p).
Proof.
  intros p. unfold xprim_word_c. destruct (sassoc p xsd_type_table) as [w|] eqn:E.
  - left. apply sassoc_In in E. pose proof (proj1 (forallb_forall _ _) xsd_table_words_native _ E) as H.
    cbn [snd] in H. destruct (native_c (of_string w)); [discriminate|discriminate H].
  - destruct (is_builtin_c (of_string p)) eqn:B; [right; split; reflexivity|].
    left. destruct (String.eqb p "integer" || String.eqb p "int"); vm_compute; discriminate.
Qed.
Example xsd_builtin_examples :
  map (fun p => native_c (xprim_word_c p)) ["boolean"; "integer"; "int"; "dateTime"; "decimal"; "long"; "double"; "NMTOKEN"; "float"]
  = [Some ("BOOL", 0%N); Some ("INT", 0%N); Some ("INT", 0%N); Some ("DATETIME", 0%N); Some ("DECIMAL", 0%N);
     Some ("STRING", 0%N); Some ("STRING", 0%N); Some ("STRING", 0%N); Some ("FLOAT", 0%N)].
Proof. vm_compute. reflexivity. Qed.

(* ---------------- NAME ESCAPING of type names (all byte strings) ---------------- *)
(* the name under which a definition is written - getSyslTypeName(getSyslSafeName(s)): the safe name, with "_" in
   front when it starts like a builtin type - is a lexer Name, whatever bytes the foreign name has *)
Theorem type_name_is_a_Name : forall s, name_re (tname_c (safe_name_cur s)) = true.
Proof.
  intros s. unfold tname_c. destruct (existsb _ builtin_types).
  - rewrite name_re_underscore. apply name_re_body, safe_name_valid_current.
  - apply safe_name_valid_current.
Qed.
(* ... and so is the name of the string alias an empty / unknown definition becomes *)
Theorem external_alias_name_is_a_Name : forall s, name_re (external_prefix ++ safe_name_cur s) = true.
Proof.
  intros s. change external_prefix with ("E"%char :: of_string "XTERNAL_"). cbn [app name_re].
  change (aeqb "E" pct_char) with false. cbv iota.
  rewrite (name_body_app (of_string "XTERNAL_")); [|vm_compute; reflexivity].
  change (is_name_start "E") with true. cbn [andb]. apply name_re_body, safe_name_valid_current.
Qed.
(* the compiler gives the definition's name back (up to the documented "_" and white-space trimming) *)
Theorem type_name_faithful : forall s,
  exists p, (p = [] \/ p = ["_"%char]) /\ must_unescape (safe_name_cur s) = Ok (trim_space (p ++ s)).
Proof. exact safe_name_faithful_current. Qed.
