(* C11 - proofs about Foreign/ImportSpec.v (OpenAPI 2 import, flat subset), for ALL documents of the modelled subset
   and ANY naming functions (the Section variables; Foreign/ImportTheorems.v instantiates them).

   doc_ok doc : no definition's safe name is a builtin type name, and the safe names are pairwise different
                (what `TypeList.Find` needs in order not to skip a definition).
     convert_spec          doc_ok -> the loop of convertSpec loads every definition, in order
     import_complete       doc_ok, distinct compiled keys -> every object definition has its tuple, and every
                           property its field with the kind of its type word, opt = not in `required` (the WHOLE
                           list), seq = array
     import_complete_alias ... every array / enum / primitive definition its alias
     import_sound          doc_ok -> every compiled type comes from a definition, every field from a property
     import_skips_builtin_named   (refutation of completeness outside doc_ok: a definition whose safe name is a
                           builtin type name is dropped - known finding missing-type:swagger:keyword)
     import_deterministic  doc_ok -> two orders of ranging over the definitions map and over each properties map
                           give the same LIST (text order included), because both are sorted by distinct names *)
From Coq Require Import String Ascii List NArith Bool Lia Permutation Sorted.
Import ListNotations.
Require Import Verif.Foreign.NameEscape Verif.Foreign.NameEscapeProps Verif.Foreign.ImportSpec.
Local Open Scope list_scope.

Lemma bs_eqb_eq (x y:bs) : bs_eqb x y = true <-> x = y.
Proof.
  unfold bs_eqb. revert y. induction x as [|a x IH]; destruct y as [|c y]; try (split; [discriminate|discriminate]).
  - split; reflexivity.
  - rewrite andb_true_iff, aeqb_eq, IH. split; [intros [-> ->]; reflexivity|intros [= -> ->]; split; reflexivity].
Qed.
Lemma bs_eqb_refl x : bs_eqb x x = true.
Proof. apply bs_eqb_eq. reflexivity. Qed.
Lemma bs_eqb_neq x y : x <> y -> bs_eqb x y = false.
Proof. intros H. destruct (bs_eqb x y) eqn:E; [apply bs_eqb_eq in E; contradiction|reflexivity]. Qed.

Lemma bmem_In x l : bmem x l = true <-> In x l.
Proof.
  induction l as [|y l IH]; cbn [bmem In]; [split; [discriminate|tauto]|].
  rewrite orb_true_iff, IH, bs_eqb_eq. split; intros [H|H]; auto.
Qed.

Lemma lookup_In {V} (k:bs) (v:V) l : NoDup (map fst l) -> In (k, v) l -> lookup k l = Some v.
Proof.
  induction l as [|[k' v'] l IH]; intros Hn Hin; [destruct Hin|].
  cbn [lookup]. cbn [map fst] in Hn. apply NoDup_cons_iff in Hn. destruct Hn as [Hk Hn].
  destruct Hin as [E|Hin].
  - injection E as -> ->. rewrite bs_eqb_refl. reflexivity.
  - destruct (bs_eqb k k') eqn:E; [|apply IH; assumption].
    apply bs_eqb_eq in E. subst k'. exfalso. apply Hk. apply in_map_iff. exists (k, v). auto.
Qed.

Lemma lookup_Some_In {V} (k:bs) (v:V) l : lookup k l = Some v -> In (k, v) l.
Proof.
  induction l as [|[k' v'] l IH]; cbn [lookup]; [discriminate|].
  destruct (bs_eqb k k') eqn:E.
  - intros [= ->]. apply bs_eqb_eq in E. subst. left. reflexivity.
  - intros H. right. apply IH, H.
Qed.

(* ---------------- the stable insertion sort ---------------- *)
Section SortProps.
  Context {A:Type} (key:A -> bs).

  Lemma insert_perm x l : Permutation (insert key x l) (x :: l).
  Proof.
    induction l as [|y l IH]; cbn [insert]; [apply Permutation_refl|].
    destruct (bs_leb (key x) (key y)); [apply Permutation_refl|].
    eapply perm_trans; [apply perm_skip, IH|apply perm_swap].
  Qed.

  Lemma sort_perm l : Permutation (sort_by key l) l.
  Proof.
    induction l as [|x l IH]; cbn [sort_by]; [apply perm_nil|].
    eapply perm_trans; [apply insert_perm|apply perm_skip, IH].
  Qed.

  Lemma sort_In x l : In x (sort_by key l) <-> In x l.
  Proof. split; apply Permutation_in; [apply sort_perm|apply Permutation_sym, sort_perm]. Qed.
End SortProps.

(* ---------------- strings.Compare is a total order on byte strings ---------------- *)
Lemma bs_leb_refl a : bs_leb a a = true.
Proof. induction a as [|x a IH]; cbn [bs_leb]; [reflexivity|]. rewrite N.ltb_irrefl. exact IH. Qed.

Lemma code_inj x y : code x = code y -> x = y.
Proof.
  unfold code. intros H. rewrite <- (ascii_N_embedding x), <- (ascii_N_embedding y), H. reflexivity.
Qed.

Lemma bs_leb_total a b : bs_leb a b = true \/ bs_leb b a = true.
Proof.
  revert b. induction a as [|x a IH]; intros [|y b]; cbn [bs_leb]; auto.
  destruct (N.ltb_spec (code x) (code y)); auto.
  destruct (N.ltb_spec (code y) (code x)); auto.
Qed.

Lemma bs_leb_antisym a b : bs_leb a b = true -> bs_leb b a = true -> a = b.
Proof.
  revert b. induction a as [|x a IH]; intros [|y b]; cbn [bs_leb]; try discriminate; [reflexivity|].
  destruct (N.ltb_spec (code x) (code y)) as [Hxy|Hxy].
  - destruct (N.ltb_spec (code y) (code x)); [lia|discriminate].
  - destruct (N.ltb_spec (code y) (code x)) as [Hyx|Hyx]; [discriminate|].
    intros H1 H2. assert (code x = code y) as E by lia. apply code_inj in E. subst y.
    rewrite (IH b H1 H2). reflexivity.
Qed.

Lemma bs_leb_trans a b c : bs_leb a b = true -> bs_leb b c = true -> bs_leb a c = true.
Proof.
  revert b c. induction a as [|x a IH]; intros [|y b] [|z c]; cbn [bs_leb]; try discriminate; try reflexivity.
  destruct (N.ltb_spec (code x) (code y)) as [Hxy|Hxy].
  - intros _. destruct (N.ltb_spec (code y) (code z)) as [Hyz|Hyz].
    + intros _. destruct (N.ltb_spec (code x) (code z)); [reflexivity|lia].
    + destruct (N.ltb_spec (code z) (code y)); [discriminate|]. intros _.
      destruct (N.ltb_spec (code x) (code z)); [reflexivity|lia].
  - destruct (N.ltb_spec (code y) (code x)) as [Hyx|Hyx]; [discriminate|]. intros H1.
    destruct (N.ltb_spec (code y) (code z)) as [Hyz|Hyz].
    + intros _. destruct (N.ltb_spec (code x) (code z)); [reflexivity|lia].
    + destruct (N.ltb_spec (code z) (code y)) as [Hzy|Hzy]; [discriminate|]. intros H2.
      destruct (N.ltb_spec (code x) (code z)); [reflexivity|].
      destruct (N.ltb_spec (code z) (code x)); [lia|]. apply (IH b c H1 H2).
Qed.

(* a list sorted by a key with pairwise different keys is determined by its elements *)
Section SortUnique.
  Context {A:Type} (key:A -> bs).
  Definition kle (x y:A) : Prop := bs_leb (key x) (key y) = true.

  Lemma insert_sorted x l : StronglySorted kle l -> StronglySorted kle (insert key x l).
  Proof.
    induction l as [|y l IH]; intros Hs; cbn [insert].
    - constructor; [constructor|constructor].
    - destruct (bs_leb (key x) (key y)) eqn:E.
      + constructor; [exact Hs|]. constructor; [exact E|].
        apply StronglySorted_inv in Hs. destruct Hs as [_ Hall].
        eapply Forall_impl; [|exact Hall]. intros z Hz. unfold kle in *. eapply bs_leb_trans; eassumption.
      + apply StronglySorted_inv in Hs. destruct Hs as [Hs Hall]. constructor; [apply IH, Hs|].
        assert (Hyx: kle y x) by (unfold kle; destruct (bs_leb_total (key x) (key y)); congruence).
        eapply Permutation_Forall; [apply Permutation_sym, insert_perm|]. constructor; assumption.
  Qed.

  Lemma sort_sorted l : StronglySorted kle (sort_by key l).
  Proof. induction l as [|x l IH]; cbn [sort_by]; [constructor|apply insert_sorted, IH]. Qed.

  Lemma sorted_unique l1 l2 :
    StronglySorted kle l1 -> StronglySorted kle l2 -> Permutation l1 l2 -> NoDup (map key l1) -> l1 = l2.
  Proof.
    revert l2. induction l1 as [|x l1 IH]; intros l2 H1 H2 Hp Hn.
    - apply Permutation_nil in Hp. subst. reflexivity.
    - destruct l2 as [|y l2]; [apply Permutation_sym, Permutation_nil in Hp; discriminate|].
      apply StronglySorted_inv in H1. destruct H1 as [H1 Hx]. apply StronglySorted_inv in H2. destruct H2 as [H2 Hy].
      rewrite Forall_forall in Hx, Hy.
      assert (Hxy: key x = key y).
      { assert (In x (y :: l2)) as Ix by (eapply Permutation_in; [exact Hp|left; reflexivity]).
        assert (In y (x :: l1)) as Iy by (eapply Permutation_in; [apply Permutation_sym, Hp|left; reflexivity]).
        destruct Ix as [->|Ix]; [reflexivity|]. destruct Iy as [->|Iy]; [reflexivity|].
        apply bs_leb_antisym; [apply (Hx y Iy)|apply (Hy x Ix)]. }
      assert (x = y).
      { assert (In y (x :: l1)) as Iy by (eapply Permutation_in; [apply Permutation_sym, Hp|left; reflexivity]).
        destruct Iy as [->|Iy]; [reflexivity|]. exfalso.
        cbn [map] in Hn. apply NoDup_cons_iff in Hn. destruct Hn as [Hk _]. apply Hk. rewrite Hxy.
        apply in_map, Iy. }
      subst y. f_equal. apply IH; [exact H1|exact H2|eapply Permutation_cons_inv; exact Hp|].
      cbn [map] in Hn. apply NoDup_cons_iff in Hn. apply Hn.
  Qed.

  Theorem sort_perm_unique l1 l2 :
    Permutation l1 l2 -> NoDup (map key l1) -> sort_by key l1 = sort_by key l2.
  Proof.
    intros Hp Hn. apply sorted_unique; [apply sort_sorted|apply sort_sorted| |].
    - eapply perm_trans; [apply sort_perm|]. eapply perm_trans; [exact Hp|apply Permutation_sym, sort_perm].
    - eapply Permutation_NoDup; [apply Permutation_map, Permutation_sym, sort_perm|exact Hn].
  Qed.
End SortUnique.

(* ---------------- the import ---------------- *)
Section ImportProps.
  Variable safe : bs -> bs.
  Variable is_builtin : bs -> bool.
  Variable tname : bs -> bs.
  Variable fname : bs -> bs.
  Variable unesc : bs -> bs.
  Variable map_type : string -> string -> bs.
  Variable native : bs -> option (string * N).

  Notation load := (load safe is_builtin tname map_type).
  Notation convert := (convert safe is_builtin tname map_type).
  Notation convert_step := (convert_step safe is_builtin tname map_type).
  Notation import := (import_oas2 safe is_builtin tname fname unesc map_type native).
  Notation ctype := (ctype tname fname unesc native).
  Notation cfield := (cfield fname unesc native).
  Notation build_field := (build_field safe map_type).
  Notation word := (word unesc native).
  Notation type_word := (type_word safe map_type).

  Definition sname (d:odef) : bs := safe (fst d).
  Definition loaded (d:odef) : itype := load [] (sname d) (snd d).

  (* what a definition becomes does not depend on which definitions Go happened to visit before it. This can only
     fail for an array definition whose items are a $ref (see array_word and import_deterministic_refuted). *)
  Definition order_free (doc:oasdoc) : Prop :=
    forall types d, In d doc -> load types (sname d) (snd d) = loaded d.

  Definition doc_ok (doc:oasdoc) : Prop :=
    (forall d, In d doc -> is_builtin (sname d) = false) /\ NoDup (map sname doc) /\ order_free doc.

  Lemma load_name types n b : itype_name (load types n b) = n.
  Proof.
    destruct b as [props req| | |ty fmt]; cbn [ImportSpec.load]; try reflexivity.
    - destruct props; reflexivity.
    - destruct (is_builtin _); reflexivity.
  Qed.

  Lemma find_false types s :
    is_builtin s = false -> ~ In s (map itype_name types) -> find is_builtin types s = false.
  Proof.
    intros Hb Hn. unfold find. rewrite Hb. cbn [orb].
    induction types as [|t types IH]; [reflexivity|]. cbn [existsb].
    cbn [map In] in Hn. rewrite bs_eqb_neq; [|intros E; apply Hn; left; exact E].
    cbn [orb]. apply IH. intros H. apply Hn. right. exact H.
  Qed.

  Lemma fold_spec doc : forall acc,
    (forall d, In d doc -> is_builtin (sname d) = false) ->
    (forall types d, In d doc -> load types (sname d) (snd d) = loaded d) ->
    NoDup (map itype_name acc ++ map sname doc) ->
    fold_left convert_step doc acc = acc ++ map loaded doc.
  Proof.
    induction doc as [|d doc IH]; intros acc Hb Hfree Hn; cbn [fold_left map].
    - rewrite app_nil_r. reflexivity.
    - unfold ImportSpec.convert_step at 2. fold (sname d).
      rewrite find_false.
      + rewrite (Hfree acc d (or_introl eq_refl)). rewrite IH.
        * rewrite <- app_assoc. reflexivity.
        * intros d' Hd'. apply Hb. right. exact Hd'.
        * intros types d' Hd'. apply Hfree. right. exact Hd'.
        * rewrite map_app. cbn [map]. unfold loaded at 1. rewrite load_name. rewrite <- app_assoc. cbn [app]. exact Hn.
      + apply Hb. left. reflexivity.
      + cbn [map] in Hn. apply NoDup_remove_2 in Hn. intros H. apply Hn. apply in_or_app. left. exact H.
  Qed.

  (* the loop of convertSpec loads every definition exactly once *)
  Theorem convert_spec doc : doc_ok doc -> convert doc = sort_by itype_name (map loaded doc).
  Proof.
    intros [Hb [Hn Hfree]]. unfold ImportSpec.convert, ImportSpec.loaded_list, ImportSpec.visit_order.
    set (vd := sort_by (fun d:odef => fst d) doc).
    assert (Hp: Permutation vd doc) by apply sort_perm.
    rewrite (fold_spec vd []).
    - cbn [app]. apply sort_perm_unique; [apply Permutation_map, Hp|].
      rewrite map_map. erewrite map_ext; [|intros d; apply load_name].
      eapply Permutation_NoDup; [apply Permutation_map, Permutation_sym, Hp|exact Hn].
    - intros d Hd. apply Hb. eapply Permutation_in; [exact Hp|exact Hd].
    - intros types d Hd. apply Hfree. eapply Permutation_in; [exact Hp|exact Hd].
    - cbn [map app]. eapply Permutation_NoDup; [apply Permutation_map, Permutation_sym, Hp|exact Hn].
  Qed.

  (* since the definitions are visited in the order of their names, the order in which `doc` lists them is
     irrelevant for EVERY document with distinct names - no doc_ok needed (before 3a34129: refuted) *)
  Theorem convert_any_order doc doc' :
    Permutation doc doc' -> NoDup (map (fun d:odef => fst d) doc) -> convert doc = convert doc'.
  Proof.
    intros Hp Hn. unfold ImportSpec.convert, ImportSpec.loaded_list, ImportSpec.visit_order.
    rewrite (sort_perm_unique (fun d:odef => fst d) doc doc' Hp Hn). reflexivity.
  Qed.
  Theorem import_any_order doc doc' :
    Permutation doc doc' -> NoDup (map (fun d:odef => fst d) doc) -> import doc = import doc'.
  Proof. intros Hp Hn. unfold import_oas2. rewrite (convert_any_order doc doc' Hp Hn). reflexivity. Qed.

  Lemma In_write_order t l : In t (write_order l) <-> In t l.
  Proof.
    unfold write_order. rewrite in_app_iff, !filter_In. destruct (first_pass t); cbn [negb]; intuition congruence.
  Qed.

  Lemma In_import doc e : doc_ok doc -> (In e (import doc) <-> exists d, In d doc /\ e = ctype (loaded d)).
  Proof.
    intros Hok. unfold import_oas2. rewrite (convert_spec doc Hok). rewrite in_map_iff. split.
    - intros [t [<- Ht]]. apply (proj1 (In_write_order _ _)) in Ht. apply (proj1 (sort_In _ _ _)) in Ht.
      apply in_map_iff in Ht.
      destruct Ht as [d [<- Hd]]. exists d. split; [exact Hd|reflexivity].
    - intros [d [Hd ->]]. exists (loaded d). split; [reflexivity|].
      apply (proj2 (In_write_order _ _)), (proj2 (sort_In _ _ _)), in_map, Hd.
  Qed.

  (* what a property must look like in the compiled model *)
  Definition expected_field (required:list bs) (p:oprop) : field :=
    word (type_word (op_type p)) (negb (bmem (op_name p) required)) (op_array p).
  Definition fkey (p:oprop) : bs := unesc (fname (op_name p)).
  Definition tkey (n:bs) : bs := unesc (tname (safe n)).

  Lemma cfield_build required p : cfield (build_field required p) = (fkey p, expected_field required p).
  Proof. unfold ImportSpec.cfield, ImportSpec.build_field, fkey, expected_field. cbn. destruct (op_array p); reflexivity. Qed.

  Definition tuple_of (props:list oprop) (required:list bs) : list (bs * field) :=
    map cfield (sort_by if_name (map (build_field required) props)).

  Lemma tuple_perm props required :
    Permutation (tuple_of props required) (map (fun p => (fkey p, expected_field required p)) props).
  Proof.
    unfold tuple_of. eapply perm_trans; [apply Permutation_map, sort_perm|].
    rewrite map_map. erewrite map_ext; [apply Permutation_refl|]. intros p. apply cfield_build.
  Qed.

  Theorem import_complete doc n props required p :
    doc_ok doc -> NoDup (map fst (import doc)) ->
    In (n, OObject props required) doc -> NoDup (map fkey props) -> In p props ->
    exists fs, lookup (tkey n) (import doc) = Some (TTuple fs)
               /\ lookup (fkey p) fs = Some (expected_field required p).
  Proof.
    intros Hok Hkeys Hd Hf Hp. exists (tuple_of props required). split.
    - apply lookup_In; [exact Hkeys|]. apply (In_import doc _ Hok). exists (n, OObject props required).
      split; [exact Hd|]. unfold loaded, sname. cbn [fst snd ImportSpec.load].
      destruct props as [|p0 props]; [destruct Hp|]. reflexivity.
    - apply lookup_In.
      + eapply Permutation_NoDup; [apply Permutation_map, Permutation_sym, tuple_perm|].
        rewrite map_map. cbn [fst]. exact Hf.
      + eapply Permutation_in; [apply Permutation_sym, tuple_perm|]. apply in_map_iff. exists p. auto.
  Qed.

  (* arrays, enums and primitive definitions become aliases *)
  Theorem import_complete_alias doc n b :
    doc_ok doc -> NoDup (map fst (import doc)) -> In (n, b) doc ->
    match b with
    | OArray e => lookup (unesc (safe n)) (import doc)
                  = Some (TAlias (word (array_word safe is_builtin tname map_type [] e) false true))
    | OEnum => lookup (unesc (safe n)) (import doc) = Some (TAlias (word string_word false false))
    | OPrim ty fmt =>
        is_builtin (map_type ty fmt) = true ->
        lookup (unesc (safe n)) (import doc) = Some (TAlias (word (map_type ty fmt) false false))
    | OObject _ _ => True
    end.
  Proof.
    intros Hok Hkeys Hd.
    assert (G: forall sh, (unesc (safe n), sh) = ctype (load [] (safe n) b) ->
                          lookup (unesc (safe n)) (import doc) = Some sh).
    { intros sh E. apply lookup_In; [exact Hkeys|]. apply (In_import doc _ Hok). exists (n, b).
      split; [exact Hd|]. exact E. }
    destruct b as [props req|e| |ty fmt]; [exact I| | |intros Hb]; apply G; cbn [ImportSpec.load ImportSpec.ctype].
    - reflexivity.
    - reflexivity.
    - rewrite Hb. reflexivity.
  Qed.

  (* nothing else appears *)
  Theorem import_sound doc k sh :
    doc_ok doc -> In (k, sh) (import doc) ->
    exists n b, In (n, b) doc /\ (k, sh) = ctype (load [] (safe n) b)
      /\ forall fs, sh = TTuple fs ->
           exists props required, b = OObject props required /\ k = tkey n
             /\ forall fk f, In (fk, f) fs -> exists p, In p props /\ fk = fkey p /\ f = expected_field required p.
  Proof.
    intros Hok Hin. apply (In_import doc _ Hok) in Hin. destruct Hin as [[n b] [Hd E]].
    exists n, b. split; [exact Hd|]. split; [exact E|]. intros fs ->.
    unfold loaded, sname in E. cbn [fst snd] in E.
    destruct b as [props req|e| |ty fmt].
    - destruct props as [|p0 props]; [discriminate E|].
      assert (EL: load [] (safe n) (OObject (p0 :: props) req)
                  = IStandard (safe n) (sort_by if_name (map (build_field req) (p0 :: props)))) by reflexivity.
      rewrite EL in E. unfold ImportSpec.ctype in E. injection E as Ek Efs. exists (p0 :: props), req.
      split; [reflexivity|]. split; [exact Ek|]. intros fk f Hf. rewrite Efs in Hf.
      change (In (fk, f) (tuple_of (p0 :: props) req)) in Hf.
      eapply Permutation_in in Hf; [|apply tuple_perm]. apply in_map_iff in Hf. destruct Hf as [p [Ep Hp]].
      injection Ep as <- <-. exists p. auto.
    - discriminate E.
    - discriminate E.
    - cbn [ImportSpec.load] in E. destruct (is_builtin _); discriminate E.
  Qed.

  (* a definition whose safe name is a builtin type name never gets a type: TypeList.Find answers "found" *)
  Theorem import_skips_builtin_named n b :
    is_builtin (safe n) = true -> import [(n, b)] = [].
  Proof.
    intros Hb. unfold import_oas2, ImportSpec.convert, ImportSpec.loaded_list, ImportSpec.visit_order.
    cbn [sort_by insert fold_left]. unfold ImportSpec.convert_step. cbn [fst].
    unfold find. rewrite Hb. reflexivity.
  Qed.

  (* the output does not depend on the order in which Go ranges over the two kinds of maps *)
  Definition same_props (b b':obody) : Prop :=
    match b, b' with
    | OObject ps rq, OObject ps' rq' => Permutation ps ps' /\ rq = rq' /\ NoDup (map op_name ps)
    | _, _ => b = b'
    end.

  Lemma load_perm n b b' : same_props b b' -> load [] n b = load [] n b'.
  Proof.
    destruct b as [ps rq|e| |ty fmt], b' as [ps' rq'|e'| |ty' fmt']; cbn [same_props]; try congruence.
    intros [Hp [<- Hn]]. cbn [ImportSpec.load].
    destruct ps as [|p ps], ps' as [|p' ps'];
      [reflexivity|apply Permutation_nil in Hp; discriminate|apply Permutation_sym, Permutation_nil in Hp; discriminate|].
    f_equal. apply sort_perm_unique; [apply Permutation_map, Hp|].
    rewrite map_map. erewrite map_ext; [exact Hn|]. intros q. reflexivity.
  Qed.

  Theorem import_deterministic doc doc' :
    doc_ok doc -> Permutation (map loaded doc) (map loaded doc') -> doc_ok doc' -> import doc = import doc'.
  Proof.
    intros Hok Hp Hok'. unfold import_oas2. rewrite (convert_spec doc Hok), (convert_spec doc' Hok').
    f_equal. f_equal. apply sort_perm_unique; [exact Hp|].
    rewrite map_map. erewrite map_ext; [apply (proj1 (proj2 Hok))|]. intros d. apply load_name.
  Qed.

  (* the same definitions ranged over in another order, each with its properties in another order *)
  Definition same_def (d d':odef) : Prop := fst d = fst d' /\ same_props (snd d) (snd d').
  Lemma loaded_same doc doc' : Forall2 same_def doc doc' -> map loaded doc = map loaded doc'.
  Proof.
    induction 1 as [|d d' doc doc' [Hn Hb] _ IH]; [reflexivity|]. cbn [map]. rewrite IH. f_equal.
    unfold loaded, sname. rewrite Hn. apply load_perm, Hb.
  Qed.

  Corollary import_deterministic_reorder doc doc1 doc' :
    doc_ok doc -> doc_ok doc' -> Forall2 same_def doc doc1 -> Permutation doc1 doc' -> import doc = import doc'.
  Proof.
    intros Hok Hok' Hs Hp. apply import_deterministic; [exact Hok| |exact Hok'].
    rewrite (loaded_same doc doc1 Hs). apply Permutation_map, Hp.
  Qed.

  (* decidable forms of the hypotheses *)
  Fixpoint nodupb (l:list bs) : bool := match l with [] => true | x :: r => negb (bmem x r) && nodupb r end.
  Lemma nodupb_NoDup l : nodupb l = true -> NoDup l.
  Proof.
    induction l as [|x l IH]; intros H; [constructor|]. cbn [nodupb] in H. apply andb_true_iff in H. destruct H as [Hx Hl].
    constructor; [|apply IH, Hl]. intros Hin. apply bmem_In in Hin. rewrite Hin in Hx. discriminate.
  Qed.
  (* sufficient for order_free: no array definition whose items are a $ref *)
  Definition no_array_of_ref (d:odef) : bool := match snd d with OArray (FRef _) => false | _ => true end.
  Lemma no_array_of_ref_free doc : forallb no_array_of_ref doc = true -> order_free doc.
  Proof.
    intros H types d Hd. rewrite forallb_forall in H. specialize (H d Hd). unfold no_array_of_ref in H. unfold loaded.
    destruct (snd d) as [ps rq|e| |ty fmt]; try reflexivity. destruct e; [reflexivity|discriminate H].
  Qed.
  Definition doc_okb (doc:oasdoc) : bool :=
    forallb (fun d => negb (is_builtin (sname d))) doc && nodupb (map sname doc) && forallb no_array_of_ref doc.
  Lemma doc_okb_spec doc : doc_okb doc = true -> doc_ok doc.
  Proof.
    unfold doc_okb, doc_ok. intros H. apply andb_true_iff in H. destruct H as [H Hf].
    apply andb_true_iff in H. destruct H as [Hb Hn]. split; [|split].
    - intros d Hd. rewrite forallb_forall in Hb. specialize (Hb d Hd). apply negb_true_iff in Hb. exact Hb.
    - apply nodupb_NoDup, Hn.
    - apply no_array_of_ref_free, Hf.
  Qed.
End ImportProps.
