(* C11 - the XSD import (pkg/importer/xsd.go + writer.go + the compiler), flat subset: named complex types with a
   sequence of elements (primitive or named type, minOccurs 0/1, maxOccurs 1/unbounded), attributes, single-level
   or chained extension; named simple types. Definitions only.

   aqwari.net/xml/xsd (the parser of the XML) is NOT modelled: the document type below is what that library hands
   to loadSchemaTypes. Transliterated decisions:
     makeType            complex type that extends and adds nothing -> alias of its base (isExtendedType)
     makeComplexType     fields = getAllElements (the base chain's elements, then the own ones), then the OWN
                         attributes only (inherited attributes are dropped - known finding); createChildItem:
                         Optional, plural -> Array, ~xml_attribute
     makeSizeSpecFromAttrs + writer.appendSizeSpec   an unbounded element is written `n(0..) <: sequence of T?`
     getSyslTypeName     a reference to a complex type carries the same "_" prefix as its definition
   and the compiler: a field with an array size becomes a list whose ELEMENT carries the `?` (ExitField), so the
   field itself is never optional (known finding optionality:xsd:array). *)
From Coq Require Import String Ascii List NArith Bool.
Import ListNotations.
Require Import Verif.Foreign.NameEscape Verif.Foreign.ImportSpec.
Local Open Scope list_scope.

Inductive xtype := XPrim (p:string) | XRef (n:bs).
Record xelem := mkx { x_name : bs; x_type : xtype; x_optional : bool; x_plural : bool }.
Record xattr := mka { a_name : bs; a_prim : string; a_required : bool }.
Inductive xbody :=
| XComplex (base:option bs) (elems:list xelem) (attrs:list xattr)
| XSimple (p:string).
Definition xsddoc := list (bs * xbody).

Section Xsd.
  Variable tname : bs -> bs.      (* getSyslTypeName of a StandardType *)
  Variable fname : bs -> bs.      (* writer field name *)
  Variable unesc : bs -> bs.
  Variable xprim_word : string -> bs.               (* the XSD builtin -> Sysl type word (findType / makeXsdBuiltinType) *)
  Variable native : bs -> option (string * N).
  Variable is_complex : xsddoc -> bs -> bool.

  (* getAllElements: the base chain's elements first (fuel: the chain cannot be longer than the document) *)
  Fixpoint all_elems (fuel:nat) (doc:xsddoc) (base:option bs) (own:list xelem) : list xelem :=
    match fuel with
    | O => own
    | S f =>
        match base with
        | None => own
        | Some b =>
            match lookup b doc with
            | Some (XComplex b' es _) => all_elems f doc b' es ++ own
            | _ => own
            end
        end
    end.

  Definition xword (doc:xsddoc) (t:xtype) : bs :=
    match t with
    | XPrim p => xprim_word p
    | XRef n => if is_complex doc n then tname n else n   (* complex: StandardType; simple: Alias (its own name) *)
    end.

  Definition elem_field (doc:xsddoc) (e:xelem) : bs * field :=
    (unesc (fname (x_name e)),
     if x_plural e
     then word unesc native (xword doc (x_type e)) false true        (* n(0..) <: sequence of T? : opt is on the element *)
     else word unesc native (xword doc (x_type e)) (x_optional e) false).
  Definition attr_field (a:xattr) : bs * field :=
    (unesc (fname (a_name a)), word unesc native (xprim_word (a_prim a)) (negb (a_required a)) false).

  Definition xtype_proj (doc:xsddoc) (d:bs * xbody) : bs * tshape :=
    match snd d with
    | XComplex base elems attrs =>
        match base, elems, attrs with
        | Some b, [], [] => (unesc (fst d), TAlias (word unesc native (xword doc (XRef b)) false false))
        | _, _, _ =>
            (unesc (tname (fst d)),
             TTuple (map (elem_field doc) (all_elems (List.length doc) doc base elems) ++ map attr_field attrs))
        end
    | XSimple p => (unesc (fst d), TAlias (word unesc native (xprim_word p) false false))
    end.

  Definition import_xsd (doc:xsddoc) : proj := map (xtype_proj doc) doc.
End Xsd.
