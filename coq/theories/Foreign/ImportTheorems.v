(* C11 - the import model for the CURRENT source: obligations over Gen/ForeignTables.v (statement shapes of the
   transliterated decisions, the type table) and the theorems of ImportProps instantiated with the name functions
   of NameEscape and the regenerated tables. *)
From Coq Require Import String Ascii List NArith Bool Permutation.
Import ListNotations.
Require Import Verif.Gen.ForeignTables Verif.Foreign.NameEscape Verif.Foreign.Tables Verif.Foreign.ImportSpec
  Verif.Foreign.ImportProps Verif.Foreign.ImportRun.
Local Open Scope string_scope.
Local Open Scope list_scope.

(* the loop of convertSpec over the definitions, in the order of their names (utils.OrderedKeys, since 3a34129):
   safe name, skip what Find resolves, load, Add; then Sort *)
Lemma convert_shape_ok : convert_shape =
  ["for name := range spec.Components.Schemas { sName := getSyslSafeName(name) o.schemaNames[sName] = struct{}{} }";
   "o.types = TypeList{}";
   "for _, name := range utils.OrderedKeys(spec.Components.Schemas) { ref := spec.Components.Schemas[name] sName := getSyslSafeName(name) if _, found := o.types.Find(sName); !found { if ref.Value == nil { o.types.Add(NewStringAlias(sName)) } else { t, err := o.loadTypeSchema(sName, ref.Value) if err != nil { return """", err } o.types.Add(t) } } }";
   "o.types.Sort()"].
Proof. reflexivity. Qed.

(* typeAliasForSchema (since C11-8 only an INLINE array is wrapped), and the array decisions of buildField (the
   whole of buildField: build_field_shape_ok in NestedTheorems.v) *)
Lemma array_rule_ok : array_rule =
  ["name := o.typeNameFromSchemaRef(ref)";
   "t, found := o.types.Find(name)";
   "if !found { t = nameOnlyType(name) }";
   "if name == OpenAPI_OBJECT { t = nameOnlyType(strings.Join(o.nameStack, ""_"")) }";
   "if _, ok := t.(*Array); !ok && ref.Ref == """" && ref.Value.Type.Is(openapi3.TypeArray) { return &Array{Items: t} }";
   "return t";
   "isArray := prop.Value.Type.Is(openapi3.TypeArray)";
   "if isArray && prop.Value.Items == nil { prop.Value.Items = openapi3.NewSchemaRef("""", openapi3.NewObjectSchema()) }";
   "if isArray && prop.Value.Items.Ref != """" { f.Type = &Array{Items: nameOnlyType(o.typeNameFromSchemaRef(prop.Value.Items))} return f, nil }"].
Proof. reflexivity. Qed.

(* loadTypeSchema, object arm, after the properties loop *)
Lemma object_tail_ok : object_tail =
  ["if len(obj.Properties) == 0 { return NewStringAlias(name), nil }";
   "if err = obj.SortProperties(); err != nil { return nil, err }";
   "return obj, nil"].
Proof. reflexivity. Qed.

(* TypeList.Find: builtin names first, then by name *)
Lemma find_shape_ok : find_shape =
  ["if builtin, ok := checkBuiltInTypes(name); ok { return builtin, ok }";
   "for _, n := range t.Items() { if n.Name() == name { if importAlias, ok := n.(*ImportedBuiltInAlias); ok { return importAlias.Target, true } return n, true } }";
   "return &StandardType{}, false"].
Proof. reflexivity. Qed.

(* FieldList.SortWithoutDupl *)
Lemma sort_props_shape_ok : sort_props_shape =
  ["m := make(map[string]Field)";
   "for _, p := range props { if prop, exist := m[p.Name]; exist && !reflect.DeepEqual(p, prop) { return nil, fmt.Errorf(""duplicate fields exist: %q"", prop.Name) } m[p.Name] = p }";
   "props = make(FieldList, 0, len(m))";
   "for _, prop := range m { props = append(props, prop) }";
   "sort.SliceStable(props, func(i, j int) bool { return strings.Compare(props[i].Name, props[j].Name) < 0 })";
   "return props, nil"].
Proof. reflexivity. Qed.

(* TypeList.Sort *)
Lemma sort_types_shape_ok : sort_types_shape =
  ["sort.SliceStable(t.types, func(i, j int) bool { a := t.types[i].Name() b := t.types[j].Name() return strings.Compare(a, b) < 0 })"].
Proof. reflexivity. Qed.

(* endpoints.go: Parameters.Add / Extend / findParams, as transliterated in Foreign/EndpointSpec.v: keyed by name,
   Extend builds a FRESH Parameters (an Extend that hands back the receiver makes the operations of a path share
   one map: the seeded regression that motivated the endpoint model) *)
Lemma params_shape_ok : params_shape =
  ["func Add(param Param)";
   "if p.items == nil { p.items = map[string]Param{} }";
   "if _, found := p.items[param.Name]; !found { p.insertOrder = append(p.insertOrder, param.Name) }";
   "p.items[param.Name] = param";
   "func Extend(others ParamSet) ParamSet";
   "res := ParamSet{}";
   "for _, name := range p.insertOrder { res.Add(p.items[name]) }";
   "for _, name := range others.insertOrder { res.Add(others.items[name]) }";
   "return res";
   "func findParams(where string) []Param";
   "var res []Param";
   "for _, name := range p.insertOrder { item := p.items[name] if item.In == where { res = append(res, item) } }";
   "return res"].
Proof. reflexivity. Qed.

(* the type table and the compiler's reading of the words it yields: every OpenAPI (type, format) of the modelled
   subset becomes the primitive of the same kind, int32 / int64 with their bit width *)
Definition prim_expectations : list (string * string * (string * N)) :=
  [("string", "", ("STRING", 0%N)); ("string", "date", ("DATE", 0%N)); ("string", "date-time", ("DATETIME", 0%N));
   ("string", "byte", ("BYTES", 0%N)); ("string", "binary", ("BYTES", 0%N)); ("integer", "", ("INT", 0%N));
   ("integer", "int32", ("INT", 32%N)); ("integer", "int64", ("INT", 64%N)); ("number", "", ("FLOAT", 0%N));
   ("number", "float", ("FLOAT", 0%N)); ("number", "double", ("FLOAT", 0%N)); ("boolean", "", ("BOOL", 0%N))].
Definition prim_kind_ok (e:string * string * (string * N)) : bool :=
  match e with (ty, fmt, (k, bits)) =>
    match native_c (prim_word map_type_c ty fmt) with
    | Some (k', bits') => String.eqb k k' && N.eqb bits bits'
    | None => false
    end
  end.
Lemma prim_kinds_ok : forallb prim_kind_ok prim_expectations = true.
Proof. vm_compute. reflexivity. Qed.

(* ---------------- the theorems for the current source ---------------- *)
Notation doc_ok_c := (doc_ok safe_name_cur is_builtin_c tname_c map_type_c).
Notation fkey_c := (fkey fname_c unesc_c).
Notation tkey_c := (tkey safe_name_cur tname_c unesc_c).
Notation expected_c := (expected_field safe_name_cur unesc_c map_type_c native_c).

Theorem import_complete_current : forall doc n props required p,
  doc_ok_c doc -> NoDup (map fst (import_c doc)) ->
  In (n, OObject props required) doc -> NoDup (map fkey_c props) -> In p props ->
  exists fs, lookup (tkey_c n) (import_c doc) = Some (TTuple fs)
             /\ lookup (fkey_c p) fs = Some (expected_c required p).
Proof. exact (import_complete safe_name_cur is_builtin_c tname_c fname_c unesc_c map_type_c native_c). Qed.

(* read out: optionality is membership in the whole `required` list, array-ness is kept *)
Lemma expected_opt_seq required p :
  f_opt (expected_c required p) = negb (bmem (op_name p) required) /\ f_seq (expected_c required p) = op_array p.
Proof.
  unfold expected_field, word. destruct (native_c _) as [[k bits]|]; split; reflexivity.
Qed.

Theorem import_sound_current : forall doc k sh,
  doc_ok_c doc -> In (k, sh) (import_c doc) ->
  exists n b, In (n, b) doc
    /\ (k, sh) = ctype tname_c fname_c unesc_c native_c (load safe_name_cur is_builtin_c tname_c map_type_c [] (safe_name_cur n) b)
    /\ forall fs, sh = TTuple fs ->
         exists props required, b = OObject props required /\ k = tkey_c n
           /\ forall fk f, In (fk, f) fs -> exists p, In p props /\ fk = fkey_c p /\ f = expected_c required p.
Proof. exact (import_sound safe_name_cur is_builtin_c tname_c fname_c unesc_c map_type_c native_c). Qed.

Theorem import_deterministic_current : forall doc doc1 doc',
  doc_ok_c doc -> doc_ok_c doc' -> Forall2 same_def doc doc1 -> Permutation doc1 doc' -> import_c doc = import_c doc'.
Proof. exact (import_deterministic_reorder safe_name_cur is_builtin_c tname_c fname_c unesc_c map_type_c native_c). Qed.

(* completeness is false outside doc_ok: a definition named like a builtin type is dropped (known finding) *)
Theorem import_complete_refuted :
  exists n b, import_c [(n, b)] = [] /\ b = OObject [mkp (of_string "id") (FPrim "string" "") false] [].
Proof.
  exists (of_string "Any"), (OObject [mkp (of_string "id") (FPrim "string" "") false] []). split; [|reflexivity].
  apply import_skips_builtin_named. vm_compute. reflexivity.
Qed.

(* Since 3a34129 the definitions are visited in the order of their names: listing them in another order changes
   nothing, for EVERY document with distinct names (no doc_ok). Before, this was refuted: an array definition whose
   items are a $ref to a definition named like a builtin type prefix was written `sequence of _Integer` if Go visited
   Integer first and `sequence of Integer` if not (typeAliasForSchema -> TypeList.Find on the types loaded so far). *)
Theorem import_any_order_current : forall doc doc',
  Permutation doc doc' -> NoDup (map (fun d:odef => fst d) doc) -> import_c doc = import_c doc'.
Proof. exact (import_any_order safe_name_cur is_builtin_c tname_c fname_c unesc_c map_type_c native_c). Qed.

(* the former counterexample: both listings give the same output now; which one is decided by the NAMES: Integer
   sorts before Order, so the array sees the loaded type (`_Integer`); an array named Alist sees the bare name *)
Example former_nondeterminism_witness :
  let d1 := (of_string "Integer", OObject [mkp (of_string "id") (FPrim "string" "") false] []) in
  let d2 := (of_string "Order", OArray (FRef (of_string "Integer"))) in
  let d3 := (of_string "Alist", OArray (FRef (of_string "Integer"))) in
  import_c [d1; d2] = import_c [d2; d1]
  /\ lookup (of_string "Order") (import_c [d2; d1]) = Some (TAlias (mkf "REF" 0 (of_string "_Integer") false true))
  /\ lookup (of_string "Alist") (import_c [d1; d3]) = Some (TAlias (mkf "REF" 0 (of_string "Integer") false true)).
Proof. vm_compute. repeat split; reflexivity. Qed.

(* a reference to a definition whose name starts like a builtin type dangles: the definition is written `_Integer`,
   the reference `Integer` (nameOnlyType is not prefixed) *)
Example import_ref_to_builtin_prefixed_dangles :
  let doc := [(of_string "Integer", OObject [mkp (of_string "id") (FPrim "string" "") false] []);
              (of_string "Holder", OObject [mkp (of_string "i") (FRef (of_string "Integer")) false] [])] in
  map fst (import_c doc) = [of_string "Holder"; of_string "_Integer"]
  /\ lookup (of_string "Holder") (import_c doc)
     = Some (TTuple [(of_string "i", mkf "REF" 0 (of_string "Integer") true false)]).
Proof. vm_compute. split; reflexivity. Qed.

(* non-vacuity: a document with hostile names, a keyword, a builtin name and three required properties meets the
   hypotheses, and the theorem's conclusion can be computed *)
Definition sample_doc : oasdoc :=
  [(of_string "Pet", OObject [mkp (of_string "x=y") (FPrim "integer" "int64") true;
                              mkp (of_string "if") (FPrim "string" "date-time") false;
                              mkp (of_string "string") (FRef (of_string "a.b")) false;
                              mkp (of_string "d") (FPrim "boolean" "") false]
                             [of_string "if"; of_string "string"; of_string "x=y"]);
   (of_string "a.b", OObject [mkp (of_string "n") (FPrim "number" "double") false] []);
   (of_string "Tags", OArray (FPrim "string" "uri"))].
Example sample_doc_ok : doc_ok_c sample_doc /\ NoDup (map fst (import_c sample_doc)).
Proof. split; [apply doc_okb_spec; vm_compute; reflexivity|apply nodupb_NoDup; vm_compute; reflexivity]. Qed.
Example sample_doc_import :
  lookup (of_string "Pet") (import_c sample_doc)
  = Some (TTuple [(of_string "d", mkf "BOOL" 0 [] true false);
                  (of_string "if_", mkf "DATETIME" 0 [] false false);
                  (of_string "string_", mkf "REF" 0 (of_string "a.b") false false);
                  (of_string "x=y", mkf "INT" 64 [] false true)]).
Proof. vm_compute. reflexivity. Qed.
