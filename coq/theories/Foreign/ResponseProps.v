(* C11 - proofs about Foreign/ResponseSpec.v: every response of every operation has its return line, carrying the
   response's type - directly, or through a generated type that is in the compiled module with one field of the
   response's type per media type; the definitions survive the endpoint phase; without typed multi-media responses
   the endpoint phase adds no type at all. *)
From Coq Require Import String Ascii List NArith Bool Permutation.
Import ListNotations.
Require Import Verif.Foreign.NameEscape Verif.Foreign.NameEscapeProps Verif.Foreign.ImportSpec Verif.Foreign.ImportProps
  Verif.Foreign.EndpointSpec Verif.Foreign.ResponseSpec.
Local Open Scope list_scope.

Lemma ifield_eqb_eq a b : ifield_eqb a b = true -> a = b.
Proof.
  destruct a as [n1 t1 o1], b as [n2 t2 o2]. unfold ifield_eqb. cbn [if_name if_type if_opt].
  intros H. apply andb_true_iff in H. destruct H as [H Ht]. apply andb_true_iff in H. destruct H as [Hn Ho].
  apply bs_eqb_eq in Hn. apply Bool.eqb_prop in Ho. subst.
  destruct t1 as [x|x], t2 as [y|y]; try discriminate; apply bs_eqb_eq in Ht; subst; reflexivity.
Qed.

Lemma ifields_eqb_eq a : forall b, ifields_eqb a b = true -> a = b.
Proof.
  induction a as [|x a IH]; intros [|y b] H; try discriminate; [reflexivity|].
  cbn [ifields_eqb] in H. apply andb_true_iff in H. destruct H as [H1 H2].
  apply ifield_eqb_eq in H1. apply IH in H2. subst. reflexivity.
Qed.

Lemma find_type_In types n t : find_type types n = Some t -> In t types /\ itype_name t = n.
Proof.
  induction types as [|x types IH]; cbn [find_type]; [discriminate|].
  destruct (bs_eqb (itype_name x) n) eqn:E.
  - intros H. injection H as <-. apply bs_eqb_eq in E. split; [left; reflexivity|exact E].
  - intros H. destruct (IH H) as [H1 H2]. split; [right; exact H1|exact H2].
Qed.

Lemma dedup_In x l : In x (dedup l) <-> In x l.
Proof.
  induction l as [|y l IH]; [reflexivity|]. cbn [dedup].
  destruct (bmem y l) eqn:E.
  - rewrite IH. split; [intros H; right; exact H|]. intros [<-|H]; [apply bmem_In, E|exact H].
  - cbn [In]. rewrite IH. reflexivity.
Qed.

Section ResponseProps.
  Variable safe : bs -> bs.
  Variable is_builtin : bs -> bool.
  Variable tname : bs -> bs.
  Variable fname : bs -> bs.
  Variable unesc : bs -> bs.
  Variable map_type : string -> string -> bs.
  Variable native : bs -> option (string * N).
  Variable resp_prefix : bs -> bs.

  Notation place := (place is_builtin).
  Notation rfield := (rfield safe map_type).
  Notation wrapper_name := (wrapper_name resp_prefix).
  Notation resp_line := (resp_line safe is_builtin tname map_type resp_prefix).
  Notation resp_step := (resp_step safe is_builtin tname map_type resp_prefix).
  Notation op_step := (op_step safe is_builtin tname map_type resp_prefix).
  Notation build_ops := (build_ops safe is_builtin tname map_type resp_prefix).
  Notation import_full := (import_full safe is_builtin tname fname unesc map_type native resp_prefix).
  Notation import_returns := (import_returns safe is_builtin tname map_type resp_prefix).
  Notation full_types := (full_types safe is_builtin tname map_type resp_prefix).
  Notation loaded_types := (loaded_types safe is_builtin tname map_type).
  Notation ctype := (ctype tname fname unesc native).
  Notation cfield := (cfield fname unesc native).

  (* ---- TypeList.Add only appends ---- *)
  Lemma place_incl types m n0 fs t : In t types -> In t (snd (place types m n0 fs)).
  Proof.
    intros H. unfold ResponseSpec.place. destruct (is_builtin n0); cbn [snd]; [apply in_or_app; left; exact H|].
    destruct (find_type types n0) as [[n fs'|n i|n|n g|n]|]; cbn [snd]; try (apply in_or_app; left; exact H).
    destruct (ifields_eqb fs' fs); cbn [snd]; [exact H|apply in_or_app; left; exact H].
  Qed.

  (* the generated type is in the list afterwards, under the name `place` reports: the plain name or <METHOD>_name *)
  Lemma place_has types m n0 fs :
    In (IStandard (fst (place types m n0 fs)) fs) (snd (place types m n0 fs))
    /\ (fst (place types m n0 fs) = n0 \/ fst (place types m n0 fs) = m ++ us ++ n0).
  Proof.
    unfold ResponseSpec.place. destruct (is_builtin n0); cbn [fst snd].
    { split; [apply in_or_app; right; left; reflexivity|right; reflexivity]. }
    destruct (find_type types n0) as [[n fs'|n i|n|n g|n]|] eqn:E; cbn [fst snd];
      try (split; [apply in_or_app; right; left; reflexivity|right; reflexivity]).
    - destruct (ifields_eqb fs' fs) eqn:Ef; cbn [fst snd].
      + apply ifields_eqb_eq in Ef. subst fs'. destruct (find_type_In _ _ _ E) as [Hin Hn]. cbn [itype_name] in Hn. subst n.
        split; [exact Hin|left; reflexivity].
      + split; [apply in_or_app; right; left; reflexivity|right; reflexivity].
    - split; [apply in_or_app; right; left; reflexivity|left; reflexivity].
  Qed.

  Lemma resp_line_incl op types r t : In t types -> In t (fst (resp_line op types r)).
  Proof.
    intros H. unfold ResponseSpec.resp_line. destruct (r_schema r) as [ty|]; [|exact H].
    destruct (o_produces op) as [|mt [|mt2 mts]]; [exact H|exact H|].
    pose proof (place_incl types (of_string (o_method op)) (wrapper_name op (r_code r))
                  (sort_by if_name (map (rfield true r ty) (mt :: mt2 :: mts))) t H) as Hp.
    destruct (place _ _ _ _) as [n types']. exact Hp.
  Qed.

  (* ---- what the return line of one response says ---- *)
  Definition carried (op:oop) (r:oresp) (types:list itype) (line:bs) : Prop :=
    match r_schema r with
    | None => line = text_of (r_code r) None
    | Some ty =>
        match o_produces op with
        | [] => line = text_of (r_code r) None
        | [mt] =>
            let f := rfield false r ty mt in
            line = text_of (r_code r) (Some (ityp_name (if_type f))) ++ sub_sep ++ ityp_word (if_type f) ++ media_attr mt
        | mts =>
            exists n, In (IStandard n (sort_by if_name (map (rfield true r ty) mts))) types
                      /\ line = text_of (r_code r) (Some n) ++ sub_sep ++ tname n
                      /\ (n = wrapper_name op (r_code r) \/ n = of_string (o_method op) ++ us ++ wrapper_name op (r_code r))
        end
    end.

  Lemma resp_line_carried op types r : carried op r (fst (resp_line op types r)) (snd (resp_line op types r)).
  Proof.
    unfold carried, ResponseSpec.resp_line. destruct (r_schema r) as [ty|]; [|reflexivity].
    destruct (o_produces op) as [|mt [|mt2 mts]]; [reflexivity|reflexivity|].
    pose proof (place_has types (of_string (o_method op)) (wrapper_name op (r_code r))
                  (sort_by if_name (map (rfield true r ty) (mt :: mt2 :: mts)))) as [Hin Hn].
    destruct (place _ _ _ _) as [n types']. cbn [fst snd] in *. exists n. repeat split; assumption.
  Qed.

  Lemma carried_mono op r types types' line :
    carried op r types line -> (forall t, In t types -> In t types') -> carried op r types' line.
  Proof.
    unfold carried. destruct (r_schema r) as [ty|]; [|auto].
    destruct (o_produces op) as [|mt [|mt2 mts]]; [auto|auto|].
    intros [n [Hin Hrest]] Hm. exists n. split; [apply Hm, Hin|exact Hrest].
  Qed.

  (* ---- one operation ---- *)
  Lemma resp_step_eq op types acc r :
    resp_step op (types, acc) r = (fst (resp_line op types r), acc ++ [snd (resp_line op types r)]).
  Proof. unfold ResponseSpec.resp_step. cbn [fst snd]. destruct (resp_line op types r); reflexivity. Qed.

  Lemma fold_resp_spec op rs : forall types acc,
    (forall t, In t types -> In t (fst (fold_left (resp_step op) rs (types, acc))))
    /\ (forall l, In l acc -> In l (snd (fold_left (resp_step op) rs (types, acc))))
    /\ (forall r, In r rs -> exists line, In line (snd (fold_left (resp_step op) rs (types, acc)))
                                          /\ carried op r (fst (fold_left (resp_step op) rs (types, acc))) line).
  Proof.
    induction rs as [|r0 rs IH]; intros types acc; cbn [fold_left].
    - repeat split; auto. intros r [].
    - rewrite resp_step_eq.
      pose proof (resp_line_carried op types r0) as Hc. pose proof (resp_line_incl op types r0) as Hi.
      set (types1 := fst (resp_line op types r0)) in *. set (line0 := snd (resp_line op types r0)) in *.
      destruct (IH types1 (acc ++ [line0])) as [H1 [H2 H3]]. repeat split.
      + intros t Ht. apply H1, Hi, Ht.
      + intros l Hl. apply H2. apply in_or_app. left. exact Hl.
      + intros r [<-|Hr]; [|apply H3, Hr].
        exists line0. split; [apply H2; apply in_or_app; right; left; reflexivity|].
        eapply carried_mono; [exact Hc|exact H1].
  Qed.

  Lemma op_step_spec st op :
    (forall t, In t (fst st) -> In t (fst (op_step st op)))
    /\ (forall x, In x (snd st) -> In x (snd (op_step st op)))
    /\ (forall r, In r (o_resps op) ->
          exists lines line, In (op_key op, lines) (snd (op_step st op)) /\ In line lines
                             /\ carried op r (fst (op_step st op)) line).
  Proof.
    unfold ResponseSpec.op_step.
    destruct (fold_resp_spec op (o_resps op) (fst st) []) as [H1 [_ H3]].
    destruct (fold_left (resp_step op) (o_resps op) (fst st, [])) as [types' lines]. cbn [fst snd] in *.
    repeat split.
    - exact H1.
    - intros x Hx. apply in_or_app. left. exact Hx.
    - intros r Hr. destruct (H3 r Hr) as [line [Hl Hc]].
      exists (sort_by (fun x => x) (dedup lines)), line. repeat split.
      + apply in_or_app. right. left. reflexivity.
      + apply sort_In, dedup_In, Hl.
      + exact Hc.
  Qed.

  Lemma fold_ops_spec ops : forall st,
    (forall t, In t (fst st) -> In t (fst (fold_left op_step ops st)))
    /\ (forall x, In x (snd st) -> In x (snd (fold_left op_step ops st)))
    /\ (forall op r, In op ops -> In r (o_resps op) ->
          exists lines line, In (op_key op, lines) (snd (fold_left op_step ops st)) /\ In line lines
                             /\ carried op r (fst (fold_left op_step ops st)) line).
  Proof.
    induction ops as [|op0 ops IH]; intros st; cbn [fold_left].
    - repeat split; auto. intros op r [].
    - destruct (op_step_spec st op0) as [S1 [S2 S3]]. destruct (IH (op_step st op0)) as [H1 [H2 H3]]. repeat split.
      + intros t Ht. apply H1, S1, Ht.
      + intros x Hx. apply H2, S2, Hx.
      + intros op r [<-|Hop] Hr; [|apply H3; assumption].
        destruct (S3 r Hr) as [lines [line [Hk [Hl Hc]]]]. exists lines, line. repeat split; [apply H2, Hk|exact Hl|].
        eapply carried_mono; [exact Hc|exact H1].
  Qed.

  (* the order in which the operations are visited: every operation with one of the five methods, once per
     occurrence *)
  Lemma In_order_ops op ops : In op ops -> In (o_method op) method_rank -> In op (order_ops ops).
  Proof.
    intros Hop Hm. unfold order_ops. apply sort_In. unfold by_method. apply in_flat_map.
    exists (o_method op). split; [exact Hm|]. apply filter_In. split; [exact Hop|apply String.eqb_refl].
  Qed.

  (* ---------------- the theorems ---------------- *)
  (* import_complete for responses: every response of every operation has a return line in the endpoint's
     (deduplicated, sorted) list which says what `carried` says, against the final type list *)
  Theorem import_complete_responses doc ops op r :
    In op ops -> In (o_method op) method_rank -> In r (o_resps op) ->
    exists lines line, In (op_key op, lines) (import_returns doc ops) /\ In line lines
                       /\ carried op r (full_types doc ops) line.
  Proof.
    intros Hop Hm Hr. unfold ResponseSpec.import_returns, ResponseSpec.full_types, ResponseSpec.build_ops.
    destruct (fold_ops_spec (order_ops ops) (loaded_types doc, [])) as [_ [_ H3]].
    destruct (H3 op r (In_order_ops op ops Hop Hm) Hr) as [lines [line [Hk [Hl Hc]]]].
    exists lines, line. repeat split; [exact Hk|exact Hl|].
    eapply carried_mono; [exact Hc|]. intros t Ht. apply sort_In. exact Ht.
  Qed.

  (* ... and a generated response type is in the compiled module, a tuple with exactly one field per media type, of
     the response's type (kind / reference, sequence iff the response is an array), never optional *)
  Theorem generated_type_compiled doc ops n fs :
    In (IStandard n fs) (full_types doc ops) ->
    In (unesc (tname n), TTuple (map cfield fs)) (import_full doc ops).
  Proof.
    intros H. unfold ResponseSpec.import_full. apply in_map_iff. exists (IStandard n fs). split; [reflexivity|].
    apply In_write_order. exact H.
  Qed.

  Theorem generated_type_field_per_media r ty mts mt :
    In mt mts ->
    In (cfield (rfield true r ty mt)) (map cfield (sort_by if_name (map (rfield true r ty) mts)))
    /\ snd (cfield (rfield true r ty mt))
       = word unesc native (type_word safe map_type ty) false (r_array r).
  Proof.
    intros Hmt. split.
    - apply in_map. apply sort_In. apply in_map. exact Hmt.
    - unfold ImportSpec.cfield, ResponseSpec.rfield. cbn [if_type if_opt snd]. destruct (r_array r); reflexivity.
  Qed.

  (* the definitions survive the endpoint phase *)
  Theorem definitions_kept doc ops t : In t (loaded_types doc) -> In t (full_types doc ops).
  Proof.
    intros H. unfold ResponseSpec.full_types, ResponseSpec.build_ops. apply sort_In.
    destruct (fold_ops_spec (order_ops ops) (loaded_types doc, [])) as [H1 _]. apply H1. exact H.
  Qed.

  (* without a typed response in several media types the endpoint phase adds nothing: import_full is the import of
     the definitions alone (so C11_import_complete / _sound / _deterministic speak about such documents as a whole) *)
  Definition no_generated (op:oop) : Prop :=
    (List.length (o_produces op) <= 1)%nat \/ forall r, In r (o_resps op) -> r_schema r = None.

  Lemma resp_line_same op types r :
    ((List.length (o_produces op) <= 1)%nat \/ r_schema r = None) -> fst (resp_line op types r) = types.
  Proof.
    intros H. unfold ResponseSpec.resp_line. destruct (r_schema r) as [ty|]; [|reflexivity].
    destruct (o_produces op) as [|mt [|mt2 mts]]; [reflexivity|reflexivity|].
    destruct H as [H|H]; [cbn [List.length] in H; exfalso; inversion H as [|? H']; inversion H'|discriminate].
  Qed.

  Lemma fold_resp_same op rs : forall types acc,
    ((List.length (o_produces op) <= 1)%nat \/ forall r, In r rs -> r_schema r = None) ->
    fst (fold_left (resp_step op) rs (types, acc)) = types.
  Proof.
    induction rs as [|r0 rs IH]; intros types acc H; [reflexivity|]. cbn [fold_left].
    rewrite resp_step_eq.
    assert (Hs: fst (resp_line op types r0) = types).
    { apply resp_line_same. destruct H as [H|H]; [left; exact H|right; apply H; left; reflexivity]. }
    rewrite Hs.
    apply IH. destruct H as [H|H]; [left; exact H|right; intros r Hr; apply H; right; exact Hr].
  Qed.

  Lemma fold_ops_same ops : forall st,
    (forall op, In op ops -> no_generated op) -> fst (fold_left op_step ops st) = fst st.
  Proof.
    induction ops as [|op0 ops IH]; intros st H; [reflexivity|]. cbn [fold_left].
    rewrite IH; [|intros op Hop; apply H; right; exact Hop].
    unfold ResponseSpec.op_step.
    pose proof (fold_resp_same op0 (o_resps op0) (fst st) [] (H op0 (or_introl eq_refl))) as Hs.
    destruct (fold_left (resp_step op0) (o_resps op0) (fst st, [])) as [types' lines]. exact Hs.
  Qed.

  Theorem responses_conservative doc ops :
    (forall op, In op ops -> no_generated op) ->
    import_full doc ops = import_oas2 safe is_builtin tname fname unesc map_type native doc.
  Proof.
    intros H. unfold ResponseSpec.import_full, import_oas2, ResponseSpec.full_types, ResponseSpec.build_ops, convert, ResponseSpec.loaded_types.
    rewrite fold_ops_same; [reflexivity|].
    intros op Hop. apply H. unfold order_ops in Hop. apply sort_In in Hop. unfold by_method in Hop.
    apply in_flat_map in Hop. destruct Hop as [m [_ Hf]]. apply filter_In in Hf. apply Hf.
  Qed.
End ResponseProps.
