(* C11 - proofs about Foreign/ParamNameSpec.v: which parameter names the Go writer turns into a lexer Name, for ALL
   byte strings.
     query_written_bytewise       QueryEscape + the '.' replacement act byte by byte
     query_name_is_a_Name_partial a query parameter name without '~' whose written form starts like a Name is a
                                  Name (blanks never survive convertToSyslSafe); first byte a letter or '_' suffices
     query_name_*_refuted         '~' (kept raw by QueryEscape), a leading digit, and - faithfulness - '-' / ' '
                                  (the name is CHANGED, nothing records the original)
     header_name_is_a_Name_partial  letters, digits, '_', ' ', '-' only and no leading digit: a Name
     header_name_*_refuted        any other byte is written raw
     path_var_*                   a path variable whose name is changed by the escaping of the path loses its type *)
From Coq Require Import String Ascii List NArith Bool Lia.
Import ListNotations.
Require Import Verif.Foreign.NameEscape Verif.Foreign.NameEscapeProps Verif.Foreign.ImportSpec Verif.Foreign.ImportProps
  Verif.Foreign.EndpointSpec Verif.Foreign.ImportRun Verif.Foreign.ParamNameSpec.
Local Open Scope list_scope.

Definition qblk (c:ascii) : bs := replace_char "." dot_escaped (qesc1 c).

Theorem query_written_bytewise s : query_written s = flat_map qblk s.
Proof. unfold query_written, query_escape, replace_char. rewrite flat_map_flat_map. reflexivity. Qed.

Lemma byte_impl (P Q:ascii -> bool) :
  forall_byte (fun x => implb (P x) (Q x)) = true -> forall x, P x = true -> Q x = true.
Proof. intros H x Hx. pose proof (forall_byte_spec _ H x) as E. cbn beta in E. rewrite Hx in E. exact E. Qed.

Definition q_bad (c:ascii) : bool := aeqb c "~" || aeqb c " ".
Lemma qblk_body_all : forall_byte (fun c => Bool.eqb (name_body (qblk c)) (negb (q_bad c))) = true.
Proof. vm_compute. reflexivity. Qed.
Lemma qblk_body c : q_bad c = false -> name_body (qblk c) = true.
Proof.
  intros H. pose proof (forall_byte_spec _ qblk_body_all c) as E. cbn beta in E. rewrite H in E.
  apply eqb_prop in E. exact E.
Qed.

Lemma name_body_flat_map_in (f:ascii -> bs) (s:bs) :
  (forall c, In c s -> name_body (f c) = true) -> name_body (flat_map f s) = true.
Proof.
  induction s as [|a s IH]; intros H; [reflexivity|]. cbn [flat_map].
  rewrite name_body_app; [apply IH; intros c Hc; apply H; right; exact Hc|apply H; left; reflexivity].
Qed.

(* convertToSyslSafe: every byte of the result is a byte of the name that is not a blank, or its upper-case form *)
Lemma to_sysl_safe_go_bytes up s c :
  In c (to_sysl_safe_go up s) -> exists d, In d s /\ aeqb d " " = false /\ (c = d \/ c = upper1 d).
Proof.
  revert up. induction s as [|a s IH]; intros up H; [destruct H|]. cbn [to_sysl_safe_go] in H.
  assert (Hrec: forall up', In c (to_sysl_safe_go up' s) ->
                exists d, In d (a :: s) /\ aeqb d " " = false /\ (c = d \/ c = upper1 d)).
  { intros up' H'. destruct (IH _ H') as [d [Hd [Hb Hc]]]. exists d. split; [right; exact Hd|]. split; assumption. }
  destruct (aeqb a "-"); [apply (Hrec _ H)|]. destruct (aeqb a " ") eqn:Es; [apply (Hrec _ H)|].
  destruct H as [E|H]; [|apply (Hrec _ H)]. exists a. split; [left; reflexivity|]. split; [exact Es|].
  destruct up; [right|left]; symmetry; exact E.
Qed.

Lemma upper1_keeps_class : forall_byte (fun a => Bool.eqb (q_bad (upper1 a)) (q_bad a)) = true.
Proof. vm_compute. reflexivity. Qed.

(* blanks never survive convertToSyslSafe; a '~' survives only if the name has one *)
Lemma to_sysl_safe_q_bad n c : In c (to_sysl_safe n) -> q_bad c = true -> In "~"%char n.
Proof.
  intros H Hbad. destruct (to_sysl_safe_go_bytes _ _ _ H) as [d [Hd [Hb Hc]]].
  assert (Hd_bad: q_bad d = true).
  { destruct Hc as [-> | ->]; [exact Hbad|].
    pose proof (forall_byte_spec _ upper1_keeps_class d) as E. cbn beta in E. apply eqb_prop in E. rewrite <- E. exact Hbad. }
  unfold q_bad in Hd_bad. rewrite Hb, orb_false_r in Hd_bad. apply aeqb_eq in Hd_bad. subst d. exact Hd.
Qed.

(* a query parameter name without '~': the written name is Name material throughout; it is a Name if it starts
   like one *)
Theorem query_name_is_a_Name_partial n :
  ~ In "~"%char n -> start_ok (query_name n) = true -> name_re (query_name n) = true.
Proof.
  intros Hn Hs. apply start_then_name; [|exact Hs]. unfold query_name. rewrite query_written_bytewise.
  apply name_body_flat_map_in. intros c Hc. apply qblk_body.
  destruct (q_bad c) eqn:E; [|reflexivity]. exfalso. apply Hn. apply (to_sysl_safe_q_bad n c Hc E).
Qed.

(* a sufficient condition for the start: the first byte is a letter or '_' *)
Lemma qblk_start_all : forall_byte (fun c => implb (is_name_start c) (bs_eqb (qblk c) [c] && negb (aeqb c pct_char))) = true.
Proof. vm_compute. reflexivity. Qed.
Theorem query_written_start c r : is_name_start c = true -> start_ok (query_written (c :: r)) = true.
Proof.
  intros Hc. rewrite query_written_bytewise. cbn [flat_map].
  pose proof (forall_byte_spec _ qblk_start_all c) as E. cbn beta in E. rewrite Hc in E. cbn [implb] in E.
  apply andb_true_iff in E. destruct E as [Eb Ep]. apply bs_eqb_eq in Eb. rewrite Eb. cbn [app start_ok].
  apply negb_true_iff in Ep. rewrite Ep. exact Hc.
Qed.

(* refuted outside: '~' is written raw, a leading digit stays a leading digit; and the name is not kept *)
Theorem query_name_tilde_refuted : name_re (query_name (of_string "c~d")) = false.
Proof. vm_compute. reflexivity. Qed.
Theorem query_name_leading_digit_refuted : name_re (query_name (of_string "1st")) = false.
Proof. vm_compute. reflexivity. Qed.
Theorem query_name_unfaithful_refuted :
  query_name (of_string "page-size") = of_string "pageSize" /\ query_name (of_string "first name") = of_string "firstname".
Proof. vm_compute. split; reflexivity. Qed.
Example query_name_dot_is_escaped : query_name (of_string "a.b") = of_string "a%2Eb" /\ name_re (query_name (of_string "a.b")) = true.
Proof. vm_compute. split; reflexivity. Qed.

(* ---------------- header parameters ---------------- *)
Definition h_ok (c:ascii) : bool := is_alnum c || aeqb c "_" || aeqb c " " || aeqb c "-".
Definition plain_body (c:ascii) : bool := (is_alnum c || aeqb c "_") && negb (aeqb c pct_char).

Lemma plain_body_name_body s : forallb plain_body s = true -> name_body s = true.
Proof.
  induction s as [|c s IH]; [reflexivity|]. cbn [forallb name_body]. intros H. apply andb_true_iff in H.
  destruct H as [Hc Hs]. unfold plain_body in Hc. apply andb_true_iff in Hc. destruct Hc as [Hc Hp].
  apply negb_true_iff in Hp. rewrite Hp. rewrite (IH Hs), andb_true_r.
  apply (byte_impl (fun x => is_alnum x || aeqb x "_") is_name_body); [vm_compute; reflexivity|exact Hc].
Qed.

Lemma collapse_plain s : forallb h_ok s = true -> forall b, forallb plain_body (lower (collapse b s)) = true.
Proof.
  induction s as [|c s IH]; intros H b; [reflexivity|]. cbn [forallb] in H. apply andb_true_iff in H.
  destruct H as [Hc Hs]. cbn [collapse]. destruct (aeqb c " " || aeqb c "-") eqn:E.
  - destruct b; [apply IH, Hs|]. change (lower ("_"%char :: collapse true s)) with (lower1 "_"%char :: lower (collapse true s)).
    cbn [forallb]. rewrite (IH Hs true). reflexivity.
  - change (lower (c :: collapse false s)) with (lower1 c :: lower (collapse false s)).
    cbn [forallb]. rewrite (IH Hs false), andb_true_r.
    apply orb_false_iff in E. destruct E as [E1 E2]. unfold h_ok in Hc. rewrite E1, E2, !orb_false_r in Hc.
    apply (byte_impl (fun x => is_alnum x || aeqb x "_") (fun x => plain_body (lower1 x))); [vm_compute; reflexivity|exact Hc].
Qed.

Theorem header_name_is_a_Name_partial c r :
  forallb h_ok (c :: r) = true -> is_digit c = false -> name_re (header_field_name (c :: r)) = true.
Proof.
  intros H Hd. apply start_then_name.
  - apply plain_body_name_body. apply collapse_plain. exact H.
  - unfold header_field_name. cbn [collapse]. cbn [forallb] in H. apply andb_true_iff in H. destruct H as [Hc _].
    destruct (aeqb c " " || aeqb c "-") eqn:E; cbn [lower map start_ok]; [reflexivity|].
    apply orb_false_iff in E. destruct E as [E1 E2]. unfold h_ok in Hc. rewrite E1, E2, !orb_false_r in Hc.
    assert (Q: negb (aeqb (lower1 c) pct_char) && is_name_start (lower1 c) = true).
    { apply (byte_impl (fun x => (is_alnum x || aeqb x "_") && negb (is_digit x))
                       (fun x => negb (aeqb (lower1 x) pct_char) && is_name_start (lower1 x))); [vm_compute; reflexivity|].
      rewrite Hc, Hd. reflexivity. }
    apply andb_true_iff in Q. destruct Q as [Qp Qs].
    apply negb_true_iff in Qp. rewrite Qp. exact Qs.
Qed.
Example header_name_hypotheses_met :
  forallb h_ok (of_string "X-Request Id") = true /\ header_field_name (of_string "X-Request Id") = of_string "x_request_id".
Proof. vm_compute. split; reflexivity. Qed.

Theorem header_name_raw_byte_refuted :
  name_re (header_field_name (of_string "a.b")) = false /\ name_re (header_field_name ["h"; """"; "q"]%char) = false
  /\ name_re (header_field_name (of_string "1st")) = false.
Proof. vm_compute. repeat split; reflexivity. Qed.

(* ---------------- path variables ---------------- *)
(* (tests) the type of a path variable is attached by searching the ESCAPED path for the UNESCAPED "{name}" *)
Example path_var_plain_typed : path_var_typed (of_string "/items/{item-id}/x") (of_string "item-id") = true.
Proof. vm_compute. reflexivity. Qed.
Theorem path_var_escaped_name_untyped_refuted :
  path_var_typed (of_string "/items/{a.b}") (of_string "a.b") = false.
Proof. vm_compute. reflexivity. Qed.
