(* C11 - correspondence glue. Name cases: (input bytes, observed getSyslSafeName, observed MustUnescape of it
   (None = panic), observed "the real lexer reads it as one Name-like token"). *)
From Coq Require Import String Ascii List NArith Bool.
Import ListNotations.
Require Import Verif.Foreign.NameEscape Verif.Foreign.Tables Verif.Base.Harness.

Definition name_case := (list N * list N * option (list N))%type.

Definition outcome_eqb (o:outcome bs) (obs:option (list N)) : bool :=
  match o, obs with
  | Ok a, Some b => bs_eqb a (of_codes b)
  | Panic, None => true
  | _, _ => false
  end.

Definition name_ok (c:name_case) : bool :=
  match c with (inp, safe, unesc) =>
    let m := safe_name_cur (of_codes inp) in
    bs_eqb m (of_codes safe) && outcome_eqb (must_unescape m) unesc
  end.

(* unescape cases: arbitrary (also malformed) text through parse.MustUnescape *)
Definition unesc_case := (list N * option (list N))%type.
Definition unesc_ok (c:unesc_case) : bool :=
  match c with (inp, obs) => outcome_eqb (must_unescape (of_codes inp)) obs end.

(* the real lexer on a short text: 0 = not exactly one visible token, 1 = one Name, 2 = one TEXT_LINE
   (an earlier rule of equal length: no claim), 3 = one token of another type (a keyword) *)
Definition lex_case := (list N * N)%type.
Definition is_keyword (s:bs) : bool :=
  existsb (fun k => bs_eqb (lower s) (of_string k)) Verif.Gen.ForeignTables.lexer_keywords_ci
  || existsb (fun k => bs_eqb s (of_string k)) Verif.Gen.ForeignTables.lexer_keywords_cs.
Definition lex_ok (c:lex_case) : bool :=
  match c with (inp, kind) =>
    let s := of_codes inp in
    match kind with
    | 1%N => name_re s
    | 2%N => true
    | _ => negb (name_re s) || is_keyword s
    end
  end.
