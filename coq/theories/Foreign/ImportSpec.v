(* C11 - the Go-writer import path for OpenAPI 2 documents, flat subset (definitions that are objects with
   primitive / $ref / array-of-those properties and a `required` list, arrays, string enums, primitives;
   no inline objects, allOf/oneOf, no remote refs), as executable definitions (no proofs here).

   Transliterated decisions of pkg/importer:
     openapi3_legacy.go  convertSpec        the definitions in the order of their names (utils.OrderedKeys, since 3a34129),
                                            getSyslSafeName, skip what TypeList.Find already resolves (builtin
                                            names first!), loadTypeSchema, types.Sort
                         loadTypeSchema     array / object / default arms; `f.Optional = !Contains(fname, Required)`;
                                            no properties -> string alias; SortProperties
                         buildField         $ref -> name only; array of $ref; typeAliasForSchema for primitives
                         typeNameFromSchemaRef  boolean -> bool; string/integer/number through the type table
     openapi.go          mapOpenAPITypeAndFormatToType   (table = Gen.ForeignTables.oas_type_table)
     types.go            TypeList.Find / Add / Sort, FieldList.SortWithoutDupl
     writer.go / utils.go  writeDefinitions order, writeDefinition (field name, `?`, type word), writeExternalAlias,
                         getSyslTypeName ("_" prefix for names that start like a builtin type, "sequence of ")
   and of the compiler reading that text back (hand model, tied by correspondence): name_str -> MustUnescape,
   a type word is a primitive iff it is one of the lexer's NativeDataTypes (int32/int64 carry a bit width).
   The naming functions are parameters of the Section; `Concrete` instantiates them with Foreign/NameEscape. *)
From Coq Require Import String Ascii List NArith Bool.
Import ListNotations.
Require Import Verif.Foreign.NameEscape.
Local Open Scope list_scope.

(* ---------------- documents ---------------- *)
Inductive ftype := FPrim (ty fmt:string) | FRef (target:bs).
Record oprop := mkp { op_name : bs; op_type : ftype; op_array : bool }.
Inductive obody :=
| OObject (props:list oprop) (required:list bs)
| OArray (elem:ftype)
| OEnum
| OPrim (ty fmt:string).
Definition odef := (bs * obody)%type.
Definition oasdoc := list odef.   (* the definitions map, listed in any order *)

(* ---------------- what the compiled module says ---------------- *)
Record field := mkf { f_kind : string; f_bits : N; f_ref : bs; f_opt : bool; f_seq : bool }.
Inductive tshape := TTuple (fields:list (bs * field)) | TAlias (f:field).
Definition proj := list (bs * tshape).

Fixpoint bmem (x:bs) (l:list bs) : bool := match l with [] => false | y :: r => bs_eqb x y || bmem x r end.

Fixpoint lookup {V} (k:bs) (l:list (bs * V)) : option V :=
  match l with [] => None | (k', v) :: r => if bs_eqb k k' then Some v else lookup k r end.

(* strings.Compare(a, b) <= 0 on bytes *)
Fixpoint bs_leb (a b:bs) : bool :=
  match a, b with
  | [], _ => true
  | _ :: _, [] => false
  | x :: a', y :: b' => if N.ltb (code x) (code y) then true else if N.ltb (code y) (code x) then false else bs_leb a' b'
  end.

(* sort.SliceStable by a key: insertion sort (stable) *)
Section Sort.
  Context {A:Type} (key:A -> bs).
  Fixpoint insert (x:A) (l:list A) : list A :=
    match l with
    | [] => [x]
    | y :: r => if bs_leb (key x) (key y) then x :: l
                else y :: insert x r
    end.
  Fixpoint sort_by (l:list A) : list A := match l with [] => [] | x :: r => insert x (sort_by r) end.
End Sort.

Section Import.
  Variable safe : bs -> bs.            (* getSyslSafeName *)
  Variable is_builtin : bs -> bool.    (* syslutil.IsBuiltIn *)
  Variable tname : bs -> bs.           (* getSyslTypeName of a StandardType with this (safe) name *)
  Variable fname : bs -> bs.           (* the field name writeDefinition writes for a property name *)
  Variable unesc : bs -> bs.           (* parse.MustUnescape *)
  Variable map_type : string -> string -> bs.        (* mapOpenAPITypeAndFormatToType *)
  Variable native : bs -> option (string * N).       (* the compiler: type word -> primitive kind, bit width *)

  (* Go-side values *)
  Inductive ityp := INamed (w:bs) | ISeq (w:bs).   (* nameOnlyType / SyslBuiltIn w ; Array{Items: that} *)
  Record ifield := mkif { if_name : bs; if_type : ityp; if_opt : bool }.
  Inductive itype :=
  | IStandard (n:bs) (fs:list ifield)
  | IArray (n:bs) (items:bs)
  | IEnum (n:bs)
  | IAlias (n tgt:bs)
  | IExt (n:bs).
  Definition itype_name (t:itype) : bs :=
    match t with IStandard n _ | IArray n _ | IEnum n | IAlias n _ | IExt n => n end.

  (* TypeList.Find: builtin names answer first *)
  Definition find (types:list itype) (s:bs) : bool :=
    is_builtin s || existsb (fun t => bs_eqb (itype_name t) s) types.

  Definition bool_word : bs := of_string "bool".
  (* typeNameFromSchemaRef *)
  Definition prim_word (ty fmt:string) : bs := if String.eqb ty "boolean" then bool_word else map_type ty fmt.
  Definition type_word (t:ftype) : bs :=
    match t with FPrim ty fmt => prim_word ty fmt | FRef r => safe r (* existingTypeOrSyslSafeName, 1st branch *) end.

  (* buildField + `f.Optional = !utils.Contains(fname, schema.Required)` *)
  Definition build_field (required:list bs) (p:oprop) : ifield :=
    mkif (op_name p) ((if op_array p then ISeq else INamed) (type_word (op_type p))) (negb (bmem (op_name p) required)).

  (* TypeList.Find by name, among the types loaded so far *)
  Fixpoint find_type (types:list itype) (s:bs) : option itype :=
    match types with [] => None | t :: r => if bs_eqb (itype_name t) s then Some t else find_type r s end.
  Definition external_prefix : bs := of_string "EXTERNAL_".
  (* loadTypeSchema, array arm: items = typeAliasForSchema(schema.Items). For a $ref this looks the target up in the
     types loaded SO FAR: if it is already there the array holds that very type and is written with
     getSyslTypeName of it ("_" prefix of a StandardType, EXTERNAL_ of a string alias); if not, the bare name.
     (A target that is itself an array definition is outside the model.) *)
  Definition array_word (types:list itype) (e:ftype) : bs :=
    match e with
    | FPrim ty fmt => prim_word ty fmt
    | FRef r =>
        let s := safe r in
        if is_builtin s then s else
        match find_type types s with
        | Some (IStandard n _) => tname n
        | Some (IExt n) => external_prefix ++ n
        | _ => s
        end
    end.

  (* loadTypeSchema *)
  Definition load (types:list itype) (n:bs) (b:obody) : itype :=
    match b with
    | OObject props required =>
        match props with
        | [] => IExt n
        | _ => IStandard n (sort_by if_name (map (build_field required) props))
        end
    | OArray e => IArray n (array_word types e)
    | OEnum => IEnum n
    (* default arm: the table is asked directly (NOT typeNameFromSchemaRef: no special case for boolean), the
       result kept only if it is a builtin type name, else `unknown scheme type` -> string alias *)
    | OPrim ty fmt => let w := map_type ty fmt in if is_builtin w then IAlias n w else IExt n
    end.

  (* convertSpec: the loop over the definitions, then types.Sort *)
  Definition convert_step (types:list itype) (d:odef) : list itype :=
    let s := safe (fst d) in if find types s then types else types ++ [load types s (snd d)].
  (* since 3a34129 the definitions are visited in the order of their (foreign) names: utils.OrderedKeys =
     sort.Strings of the map's keys, which are distinct. `doc` may list them in any order. *)
  Definition visit_order (doc:oasdoc) : oasdoc := sort_by (fun d:odef => fst d) doc.
  Definition loaded_list (doc:oasdoc) : list itype := fold_left convert_step (visit_order doc) [].
  Definition convert (doc:oasdoc) : list itype := sort_by itype_name (loaded_list doc).

  (* writeDefinitions: types and enums first, the other aliases afterwards *)
  Definition first_pass (t:itype) : bool := match t with IStandard _ _ | IEnum _ => true | _ => false end.
  Definition write_order (types:list itype) : list itype :=
    filter first_pass types ++ filter (fun t => negb (first_pass t)) types.

  (* the compiler on a type word *)
  Definition empty : bs := [].
  Definition word (w:bs) (opt seq:bool) : field :=
    match native w with
    | Some (k, b) => mkf k b empty opt seq
    | None => mkf "REF" 0 (unesc w) opt seq
    end.
  Definition cfield (f:ifield) : bs * field :=
    (unesc (fname (if_name f)),
     match if_type f with INamed w => word w (if_opt f) false | ISeq w => word w (if_opt f) true end).
  Definition string_word : bs := of_string "string".
  Definition ctype (t:itype) : bs * tshape :=
    match t with
    | IStandard n fs => (unesc (tname n), TTuple (map cfield fs))
    | IArray n items => (unesc n, TAlias (word items false true))
    | IEnum n => (unesc n, TAlias (word string_word false false))
    | IAlias n tgt => (unesc n, TAlias (word tgt false false))
    | IExt n => (unesc (external_prefix ++ n), TAlias (word string_word false false))
    end.

  Definition import_oas2 (doc:oasdoc) : proj := map ctype (write_order (convert doc)).
End Import.

(* ---------------- comparison with an observed projection (keys are unique in a Go map) ---------------- *)
Definition field_eqb (a b:field) : bool :=
  String.eqb (f_kind a) (f_kind b) && N.eqb (f_bits a) (f_bits b) && bs_eqb (f_ref a) (f_ref b)
  && Bool.eqb (f_opt a) (f_opt b) && Bool.eqb (f_seq a) (f_seq b).
Definition assoc_eqb {V} (veqb:V -> V -> bool) (model observed:list (bs * V)) : bool :=
  Nat.eqb (List.length model) (List.length observed)
  && forallb (fun kv => match lookup (fst kv) model with Some v => veqb v (snd kv) | None => false end) observed.
Definition tshape_eqb (a b:tshape) : bool :=
  match a, b with
  | TTuple x, TTuple y => assoc_eqb field_eqb x y
  | TAlias x, TAlias y => field_eqb x y
  | _, _ => false
  end.
Definition proj_eqb (model observed:proj) : bool := assoc_eqb tshape_eqb model observed.
