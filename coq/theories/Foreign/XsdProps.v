(* C11 - proofs about Foreign/XsdSpec.v. The XSD model is a direct specification of the importer's decisions on the
   structures the (unmodelled) XML schema library hands over, so these theorems are thin: they say what the
   decisions amount to for every document, and where they lose something.
     xsd_import_complete   every complex type that is not a bare extension has its tuple; every own element, every
                           element inherited along the base chain and every own attribute has its field
     xsd_import_sound      every field of such a tuple is one of those
     xsd_inherited_attribute_refuted / xsd_optional_array_refuted   the two known findings, as computed witnesses *)
From Coq Require Import String Ascii List NArith Bool Permutation.
Import ListNotations.
Require Import Verif.Foreign.NameEscape Verif.Foreign.ImportSpec Verif.Foreign.ImportProps Verif.Foreign.XsdSpec
  Verif.Foreign.ImportRun.
Local Open Scope list_scope.

Section XsdProps.
  Variable tname : bs -> bs.
  Variable fname : bs -> bs.
  Variable unesc : bs -> bs.
  Variable xprim_word : string -> bs.
  Variable native : bs -> option (string * N).
  Variable is_complex : xsddoc -> bs -> bool.

  Notation import := (import_xsd tname fname unesc xprim_word native is_complex).
  Notation elem_field := (elem_field tname fname unesc xprim_word native is_complex).
  Notation attr_field := (attr_field fname unesc xprim_word native).

  Definition bare_extension (base:option bs) (elems:list xelem) (attrs:list xattr) : bool :=
    match base, elems, attrs with Some _, [], [] => true | _, _, _ => false end.

  Definition fields_of (doc:xsddoc) base elems attrs : list (bs * field) :=
    map (elem_field doc) (all_elems (List.length doc) doc base elems) ++ map attr_field attrs.

  Lemma proj_of_complex doc (n:bs) base elems attrs :
    bare_extension base elems attrs = false ->
    xtype_proj tname fname unesc xprim_word native is_complex doc (n, XComplex base elems attrs)
    = (unesc (tname n), TTuple (fields_of doc base elems attrs)).
  Proof.
    unfold xtype_proj, bare_extension, fields_of. cbn [fst snd].
    destruct base as [b|]; [|reflexivity]. destruct elems; [|reflexivity]. destruct attrs; [discriminate|reflexivity].
  Qed.

  Theorem xsd_import_complete doc (n:bs) base elems attrs :
    NoDup (map fst (import doc)) -> In (n, XComplex base elems attrs) doc ->
    bare_extension base elems attrs = false ->
    NoDup (map fst (fields_of doc base elems attrs)) ->
    lookup (unesc (tname n)) (import doc) = Some (TTuple (fields_of doc base elems attrs))
    /\ (forall e, In e (all_elems (List.length doc) doc base elems) ->
          lookup (fst (elem_field doc e)) (fields_of doc base elems attrs) = Some (snd (elem_field doc e)))
    /\ (forall a, In a attrs ->
          lookup (fst (attr_field a)) (fields_of doc base elems attrs) = Some (snd (attr_field a))).
  Proof.
    intros Hk Hd Hb Hf. split; [|split].
    - apply lookup_In; [exact Hk|]. unfold import_xsd. apply in_map_iff. exists (n, XComplex base elems attrs).
      split; [apply proj_of_complex, Hb|exact Hd].
    - intros e He. apply lookup_In; [exact Hf|]. rewrite <- surjective_pairing. unfold fields_of.
      apply in_or_app. left. apply in_map, He.
    - intros a Ha. apply lookup_In; [exact Hf|]. rewrite <- surjective_pairing. unfold fields_of.
      apply in_or_app. right. apply in_map, Ha.
  Qed.

  (* the own elements are among all_elems, whatever the base chain *)
  Lemma own_in_all fuel doc base own e : In e own -> In e (all_elems fuel doc base own).
  Proof.
    destruct fuel as [|f]; cbn [all_elems]; [auto|]. destruct base as [b|]; [|auto].
    destruct (lookup b doc) as [[b' es ats|p]|]; auto. intros H. apply in_or_app. right. exact H.
  Qed.

  Theorem xsd_import_sound doc base elems attrs fk f :
    bare_extension base elems attrs = false ->
    In (fk, f) (fields_of doc base elems attrs) ->
    (exists e, In e (all_elems (List.length doc) doc base elems) /\ (fk, f) = elem_field doc e)
    \/ (exists a, In a attrs /\ (fk, f) = attr_field a).
  Proof.
    intros _ H. unfold fields_of in H. apply in_app_or in H. destruct H as [H|H]; apply in_map_iff in H;
      destruct H as [x [E Hx]]; [left|right]; exists x; auto.
  Qed.
End XsdProps.

(* ---- the two known findings, computed on the current tables ---- *)
Definition xsd_witness : xsddoc :=
  [(of_string "Base", XComplex None [mkx (of_string "name") (XPrim "string") false false]
                               [mka (of_string "id") "string" true]);
   (of_string "Derived", XComplex (Some (of_string "Base"))
                                  [mkx (of_string "kids") (XRef (of_string "Base")) true true] [])].

(* the attribute `id` of the base type is not a field of the derived type, its element `name` is *)
Example xsd_inherited_attribute_refuted :
  match lookup (of_string "Derived") (import_xsd_c xsd_witness) with
  | Some (TTuple fs) => lookup (of_string "id") fs = None /\ lookup (of_string "name") fs <> None
  | _ => False
  end.
Proof. vm_compute. split; [reflexivity|discriminate]. Qed.

(* an element with minOccurs=0 maxOccurs=unbounded is a sequence that is NOT optional in the compiled model *)
Example xsd_optional_array_refuted :
  match lookup (of_string "Derived") (import_xsd_c xsd_witness) with
  | Some (TTuple fs) => option_map (fun f => (f_opt f, f_seq f)) (lookup (of_string "kids") fs) = Some (false, true)
  | _ => False
  end.
Proof. vm_compute. reflexivity. Qed.
