(* C11 - name escaping of pkg/importer/utils.go, as executable definitions (no proofs here).

   Transliterated Go:
     net/url  shouldEscape(c, encodePathSegment), escape (PathEscape), unescape (PathUnescape)
     strings  TrimSpace (Unicode White_Space, on UTF-8 bytes)
     pkg/importer/utils.go   escapeUnsafeSyslChars, getSyslSafeName, quote
     pkg/importer/writer.go  the three lines of writeDefinition that turn a property name into the
                             field name that is written (builtin names get a "_" suffix)
     pkg/parse/utils.go      MustUnescape
     pkg/grammar/SyslLexer.g4  the token rules  Name  and  DOUBLE_QUOTE_STRING  (hand-written matchers
                             for exactly the regular expressions whose text Gen/ForeignTables.v carries)
   A byte string is a `list ascii` (ascii = all 256 byte values). The replacement table of
   escapeUnsafeSyslChars is a parameter: the current one is Gen.ForeignTables.escape_table. *)
From Coq Require Import String Ascii List NArith Bool.
Import ListNotations.
Local Open Scope char_scope.
Local Open Scope list_scope.

Definition bs := list ascii.

Definition code (c:ascii) : N := N_of_ascii c.
Definition between (lo hi:N) (c:ascii) : bool := (N.leb lo (code c)) && (N.leb (code c) hi).
Definition is_lower := between 97 122.
Definition is_upper := between 65 90.
Definition is_digit := between 48 57.
Definition is_alnum c := is_lower c || is_upper c || is_digit c.
Definition is_hex c := is_digit c || between 65 70 c || between 97 102 c.

Definition aeqb (a b:ascii) : bool := Ascii.eqb a b.
Fixpoint amem (c:ascii) (l:bs) : bool :=
  match l with [] => false | x :: r => aeqb c x || amem c r end.

(* ---- net/url ---- *)
(* shouldEscape(c, encodePathSegment) *)
Definition should_escape_seg (c:ascii) : bool :=
  if is_alnum c then false
  else if amem c ["-"; "_"; "."; "~"] then false
  else if amem c ["$"; "&"; "+"; ","; "/"; ":"; ";"; "="; "?"; "@"] then amem c ["/"; ";"; ","; "?"]
  else true.

Definition upperhex : bs := ["0";"1";"2";"3";"4";"5";"6";"7";"8";"9";"A";"B";"C";"D";"E";"F"].
Definition hex_digit (n:N) : ascii := nth (N.to_nat n) upperhex "0".
Definition pct (c:ascii) : bs := ["%"; hex_digit (N.div (code c) 16); hex_digit (N.modulo (code c) 16)].

(* url.PathEscape *)
Definition esc1 (c:ascii) : bs := if should_escape_seg c then pct c else [c].
Definition path_escape (s:bs) : bs := flat_map esc1 s.

(* unhex *)
Definition unhex (c:ascii) : N :=
  if is_digit c then code c - 48
  else if between 97 102 c then code c - 97 + 10
  else if between 65 70 c then code c - 65 + 10
  else 0.

(* url.PathUnescape: None = EscapeError *)
Definition pct_char : ascii := "%".
Definition dq_char : ascii := """".
Definition bsl_char : ascii := "\".
Fixpoint path_unescape (s:bs) : option bs :=
  match s with
  | [] => Some []
  | c :: r =>
      if aeqb c pct_char then
        match r with
        | h1 :: h2 :: r' =>
            if is_hex h1 && is_hex h2
            then option_map (cons (ascii_of_N (16 * unhex h1 + unhex h2))) (path_unescape r')
            else None
        | _ => None
        end
      else option_map (cons c) (path_unescape r)
  end.

(* ---- strings.TrimSpace on UTF-8 bytes: the encodings of the Unicode White_Space runes ---- *)
Definition B (n:N) : ascii := ascii_of_N n.
Definition space_seqs : list bs :=
  [ [B 9]; [B 10]; [B 11]; [B 12]; [B 13]; [B 32];
    [B 194; B 133]; [B 194; B 160];                       (* U+0085 U+00A0 *)
    [B 225; B 154; B 128];                                 (* U+1680 *)
    [B 226; B 128; B 128]; [B 226; B 128; B 129]; [B 226; B 128; B 130]; [B 226; B 128; B 131];
    [B 226; B 128; B 132]; [B 226; B 128; B 133]; [B 226; B 128; B 134]; [B 226; B 128; B 135];
    [B 226; B 128; B 136]; [B 226; B 128; B 137]; [B 226; B 128; B 138];   (* U+2000..U+200A *)
    [B 226; B 128; B 168]; [B 226; B 128; B 169]; [B 226; B 128; B 175];   (* U+2028 U+2029 U+202F *)
    [B 226; B 129; B 159];                                 (* U+205F *)
    [B 227; B 128; B 128] ].                               (* U+3000 *)

Fixpoint strip_prefix (p s:bs) : option bs :=
  match p, s with
  | [], _ => Some s
  | a :: p', b :: s' => if aeqb a b then strip_prefix p' s' else None
  | _ :: _, [] => None
  end.

Fixpoint strip_any (ps:list bs) (s:bs) : option bs :=
  match ps with
  | [] => None
  | p :: r => match strip_prefix p s with Some t => Some t | None => strip_any r s end
  end.

(* TrimLeftFunc(s, unicode.IsSpace): fuel = length s is always enough (each step removes >= 1 byte) *)
Fixpoint trim_left_fuel (fuel:nat) (s:bs) : bs :=
  match fuel with
  | O => s
  | S f => match strip_any space_seqs s with Some t => trim_left_fuel f t | None => s end
  end.
Definition trim_left (s:bs) : bs := trim_left_fuel (List.length s) s.
(* the trailing side: DecodeLastRune finds exactly the reversed encodings *)
Definition rev_space_seqs : list bs := map (@rev ascii) space_seqs.
Fixpoint trim_left_fuel_with (seqs:list bs) (fuel:nat) (s:bs) : bs :=
  match fuel with
  | O => s
  | S f => match strip_any seqs s with Some t => trim_left_fuel_with seqs f t | None => s end
  end.
Definition trim_right (s:bs) : bs := rev (trim_left_fuel_with rev_space_seqs (List.length s) (rev s)).
Definition trim_space (s:bs) : bs := trim_right (trim_left s).

(* ---- pkg/importer/utils.go ---- *)
Definition table := list (ascii * bs).

(* strings.ReplaceAll(name, string(c), h) for a one-byte key *)
Definition replace_char (c:ascii) (h:bs) (s:bs) : bs := flat_map (fun x => if aeqb x c then h else [x]) s.

(* escapeUnsafeSyslChars: `for realChar, hex := range charsToReplace` visits the map in SOME order;
   `ord` is that order (NameEscapeProps.escape_order_irrelevant: for a well-formed table the result does
   not depend on it). *)
Definition escape_unsafe_ord (ord:table) (s:bs) : bs :=
  fold_left (fun n kv => replace_char (fst kv) (snd kv) n) ord (path_escape s).
Definition escape_unsafe (T:table) (s:bs) : bs := escape_unsafe_ord T s.

(* regexp "^(%[0-9a-fA-F][0-9a-fA-F])*[a-zA-Z_]" .MatchString *)
Definition is_name_start (c:ascii) : bool := is_lower c || is_upper c || aeqb c "_".
Fixpoint start_ok (s:bs) : bool :=
  match s with
  | [] => false
  | c :: r =>
      if aeqb c pct_char then
        match r with
        | h1 :: h2 :: r' => if is_hex h1 && is_hex h2 then start_ok r' else false
        | _ => false
        end
      else is_name_start c
  end.

Definition safe_name (T:table) (s:bs) : bs :=
  let n := escape_unsafe T s in if start_ok n then n else "_" :: n.

(* quote; esc = the escaping applied to the payload (identity in the unrepaired code) *)
Definition quote_with (esc:bs -> bs) (s:bs) : bs :=
  match s with [] => [] | _ => dq_char :: esc s ++ [dq_char] end.

(* quote after fixes/C11-2: strings.NewReplacer(`\`, `\\`, `"`, `\"`).Replace(s) *)
Definition qesc1 (c:ascii) : bs :=
  if aeqb c bsl_char then [bsl_char; bsl_char] else if aeqb c dq_char then [bsl_char; dq_char] else [c].
Definition quote_esc (s:bs) : bs := flat_map qesc1 s.
Definition quote (s:bs) : bs := quote_with quote_esc s.

(* ---- SyslLexer.g4 ---- *)
(* Name : ('%'[0-9a-fA-F][0-9a-fA-F])*[a-zA-Z_]([-a-zA-Z0-9_]|('%'[0-9a-fA-F][0-9a-fA-F]))*  (whole string) *)
Definition is_name_body (c:ascii) : bool := is_name_start c || is_digit c || aeqb c "-".
Fixpoint name_body (s:bs) : bool :=
  match s with
  | [] => true
  | c :: r =>
      if aeqb c pct_char then
        match r with
        | h1 :: h2 :: r' => is_hex h1 && is_hex h2 && name_body r'
        | _ => false
        end
      else is_name_body c && name_body r
  end.
Fixpoint name_re (s:bs) : bool :=
  match s with
  | [] => false
  | c :: r =>
      if aeqb c pct_char then
        match r with
        | h1 :: h2 :: r' => is_hex h1 && is_hex h2 && name_re r'
        | _ => false
        end
      else is_name_start c && name_body r
  end.

(* DOUBLE_QUOTE_STRING: ["] (~["\\] | [\\][\\brntu'"])* ["]   (whole string) *)
Fixpoint dq_body (s:bs) : bool :=
  match s with
  | [] => false
  | c :: r =>
      if aeqb c dq_char then (match r with [] => true | _ => false end)
      else if aeqb c bsl_char then
        match r with
        | e :: r' => amem e ["\"; "b"; "r"; "n"; "t"; "u"; "'"; """"] && dq_body r'
        | [] => false
        end
      else dq_body r
  end.
Definition dq_string_re (s:bs) : bool :=
  match s with c :: r => aeqb c dq_char && dq_body r | [] => false end.

(* ---- pkg/parse/utils.go MustUnescape ---- *)
Inductive outcome (A:Type) := Ok (a:A) | Panic.
Arguments Ok {A} a. Arguments Panic {A}.
Definition must_unescape (s:bs) : outcome bs :=
  match path_unescape s with None => Panic | Some t => Ok (trim_space t) end.

(* strings.ToLower on ASCII letters (bytes >= 0x80 are left alone: only used on escaped names, which are ASCII) *)
Definition lower1 (c:ascii) : ascii := if is_upper c then ascii_of_N (code c + 32) else c.
Definition lower (s:bs) : bs := map lower1 s.

(* conversions used by case files and tables *)
Definition of_codes (l:list N) : bs := map ascii_of_N l.
Definition of_string (s:string) : bs := list_ascii_of_string s.
Definition bs_eqb (x y:bs) : bool :=
  (fix go (x y:bs) := match x, y with [] , [] => true | a :: x', b :: y' => aeqb a b && go x' y' | _, _ => false end) x y.
