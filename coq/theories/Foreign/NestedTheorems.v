(* C11 - the nested import model for the CURRENT source: obligations over Gen/ForeignTables.v (statement shapes of
   buildField, of the array arm and the two loops of the object arm of loadTypeSchema, of getSyslTypeName and of
   TypeList.Add) and the theorems of NestedProps instantiated with the name functions of NameEscape and the
   regenerated tables; computed witnesses. *)
From Coq Require Import String Ascii List NArith Bool Permutation.
Import ListNotations.
Require Import Verif.Gen.ForeignTables Verif.Foreign.NameEscape Verif.Foreign.NameEscapeProps Verif.Foreign.Tables
  Verif.Foreign.ImportSpec Verif.Foreign.ImportProps Verif.Foreign.ImportRun Verif.Foreign.NestedSpec
  Verif.Foreign.NestedProps Verif.Foreign.NestedRun.
Local Open Scope string_scope.
Local Open Scope list_scope.

(* buildField as a whole (NestedSpec.bfield_with): $ref, array of $ref, array of arrays, typeAliasForSchema, the "object" case *)
Lemma build_field_shape_ok : build_field_shape =
  ["isArray := prop.Value.Type.Is(openapi3.TypeArray)";
   "if isArray && prop.Value.Items == nil { prop.Value.Items = openapi3.NewSchemaRef("""", openapi3.NewObjectSchema()) }";
   "f := Field{Name: name}";
   "typeName := o.typeNameFromSchemaRef(prop)";
   "if prop.Ref != """" { f.Type = nameOnlyType(typeName) return f, nil }";
   "defer o.pushName(name)()";
   "if isArray && prop.Value.Items.Ref != """" { f.Type = &Array{Items: nameOnlyType(o.typeNameFromSchemaRef(prop.Value.Items))} return f, nil }";
   "if isArray && typeName != OpenAPI_OBJECT && prop.Value.Items.Value.Type.Is(openapi3.TypeArray) { ns := o.nameStack o.nameStack = nil defer func() { o.nameStack = ns }() t, err := o.loadTypeSchema(strings.Join(ns, ""_""), prop.Value.Items.Value) if err != nil { return Field{}, err } o.types.Add(t) f.Type = &Array{Items: t} return f, nil }";
   "f.Type = o.typeAliasForSchema(prop)";
   "switch typeName { case OpenAPI_OBJECT: if isArray { prop = prop.Value.Items } ns := o.nameStack o.nameStack = nil defer func() { o.nameStack = ns }() t, err := o.loadTypeSchema(strings.Join(ns, ""_""), prop.Value) if err != nil { return Field{}, err } o.types.Add(t) if isArray && prop.Ref == """" { f.Type = &Array{Items: t} } else { f.Type = t } case OpenAPI_STRING: f.SizeSpec = makeSizeSpec(prop.Value.MinLength, prop.Value.MaxLength) f.Attrs = attrsForStrings(prop.Value) }";
   "e := exampleAttr(prop.Value.Example)";
   "if e != """" { f.Attrs = append(f.Attrs, e) }";
   "return f, nil"].
Proof. reflexivity. Qed.

(* loadTypeSchema, array arm (NestedSpec.load, NArr) *)
Lemma load_array_shape_ok : load_array_shape =
  ["if schema.Items == nil { return nil, fmt.Errorf(""array type %s has no items"", name) }";
   "var items Type";
   "innerArray := schema.Items.Ref == """" && schema.Items.Value.Type.Is(openapi3.TypeArray)";
   "if childName := o.typeNameFromSchemaRef(schema.Items); childName == OpenAPI_OBJECT || innerArray { defer o.pushName(""obj"")() if o.isCircular(schema.Items) { return nil, errCircularType(o.nameStack) } if schema.Items.Ref != """" { o.refMap[schema.Items.Ref] = false } defer setDefined(schema.Items.Ref) items, err = o.loadTypeSchema(name+""_obj"", schema.Items.Value) if err != nil { return nil, err } o.types.Add(items) } else { items = o.typeAliasForSchema(schema.Items) }";
   "return &Array{baseType: baseType{name: name, attrs: getAttrs(schema)}, Items: items}, nil"].
Proof. reflexivity. Qed.

(* loadTypeSchema, object arm: the allOf loop (parts_with, merge_fields) and the properties loop (fields_with) *)
Lemma object_loops_shape_ok : object_loops_shape =
  ["for _, subschema := range schema.AllOf { if o.isCircular(subschema) { return nil, errCircularType(o.nameStack) } if subschema.Ref != """" { o.refMap[subschema.Ref] = false } subType, err := o.loadTypeSchema("""", subschema.Value) if err != nil { return nil, err } setDefined(subschema.Ref) if subObj, ok := subType.(*StandardType); ok { if len(obj.Properties) == 0 { obj.Properties = subObj.Properties } else { for _, subProp := range subObj.Properties { idx := slices.IndexFunc(obj.Properties, func(f Field) bool { return f.Name == subProp.Name }) switch { case idx < 0: obj.Properties = append(obj.Properties, subProp) case reflect.DeepEqual(obj.Properties[idx], subProp): default: o.logger.Warnf(""%s contains a duplicate field: '%s', ignoring the second definition"", name, subProp.Name) } } } } }";
   "for fname, prop := range schema.Properties { f, err := o.buildField(fname, prop) if err != nil { return nil, err } f.Optional = !utils.Contains(fname, schema.Required) obj.Properties = append(obj.Properties, f) }"].
Proof. reflexivity. Qed.

(* getSyslTypeName (tword / item_word: a named inner Array goes by its name) *)
Lemma sysl_type_name_shape_ok : sysl_type_name_shape =
  ["if item == nil { return """" }";
   "switch t := item.(type) { case *Array: if inner, ok := t.Items.(*Array); ok && inner.name != """" { return ""sequence of "" + inner.name } return ""sequence of "" + getSyslTypeName(t.Items) case *Enum, *Alias, *Union: return item.Name() case *ImportedBuiltInAlias: return getSyslTypeName(t.Target) }";
   "if isExternalAlias(item) { return ""EXTERNAL_"" + item.Name() }";
   "if !isBuiltInType(item) { lower := strings.ToLower(item.Name()) for _, bi := range syslutil.BuiltInTypes { if strings.HasPrefix(lower, bi) { return ""_"" + item.Name() } } }";
   "return item.Name()"].
Proof. reflexivity. Qed.

(* TypeList.Add / contains (add_type) *)
Lemma type_list_add_shape_ok : type_list_add_shape =
  ["func Add";
   "for _, i := range item { if i.Name() != """" && !t.contains(i) { t.types = append(t.types, i) } }";
   "func contains";
   "for _, existing := range t.types { if existing == item { return true } }";
   "return false"].
Proof. reflexivity. Qed.

(* ---------------- instances ---------------- *)
Definition ndoc_ok_c : ndoc -> Prop := ndoc_ok safe_name_cur is_builtin_c map_type_c.
Definition def_covered_c : list itype -> ndef -> Prop := def_covered safe_name_cur is_builtin_c tname_c map_type_c.
Definition covered_c : list itype -> ityp -> nschema -> Prop := covered safe_name_cur is_builtin_c tname_c map_type_c.
Definition names_of_c : nschema -> list bs -> bs -> list bs := names_of safe_name_cur map_type_c.
Definition nconvert_c : ndoc -> option (list itype) := nconvert safe_name_cur is_builtin_c tname_c map_type_c.
Definition load_c := load safe_name_cur is_builtin_c tname_c map_type_c.

(* every definition of a document whose generated names are distinct is loaded and covered; every type of the final
   list is compiled *)
Theorem nested_import_complete_current : forall doc pr,
  ndoc_ok_c doc -> import_nested_c doc = Some pr ->
  exists L, nconvert_c doc = Some L /\
    (forall t, In t L -> In (ctype tname_c fname_c unesc_c native_c t) pr) /\
    forall d, In d doc -> def_covered_c L d.
Proof. exact (nested_import_complete safe_name_cur is_builtin_c tname_c map_type_c fname_c unesc_c native_c). Qed.

(* exactly the types of names_of are generated, under exactly those names, in that order *)
Theorem nested_generated_names_current : forall s st stack name t st',
  load_c s st stack name = Some (t, st') ->
  itype_name t = name /\ exists ext, st' = st ++ ext /\ map itype_name ext = names_of_c s stack name.
Proof.
  intros s st stack name t st' H.
  destruct (load_ok safe_name_cur is_builtin_c tname_c map_type_c s _ _ _ _ _ H) as [Hn [ext [E [Hnames _]]]].
  split; [exact Hn|]. exists ext. split; [exact E|exact Hnames].
Qed.

Theorem nested_sound_current : forall doc l t,
  ndoc_ok_c doc -> nloaded_list safe_name_cur is_builtin_c tname_c map_type_c doc = Some l -> In t l ->
  exists d, In d doc /\ In (itype_name t) (def_names safe_name_cur map_type_c d).
Proof. exact (nested_sound safe_name_cur is_builtin_c tname_c map_type_c). Qed.

Theorem allof_complete_current : forall allof props req st stack name t st',
  load_c (NObj allof props req) st stack name = Some (t, st') ->
  (forall p, In p allof -> exists stp tp stp', load_c p stp (stack ++ [name]) [] = Some (tp, stp') /\
     forall fs, std_fields tp = Some fs -> forall f, In f fs ->
       exists g, In g (final_fields t) /\ if_name g = if_name f) /\
  (forall np, In np props -> exists g, In g (final_fields t) /\ if_name g = fst np
                                      /\ if_opt g = negb (bmem (fst np) req)).
Proof. exact (allof_complete safe_name_cur is_builtin_c tname_c map_type_c). Qed.

(* ---------------- a concrete document that meets the hypotheses ---------------- *)
Definition s (x:string) : bs := of_string x.
Definition str_t : nschema := NPrim "string" "".
(* Pet: { tag: {kind: enum, deep: {n: int64}}, rows: [[string]], kids: [{name: string}], grid: [[{x: number}]] }
   Matrix: [[integer]]; Row: [string]; Table: [$ref Row]; Dog: allOf [$ref Pet (resolved), {bark: boolean}] + own *)
Definition pet_schema : nschema :=
  NObj [] [(s "tag", NObj [] [(s "kind", NEnumS); (s "deep", NObj [] [(s "n", NPrim "integer" "int64")] [s "n"])] [s "deep"]);
           (s "rows", NArr (NArr str_t));
           (s "kids", NArr (NObj [] [(s "name", str_t)] []));
           (s "grid", NArr (NArr (NObj [] [(s "x", NPrim "number" "")] [])))] [s "tag"].
Definition sample_ndoc : ndoc :=
  [(s "Pet", pet_schema);
   (s "Matrix", NArr (NArr (NPrim "integer" "")));
   (s "Row", NArr str_t);
   (s "Table", NArr (NRef (s "Row")));
   (s "Dog", NObj [pet_schema; NObj [] [(s "bark", NPrim "boolean" "")] [s "bark"]] [(s "owner", NRef (s "Pet"))] [])].

Example sample_ndoc_ok : ndoc_ok_c sample_ndoc.
Proof.
  split.
  - intros d Hd. repeat (destruct Hd as [<-|Hd]; [split; [vm_compute; reflexivity|vm_compute; discriminate]|]). destruct Hd.
  - apply nodupb_NoDup. vm_compute. reflexivity.
Qed.

(* (test) what the sample becomes: the inline objects have their types, the arrays of arrays their named inner
   arrays, the allOf type has the fields of both parts and its own *)
Example sample_ndoc_import :
  match import_nested_c sample_ndoc with
  | Some pr => map fst pr
  | None => []
  end =
  map s ["Dog"; "Dog__grid_obj"; "Dog__kids"; "Dog__tag"; "Dog__tag_deep"; "Pet"; "Pet_grid_obj"; "Pet_kids"; "Pet_tag";
   "Pet_tag_deep"; "Dog__grid"; "Dog__rows"; "Matrix"; "Matrix_obj"; "Pet_grid"; "Pet_rows"; "Row"; "Table"].
Proof. vm_compute. reflexivity. Qed.

Example sample_matrix_keeps_both_levels :
  match import_nested_c sample_ndoc with
  | Some pr => (lookup (s "Matrix") pr, lookup (s "Matrix_obj") pr, lookup (s "Table") pr)
  | None => (None, None, None)
  end =
  (Some (TAlias (mkf "REF" 0 (s "Matrix_obj") false true)), Some (TAlias (mkf "INT" 0 [] false true)),
   Some (TAlias (mkf "REF" 0 (s "Row") false true))).
Proof. vm_compute. reflexivity. Qed.

(* ---------------- refuted outside the hypotheses (both replayed on the real code: known findings) ---------------- *)
(* a definition named like the type the importer generates for an inline object of another definition is skipped:
   `A_b` keeps the fields of A.b (q), its own properties are lost *)
Definition shadow_doc : ndoc :=
  [(s "A", NObj [] [(s "b", NObj [] [(s "q", NPrim "integer" "")] [])] []);
   (s "A_b", NObj [] [(s "other", str_t); (s "more", NPrim "boolean" "")] [])].
Theorem definition_shadowed_by_inline_type_refuted :
  exists doc pr fs, import_nested_c doc = Some pr /\ In (s "A_b", NObj [] [(s "other", str_t); (s "more", NPrim "boolean" "")] []) doc
    /\ lookup (s "A_b") pr = Some (TTuple fs) /\ map fst fs = [s "q"]
    /\ ~ ndoc_ok_c doc.
Proof.
  exists shadow_doc. eexists. eexists. split; [vm_compute; reflexivity|]. split; [right; left; reflexivity|].
  split; [vm_compute; reflexivity|]. split; [vm_compute; reflexivity|].
  intros [_ Hn]. revert Hn. vm_compute. intros Hn.
  repeat match goal with H : NoDup (_ :: _) |- _ => apply NoDup_cons_iff in H; destruct H as [? H] end.
  match goal with H : ~ In _ _ |- _ => apply H; cbn; tauto end.
Qed.

(* an allOf whose own properties declare a property of a part again, differently: the import FAILS *)
Definition redeclared_doc : ndoc :=
  [(s "Base", NObj [] [(s "id", str_t)] [s "id"]);
   (s "Own", NObj [NObj [] [(s "id", str_t)] [s "id"]] [(s "id", str_t); (s "extra", str_t)] [])].
Theorem allof_redeclared_property_refuted :
  exists doc, ndoc_ok_c doc /\ import_nested_c doc = None.
Proof.
  exists redeclared_doc. split; [|vm_compute; reflexivity]. split.
  - intros d Hd. repeat (destruct Hd as [<-|Hd]; [split; [vm_compute; reflexivity|vm_compute; discriminate]|]). destruct Hd.
  - apply nodupb_NoDup. vm_compute. reflexivity.
Qed.
