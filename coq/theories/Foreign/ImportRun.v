(* C11 - the import model instantiated with the name functions of Foreign/NameEscape.v and the tables regenerated
   from the source; correspondence glue for generated OpenAPI 2 documents. *)
From Coq Require Import String Ascii List NArith Bool.
Import ListNotations.
Require Import Verif.Gen.ForeignTables Verif.Foreign.NameEscape Verif.Foreign.Tables Verif.Foreign.ImportSpec.
Local Open Scope list_scope.

(* syslutil.IsBuiltIn: strings.ToLower(name) is one of BuiltInTypes *)
Definition is_builtin_c (s:bs) : bool := existsb (fun k => bs_eqb (lower s) (of_string k)) builtin_types.
(* importer.isSyslKeyword *)
Definition imp_keyword_c (s:bs) : bool :=
  existsb (fun k => bs_eqb (lower s) (of_string k)) importer_keywords_ci
  || existsb (fun k => bs_eqb s (of_string k)) importer_keywords_cs.
(* writeDefinition: name := getSyslSafeName(prop.Name); if IsBuiltIn(name) || isSyslKeyword(name) { name += "_" } *)
Definition fname_c (s:bs) : bs :=
  let n := safe_name_cur s in if is_builtin_c n || imp_keyword_c n then n ++ ["_"%char] else n.
Definition has_prefix (p s:bs) : bool := match strip_prefix p s with Some _ => true | None => false end.
(* getSyslTypeName on a StandardType: "_" prefix when the lower-cased name starts with a builtin type name *)
Definition tname_c (n:bs) : bs :=
  if existsb (fun k => has_prefix (of_string k) (lower n)) builtin_types then "_"%char :: n else n.
Definition unesc_c (s:bs) : bs := match must_unescape s with Ok t => t | Panic => s end.

Fixpoint sassoc {V} (k:string) (l:list (string * V)) : option V :=
  match l with [] => None | (k', v) :: r => if String.eqb k k' then Some v else sassoc k r end.
(* strings.ToLower, on ASCII *)
Fixpoint slower (s:string) : string :=
  match s with EmptyString => EmptyString | String c r => String (lower1 c) (slower r) end.
(* mapOpenAPITypeAndFormatToType on lower-cased inputs: the listed (type, format); an unlisted format falls back to
   the bare type's entry (the recursive call with format ""); an unknown type is handed back as it is. A row
   without a "" entry would make the Go code recurse for ever: type_table_rows_have_bare_entry (ImportTheorems)
   shows that no row of the current table is like that, so the innermost `None` is never reached. *)
Definition map_type_l (ty fmt:string) : string :=
  match sassoc ty oas_type_table with
  | Some fm => match sassoc fmt fm with
               | Some r => r
               | None => match sassoc EmptyString fm with Some r => r | None => ty end
               end
  | None => ty
  end.
Definition map_type_c (ty fmt:string) : bs := of_string (map_type_l (slower ty) (slower fmt)).

(* the compiler: NativeDataTypes of the lexer (any case) and the primitive each one denotes *)
Definition native_table : list (string * (string * N)) :=
  [("int32", ("INT", 32%N)); ("int64", ("INT", 64%N)); ("int", ("INT", 0%N)); ("float32", ("FLOAT", 32%N));
   ("float64", ("FLOAT", 64%N)); ("float", ("FLOAT", 0%N)); ("string", ("STRING", 0%N)); ("date", ("DATE", 0%N));
   ("bool", ("BOOL", 0%N)); ("decimal", ("DECIMAL", 0%N)); ("datetime", ("DATETIME", 0%N)); ("bytes", ("BYTES", 0%N));
   ("any", ("ANY", 0%N))]%string.
Definition native_c (w:bs) : option (string * N) :=
  (fix go (l:list (string * (string * N))) :=
     match l with [] => None | (k, v) :: r => if bs_eqb (lower w) (of_string k) then Some v else go r end) native_table.

Definition import_c : oasdoc -> proj :=
  import_oas2 safe_name_cur is_builtin_c tname_c fname_c unesc_c map_type_c native_c.

Definition oas_case := (oasdoc * proj)%type.
Definition oas_ok (c:oas_case) : bool := proj_eqb (import_c (fst c)) (snd c).

(* printing helpers for the case files *)
Definition b (l:list N) : bs := of_codes l.

(* ---------------- XSD ---------------- *)
Require Import Verif.Foreign.XsdSpec.
(* findType on an XSD builtin with local name p: (1) the mapping literal of loadSchemaTypes, registered under
   "<xs namespace>:<key>" (Gen xsd_type_table; the keys are LOWER-cased constant names, compared exactly);
   (2) TypeList.Find(p) answers Sysl's builtin type names first (any case; the name is kept as written);
   (3) makeXsdBuiltinType: xs:integer / xs:int -> int, every other builtin -> string *)
Definition xprim_word_c (p:string) : bs :=
  match sassoc p xsd_type_table with
  | Some w => of_string w
  | None => if is_builtin_c (of_string p) then of_string p
            else if String.eqb p "integer" || String.eqb p "int" then of_string "int" else of_string "string"
  end%string.
Definition is_complex_c (doc:xsddoc) (n:bs) : bool :=
  match lookup n doc with Some (XComplex _ _ _) => true | _ => false end.
Definition import_xsd_c (doc:xsddoc) : proj :=
  import_xsd tname_c fname_c unesc_c xprim_word_c native_c is_complex_c doc.
Definition xsd_case := (xsddoc * proj)%type.
Definition xsd_ok (c:xsd_case) : bool := proj_eqb (import_xsd_c (fst c)) (snd c).

(* ---------------- endpoints: parameters ---------------- *)
Require Import Verif.Foreign.EndpointSpec.
Definition import_endpoints_c : list oendpoint -> list (bs * epproj) :=
  import_endpoints safe_name_cur unesc_c map_type_c native_c.
Definition ep_case := (list oendpoint * list (bs * epproj))%type.
Definition ep_ok (c:ep_case) : bool := assoc_eqb epproj_eqb (import_endpoints_c (fst c)) (snd c).

(* ---------------- responses and the types generated for them ---------------- *)
Require Import Verif.Foreign.ResponseSpec.
(* utils.go cleanEndpointPath *)
Definition clean_path (s:bs) : bs :=
  map (fun c => if amem c ["/"; "{"; "}"; "-"]%char then "_"%char else c) s.
(* utils.go convertToSyslSafe (on ASCII bytes; without '-' and ' ' it is the identity) *)
Fixpoint to_sysl_safe_go (up:bool) (s:bs) : bs :=
  match s with
  | [] => []
  | c :: r => if aeqb c "-"%char then to_sysl_safe_go true r
              else if aeqb c " "%char then to_sysl_safe_go up r
              else (if up then upper1 c else c) :: to_sysl_safe_go false r
  end.
Definition to_sysl_safe (s:bs) : bs := to_sysl_safe_go false s.
(* strings.ReplaceAll for a non-empty needle *)
Fixpoint replace_all_f (fuel:nat) (k v s:bs) : bs :=
  match fuel with
  | O => s
  | S f =>
      match s with
      | [] => []
      | c :: r => match strip_prefix k s with
                  | Some rest => v ++ replace_all_f f k v rest
                  | None => c :: replace_all_f f k v r
                  end
      end
  end.
Definition replace_all (k v s:bs) : bs := replace_all_f (S (List.length s)) k v s.
(* utils.go getSyslSafeURI: escapeUnsafeSyslChars, then eight escapes are put back (map order: the keys are
   disjoint %XX blocks) *)
Definition keep_list : list (bs * bs) :=
  map (fun kv => (of_string (fst kv), of_string (snd kv)))
      [("%2F", "/"); ("%7B", "{"); ("%7D", "}"); ("%3D", "="); ("%3F", "?"); ("%26", "&"); ("%40", "@"); ("%7E", "~")]%string.
Definition safe_uri_c (s:bs) : bs :=
  fold_left (fun n kv => replace_all (fst kv) (snd kv) n) keep_list (escape_unsafe escape_table s).
(* typePrefix (without the "_" that follows it) *)
Definition resp_prefix_c (path:bs) : bs := safe_uri_c (to_sysl_safe (clean_path path)).

Definition import_full_c : oasdoc -> list oop -> proj :=
  import_full safe_name_cur is_builtin_c tname_c fname_c unesc_c map_type_c native_c resp_prefix_c.
Definition import_returns_c : oasdoc -> list oop -> list (bs * list bs) :=
  import_returns safe_name_cur is_builtin_c tname_c map_type_c resp_prefix_c.
(* a generated OpenAPI 2 document with its operations: types (definitions + generated response types) and the
   return lines of every endpoint *)
Definition full_case := ((oasdoc * list oop) * (proj * list (bs * list bs)))%type.
Definition full_ok (c:full_case) : bool :=
  proj_eqb (import_full_c (fst (fst c)) (snd (fst c))) (fst (snd c))
  && returns_eqb (import_returns_c (fst (fst c)) (snd (fst c))) (snd (snd c)).
