(* C11 - the import model instantiated with the name functions of Foreign/NameEscape.v and the tables regenerated
   from the source; correspondence glue for generated OpenAPI 2 documents. *)
From Coq Require Import String Ascii List NArith Bool.
Import ListNotations.
Require Import Verif.Gen.ForeignTables Verif.Foreign.NameEscape Verif.Foreign.Tables Verif.Foreign.ImportSpec.
Local Open Scope list_scope.

(* syslutil.IsBuiltIn: strings.ToLower(name) is one of BuiltInTypes *)
Definition is_builtin_c (s:bs) : bool := existsb (fun k => bs_eqb (lower s) (of_string k)) builtin_types.
(* importer.isSyslKeyword *)
Definition imp_keyword_c (s:bs) : bool :=
  existsb (fun k => bs_eqb (lower s) (of_string k)) importer_keywords_ci
  || existsb (fun k => bs_eqb s (of_string k)) importer_keywords_cs.
(* writeDefinition: name := getSyslSafeName(prop.Name); if IsBuiltIn(name) || isSyslKeyword(name) { name += "_" } *)
Definition fname_c (s:bs) : bs :=
  let n := safe_name_cur s in if is_builtin_c n || imp_keyword_c n then n ++ ["_"%char] else n.
Definition has_prefix (p s:bs) : bool := match strip_prefix p s with Some _ => true | None => false end.
(* getSyslTypeName on a StandardType: "_" prefix when the lower-cased name starts with a builtin type name *)
Definition tname_c (n:bs) : bs :=
  if existsb (fun k => has_prefix (of_string k) (lower n)) builtin_types then "_"%char :: n else n.
Definition unesc_c (s:bs) : bs := match must_unescape s with Ok t => t | Panic => s end.

Fixpoint sassoc {V} (k:string) (l:list (string * V)) : option V :=
  match l with [] => None | (k', v) :: r => if String.eqb k k' then Some v else sassoc k r end.
(* mapOpenAPITypeAndFormatToType (inputs are lower case in the modelled subset) *)
Definition map_type_c (ty fmt:string) : bs :=
  of_string match sassoc ty oas_type_table with
            | Some fm => match sassoc fmt fm with
                         | Some r => r
                         | None => match sassoc EmptyString fm with Some r => r | None => ty end
                         end
            | None => ty
            end.

(* the compiler: NativeDataTypes of the lexer (any case) and the primitive each one denotes *)
Definition native_table : list (string * (string * N)) :=
  [("int32", ("INT", 32%N)); ("int64", ("INT", 64%N)); ("int", ("INT", 0%N)); ("float32", ("FLOAT", 32%N));
   ("float64", ("FLOAT", 64%N)); ("float", ("FLOAT", 0%N)); ("string", ("STRING", 0%N)); ("date", ("DATE", 0%N));
   ("bool", ("BOOL", 0%N)); ("decimal", ("DECIMAL", 0%N)); ("datetime", ("DATETIME", 0%N)); ("bytes", ("BYTES", 0%N));
   ("any", ("ANY", 0%N))]%string.
Definition native_c (w:bs) : option (string * N) :=
  (fix go (l:list (string * (string * N))) :=
     match l with [] => None | (k, v) :: r => if bs_eqb (lower w) (of_string k) then Some v else go r end) native_table.

Definition import_c : oasdoc -> proj :=
  import_oas2 safe_name_cur is_builtin_c tname_c fname_c unesc_c map_type_c native_c.

Definition oas_case := (oasdoc * proj)%type.
Definition oas_ok (c:oas_case) : bool := proj_eqb (import_c (fst c)) (snd c).

(* printing helpers for the case files *)
Definition b (l:list N) : bs := of_codes l.

(* ---------------- XSD ---------------- *)
Require Import Verif.Foreign.XsdSpec.
(* findType: xs:string/time/NMTOKEN -> string, xs:integer -> int, xs:boolean -> bool, xs:date -> date (the mapping
   literal of loadSchemaTypes); other builtins by makeXsdBuiltinType / checkBuiltInTypes *)
Definition xprim_word_c (p:string) : bs :=
  of_string (if String.eqb p "integer" then "int" else if String.eqb p "boolean" then "bool" else p)%string.
Definition is_complex_c (doc:xsddoc) (n:bs) : bool :=
  match lookup n doc with Some (XComplex _ _ _) => true | _ => false end.
Definition import_xsd_c (doc:xsddoc) : proj :=
  import_xsd tname_c fname_c unesc_c xprim_word_c native_c is_complex_c doc.
Definition xsd_case := (xsddoc * proj)%type.
Definition xsd_ok (c:xsd_case) : bool := proj_eqb (import_xsd_c (fst c)) (snd c).

(* ---------------- endpoints: parameters ---------------- *)
Require Import Verif.Foreign.EndpointSpec.
Definition import_endpoints_c : list oendpoint -> list (bs * epproj) :=
  import_endpoints safe_name_cur unesc_c map_type_c native_c.
Definition ep_case := (list oendpoint * list (bs * epproj))%type.
Definition ep_ok (c:ep_case) : bool := assoc_eqb epproj_eqb (import_endpoints_c (fst c)) (snd c).
