(* C11 - responses of OpenAPI 2 operations (pkg/importer/openapi3_legacy.go buildEndpoint / buildResponses /
   fieldForMediaType, writer.go writeEndpoint) and the types they add to the type list. Definitions only.

   Transliterated, for responses whose schema is absent, a $ref, a primitive, or an array of those, and the same
   for every response media type of the operation (OpenAPI 2 `produces`):
     convertSpec     after the definitions: the paths in sorted order, buildEndpoint; THEN o.types.Sort()
     buildEndpoint   the methods in methodDisplayOrder (GET PUT POST DELETE PATCH); per response buildResponses
     buildResponses  one field per media type (fieldForMediaType: named <type name> ++ [ToCamel(cleanMediaType(media))
                     if there are several]; the type: nameOnly / Array of it); exactly one field: the response IS that
                     type, with the attribute mediatype; several: a StandardType named <prefix of the path>_<status
                     code> with the fields sorted by name (SortProperties); a type of that name already there
                     (another method of the path): shared if its fields are the same, else the new one is named
                     <METHOD>_<name> (fixes/C11-7); TypeList.Add appends
                     text: the status code if it matches `^ok|error|[1-5][0-9][0-9]$`, else `error` if the type's
                     name matches `^Error|error$`, else `ok`
     writeEndpoint   `return <text> <: <type> [attrs]` / `return <text>`; duplicates dropped; sort.Strings
   The prefix of the path (getSyslSafeURI(convertToSyslSafe(cleanEndpointPath(path)))) is a parameter.
   Not modelled: response headers, inline-object responses, examples, descriptions, responses whose media types
   have different schemas. *)
From Coq Require Import String Ascii List NArith Bool.
Import ListNotations.
Require Import Verif.Foreign.NameEscape Verif.Foreign.ImportSpec Verif.Foreign.EndpointSpec.
Local Open Scope list_scope.

Record oresp := mkr { r_code : bs; r_schema : option ftype; r_array : bool }.
(* o_produces: the response media types (operation-level `produces`, else application/json) *)
Record oop := mko { o_path : bs; o_method : string; o_produces : list bs; o_resps : list oresp }.

Definition is_prefix (p s:bs) : bool := match strip_prefix p s with Some _ => true | None => false end.
Fixpoint has_infix (p s:bs) : bool :=
  is_prefix p s || match s with [] => false | _ :: r => has_infix p r end.
Definition is_suffix (p s:bs) : bool := is_prefix (rev p) (rev s).
(* regexp `^ok|error|[1-5][0-9][0-9]$` (alternation binds weakest: starts with ok, or contains error, or ends in
   three digits the first of which is 1-5) *)
Definition supported_code (c:bs) : bool :=
  is_prefix (of_string "ok") c || has_infix (of_string "error") c
  || match rev c with
     | d3 :: d2 :: d1 :: _ => is_digit d3 && is_digit d2 && between 49 53 d1
     | _ => false
     end.
(* regexp `^Error|error$` *)
Definition err_name (n:bs) : bool := is_prefix (of_string "Error") n || is_suffix (of_string "error") n.

Definition ifield_eqb (a b:ifield) : bool :=
  bs_eqb (if_name a) (if_name b) && Bool.eqb (if_opt a) (if_opt b)
  && match if_type a, if_type b with
     | INamed x, INamed y | ISeq x, ISeq y => bs_eqb x y
     | _, _ => false
     end.
Fixpoint ifields_eqb (a b:list ifield) : bool :=
  match a, b with
  | [], [] => true
  | x :: a', y :: b' => ifield_eqb x y && ifields_eqb a' b'
  | _, _ => false
  end.

Definition seq_prefix : bs := of_string "sequence of ".
(* getSyslTypeName / Name() of a field's type *)
Definition ityp_word (t:ityp) : bs := match t with INamed w => w | ISeq w => seq_prefix ++ w end.
Definition ityp_name (t:ityp) : bs := match t with INamed w => w | ISeq _ => [] end.
Definition media_attr (mt:bs) : bs := of_string " [mediatype=""" ++ mt ++ of_string """]".
Definition sub_sep : bs := of_string " <: ".
Definition us : bs := ["_"%char].

Fixpoint dedup (l:list bs) : list bs :=
  match l with [] => [] | x :: r => if bmem x r then dedup r else x :: dedup r end.

Section Responses.
  Variable safe : bs -> bs.
  Variable is_builtin : bs -> bool.
  Variable tname : bs -> bs.
  Variable map_type : string -> string -> bs.
  Variable resp_prefix : bs -> bs.   (* typePrefix without its trailing "_" *)

  Definition text_of (code:bs) (tyname:option bs) : bs :=
    if supported_code code then code
    else match tyname with
         | Some n => if err_name n then of_string "error" else of_string "ok"
         | None => of_string "ok"
         end.

  (* fieldForMediaType + buildField *)
  Definition rfield (multi:bool) (r:oresp) (t:ftype) (mt:bs) : ifield :=
    let tn := type_word safe map_type t in
    mkif (tn ++ (if multi then media_name mt else [])) ((if r_array r then ISeq else INamed) tn) false.

  Definition wrapper_name (op:oop) (code:bs) : bs := resp_prefix (o_path op) ++ us ++ code.

  (* the name under which the generated type ends up, and the type list after TypeList.Add *)
  Definition place (types:list itype) (method n0:bs) (fs:list ifield) : bs * list itype :=
    let renamed := method ++ us ++ n0 in
    if is_builtin n0 then (renamed, types ++ [IStandard renamed fs])
    else match find_type types n0 with
         | None => (n0, types ++ [IStandard n0 fs])
         | Some (IStandard _ fs') =>
             if ifields_eqb fs' fs then (n0, types) else (renamed, types ++ [IStandard renamed fs])
         | Some _ => (renamed, types ++ [IStandard renamed fs])
         end.

  (* buildResponses: the type list and the return line of one response *)
  Definition resp_line (op:oop) (types:list itype) (r:oresp) : list itype * bs :=
    match r_schema r with
    | None => (types, text_of (r_code r) None)
    | Some t =>
        match o_produces op with
        | [] => (types, text_of (r_code r) None)
        | [mt] =>
            let f := rfield false r t mt in
            (types, text_of (r_code r) (Some (ityp_name (if_type f))) ++ sub_sep ++ ityp_word (if_type f) ++ media_attr mt)
        | mts =>
            let fs := sort_by if_name (map (rfield true r t) mts) in
            let (n, types') := place types (of_string (o_method op)) (wrapper_name op (r_code r)) fs in
            (types', text_of (r_code r) (Some n) ++ sub_sep ++ tname n)
        end
    end.

  Definition resp_step (op:oop) (st:list itype * list bs) (r:oresp) : list itype * list bs :=
    let (types', line) := resp_line op (fst st) r in (types', snd st ++ [line]).

  (* one operation: its responses in (map) order; the return lines deduplicated and sorted *)
  Definition op_key (op:oop) : bs := of_string (o_method op) ++ (" "%char :: o_path op).
  Definition op_step (st:list itype * list (bs * list bs)) (op:oop) : list itype * list (bs * list bs) :=
    let (types', lines) := fold_left (resp_step op) (o_resps op) (fst st, []) in
    (types', snd st ++ [(op_key op, sort_by (fun x => x) (dedup lines))]).

  (* convertSpec: sorted paths, then per path the methods in display order *)
  Definition method_rank : list string := ["GET"; "PUT"; "POST"; "DELETE"; "PATCH"]%string.
  Definition by_method (ops:list oop) : list oop :=
    flat_map (fun m => filter (fun op => String.eqb (o_method op) m) ops) method_rank.
  Definition order_ops (ops:list oop) : list oop := sort_by o_path (by_method ops).

  Definition build_ops (types:list itype) (ops:list oop) : list itype * list (bs * list bs) :=
    fold_left op_step (order_ops ops) (types, []).
End Responses.

Section Full.
  Variable safe : bs -> bs.
  Variable is_builtin : bs -> bool.
  Variable tname : bs -> bs.
  Variable fname : bs -> bs.
  Variable unesc : bs -> bs.
  Variable map_type : string -> string -> bs.
  Variable native : bs -> option (string * N).
  Variable resp_prefix : bs -> bs.

  (* convertSpec as a whole: the definitions, the endpoints (which add the generated response types), types.Sort,
     the writer, the compiler *)
  Definition loaded_types (doc:oasdoc) : list itype := loaded_list safe is_builtin tname map_type doc.
  Definition full_types (doc:oasdoc) (ops:list oop) : list itype :=
    sort_by itype_name (fst (build_ops safe is_builtin tname map_type resp_prefix (loaded_types doc) ops)).
  Definition import_full (doc:oasdoc) (ops:list oop) : proj :=
    map (ctype tname fname unesc native) (write_order (full_types doc ops)).
  Definition import_returns (doc:oasdoc) (ops:list oop) : list (bs * list bs) :=
    snd (build_ops safe is_builtin tname map_type resp_prefix (loaded_types doc) ops).
End Full.

(* comparison of the observed return lines: per endpoint, the same lines in the same (sorted) order *)
Fixpoint list_bs_eqb (x y:list bs) : bool :=
  match x, y with
  | [], [] => true
  | a :: x', b :: y' => bs_eqb a b && list_bs_eqb x' y'
  | _, _ => false
  end.
Definition returns_eqb (model observed:list (bs * list bs)) : bool := assoc_eqb list_bs_eqb model observed.
