(* C11 - obligations against the CURRENT source: everything here is `reflexivity` / `vm_compute` over
   Gen/ForeignTables.v, which the translator regenerates from pkg/importer, pkg/utils, pkg/parse/utils.go,
   pkg/syslutil/typeutil.go and SyslLexer.g4 on every run. A change of the replacement table, of the regular
   expressions, or of the statements of the small functions the model transliterates breaks one of them. *)
From Coq Require Import String Ascii List NArith Bool.
Import ListNotations.
Require Import Verif.Gen.ForeignTables Verif.Foreign.NameEscape Verif.Foreign.NameEscapeProps.
Local Open Scope string_scope.
Local Open Scope list_scope.

Lemma unknown_nil : unknown = [].
Proof. reflexivity. Qed.

(* ---- the replacement table, as the model's type ---- *)
Definition conv_entry (kv:string * string) : option (ascii * bs) :=
  match fst kv with String c EmptyString => Some (c, of_string (snd kv)) | _ => None end.
Definition escape_table : table :=
  flat_map (fun kv => match conv_entry kv with Some e => [e] | None => [] end) escape_table_s.

Lemma escape_table_one_byte_keys :
  forallb (fun kv => match conv_entry kv with Some _ => true | None => false end) escape_table_s = true.
Proof. reflexivity. Qed.

(* ---- statement shapes of the transliterated functions ---- *)
Lemma escape_unsafe_shape_ok : escape_unsafe_shape =
  ["charsToReplace := <table>";
   "name = url.PathEscape(name)";
   "for realChar, hex := range charsToReplace { name = strings.ReplaceAll(name, realChar, hex) }";
   "return name"].
Proof. reflexivity. Qed.

Lemma safe_name_regex_ok : safe_name_regex = "^(%[0-9a-fA-F][0-9a-fA-F])*[a-zA-Z_]".
Proof. reflexivity. Qed.

Lemma safe_name_shape_ok : safe_name_shape =
  ["name = escapeUnsafeSyslChars(name)";
   "validSyslNameStart := regexp.MustCompile(<regex>)";
   "if !validSyslNameStart.MatchString(name) { name = ""_"" + name }";
   "return name"].
Proof. reflexivity. Qed.

Lemma must_unescape_shape_ok : must_unescape_shape =
  ["s, err := url.PathUnescape(str)";
   "if err != nil { panic(err) }";
   "return strings.TrimSpace(s)"].
Proof. reflexivity. Qed.

Lemma contains_shape_ok : contains_shape =
  ["func(needle string, haystack []string) bool";
   "for _, x := range haystack { if x == needle { return true } }";
   "return false"].
Proof. reflexivity. Qed.

(* optionality of an OpenAPI property: membership in the WHOLE `required` list *)
Lemma required_rule_ok : required_rule =
  ["for fname, prop := range schema.Properties";
   "f, err := o.buildField(fname, prop)";
   "if err != nil { return nil, err }";
   "f.Optional = !utils.Contains(fname, schema.Required)";
   "obj.Properties = append(obj.Properties, f)"].
Proof. reflexivity. Qed.

Lemma lexer_name_rule_ok : lexer_name_rule =
  "('%'[0-9a-fA-F][0-9a-fA-F])*[a-zA-Z_]([-a-zA-Z0-9_]|('%'[0-9a-fA-F][0-9a-fA-F]))*".
Proof. reflexivity. Qed.

Lemma lexer_dq_rule_ok : lexer_dq_rule = "[""](~[""\\]|[\\][\\brntu'""])*[""]".
Proof. reflexivity. Qed.

(* quote escapes backslash and double quote (fixes/C11-2); the model is NameEscape.quote *)
Lemma quote_shape_ok : quote_shape =
  ["if s == """" { return """" }";
   "return `""` + strings.NewReplacer(`\`, `\\`, `""`, `\""`).Replace(s) + `""`"].
Proof. reflexivity. Qed.

(* the writer decorates builtin names and keywords (fixes/C11-3) and writes the foreign name through quote *)
Lemma field_name_shape_ok : field_name_shape =
  ["name := getSyslSafeName(prop.Name)";
   "if syslutil.IsBuiltIn(name) || isSyslKeyword(name) { name += ""_"" }";
   "if strings.HasPrefix(typeName, ""sequence of "") { name = appendSizeSpec(name, prop.SizeSpec) } else { typeName = appendSizeSpec(typeName, prop.SizeSpec) }";
   "w.writeLines(PushIndent, fmt.Sprintf(""%s <: %s%s"", name, typeName, suffix))";
   "if !w.DisableJSONTags { w.writeLines(PushIndent, fmt.Sprintf(""@json_tag = %s"", quote(prop.Name)), PopIndent) }"].
Proof. reflexivity. Qed.

Lemma is_keyword_shape_ok : is_keyword_shape =
  ["lower := strings.ToLower(name)";
   "for _, k := range syslKeywords { if lower == k { return true } }";
   "for _, v := range httpVerbs { if name == v { return true } }";
   "return false"].
Proof. reflexivity. Qed.

(* every keyword-like token rule of the CURRENT lexer is either a builtin type name (suffixed by the writer
   through syslutil.IsBuiltIn) or in the importer's own keyword list: a keyword added to SyslLexer.g4 breaks this *)
Definition smem (k:string) (l:list string) : bool := existsb (String.eqb k) l.
Lemma keywords_covered :
  forallb (fun k => smem k builtin_types || smem k importer_keywords_ci) lexer_keywords_ci = true /\
  forallb (fun k => smem k importer_keywords_cs) lexer_keywords_cs = true.
Proof. split; reflexivity. Qed.

(* ---- the byte-wise checks the theorems of NameEscapeProps ask of the table ---- *)
Lemma table_decodes : all_blocks_decode escape_table = true.
Proof. vm_compute. reflexivity. Qed.

Lemma table_wf_ok : table_wf escape_table = true.
Proof. vm_compute. reflexivity. Qed.

(* every byte becomes Name material: FALSE for the table before fixes/C11-1 ('=', '@', '~' were left raw) *)
Lemma table_covers : all_blocks_name_body escape_table = true.
Proof. vm_compute. reflexivity. Qed.

(* ---- the theorems for the current source ---- *)
Definition safe_name_cur := safe_name escape_table.

Theorem safe_name_valid_current : forall s, name_re (safe_name_cur s) = true.
Proof. exact (safe_name_valid escape_table table_covers). Qed.

Theorem safe_name_faithful_current : forall s,
  exists p, (p = [] \/ p = ["_"%char]) /\ must_unescape (safe_name_cur s) = Ok (trim_space (p ++ s)).
Proof. exact (safe_name_faithful escape_table table_decodes). Qed.

Theorem safe_name_faithful_plain_current : forall s, plain_ends s = true ->
  must_unescape (safe_name_cur s) = Ok s \/ must_unescape (safe_name_cur s) = Ok ("_"%char :: s).
Proof. exact (safe_name_faithful_plain escape_table table_decodes). Qed.

Theorem escape_order_irrelevant_current : forall ord, Permutation.Permutation ord escape_table ->
  forall s, escape_unsafe_ord ord s = escape_unsafe escape_table s.
Proof. intros ord Hp. exact (escape_order_irrelevant escape_table ord table_wf_ok Hp). Qed.

(* the table as it stood before the repair: '=' is the shortest counterexample *)
Definition table_before_fix : table :=
  map (fun kv => (fst kv, of_string (snd kv)))
      [("$"%char, "%24"); ("&"%char, "%26"); ("+"%char, "%2B"); ("."%char, "%2E"); (":"%char, "%3A")].
Example unrepaired_table_refuted :
  all_blocks_name_body table_before_fix = false /\
  name_re (safe_name table_before_fix (of_string "x=y")) = false /\
  name_re (safe_name table_before_fix (of_string "=")) = false.
Proof. vm_compute. repeat split; reflexivity. Qed.

(* non-vacuity: names that need every mechanism *)
Example safe_name_ex1 : safe_name_cur (of_string "a.b c") = of_string "a%2Eb%20c".
Proof. vm_compute. reflexivity. Qed.
Example safe_name_ex2 : safe_name_cur (of_string "1st") = of_string "_1st".
Proof. vm_compute. reflexivity. Qed.
Example plain_ends_ex : plain_ends (of_string "x=y z") = true.
Proof. reflexivity. Qed.
