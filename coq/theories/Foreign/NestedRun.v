(* C11 - the nested import model instantiated with the name functions and tables of the current source;
   correspondence glue for generated OpenAPI 2 documents with nested schemas. *)
From Coq Require Import String Ascii List NArith Bool.
Import ListNotations.
Require Import Verif.Gen.ForeignTables Verif.Foreign.NameEscape Verif.Foreign.Tables Verif.Foreign.ImportSpec
  Verif.Foreign.ImportRun Verif.Foreign.NestedSpec.
Local Open Scope list_scope.

Definition import_nested_c (doc:ndoc) : option proj :=
  import_nested safe_name_cur is_builtin_c tname_c map_type_c fname_c unesc_c native_c doc.

(* The compiled module is a map: a type that the importer writes twice (two allOf parts that resolve to one schema
   each generate the types of its inline members under the same name) is there once. Identical repetitions are
   dropped from the model's list before the comparison; different types under one name stay (and mismatch). *)
Fixpoint drop_repeated (seen l:proj) : proj :=
  match l with
  | [] => []
  | e :: r =>
      if existsb (fun e' => bs_eqb (fst e') (fst e) && tshape_eqb (snd e') (snd e)) seen
      then drop_repeated seen r else e :: drop_repeated (e :: seen) r
  end.

(* a document, and the projection of the compiled module - None: the importer returned an error *)
Definition nested_case := (ndoc * option proj)%type.
Definition nested_ok (c:nested_case) : bool :=
  match import_nested_c (fst c), snd c with
  | Some m, Some o => proj_eqb (drop_repeated [] m) o
  | None, None => true
  | _, _ => false
  end.
