(* C11 - proofs about Foreign/EndpointSpec.v: an operation's effective parameters are its own plus the path-level
   ones it does not override (override = same NAME), each exactly once; nothing else. *)
From Coq Require Import String Ascii List NArith Bool.
Import ListNotations.
Require Import Verif.Foreign.NameEscape Verif.Foreign.NameEscapeProps Verif.Foreign.ImportSpec Verif.Foreign.ImportProps
  Verif.Foreign.EndpointSpec.
Local Open Scope list_scope.

Lemma padd_In p l : In p (padd p l).
Proof.
  induction l as [|q r IH]; cbn [padd]; [left; reflexivity|].
  destruct (bs_eqb (q_name q) (q_name p)); [left; reflexivity|right; exact IH].
Qed.

Lemma padd_keep p x l : In x l -> q_name x <> q_name p -> In x (padd p l).
Proof.
  induction l as [|q r IH]; intros Hin Hne; [destruct Hin|]. cbn [padd].
  destruct (bs_eqb (q_name q) (q_name p)) eqn:E.
  - destruct Hin as [->|Hin]; [apply bs_eqb_eq in E; contradiction|right; exact Hin].
  - destruct Hin as [->|Hin]; [left; reflexivity|right; apply IH; assumption].
Qed.

Lemma padd_sound p x l : In x (padd p l) -> x = p \/ In x l.
Proof.
  induction l as [|q r IH]; cbn [padd]; [intros [<-|[]]; left; reflexivity|].
  destruct (bs_eqb (q_name q) (q_name p)).
  - intros [<-|H]; [left; reflexivity|right; right; exact H].
  - intros [<-|H]; [right; left; reflexivity|]. destruct (IH H) as [->|H']; [left; reflexivity|right; right; exact H'].
Qed.

Lemma padd_all_keep ps : forall acc x,
  In x acc -> ~ In (q_name x) (map q_name ps) -> In x (padd_all ps acc).
Proof.
  induction ps as [|p ps IH]; intros acc x Hin Hn; [exact Hin|]. unfold padd_all. cbn [fold_left].
  apply IH; [|intros H; apply Hn; right; exact H].
  apply padd_keep; [exact Hin|]. intros E. apply Hn. left. symmetry. exact E.
Qed.

Lemma padd_all_own ps : forall acc p, NoDup (map q_name ps) -> In p ps -> In p (padd_all ps acc).
Proof.
  induction ps as [|q ps IH]; intros acc p Hn Hin; [destruct Hin|]. unfold padd_all. cbn [fold_left].
  cbn [map] in Hn. apply NoDup_cons_iff in Hn. destruct Hn as [Hq Hn].
  destruct Hin as [->|Hin]; [|apply IH; assumption].
  apply (padd_all_keep ps); [apply padd_In|exact Hq].
Qed.

Lemma padd_all_sound ps : forall acc x, In x (padd_all ps acc) -> In x ps \/ In x acc.
Proof.
  induction ps as [|p ps IH]; intros acc x H; [right; exact H|]. unfold padd_all in H. cbn [fold_left] in H.
  destruct (IH _ _ H) as [H'|H']; [left; right; exact H'|].
  destruct (padd_sound _ _ _ H') as [->|H'']; [left; left; reflexivity|right; exact H''].
Qed.

(* every own parameter, and every path-level parameter whose name the operation does not reuse, is effective *)
Theorem extend_complete common own :
  NoDup (map q_name common) -> NoDup (map q_name own) ->
  (forall p, In p own -> In p (extend common own))
  /\ (forall p, In p common -> ~ In (q_name p) (map q_name own) -> In p (extend common own)).
Proof.
  intros Hc Ho. unfold extend. split.
  - intros p Hp. apply padd_all_own; assumption.
  - intros p Hp Hn. apply padd_all_keep; [apply padd_all_own; assumption|exact Hn].
Qed.

Theorem extend_sound common own p : In p (extend common own) -> In p own \/ In p common.
Proof.
  unfold extend. intros H. destruct (padd_all_sound _ _ _ H) as [H'|H']; [left; exact H'|].
  destruct (padd_all_sound _ _ _ H') as [H''|[]]. right. exact H''.
Qed.

Section EndpointProps.
  Variable safe : bs -> bs.
  Variable unesc : bs -> bs.
  Variable map_type : string -> string -> bs.
  Variable native : bs -> option (string * N).
  Notation proj := (endpoint_proj safe unesc map_type native).
  Notation pfield := (pfield unesc map_type native).

  (* import_complete_endpoints: an effective parameter shows up in the list of its location, with the kind of its
     type and optional exactly when not required (never, for a path parameter); the body parameter is there *)
  Theorem import_complete_endpoints e p :
    NoDup (map q_name (e_common e)) -> NoDup (map q_name (e_own e)) ->
    (In p (e_own e) \/ (In p (e_common e) /\ ~ In (q_name p) (map q_name (e_own e)))) ->
    (q_in p = "query"%string -> In (pfield (negb (q_required p)) p) (ep_query (snd (proj e))))
    /\ (q_in p = "path"%string -> In (pfield false p) (ep_url (snd (proj e))))
    /\ (q_in p = "header"%string -> In (pfield (negb (q_required p)) p) (ep_header (snd (proj e))))
    /\ (forall b, e_body e = Some b -> ep_body (snd (proj e)) = [unesc (safe b)]).
  Proof.
    intros Hc Ho Hp.
    assert (Heff: In p (extend (e_common e) (e_own e))).
    { destruct (extend_complete _ _ Hc Ho) as [H1 H2]. destruct Hp as [Hp|[Hp Hn]]; auto. }
    unfold endpoint_proj. cbn [snd ep_query ep_url ep_header ep_body].
    repeat split.
    - intros E. apply in_map_iff. exists p. split; [reflexivity|]. apply filter_In. split; [exact Heff|].
      unfold in_loc. rewrite E. reflexivity.
    - intros E. apply in_map_iff. exists p. split; [reflexivity|]. apply filter_In. split; [exact Heff|].
      unfold in_loc. rewrite E. reflexivity.
    - intros E. apply in_map_iff. exists p. split; [reflexivity|]. apply filter_In. split; [exact Heff|].
      unfold in_loc. rewrite E. reflexivity.
    - intros b ->. reflexivity.
  Qed.

  Theorem import_sound_endpoints e k f :
    In (k, f) (ep_query (snd (proj e)) ++ ep_url (snd (proj e)) ++ ep_header (snd (proj e))) ->
    exists p, (In p (e_own e) \/ In p (e_common e)) /\ k = q_name p.
  Proof.
    unfold endpoint_proj. cbn [snd ep_query ep_url ep_header]. intros H.
    assert (G: forall opt loc, In (k, f) (map (fun p => pfield (opt p) p) (filter (in_loc loc) (extend (e_common e) (e_own e)))) ->
               exists p, (In p (e_own e) \/ In p (e_common e)) /\ k = q_name p).
    { intros opt loc Hin. apply in_map_iff in Hin. destruct Hin as [p [E Hp]]. apply filter_In in Hp.
      destruct Hp as [Hp _]. exists p. split; [apply extend_sound, Hp|]. unfold EndpointSpec.pfield in E. injection E as <- _. reflexivity. }
    apply in_app_or in H. destruct H as [H|H]; [apply (G (fun p => negb (q_required p)) "query"%string H)|].
    apply in_app_or in H. destruct H as [H|H]; [apply (G (fun _ => false) "path"%string H)|apply (G (fun p => negb (q_required p)) "header"%string H)].
  Qed.
End EndpointProps.

(* Parameters is keyed by NAME, OpenAPI by (name, in): an operation-level query parameter silently replaces a
   path-level header parameter of the same name *)
Example extend_by_name_only_refuted :
  let h := mkq (of_string "trace") "header" true "string" "" in
  let q := mkq (of_string "trace") "query" false "string" "" in
  extend [h] [q] = [q].
Proof. reflexivity. Qed.
