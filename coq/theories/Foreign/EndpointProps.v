(* C11 - proofs about Foreign/EndpointSpec.v: an operation's effective parameters are its own plus the path-level
   ones it does not override (override = same NAME), each exactly once, and one body parameter per request media
   type; nothing else. *)
From Coq Require Import String Ascii List NArith Bool Permutation.
Import ListNotations.
Require Import Verif.Foreign.NameEscape Verif.Foreign.NameEscapeProps Verif.Foreign.ImportSpec Verif.Foreign.ImportProps
  Verif.Foreign.EndpointSpec.
Local Open Scope list_scope.

Section PaddProps.
  Context {A:Type} (key:A -> bs).
  Notation padd := (padd key).
  Notation padd_all := (padd_all key).

  Lemma padd_In p l : In p (padd p l).
  Proof.
    induction l as [|q r IH]; cbn [EndpointSpec.padd]; [left; reflexivity|].
    destruct (bs_eqb (key q) (key p)); [left; reflexivity|right; exact IH].
  Qed.

  Lemma padd_keep p x l : In x l -> key x <> key p -> In x (padd p l).
  Proof.
    induction l as [|q r IH]; intros Hin Hne; [destruct Hin|]. cbn [EndpointSpec.padd].
    destruct (bs_eqb (key q) (key p)) eqn:E.
    - destruct Hin as [->|Hin]; [apply bs_eqb_eq in E; contradiction|right; exact Hin].
    - destruct Hin as [->|Hin]; [left; reflexivity|right; apply IH; assumption].
  Qed.

  Lemma padd_sound p x l : In x (padd p l) -> x = p \/ In x l.
  Proof.
    induction l as [|q r IH]; cbn [EndpointSpec.padd]; [intros [<-|[]]; left; reflexivity|].
    destruct (bs_eqb (key q) (key p)).
    - intros [<-|H]; [left; reflexivity|right; right; exact H].
    - intros [<-|H]; [right; left; reflexivity|]. destruct (IH H) as [->|H']; [left; reflexivity|right; right; exact H'].
  Qed.

  Lemma padd_all_keep ps : forall acc x,
    In x acc -> ~ In (key x) (map key ps) -> In x (padd_all ps acc).
  Proof.
    induction ps as [|p ps IH]; intros acc x Hin Hn; [exact Hin|]. unfold EndpointSpec.padd_all. cbn [fold_left].
    apply IH; [|intros H; apply Hn; right; exact H].
    apply padd_keep; [exact Hin|]. intros E. apply Hn. left. symmetry. exact E.
  Qed.

  Lemma padd_all_own ps : forall acc p, NoDup (map key ps) -> In p ps -> In p (padd_all ps acc).
  Proof.
    induction ps as [|q ps IH]; intros acc p Hn Hin; [destruct Hin|]. unfold EndpointSpec.padd_all. cbn [fold_left].
    cbn [map] in Hn. apply NoDup_cons_iff in Hn. destruct Hn as [Hq Hn].
    destruct Hin as [->|Hin]; [|apply IH; assumption].
    apply (padd_all_keep ps); [apply padd_In|exact Hq].
  Qed.

  Lemma padd_all_sound ps : forall acc x, In x (padd_all ps acc) -> In x ps \/ In x acc.
  Proof.
    induction ps as [|p ps IH]; intros acc x H; [right; exact H|]. unfold EndpointSpec.padd_all in H. cbn [fold_left] in H.
    destruct (IH _ _ H) as [H'|H']; [left; right; exact H'|].
    destruct (padd_sound _ _ _ H') as [->|H'']; [left; left; reflexivity|right; exact H''].
  Qed.
End PaddProps.

Section PaddAppend.
  Context {A:Type} (key:A -> bs).
  (* an entry whose name is new is appended *)
  Lemma padd_fresh p l : ~ In (key p) (map key l) -> padd key p l = l ++ [p].
  Proof.
    induction l as [|q r IH]; intros Hn; [reflexivity|]. cbn [EndpointSpec.padd].
    destruct (bs_eqb (key q) (key p)) eqn:E.
    - apply bs_eqb_eq in E. exfalso. apply Hn. left. exact E.
    - cbn [app]. f_equal. apply IH. intros H. apply Hn. right. exact H.
  Qed.
  Lemma padd_all_fresh ps : forall acc,
    NoDup (map key ps) -> (forall p, In p ps -> ~ In (key p) (map key acc)) -> padd_all key ps acc = acc ++ ps.
  Proof.
    induction ps as [|p ps IH]; intros acc Hn Hd; [symmetry; apply app_nil_r|].
    unfold EndpointSpec.padd_all. cbn [fold_left]. cbn [map] in Hn. apply NoDup_cons_iff in Hn. destruct Hn as [Hp Hn].
    rewrite padd_fresh; [|apply Hd; left; reflexivity].
    change (fold_left (fun a p0 => padd key p0 a) ps (acc ++ [p])) with (padd_all key ps (acc ++ [p])).
    rewrite IH; [rewrite <- app_assoc; reflexivity|exact Hn|].
    intros q Hq Hin. rewrite map_app in Hin. apply in_app_or in Hin. destruct Hin as [Hin|Hin].
    - exact (Hd q (or_intror Hq) Hin).
    - cbn [map] in Hin. destruct Hin as [E|[]]. apply Hp. rewrite E. apply in_map, Hq.
  Qed.
End PaddAppend.

(* every own parameter, and every path-level parameter whose name the operation does not reuse, is effective *)
Theorem extend_complete common own :
  NoDup (map q_name common) -> NoDup (map q_name own) ->
  (forall p, In p own -> In p (extend common own))
  /\ (forall p, In p common -> ~ In (q_name p) (map q_name own) -> In p (extend common own)).
Proof.
  intros Hc Ho. unfold extend. split.
  - intros p Hp. apply padd_all_own; assumption.
  - intros p Hp Hn. apply padd_all_keep; [apply padd_all_own; assumption|exact Hn].
Qed.

Theorem extend_sound common own p : In p (extend common own) -> In p own \/ In p common.
Proof.
  unfold extend. intros H. destruct (padd_all_sound _ _ _ _ H) as [H'|H']; [left; exact H'|].
  destruct (padd_all_sound _ _ _ _ H') as [H''|[]]. right. exact H''.
Qed.

Lemma In_prims p l : In p (prims l) <-> In (EPrim p) l.
Proof.
  unfold prims. rewrite in_flat_map. split.
  - intros [x [Hx Hp]]. destruct x as [q|n r m]; [destruct Hp as [->|[]]; exact Hx|destruct Hp].
  - intros H. exists (EPrim p). split; [exact H|left; reflexivity].
Qed.

Lemma In_bodies unesc r' m l : In (r', m) (bodies unesc l) <-> exists n r, In (EBody n r m) l /\ r' = unesc r.
Proof.
  unfold bodies. rewrite in_flat_map. split.
  - intros [x [Hx Hp]]. destruct x as [q|n r m0]; [destruct Hp|]. destruct Hp as [E|[]]. injection E as <- <-.
    exists n, r. split; [exact Hx|reflexivity].
  - intros [n [r [H ->]]]. exists (EBody n r m). split; [exact H|left; reflexivity].
Qed.

Section EndpointProps.
  Variable safe : bs -> bs.
  Variable unesc : bs -> bs.
  Variable map_type : string -> string -> bs.
  Variable native : bs -> option (string * N).
  Notation proj := (endpoint_proj safe unesc map_type native).
  Notation pfield := (pfield unesc map_type native).
  Notation body_entries := (body_entries safe).
  Notation all_params := (all_params safe).

  Lemma body_entries_spec e x :
    In x (body_entries e) ->
    exists b mt n, e_body e = Some b /\ In mt (e_consumes e) /\ x = EBody n (safe b) mt.
  Proof.
    unfold EndpointSpec.body_entries. destruct (e_body e) as [b|]; [|intros []]. intros H.
    apply in_map_iff in H. destruct H as [mt [<- Hmt]]. exists b, mt. eexists. repeat split. exact Hmt.
  Qed.

  (* import_complete_endpoints: an effective parameter whose name no body parameter takes shows up in the list of
     its location, with the kind of its type and optional exactly when not required (never, for a path parameter) *)
  Theorem import_complete_endpoints e p :
    NoDup (map q_name (e_common e)) -> NoDup (map q_name (e_own e)) ->
    (In p (e_own e) \/ (In p (e_common e) /\ ~ In (q_name p) (map q_name (e_own e)))) ->
    ~ In (q_name p) (map ekey (body_entries e)) ->
    (q_in p = "query"%string -> In (pfield (negb (q_required p)) p) (ep_query (snd (proj e))))
    /\ (q_in p = "path"%string -> In (pfield false p) (ep_url (snd (proj e))))
    /\ (q_in p = "header"%string -> In (pfield (negb (q_required p)) p) (ep_header (snd (proj e)))).
  Proof.
    intros Hc Ho Hp Hb.
    assert (Heff: In p (prims (all_params e))).
    { apply In_prims. unfold EndpointSpec.all_params. apply padd_all_keep; [|exact Hb].
      apply in_map. destruct (extend_complete _ _ Hc Ho) as [H1 H2]. destruct Hp as [Hp|[Hp Hn]]; auto. }
    unfold endpoint_proj. cbn [snd ep_query ep_url ep_header ep_body].
    repeat split.
    - intros E. apply in_map_iff. exists p. split; [reflexivity|]. apply filter_In. split; [exact Heff|].
      unfold in_loc. rewrite E. reflexivity.
    - intros E. apply in_map_iff. exists p. split; [reflexivity|]. apply filter_In. split; [exact Heff|].
      unfold in_loc. rewrite E. reflexivity.
    - intros E. apply in_map_iff. exists p. split; [reflexivity|]. apply filter_In. split; [exact Heff|].
      unfold in_loc. rewrite E. reflexivity.
  Qed.

  (* every request media type has its body parameter, of the body's type, provided the names buildRequests gives
     them are distinct *)
  Theorem import_complete_bodies e b mt :
    e_body e = Some b -> NoDup (map ekey (body_entries e)) -> In mt (e_consumes e) ->
    In (unesc (safe b), mt) (ep_body (snd (proj e))).
  Proof.
    intros Hb Hn Hmt. unfold endpoint_proj. cbn [snd ep_body]. apply In_bodies.
    set (multi := Nat.ltb 1 (List.length (e_consumes e))).
    exists (safe b ++ (if multi then media_name mt else []) ++ request_suffix), (safe b). split; [|reflexivity].
    unfold EndpointSpec.all_params. apply padd_all_own; [exact Hn|].
    unfold EndpointSpec.body_entries. rewrite Hb. apply in_map_iff. exists mt. split; [reflexivity|exact Hmt].
  Qed.

  (* a single media type: the name carries no media part, nothing to be distinct from *)
  Corollary import_complete_single_body e b mt :
    e_body e = Some b -> e_consumes e = [mt] -> ep_body (snd (proj e)) <> [] /\ In (unesc (safe b), mt) (ep_body (snd (proj e))).
  Proof.
    intros Hb Hc.
    assert (H: In (unesc (safe b), mt) (ep_body (snd (proj e)))).
    { apply import_complete_bodies; [exact Hb| |rewrite Hc; left; reflexivity].
      unfold EndpointSpec.body_entries. rewrite Hb, Hc. cbn [map]. constructor; [intros []|constructor]. }
    split; [|exact H]. intros E. rewrite E in H. destruct H.
  Qed.

  Theorem import_sound_endpoints e k f :
    In (k, f) (ep_query (snd (proj e)) ++ ep_url (snd (proj e)) ++ ep_header (snd (proj e))) ->
    exists p, (In p (e_own e) \/ In p (e_common e)) /\ k = q_name p.
  Proof.
    unfold endpoint_proj. cbn [snd ep_query ep_url ep_header]. intros H.
    assert (G: forall opt loc, In (k, f) (map (fun p => pfield (opt p) p) (filter (in_loc loc) (prims (all_params e)))) ->
               exists p, (In p (e_own e) \/ In p (e_common e)) /\ k = q_name p).
    { intros opt loc Hin. apply in_map_iff in Hin. destruct Hin as [p [E Hp]]. apply filter_In in Hp.
      destruct Hp as [Hp _]. exists p. split.
      - apply In_prims in Hp. unfold EndpointSpec.all_params in Hp.
        destruct (padd_all_sound _ _ _ _ Hp) as [Hb|Hx].
        + destruct (body_entries_spec _ _ Hb) as [b [mt [n [_ [_ Ex]]]]]. discriminate Ex.
        + apply in_map_iff in Hx. destruct Hx as [q [Eq Hq]]. injection Eq as ->. apply extend_sound, Hq.
      - unfold EndpointSpec.pfield in E. injection E as <- _. reflexivity. }
    apply in_app_or in H. destruct H as [H|H]; [apply (G (fun p => negb (q_required p)) "query"%string H)|].
    apply in_app_or in H. destruct H as [H|H]; [apply (G (fun _ => false) "path"%string H)|apply (G (fun p => negb (q_required p)) "header"%string H)].
  Qed.

  (* DETERMINISM of the request line: Go ranges over the content map of the request body in any order; the body
     parameters are written sorted by name, so the text is the same for every order - provided their names are
     distinct and no other parameter has one of them (body_media_name_collision_refuted otherwise) *)
  Lemma filter_body_prims l : filter is_body (map EPrim l) = [].
  Proof. induction l as [|p l IH]; [reflexivity|exact IH]. Qed.
  Lemma filter_body_entries e : filter is_body (body_entries e) = body_entries e.
  Proof.
    unfold EndpointSpec.body_entries. destruct (e_body e) as [b|]; [|reflexivity].
    generalize (Nat.ltb 1 (List.length (e_consumes e))). intros multi.
    induction (e_consumes e) as [|mt l IH]; [reflexivity|]. cbn [map filter is_body]. f_equal. exact IH.
  Qed.

  Theorem body_text_deterministic e e' :
    e_path e' = e_path e -> e_method e' = e_method e -> e_common e' = e_common e -> e_own e' = e_own e ->
    e_body e' = e_body e -> Permutation.Permutation (e_consumes e) (e_consumes e') ->
    NoDup (map ekey (body_entries e)) ->
    (forall x, In x (body_entries e) -> ~ In (ekey x) (map q_name (extend (e_common e) (e_own e)))) ->
    body_text_order safe e = body_text_order safe e'.
  Proof.
    intros _ _ Hc Ho Hb Hp Hn Hd.
    assert (Hperm: Permutation.Permutation (body_entries e) (body_entries e')).
    { unfold EndpointSpec.body_entries. rewrite Hb. destruct (e_body e) as [b|]; [|constructor].
      rewrite <- (Permutation.Permutation_length Hp). apply Permutation.Permutation_map, Hp. }
    assert (Hkeys: forall l, map ekey (map EPrim l) = map q_name l).
    { intros l. rewrite map_map. reflexivity. }
    unfold body_text_order, EndpointSpec.all_params. rewrite Hc, Ho.
    rewrite (padd_all_fresh ekey (body_entries e)); [|exact Hn|intros x Hx; rewrite Hkeys; exact (Hd x Hx)].
    rewrite (padd_all_fresh ekey (body_entries e')).
    - rewrite !filter_app, filter_body_prims, !filter_body_entries. cbn [app].
      apply sort_perm_unique; [exact Hperm|exact Hn].
    - eapply Permutation.Permutation_NoDup; [apply Permutation.Permutation_map, Hperm|exact Hn].
    - intros x Hx. rewrite Hkeys. apply (Hd x). eapply Permutation.Permutation_in; [apply Permutation.Permutation_sym, Hperm|exact Hx].
  Qed.

  (* every body parameter is the operation's body in one of its media types *)
  Theorem import_sound_bodies e r m :
    In (r, m) (ep_body (snd (proj e))) -> exists b, e_body e = Some b /\ r = unesc (safe b) /\ In m (e_consumes e).
  Proof.
    unfold endpoint_proj. cbn [snd ep_body]. intros H. apply In_bodies in H. destruct H as [n [r0 [H ->]]].
    unfold EndpointSpec.all_params in H. destruct (padd_all_sound _ _ _ _ H) as [Hb|Hx].
    - destruct (body_entries_spec _ _ Hb) as [b [mt [n' [E1 [E2 Ex]]]]]. injection Ex as -> -> ->.
      exists b. repeat split; assumption.
    - apply in_map_iff in Hx. destruct Hx as [q [Eq _]]. discriminate Eq.
  Qed.
End EndpointProps.

(* Parameters is keyed by NAME, OpenAPI by (name, in): an operation-level query parameter silently replaces a
   path-level header parameter of the same name *)
Example extend_by_name_only_refuted :
  let h := mkq (of_string "trace") "header" true "string" "" in
  let q := mkq (of_string "trace") "query" false "string" "" in
  extend [h] [q] = [q].
Proof. reflexivity. Qed.

(* ... and the body parameters live in the same name-keyed map under names made from the media type by
   cleanMediaType + ToCamel, which is not injective: `application/a+b` and `application/a.b` both give
   ApplicationAB, so one of the two body parameters replaces the other *)
Example body_media_name_collision_refuted :
  let e := mke (of_string "/pets") "POST" [] [] (Some (of_string "Pet"))
               [of_string "application/a+b"; of_string "application/a.b"] in
  ep_body (snd (endpoint_proj (fun s => s) (fun s => s) (fun _ _ => []) (fun _ => None) e))
  = [(of_string "Pet", of_string "application/a.b")].
Proof. vm_compute. reflexivity. Qed.
