(* C11 - proofs about Foreign/NameEscape.v.

   The replacement table T of escapeUnsafeSyslChars is a parameter. Everything the theorems need from it is a
   decidable check over the 256 bytes of what ONE byte becomes (`blk T c`), because escaping is byte-wise:
       escape_unsafe T s = flat_map (blk T) s                                   (escape_is_bytewise)
   Foreign/Tables.v discharges those checks for the table regenerated from the source.

     safe_name_valid          all_blocks_name_body T  ->  forall s, name_re (safe_name T s) = true
     safe_name_valid_iff      ... and conversely: an uncovered byte c gives the witness [c]
     unescape_escape_unsafe   all_blocks_decode T     ->  forall s, path_unescape (escape_unsafe T s) = Some s
     safe_name_faithful       ... -> must_unescape (safe_name T s) = Ok (trim_space (p ++ s)), p = [] or ["_"]
     safe_name_faithful_plain ... -> for s whose first and last byte are printable non-blank ASCII the
                              result is exactly Ok s or Ok ("_" :: s)
     escape_order_irrelevant  table_wf T -> Permutation ord T -> escape_unsafe_ord ord s = escape_unsafe T s
   (MustUnescape trims Unicode white space after decoding, so exact faithfulness is false for every table:
    safe_name_exactly_faithful_refuted.) *)
From Coq Require Import String Ascii List NArith Bool Lia Permutation Wf_nat Arith.
Import ListNotations.
Require Import Verif.Foreign.NameEscape.
Local Open Scope char_scope.
Local Open Scope list_scope.

(* ---------- all 256 bytes ---------- *)
Definition forall_bool (P:bool -> bool) : bool := P true && P false.
Lemma forall_bool_spec P : forall_bool P = true -> forall b, P b = true.
Proof. unfold forall_bool. intros H b. apply andb_true_iff in H. destruct H, b; assumption. Qed.

Definition forall_byte (P:ascii -> bool) : bool :=
  forall_bool (fun b0 => forall_bool (fun b1 => forall_bool (fun b2 => forall_bool (fun b3 =>
  forall_bool (fun b4 => forall_bool (fun b5 => forall_bool (fun b6 => forall_bool (fun b7 =>
    P (Ascii b0 b1 b2 b3 b4 b5 b6 b7))))))))).

Lemma forall_byte_spec P : forall_byte P = true -> forall c, P c = true.
Proof.
  unfold forall_byte. intros H [b0 b1 b2 b3 b4 b5 b6 b7].
  pose proof (forall_bool_spec _ H b0) as H0. cbv beta in H0.
  pose proof (forall_bool_spec _ H0 b1) as H1. cbv beta in H1.
  pose proof (forall_bool_spec _ H1 b2) as H2. cbv beta in H2.
  pose proof (forall_bool_spec _ H2 b3) as H3. cbv beta in H3.
  pose proof (forall_bool_spec _ H3 b4) as H4. cbv beta in H4.
  pose proof (forall_bool_spec _ H4 b5) as H5. cbv beta in H5.
  pose proof (forall_bool_spec _ H5 b6) as H6. cbv beta in H6.
  exact (forall_bool_spec _ H6 b7).
Qed.

Lemma aeqb_eq a b : aeqb a b = true <-> a = b.
Proof. unfold aeqb. apply Ascii.eqb_eq. Qed.
Lemma aeqb_refl a : aeqb a a = true.
Proof. apply aeqb_eq. reflexivity. Qed.

(* ---------- escaping is byte-wise ---------- *)
Definition step (n:bs) (kv:ascii * bs) : bs := replace_char (fst kv) (snd kv) n.
Definition blk (T:table) (c:ascii) : bs := fold_left step T (esc1 c).

Lemma flat_map_flat_map {A B C} (f:B -> list C) (g:A -> list B) (s:list A) :
  flat_map f (flat_map g s) = flat_map (fun x => flat_map f (g x)) s.
Proof.
  induction s as [|a s IH]; cbn [flat_map]; [reflexivity|]. rewrite flat_map_app, IH. reflexivity.
Qed.

Lemma fold_step_bytewise (T:table) : forall (g:ascii -> bs) (s:bs),
  fold_left step T (flat_map g s) = flat_map (fun x => fold_left step T (g x)) s.
Proof.
  induction T as [|[c h] T IH]; intros g s; cbn [fold_left].
  - reflexivity.
  - unfold step at 2. cbn [fst snd]. unfold replace_char. rewrite flat_map_flat_map.
    rewrite (IH (fun x => flat_map (fun x0 => if aeqb x0 c then h else [x0]) (g x)) s).
    apply flat_map_ext. intros a. reflexivity.
Qed.

Theorem escape_is_bytewise (T:table) (s:bs) : escape_unsafe_ord T s = flat_map (blk T) s.
Proof. unfold escape_unsafe_ord, path_escape. apply (fold_step_bytewise T esc1 s). Qed.

(* ---------- validity: the result is a Name ---------- *)
Definition all_blocks_name_body (T:table) : bool := forall_byte (fun c => name_body (blk T c)).

(* induction that follows the %XX recursion *)
Lemma bs_ind3 (P:bs -> Prop) :
  P [] -> (forall c, P [c]) -> (forall c d, P [c; d]) ->
  (forall c r, P r -> P (c :: r)) -> forall s, P s.
Proof. intros H0 _ _ Hc s. induction s as [|c s IH]; [exact H0|apply Hc, IH]. Qed.

Lemma len_ind (P:bs -> Prop) :
  (forall s, (forall t, (List.length t < List.length s)%nat -> P t) -> P s) -> forall s, P s.
Proof.
  intros H s. remember (List.length s) as n eqn:E. revert s E.
  induction n as [n IH] using lt_wf_ind. intros s E. apply H. intros t Ht. apply (IH (List.length t)); [lia|reflexivity].
Qed.

Lemma name_body_app b : name_body b = true -> forall r, name_body (b ++ r) = name_body r.
Proof.
  induction b as [b IH] using len_ind. intros Hb r.
  destruct b as [|c b]; [reflexivity|].
  cbn [app]. cbn [name_body] in Hb |- *.
  destruct (aeqb c pct_char).
  - destruct b as [|h1 [|h2 b']]; try discriminate Hb.
    cbn [app]. apply andb_true_iff in Hb. destruct Hb as [Hh Hb]. rewrite Hh. cbn [andb].
    apply IH; [cbn [List.length]; lia|exact Hb].
  - apply andb_true_iff in Hb. destruct Hb as [Hc Hb]. rewrite Hc. cbn [andb].
    apply IH; [cbn [List.length]; lia|exact Hb].
Qed.

Lemma name_body_flat_map (f:ascii -> bs) (s:bs) :
  (forall c, name_body (f c) = true) -> name_body (flat_map f s) = true.
Proof.
  intros H. induction s as [|a s IH]; [reflexivity|]. cbn [flat_map]. rewrite name_body_app; [exact IH|apply H].
Qed.

Lemma is_name_start_body c : is_name_start c = true -> is_name_body c = true.
Proof. unfold is_name_body. intros ->. reflexivity. Qed.

Lemma start_then_name n : name_body n = true -> start_ok n = true -> name_re n = true.
Proof.
  induction n as [n IH] using len_ind. intros Hb Hs.
  destruct n as [|c n]; [discriminate Hs|].
  cbn [name_body start_ok name_re] in *.
  destruct (aeqb c pct_char).
  - destruct n as [|h1 [|h2 n']]; try discriminate Hb.
    apply andb_true_iff in Hb. destruct Hb as [Hh Hb]. rewrite Hh in *. cbn [andb].
    apply IH; [cbn [List.length]; lia|exact Hb|exact Hs].
  - apply andb_true_iff in Hb. destruct Hb as [_ Hb]. rewrite Hs, Hb. reflexivity.
Qed.

Lemma name_re_body n : name_re n = true -> name_body n = true.
Proof.
  induction n as [n IH] using len_ind. intros H.
  destruct n as [|c n]; [reflexivity|].
  cbn [name_body name_re] in *.
  destruct (aeqb c pct_char).
  - destruct n as [|h1 [|h2 n']]; try discriminate H.
    apply andb_true_iff in H. destruct H as [Hh H]. rewrite Hh. cbn [andb].
    apply IH; [cbn [List.length]; lia|exact H].
  - apply andb_true_iff in H. destruct H as [Hc H]. rewrite (is_name_start_body _ Hc), H. reflexivity.
Qed.

Lemma name_re_underscore n : name_re ("_" :: n) = name_body n.
Proof. reflexivity. Qed.

Theorem safe_name_valid (T:table) :
  all_blocks_name_body T = true -> forall s, name_re (safe_name T s) = true.
Proof.
  intros HT s. unfold safe_name, escape_unsafe. rewrite escape_is_bytewise.
  pose proof (name_body_flat_map (blk T) s (forall_byte_spec _ HT)) as Hb.
  destruct (start_ok (flat_map (blk T) s)) eqn:Hs.
  - apply start_then_name; assumption.
  - rewrite name_re_underscore. exact Hb.
Qed.

(* conversely, a byte whose block is not Name material is a counterexample on its own *)
Theorem safe_name_invalid_witness (T:table) (c:ascii) :
  name_body (blk T c) = false -> name_re (safe_name T [c]) = false.
Proof.
  intros Hc. unfold safe_name, escape_unsafe. rewrite escape_is_bytewise. cbn [flat_map]. rewrite app_nil_r.
  destruct (start_ok (blk T c)).
  - destruct (name_re (blk T c)) eqn:E; [|reflexivity]. apply name_re_body in E. congruence.
  - rewrite name_re_underscore. exact Hc.
Qed.

Theorem safe_name_valid_iff (T:table) :
  all_blocks_name_body T = true <-> (forall s, name_re (safe_name T s) = true).
Proof.
  split; [apply safe_name_valid|].
  intros H. destruct (all_blocks_name_body T) eqn:E; [reflexivity|exfalso].
  (* some byte fails: find it by excluded middle on the decidable check *)
  assert (Hall: forall c, name_body (blk T c) = true).
  { intros c. destruct (name_body (blk T c)) eqn:Ec; [reflexivity|].
    pose proof (safe_name_invalid_witness T c Ec) as W. rewrite H in W. discriminate W. }
  assert (all_blocks_name_body T = true).
  { unfold all_blocks_name_body, forall_byte, forall_bool. rewrite !Hall. reflexivity. }
  congruence.
Qed.

(* ---------- faithfulness: decoding gives the original bytes back ---------- *)
(* block b decodes to the single byte c, whatever follows *)
Definition decodes_to (c:ascii) (b:bs) : bool :=
  match b with
  | [x] => negb (aeqb x pct_char) && aeqb x c
  | [p; h1; h2] => aeqb p pct_char && is_hex h1 && is_hex h2 && aeqb (ascii_of_N (16 * unhex h1 + unhex h2)) c
  | _ => false
  end.
Definition all_blocks_decode (T:table) : bool := forall_byte (fun c => decodes_to c (blk T c)).

Lemma decodes_to_spec c b : decodes_to c b = true ->
  forall r, path_unescape (b ++ r) = option_map (cons c) (path_unescape r).
Proof.
  intros H r. destruct b as [|x [|h1 [|h2 [|]]]]; try discriminate H; cbn [decodes_to] in H.
  - apply andb_true_iff in H. destruct H as [Hx Hc]. apply aeqb_eq in Hc. subst c.
    cbn [app path_unescape]. destruct (aeqb x pct_char); [discriminate Hx|reflexivity].
  - apply andb_true_iff in H. destruct H as [H Hc]. apply andb_true_iff in H. destruct H as [H Hh2].
    apply andb_true_iff in H. destruct H as [Hp Hh1]. apply aeqb_eq in Hc.
    cbn [app path_unescape]. rewrite Hp, Hh1, Hh2. cbn [andb]. rewrite Hc. reflexivity.
Qed.

Lemma unescape_flat_map (f:ascii -> bs) :
  (forall c, decodes_to c (f c) = true) -> forall s, path_unescape (flat_map f s) = Some s.
Proof.
  intros H s. induction s as [|a s IH]; [reflexivity|].
  cbn [flat_map]. rewrite (decodes_to_spec a (f a) (H a)), IH. reflexivity.
Qed.

Theorem unescape_escape_unsafe (T:table) :
  all_blocks_decode T = true -> forall s, path_unescape (escape_unsafe T s) = Some s.
Proof.
  intros HT s. unfold escape_unsafe. rewrite escape_is_bytewise.
  apply unescape_flat_map. apply (forall_byte_spec _ HT).
Qed.

(* Go's own codec, no table: url.PathUnescape (url.PathEscape s) = s *)
Lemma esc1_decodes : forall_byte (fun c => decodes_to c (esc1 c)) = true.
Proof. vm_compute. reflexivity. Qed.
Theorem unescape_escape (s:bs) : path_unescape (path_escape s) = Some s.
Proof. unfold path_escape. apply unescape_flat_map. apply (forall_byte_spec _ esc1_decodes). Qed.

Theorem safe_name_faithful (T:table) :
  all_blocks_decode T = true ->
  forall s, exists p, (p = [] \/ p = ["_"]) /\ must_unescape (safe_name T s) = Ok (trim_space (p ++ s)).
Proof.
  intros HT s. unfold safe_name, must_unescape.
  destruct (start_ok (escape_unsafe T s)).
  - exists []. split; [left; reflexivity|]. rewrite (unescape_escape_unsafe T HT). reflexivity.
  - exists ["_"]. split; [right; reflexivity|].
    cbn [path_unescape]. replace (aeqb "_" pct_char) with false by reflexivity.
    rewrite (unescape_escape_unsafe T HT). reflexivity.
Qed.

(* a decoded name never makes the parser's MustUnescape panic *)
Corollary safe_name_never_panics (T:table) :
  all_blocks_decode T = true -> forall s, must_unescape (safe_name T s) <> Panic.
Proof. intros HT s. destruct (safe_name_faithful T HT s) as [p [_ H]]. rewrite H. discriminate. Qed.

(* ---- when nothing is trimmed ---- *)
Definition plain (c:ascii) : bool := between 33 126 c.

Lemma plain_no_space_prefix c r : plain c = true ->
  strip_any space_seqs (c :: r) = None /\ strip_any rev_space_seqs (c :: r) = None.
Proof.
  destruct c as [[] [] [] [] [] [] [] []]; intros H; try discriminate H; split; reflexivity.
Qed.

Lemma trim_left_plain c r : plain c = true -> trim_left (c :: r) = c :: r.
Proof.
  intros H. unfold trim_left. cbn [List.length trim_left_fuel].
  rewrite (proj1 (plain_no_space_prefix c r H)). reflexivity.
Qed.

Lemma trim_right_plain s z : plain z = true -> trim_right (s ++ [z]) = s ++ [z].
Proof.
  intros H. unfold trim_right. rewrite rev_app_distr. cbn [rev app].
  rewrite app_length. cbn [List.length]. replace (List.length s + 1)%nat with (S (List.length s)) by lia.
  cbn [trim_left_fuel_with]. rewrite (proj2 (plain_no_space_prefix z (rev s) H)).
  cbn [rev]. rewrite rev_involutive. reflexivity.
Qed.

Definition plain_ends (s:bs) : bool :=
  match s with [] => true | a :: _ => plain a && plain (last s a) end.

Lemma trim_space_plain_ends s : plain_ends s = true -> trim_space s = s.
Proof.
  destruct s as [|a r]; [reflexivity|]. unfold plain_ends. intros H.
  apply andb_true_iff in H. destruct H as [Ha Hz].
  unfold trim_space. rewrite (trim_left_plain a r Ha).
  assert (Hne: a :: r <> []) by discriminate.
  rewrite (app_removelast_last a Hne). apply trim_right_plain. exact Hz.
Qed.

Lemma plain_ends_underscore s : plain_ends s = true -> plain_ends ("_" :: s) = true.
Proof.
  destruct s as [|a r]; [reflexivity|]. unfold plain_ends. intros H.
  apply andb_true_iff in H. destruct H as [_ Hz].
  replace (plain "_") with true by reflexivity. cbn [andb].
  change (last ("_" :: a :: r) "_") with (last (a :: r) "_").
  assert (E: last (a :: r) "_" = last (a :: r) a).
  { clear. revert a. induction r as [|b r IH]; intros a; [reflexivity|].
    change (last (a :: b :: r) "_") with (last (b :: r) "_"). change (last (a :: b :: r) a) with (last (b :: r) a).
    rewrite (IH b). clear. revert b. induction r as [|c r IH]; intros b; [reflexivity|].
    change (last (b :: c :: r) b) with (last (c :: r) b). change (last (b :: c :: r) a) with (last (c :: r) a).
    destruct r; [reflexivity|]. change (last (c :: a0 :: r) b) with (last (a0 :: r) b).
    change (last (c :: a0 :: r) a) with (last (a0 :: r) a).
    clear. revert a0. induction r as [|d r IH]; intros a0; [reflexivity|].
    change (last (a0 :: d :: r) b) with (last (d :: r) b). change (last (a0 :: d :: r) a) with (last (d :: r) a). apply IH. }
  rewrite E. exact Hz.
Qed.

Theorem safe_name_faithful_plain (T:table) :
  all_blocks_decode T = true ->
  forall s, plain_ends s = true ->
    must_unescape (safe_name T s) = Ok s \/ must_unescape (safe_name T s) = Ok ("_" :: s).
Proof.
  intros HT s Hs. destruct (safe_name_faithful T HT s) as [p [[-> | ->] H]]; rewrite H; cbn [app].
  - left. rewrite (trim_space_plain_ends s Hs). reflexivity.
  - right. rewrite (trim_space_plain_ends _ (plain_ends_underscore s Hs)). reflexivity.
Qed.

(* exact faithfulness fails whatever the table says: MustUnescape trims the decoded name *)
Theorem safe_name_exactly_faithful_refuted (T:table) :
  all_blocks_decode T = true ->
  exists s, must_unescape (safe_name T s) <> Ok s /\ must_unescape (safe_name T s) <> Ok ("_" :: s).
Proof.
  intros HT. exists ["a"; " "].
  destruct (safe_name_faithful T HT ["a"; " "]) as [p [[-> | ->] H]]; rewrite H; split; intro E; vm_compute in E; discriminate E.
Qed.

(* ---------- the order in which Go ranges over the replacement map does not matter ---------- *)
Fixpoint lookup (c:ascii) (T:table) : option bs :=
  match T with [] => None | (k, h) :: r => if aeqb c k then Some h else lookup c r end.

Definition keys (T:table) : bs := map fst T.
Definition key_free (T:table) (h:bs) : bool := forallb (fun x => negb (amem x (keys T))) h.
(* keys distinct; no replacement text contains a key; no key is a byte PathEscape itself produces in %XX *)
Fixpoint nodup_keys (T:table) : bool :=
  match T with [] => true | (k, _) :: r => negb (amem k (keys r)) && nodup_keys r end.
Definition table_wf (T:table) : bool :=
  nodup_keys T && forallb (fun kv => key_free T (snd kv)) T
  && forall_byte (fun c => key_free T (if should_escape_seg c then pct c else [])).

Lemma amem_In c l : amem c l = true <-> In c l.
Proof.
  induction l as [|x l IH]; cbn [amem In]; [split; [discriminate|tauto]|].
  rewrite orb_true_iff, IH, aeqb_eq. split; intros [H|H]; auto.
Qed.

Lemma replace_key_free c h s : amem c s = false -> replace_char c h s = s.
Proof.
  unfold replace_char. induction s as [|x s IH]; cbn [amem flat_map]; [reflexivity|].
  intros H. apply orb_false_iff in H. destruct H as [Hx Hs].
  assert (E: aeqb x c = false).
  { destruct (aeqb x c) eqn:E; [|reflexivity]. apply aeqb_eq in E. subst x. rewrite aeqb_refl in Hx. discriminate. }
  rewrite E, (IH Hs). reflexivity.
Qed.

Lemma fold_step_key_free (ord:table) (s:bs) :
  forallb (fun x => negb (amem x (keys ord))) s = true -> fold_left step ord s = s.
Proof.
  revert s. induction ord as [|[k h] ord IH]; intros s H; cbn [fold_left]; [reflexivity|].
  assert (Hk: amem k s = false).
  { destruct (amem k s) eqn:E; [|reflexivity]. apply amem_In in E. rewrite forallb_forall in H.
    specialize (H k E). cbn [keys map fst amem] in H. rewrite aeqb_refl in H. discriminate. }
  unfold step at 2. cbn [fst snd]. rewrite (replace_key_free k h s Hk). apply IH.
  rewrite forallb_forall in H |- *. intros x Hx. specialize (H x Hx). cbn [keys map fst amem] in H.
  apply negb_true_iff in H. apply orb_false_iff in H. destruct H as [_ H]. apply negb_true_iff. exact H.
Qed.

Lemma fold_step_single (ord:table) (c:ascii) :
  nodup_keys ord = true -> forallb (fun kv => key_free ord (snd kv)) ord = true ->
  fold_left step ord [c] = match lookup c ord with Some h => h | None => [c] end.
Proof.
  induction ord as [|[k h] ord IH]; intros Hn Hf; [reflexivity|].
  cbn [fold_left lookup]. unfold step at 2. cbn [fst snd]. unfold replace_char. cbn [flat_map]. rewrite app_nil_r.
  cbn [nodup_keys] in Hn. apply andb_true_iff in Hn. destruct Hn as [Hk Hn].
  cbn [forallb snd] in Hf. apply andb_true_iff in Hf. destruct Hf as [Hh Hf].
  assert (Hweak: forall g:bs, key_free ((k, h) :: ord) g = true -> key_free ord g = true).
  { intros g Hg. unfold key_free in *. rewrite forallb_forall in Hg |- *. intros x Hx. specialize (Hg x Hx).
    cbn [keys map fst amem] in Hg. apply negb_true_iff in Hg. apply orb_false_iff in Hg. destruct Hg as [_ Hg].
    apply negb_true_iff. exact Hg. }
  destruct (aeqb c k) eqn:E.
  - apply fold_step_key_free. apply (Hweak h Hh).
  - apply IH; [exact Hn|]. rewrite forallb_forall in Hf |- *. intros kv Hkv. apply Hweak, Hf, Hkv.
Qed.

Lemma keys_perm_mem (T ord:table) x : Permutation ord T -> amem x (keys ord) = amem x (keys T).
Proof.
  intros Hp. destruct (amem x (keys T)) eqn:E.
  - apply amem_In. apply amem_In in E. unfold keys in *. eapply Permutation_in; [apply Permutation_map, Permutation_sym, Hp|exact E].
  - destruct (amem x (keys ord)) eqn:E'; [|reflexivity]. apply amem_In in E'.
    assert (H: In x (keys T)) by (unfold keys in *; eapply Permutation_in; [apply Permutation_map, Hp|exact E']).
    apply amem_In in H. congruence.
Qed.

Lemma aeqb_sym_false a b : aeqb a b = false -> aeqb b a = false.
Proof.
  intros H. destruct (aeqb b a) eqn:E; [|reflexivity]. apply aeqb_eq in E. subst. rewrite aeqb_refl in H. discriminate.
Qed.

Lemma nodup_keys_perm (a b:table) : Permutation a b -> nodup_keys b = true -> nodup_keys a = true.
Proof.
  intros Hp. induction Hp as [|[k h] l l' Hp IH|[k1 h1] [k2 h2] l|l l' l'' Hp1 IH1 Hp2 IH2]; intros Hn.
  - reflexivity.
  - cbn [nodup_keys] in *. apply andb_true_iff in Hn. destruct Hn as [Hk Hn]. rewrite (IH Hn), andb_true_r.
    rewrite (keys_perm_mem l' l k Hp). exact Hk.
  - cbn [nodup_keys] in *. unfold keys in *. cbn [map fst amem] in *.
    apply andb_true_iff in Hn. destruct Hn as [H1 Hn]. apply andb_true_iff in Hn. destruct Hn as [H2 Hn].
    apply negb_true_iff in H1, H2. apply orb_false_iff in H1. destruct H1 as [H1a H1b].
    rewrite Hn, H1b, H2, (aeqb_sym_false _ _ H1a). reflexivity.
  - auto.
Qed.

Lemma lookup_perm (T ord:table) c : nodup_keys T = true -> Permutation ord T -> lookup c ord = lookup c T.
Proof.
  intros Hn Hp. revert Hn. induction Hp as [|[k h] l l' Hp IH|[k1 h1] [k2 h2] l|l l' l'' Hp1 IH1 Hp2 IH2]; intros Hn.
  - reflexivity.
  - cbn [lookup]. cbn [nodup_keys] in Hn. apply andb_true_iff in Hn. destruct Hn as [_ Hn]. rewrite (IH Hn). reflexivity.
  - cbn [lookup]. cbn [nodup_keys] in Hn. unfold keys in Hn. cbn [map fst amem] in Hn.
    apply andb_true_iff in Hn. destruct Hn as [H1 _]. apply negb_true_iff in H1. apply orb_false_iff in H1. destruct H1 as [H1 _].
    destruct (aeqb c k1) eqn:E1, (aeqb c k2) eqn:E2; try reflexivity.
    apply aeqb_eq in E1, E2. subst k1 k2. rewrite aeqb_refl in H1. discriminate.
  - rewrite (IH1 (nodup_keys_perm _ _ Hp2 Hn)), (IH2 Hn). reflexivity.
Qed.

Lemma key_free_perm (T ord:table) g : Permutation ord T -> key_free ord g = key_free T g.
Proof.
  intros Hp. unfold key_free. induction g as [|x g IH]; [reflexivity|]. cbn [forallb].
  rewrite (keys_perm_mem T ord x Hp), IH. reflexivity.
Qed.

Lemma blk_wf (T ord:table) (c:ascii) :
  table_wf T = true -> Permutation ord T ->
  blk ord c = if should_escape_seg c then pct c else match lookup c T with Some h => h | None => [c] end.
Proof.
  intros Hwf Hp. unfold table_wf in Hwf. apply andb_true_iff in Hwf. destruct Hwf as [Hwf Hpct].
  apply andb_true_iff in Hwf. destruct Hwf as [Hn Hf].
  pose proof (nodup_keys_perm _ _ Hp Hn) as Hn'.
  unfold blk, esc1. destruct (should_escape_seg c) eqn:Esc.
  - apply fold_step_key_free. pose proof (forall_byte_spec _ Hpct c) as H. cbv beta in H. rewrite Esc in H.
    unfold key_free in H. rewrite forallb_forall in H |- *. intros x Hx. rewrite (keys_perm_mem T ord x Hp). apply H, Hx.
  - rewrite fold_step_single.
    + rewrite (lookup_perm T ord c Hn Hp). reflexivity.
    + exact Hn'.
    + rewrite forallb_forall in Hf |- *. intros kv Hkv. rewrite (key_free_perm T ord _ Hp). apply Hf.
      eapply Permutation_in; eassumption.
Qed.

Theorem escape_order_irrelevant (T ord:table) :
  table_wf T = true -> Permutation ord T -> forall s, escape_unsafe_ord ord s = escape_unsafe T s.
Proof.
  intros Hwf Hp s. unfold escape_unsafe. rewrite !escape_is_bytewise. apply flat_map_ext. intros c.
  rewrite (blk_wf T ord c Hwf Hp), (blk_wf T T c Hwf (Permutation_refl T)). reflexivity.
Qed.

(* ---------- quote: the written string is a DOUBLE_QUOTE_STRING token, whatever the payload ---------- *)
Lemma dq_body_esc (s r:bs) : dq_body r = true -> dq_body (quote_esc s ++ r) = true.
Proof.
  intros Hr. induction s as [|c s IH]; [exact Hr|].
  unfold quote_esc in *. cbn [flat_map]. rewrite <- app_assoc. unfold qesc1 at 1.
  destruct (aeqb c bsl_char) eqn:Eb.
  - cbn [app dq_body]. replace (aeqb bsl_char dq_char) with false by reflexivity.
    rewrite aeqb_refl. cbn [amem]. rewrite aeqb_refl. cbn [orb andb]. exact IH.
  - destruct (aeqb c dq_char) eqn:Ed.
    + cbn [app dq_body]. replace (aeqb bsl_char dq_char) with false by reflexivity.
      rewrite aeqb_refl. replace (amem dq_char _) with true by reflexivity. cbn [andb]. exact IH.
    + cbn [app dq_body]. rewrite Ed, Eb. exact IH.
Qed.

Theorem quote_is_a_string_token (s:bs) : s <> [] -> dq_string_re (quote s) = true.
Proof.
  intros Hs. unfold quote, quote_with. destruct s as [|c s]; [congruence|].
  cbn [dq_string_re]. rewrite aeqb_refl. cbn [andb]. apply dq_body_esc. reflexivity.
Qed.

(* the unrepaired quote (payload verbatim) breaks on a double quote or a trailing backslash *)
Example unrepaired_quote_refuted :
  dq_string_re (quote_with (fun x => x) (of_string "a""b")) = false /\
  dq_string_re (quote_with (fun x => x) (of_string "a\")) = false.
Proof. split; reflexivity. Qed.
