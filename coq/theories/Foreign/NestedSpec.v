(* C11 - the Go-writer import path for OpenAPI 2 definitions with NESTED schemas: inline objects to any depth, arrays
   of arrays, arrays of inline objects, inline string enums, allOf (with the parts already resolved, as kin-openapi
   hands them over in SchemaRef.Value) with own properties. Definitions only, executable.

   Transliterated (pkg/importer/openapi3_legacy.go, utils.go; after fix C11-8):
     typeNameFromSchemaRef   $ref -> the safe name; array -> the name of its ITEMS (so the innermost non-array
                             schema decides); object / no type -> "object"; boolean / string / integer / number
     typeAliasForSchema      TypeList.Find(name) among the types loaded SO FAR, else a name-only type; "object" ->
                             the name stack joined by "_"; wrapped in ONE Array if the schema is an INLINE array
                             (not a $ref) and the type found is not itself an Array
     buildField              $ref -> name only; array of $ref -> Array of the name; else push the name; an array
                             whose items are an array (and whose innermost type is not "object"): reset the name
                             stack, loadTypeSchema(items) under the joined name, TypeList.Add, Array of that; else
                             typeAliasForSchema, and if the type name is "object": (array: go to the items), reset
                             the name stack, loadTypeSchema under the joined name, TypeList.Add, the field's type is
                             that type (in an Array if the property was an array)
     loadTypeSchema          push the name; array arm (items named "object" or an inline array: push "obj", load
                             <name>_obj, Add; else typeAliasForSchema); object arm (allOf: load each part under the
                             name "", keep the fields of those that are StandardTypes - the first list as it is, of
                             later ones what is not there by name -; own properties in map order = list order,
                             Optional = not in Required; none -> string alias; SortWithoutDupl: two different fields
                             of one name = ERROR); default arm (enum / alias)
     getSyslTypeName         of an Array: "sequence of " ++ the NAME of the items if they are an Array that has a
                             name (a definition or a generated type), else ++ the items spelled out
     TypeList.Add            appends unless the name is empty (a fresh type is never `contained`)
   The name stack is an explicit argument (`stack` = o.nameStack when the function is entered), the type list is
   threaded. `None` = the importer returns an error. oneOf is not part of OpenAPI 2 (kin-openapi's conversion does
   not rewrite references inside it) and is not modelled. *)
From Coq Require Import String Ascii List NArith Bool.
Import ListNotations.
Require Import Verif.Foreign.NameEscape Verif.Foreign.ImportSpec.
Local Open Scope list_scope.

Inductive nschema :=
| NPrim (ty fmt:string)
| NEnumS                                   (* type: string with an enum list *)
| NRef (target:bs)                         (* $ref to a definition *)
| NArr (items:nschema)
| NObj (allof:list nschema) (props:list (bs * nschema)) (required:list bs).
Definition ndef := (bs * nschema)%type.
Definition ndoc := list ndef.

Fixpoint join_us (l:list bs) : bs :=
  match l with [] => [] | [x] => x | x :: r => x ++ "_"%char :: join_us r end.

(* TypeList.Add *)
Definition add_type (st:list itype) (t:itype) : list itype :=
  match itype_name t with [] => st | _ => st ++ [t] end.

Definition seq_prefix : bs := of_string "sequence of ".
Definition ityp_word (t:ityp) : bs := match t with INamed w => w | ISeq w => seq_prefix ++ w end.
Definition ityp_eqb (a b:ityp) : bool :=
  match a, b with
  | INamed x, INamed y | ISeq x, ISeq y => bs_eqb x y
  | _, _ => false
  end.
Definition ifield_eqb (a b:ifield) : bool :=
  bs_eqb (if_name a) (if_name b) && ityp_eqb (if_type a) (if_type b) && Bool.eqb (if_opt a) (if_opt b).

Fixpoint find_field (n:bs) (l:list ifield) : option ifield :=
  match l with [] => None | f :: r => if bs_eqb (if_name f) n then Some f else find_field n r end.

(* FieldList.SortWithoutDupl: fields of one name must be deeply equal (else the import fails); one of them is kept *)
Fixpoint dedup (l:list ifield) : option (list ifield) :=
  match l with
  | [] => Some []
  | f :: r =>
      match dedup r with
      | None => None
      | Some r' => match find_field (if_name f) r' with
                   | Some g => if ifield_eqb f g then Some r' else None
                   | None => Some (f :: r')
                   end
      end
  end.
Definition sort_without_dupl (l:list ifield) : option (list ifield) :=
  match dedup l with Some d => Some (sort_by if_name d) | None => None end.

(* loadTypeSchema, allOf: obj.Properties = subObj.Properties if still empty, else append what is not there by name
   (an equal one is skipped silently, a different one with a warning) *)
Definition merge_step (a:list ifield) (f:ifield) : list ifield :=
  match find_field (if_name f) a with Some _ => a | None => a ++ [f] end.
Definition merge_fields (acc sub:list ifield) : list ifield :=
  match acc with
  | [] => sub
  | _ => fold_left merge_step sub acc
  end.

Definition std_fields (t:itype) : option (list ifield) := match t with IStandard _ fs => Some fs | _ => None end.

Section Nested.
  Variable safe : bs -> bs.
  Variable is_builtin : bs -> bool.
  Variable tname : bs -> bs.
  Variable map_type : string -> string -> bs.
  Variable fname : bs -> bs.
  Variable unesc : bs -> bs.
  Variable native : bs -> option (string * N).

  Definition object_word : bs := of_string "object".
  Definition obj_suffix : bs := of_string "obj".

  (* getSyslTypeName of a type of the list, where a field holds the type itself *)
  Definition tword (t:itype) : bs :=
    match t with
    | IStandard n _ => tname n
    | IArray _ items => seq_prefix ++ items
    | IEnum n | IAlias n _ => n
    | IExt n => external_prefix ++ n
    end.
  (* ... and where it is the Items of an Array: a named Array goes by its name *)
  Definition item_word (t:itype) : bs := match t with IArray n _ => n | _ => tword t end.

  (* typeNameFromSchemaRef *)
  Fixpoint type_name (s:nschema) : bs :=
    match s with
    | NRef r => safe r
    | NArr items => type_name items
    | NObj _ _ _ => object_word
    | NPrim ty fmt => prim_word map_type ty fmt
    | NEnumS => prim_word map_type "string" ""
    end.
  Definition is_arr (s:nschema) : bool := match s with NArr _ => true | _ => false end.
  Definition wrap (s:nschema) : bs -> ityp := if is_arr s then ISeq else INamed.

  (* typeAliasForSchema of an inline schema (`stack` = the name stack at the call) *)
  Definition type_alias (st:list itype) (stack:list bs) (s:nschema) : ityp :=
    let name := type_name s in
    if bs_eqb name object_word then wrap s (join_us stack) else
    if is_builtin name then wrap s name else
    match find_type st name with
    | Some (IArray _ items) => ISeq items                      (* an Array is not wrapped again *)
    | Some t => wrap s (tword t)
    | None => wrap s name
    end.
  (* the same for the items of an array definition, which may be a $ref: never wrapped; what it gives is the word
     written behind "sequence of " *)
  Definition items_word (st:list itype) (stack:list bs) (s:nschema) : bs :=
    match s with
    | NRef r =>
        let name := safe r in
        if is_builtin name then name else
        match find_type st name with
        | Some t => item_word t
        | None => name
        end
    | _ => ityp_word (type_alias st stack s)
    end.

  (* buildField, the loop over allOf and the loop over the properties, given loadTypeSchema for the schemas below *)
  Section WithLoad.
  Variable ld : nschema -> list itype -> list bs -> bs -> option (itype * list itype).

  Definition bfield_with (p:nschema) (st:list itype) (stack:list bs) (name:bs) : option (ityp * list itype) :=
    match p with
    | NRef r => Some (INamed (safe r), st)
    | NArr (NRef r) => Some (ISeq (safe r), st)
    | NArr items =>
        let stack1 := stack ++ [name] in
        if bs_eqb (type_name p) object_word || is_arr items then
          (* array of inline objects, or array of arrays: the items become a type of their own *)
          match ld items st [] (join_us stack1) with
          | Some (t, st1) => Some (ISeq (item_word t), add_type st1 t)
          | None => None
          end
        else Some (type_alias st stack1 p, st)
    | _ =>
        let stack1 := stack ++ [name] in
        if bs_eqb (type_name p) object_word then
          match ld p st [] (join_us stack1) with
          | Some (t, st1) => Some (INamed (tword t), add_type st1 t)
          | None => None
          end
        else Some (type_alias st stack1 p, st)
    end.

  Fixpoint parts_with (stack1:list bs) (l:list nschema) (st:list itype) (acc:list ifield)
    : option (list ifield * list itype) :=
    match l with
    | [] => Some (acc, st)
    | p :: r =>
        match ld p st stack1 [] with
        | Some (t, st1) =>
            parts_with stack1 r st1 (match std_fields t with Some fs => merge_fields acc fs | None => acc end)
        | None => None
        end
    end.

  Fixpoint fields_with (stack1:list bs) (required:list bs) (l:list (bs * nschema)) (st:list itype)
    : option (list ifield * list itype) :=
    match l with
    | [] => Some ([], st)
    | np :: r =>
        match bfield_with (snd np) st stack1 (fst np) with
        | Some (ty, st1) =>
            match fields_with stack1 required r st1 with
            | Some (fs, st2) => Some (mkif (fst np) ty (negb (bmem (fst np) required)) :: fs, st2)
            | None => None
            end
        | None => None
        end
    end.
  End WithLoad.

  Fixpoint load (s:nschema) (st:list itype) (stack:list bs) (name:bs) {struct s} : option (itype * list itype) :=
    let stack1 := stack ++ [name] in
    match s with
    | NArr items =>
        if bs_eqb (type_name items) object_word || is_arr items then
          match load items st (stack1 ++ [obj_suffix]) (name ++ "_"%char :: obj_suffix) with
          | Some (t, st1) => Some (IArray name (item_word t), add_type st1 t)
          | None => None
          end
        else Some (IArray name (items_word st stack1 items), st)
    | NObj allof props required =>
        match parts_with load stack1 allof st [] with
        | Some (inherited, st1) =>
            match fields_with load stack1 required props st1 with
            | Some (own, st2) =>
                match inherited ++ own with
                | [] => Some (IExt name, st2)
                | all => match sort_without_dupl all with
                         | Some fs => Some (IStandard name fs, st2)
                         | None => None
                         end
                end
            | None => None
            end
        | None => None
        end
    | NEnumS => Some (IEnum name, st)
    | NPrim ty fmt => let w := map_type ty fmt in Some (if is_builtin w then IAlias name w else IExt name, st)
    | NRef _ => None   (* loadTypeSchema is handed a schema VALUE, never a reference *)
    end.

  Definition bfield := bfield_with load.

  (* convertSpec: the definitions in the order of their names; a name that TypeList.Find already resolves (a
     builtin type name, a definition or an INLINE type loaded before) is skipped *)
  Definition nconvert_step (acc:option (list itype)) (d:ndef) : option (list itype) :=
    match acc with
    | None => None
    | Some types =>
        let s := safe (fst d) in
        if find is_builtin types s then Some types else
        match load (snd d) types [] s with
        | Some (t, st1) => Some (add_type st1 t)
        | None => None
        end
    end.
  Definition nloaded_list (doc:ndoc) : option (list itype) :=
    fold_left nconvert_step (sort_by (fun d:ndef => fst d) doc) (Some []).
  Definition nconvert (doc:ndoc) : option (list itype) :=
    match nloaded_list doc with Some l => Some (sort_by itype_name l) | None => None end.

  (* the writer and the compiler are those of the flat model *)
  Definition import_nested (doc:ndoc) : option proj :=
    match nconvert doc with
    | Some types => Some (map (ctype tname fname unesc native) (write_order types))
    | None => None
    end.
End Nested.
