(* C11 - responses: obligations over Gen/ForeignTables.v for the functions Foreign/ResponseSpec.v transliterates, the
   theorems of ResponseProps for the current source, and computed examples. *)
From Coq Require Import String Ascii List NArith Bool.
Import ListNotations.
Require Import Verif.Gen.ForeignTables Verif.Foreign.NameEscape Verif.Foreign.Tables Verif.Foreign.ImportSpec
  Verif.Foreign.ImportProps Verif.Foreign.ImportRun Verif.Foreign.EndpointSpec Verif.Foreign.ResponseSpec
  Verif.Foreign.ResponseProps Verif.Foreign.ImportTheorems Verif.Foreign.TypeFormatProps.
Local Open Scope string_scope.
Local Open Scope list_scope.

Lemma responses_shape_ok : responses_shape =
  ["supportedCode := regexp.MustCompile(""^ok|error|[1-5][0-9][0-9]$"")";
   "errType := regexp.MustCompile(""^Error|error$"")";
   "typePrefix := getSyslSafeURI(convertToSyslSafe(cleanEndpointPath(path))) + ""_""";
   "text := statusCode";
   "respType := &StandardType{ baseType: baseType{ name: typePrefix + text, }, Properties: FieldList{}, }";
   "fields := make(map[string]map[string]*openapi3.MediaType)";
   "for mediaType, obj := range resp.Value.Content { schema := obj.Schema tname := o.typeNameFromSchemaRef(schema) if _, ok := fields[tname]; !ok { fields[tname] = make(map[string]*openapi3.MediaType) } fields[tname][mediaType] = obj }";
   "for _, content := range fields { mtType := mtResp if len(content) > 1 { mtType = mtMultiResp } for mediaType, obj := range content { f, err := o.fieldForMediaType(mediaType, obj, mtType) if err != nil { return err } if f.Type.Name() == OpenAPI_OBJECT { validOperationID := regexp.MustCompile(""^[a-zA-Z_]+$"") if op.OperationID != """" && validOperationID.MatchString(op.OperationID) { f.Type.SetName(fmt.Sprintf(""%s_%s_%s"", method, op.OperationID, statusCode)) } else { f.Type.SetName(fmt.Sprintf(""%s_%s"", method, respType.Name())) } } respType.Properties = append(respType.Properties, f) } }";
   "for name := range resp.Value.Headers { f := Field{ Name: name, Attrs: []string{""~header""}, } if f.Type == nil { f.Type = StringAlias } respType.Properties = append(respType.Properties, f) }";
   "r := Response{}";
   "if len(respType.Properties) == 1 && respType.Properties[0].Attrs[0] != ""~header"" { r.Type = respType.Properties[0].Type r.Type.AddAttributes(respType.Properties[0].Attrs) } else if len(respType.Properties) > 0 { if err := respType.SortProperties(); err != nil { return err } if existing, found := o.types.Find(respType.Name()); found { if st, ok := existing.(*StandardType); ok && reflect.DeepEqual(st.Properties, respType.Properties) { respType = st } else { respType.SetName(fmt.Sprintf(""%s_%s"", method, respType.Name())) } } o.types.Add(respType) r.Type = respType }";
   "match := supportedCode.MatchString(text)";
   "if !match { o.logger.Warnf(""Custom response code %s is not supported"", text) text = ""ok"" if r.Type != nil { if match = errType.MatchString(r.Type.Name()); match { text = ""error"" } } }";
   "r.Text = text";
   "ep.Responses = append(ep.Responses, r)";
   "return nil"].
Proof. reflexivity. Qed.

Lemma write_responses_shape_ok : write_responses_shape =
  ["if len(endpoint.Responses) > 0 { var outs []string for _, resp := range endpoint.Responses { newline := ""return "" typ := getSyslTypeName(resp.Type) text := resp.Text switch { case typ != """" && text != """": newline += fmt.Sprintf(""%s <: %s"", text, appendAttrsString(typ, resp.Type.Attributes())) case typ != """": newline += appendAttrsString(typ, resp.Type.Attributes()) default: newline += text } if !swag.ContainsStrings(outs, newline) { outs = append(outs, newline) } } sort.Strings(outs) w.writeLines(outs...) }"].
Proof. reflexivity. Qed.

Lemma safe_uri_shape_ok : safe_uri_shape =
  ["endpoint = escapeUnsafeSyslChars(endpoint)";
   "charsToKeep := map[string]string{ `%2F`: ""/"", `%7B`: ""{"", `%7D`: ""}"", `%3D`: ""="", `%3F`: ""?"", `%26`: ""&"", `%40`: ""@"", `%7E`: ""~"", }";
   "for hex, realChar := range charsToKeep { endpoint = strings.ReplaceAll(endpoint, hex, realChar) }";
   "return endpoint"].
Proof. reflexivity. Qed.

Lemma clean_path_shape_ok : clean_path_shape =
  ["return strings.NewReplacer( ""/"", ""_"", ""{"", ""_"", ""}"", ""_"", ""-"", ""_"").Replace(path)"].
Proof. reflexivity. Qed.

Lemma to_sysl_safe_shape_ok : to_sysl_safe_shape =
  ["if !strings.ContainsAny(name, ""- "") { return name }";
   "syslSafe := strings.Builder{}";
   "toUppercase := false";
   "for i := 0; i < len(name); i++ { switch name[i] { case '-': toUppercase = true case ' ': continue default: if toUppercase { syslSafe.WriteString(strings.ToUpper(string(name[i]))) toUppercase = false } else { syslSafe.WriteByte(name[i]) } } }";
   "return syslSafe.String()"].
Proof. reflexivity. Qed.

Notation carried_c := (carried safe_name_cur tname_c map_type_c resp_prefix_c).
Notation full_types_c := (full_types safe_name_cur is_builtin_c tname_c map_type_c resp_prefix_c).

Theorem import_complete_responses_current : forall doc ops op r,
  In op ops -> In (o_method op) method_rank -> In r (o_resps op) ->
  exists lines line, In (op_key op, lines) (import_returns_c doc ops) /\ In line lines
                     /\ carried_c op r (full_types_c doc ops) line.
Proof. exact (import_complete_responses safe_name_cur is_builtin_c tname_c map_type_c resp_prefix_c). Qed.

Theorem generated_type_compiled_current : forall doc ops n fs,
  In (IStandard n fs) (full_types_c doc ops) ->
  In (unesc_c (tname_c n), TTuple (map (cfield fname_c unesc_c native_c) fs)) (import_full_c doc ops).
Proof. exact (generated_type_compiled safe_name_cur is_builtin_c tname_c fname_c unesc_c map_type_c native_c resp_prefix_c). Qed.

Theorem responses_conservative_current : forall doc ops,
  (forall op, In op ops -> no_generated op) -> import_full_c doc ops = import_c doc.
Proof. exact (responses_conservative safe_name_cur is_builtin_c tname_c fname_c unesc_c map_type_c native_c resp_prefix_c). Qed.

(* ---------------- computed examples (tests, not theorems) ---------------- *)
Definition pet_doc : oasdoc := [(of_string "Pet", OObject [mkp (of_string "id") (FPrim "string" "") false] [])].
Definition json : bs := of_string "application/json".
Definition xml : bs := of_string "application/xml".
(* two methods of one path, the same status code, several media types, DIFFERENT schemas: the second type is named
   with its method (before fixes/C11-7 both were `_items_201`, merged by the compiler, in map order) *)
Definition clash_ops : list oop :=
  [mko (of_string "/items") "PATCH" [json; xml] [mkr (of_string "201") (Some (FPrim "integer" "int64")) false];
   mko (of_string "/items") "PUT" [json; xml] [mkr (of_string "201") (Some (FRef (of_string "Pet"))) true;
                                               mkr (of_string "default") (Some (FRef (of_string "Pet"))) false;
                                               mkr (of_string "404") None false]].
Example clash_types :
  map fst (import_full_c pet_doc clash_ops)
  = [of_string "PATCH__items_201"; of_string "Pet"; of_string "_items_201"; of_string "_items_default"].
Proof. vm_compute. reflexivity. Qed.
Example clash_returns :
  import_returns_c pet_doc clash_ops
  = [(of_string "PUT /items", [of_string "201 <: _items_201"; of_string "404"; of_string "ok <: _items_default"]);
     (of_string "PATCH /items", [of_string "201 <: PATCH__items_201"])].
Proof. vm_compute. reflexivity. Qed.
Example clash_fields :
  lookup (of_string "_items_201") (import_full_c pet_doc clash_ops)
  = Some (TTuple [(of_string "PetApplicationJson", mkf "REF" 0 (of_string "Pet") false true);
                  (of_string "PetApplicationXml", mkf "REF" 0 (of_string "Pet") false true)])
  /\ lookup (of_string "PATCH__items_201") (import_full_c pet_doc clash_ops)
     = Some (TTuple [(of_string "int64ApplicationJson", mkf "INT" 64 [] false false);
                     (of_string "int64ApplicationXml", mkf "INT" 64 [] false false)]).
Proof. vm_compute. split; reflexivity. Qed.
(* the same schema under the same name is shared, not duplicated *)
Example shared_type :
  map fst (import_full_c pet_doc
    [mko (of_string "/items") "GET" [json; xml] [mkr (of_string "200") (Some (FRef (of_string "Pet"))) false];
     mko (of_string "/items") "POST" [xml; json] [mkr (of_string "200") (Some (FRef (of_string "Pet"))) false]])
  = [of_string "Pet"; of_string "_items_200"].
Proof. vm_compute. reflexivity. Qed.
(* a single media type: the response is the type itself, with the media type as an attribute; `default` is written
   ok, or error when the type's name ends in "error" / starts with "Error" *)
Example single_media_returns :
  import_returns_c [(of_string "ErrorModel", OObject [mkp (of_string "m") (FPrim "string" "") false] [])]
    [mko (of_string "/pets/{id}") "GET" [json]
       [mkr (of_string "200") (Some (FPrim "string" "email")) true; mkr (of_string "default") (Some (FRef (of_string "ErrorModel"))) false]]
  = [(of_string "GET /pets/{id}",
      [of_string "200 <: sequence of string [mediatype=""application/json""]";
       of_string "error <: ErrorModel [mediatype=""application/json""]"])].
Proof. vm_compute. reflexivity. Qed.
(* non-vacuity of responses_conservative *)
Example conservative_hyp :
  forall op, In op [mko (of_string "/pets") "GET" [json] [mkr (of_string "200") (Some (FRef (of_string "Pet"))) false]] -> no_generated op.
Proof. intros op [<-|[]]. left. cbn. apply le_n. Qed.

(* ---------------- non-vacuity of the hypotheses of the body / definition theorems ---------------- *)
Definition body_ex (mts:list bs) : oendpoint :=
  mke (of_string "/pets") "POST" [mkq (of_string "trace") "header" true "string" ""]
      [mkq (of_string "verbose") "query" false "boolean" ""] (Some (of_string "Pet")) mts.
Example body_hypotheses_met :
  NoDup (map ekey (body_entries safe_name_cur (body_ex [json; xml])))
  /\ (forall x, In x (body_entries safe_name_cur (body_ex [json; xml])) ->
        ~ In (ekey x) (map q_name (extend (e_common (body_ex [json; xml])) (e_own (body_ex [json; xml])))))
  /\ body_text_order safe_name_cur (body_ex [json; xml]) = body_text_order safe_name_cur (body_ex [xml; json])
  /\ ep_body (snd (endpoint_proj safe_name_cur unesc_c map_type_c native_c (body_ex [xml; json])))
     = [(of_string "Pet", xml); (of_string "Pet", json)].
Proof.
  split; [apply nodupb_NoDup; vm_compute; reflexivity|]. split.
  - intros x Hx. vm_compute in Hx. destruct Hx as [<-|[<-|[]]]; vm_compute; intros [E|[E|[]]]; discriminate E.
  - split; vm_compute; reflexivity.
Qed.

Definition prim_defs : oasdoc := [(of_string "Cnt", OPrim "integer" "uint64"); (of_string "When", OPrim "string" "date-time")].
Example prim_definition_hypotheses_met :
  doc_ok safe_name_cur is_builtin_c tname_c map_type_c prim_defs /\ NoDup (map fst (import_c prim_defs))
  /\ (exists fm, sassoc (slower "integer") oas_type_table = Some fm)
  /\ lookup (of_string "When") (import_c prim_defs) = Some (TAlias (mkf "DATETIME" 0 [] false false)).
Proof.
  split; [apply doc_okb_spec; vm_compute; reflexivity|]. split; [apply nodupb_NoDup; vm_compute; reflexivity|].
  split; [eexists; vm_compute; reflexivity|vm_compute; reflexivity].
Qed.
