(* C09 model, part 3: the post-processing that runs again when a compiled model is imported
   (pkg/parse/parse.go postProcess, on the module that mergo.Merge filled from the decoded file).

   Covered (transliterated): the loop over application names in sorted order; copying of mixin types and views
   (`-|>`, looked up in the module AS IT IS AT THAT MOMENT, so an earlier application sees what a later one has
   not received yet); collectorPubSubCalls / applyAttributes / mergeAttrs (which copies what it stores since
   ee84ca3: no attribute object is shared, a merge changes only its destination).
   Not covered: fixTypeRefScope / fixParamTypeRef (rewrites of deep type references), inferTypes (view
   expression types), renestTypes (off unless SYSL_DEV_RENEST_FLATTENED_TYPES is set), lint, checkEndpointCalls
   (read-only). The harness generates inputs on which these leave the projected parts alone and the Go oracle
   compares the complete applications.

   Names and values are positive identifiers owned by the harness (identifier order = byte order of the
   spelling, so association lists sorted by identifier are in the order of Go's sorted output); two attribute
   values or array elements get the same identifier iff they are proto.Equal.
   Definitions only; proofs in PostProcessProps.v. *)
From Coq Require Import List Bool PArith.
Import ListNotations.
Require Import Verif.Base.Harness.

(* AVal v: any attribute that is not an array (v identifies the whole message);
   AArr meta es: an array attribute: its elements, and meta = the rest of the message (source context) *)
Inductive attr := AVal (v:positive) | AArr (meta:positive) (es:list positive).

(* C = what an attribute map holds (always `attr`; kept as a parameter of the spine) *)
Inductive stmt (C:Type) :=
| SCall (t e:positive) (a:list (positive * C))    (* target (identifier of the list of name parts), endpoint, attrs *)
| SAction (act:positive) (a:list (positive * C))
| SRet
| SBlock (body:list (stmt C))                     (* if / loop / for each / group *)
| SAlt (choices:list (stmt C))                    (* one of: every choice is an SBlock *)
| SBad.                                           (* no statement kind set: the collector code panics on it *)
Arguments SCall {C}. Arguments SAction {C}. Arguments SRet {C}. Arguments SBlock {C}. Arguments SAlt {C}. Arguments SBad {C}.

Record endpoint (C:Type) := { e_attrs : list (positive * C); e_stmts : list (stmt C) }.
Arguments e_attrs {C}. Arguments e_stmts {C}. Arguments Build_endpoint {C}.

Record app (C:Type) := {
  a_mixins : list positive;                     (* names of the mixin sources, as application keys *)
  a_types : list (positive * positive);         (* type name -> identity of the type value *)
  a_views : list (positive * positive);
  a_eps : list (positive * endpoint C)
}.
Arguments a_mixins {C}. Arguments a_types {C}. Arguments a_views {C}. Arguments a_eps {C}. Arguments Build_app {C}.

Definition pmodule := list (positive * app attr).      (* sorted by name *)

(* ---- association lists sorted by key ---- *)
Fixpoint lookup {V} (k:positive) (l:list (positive * V)) : option V :=
  match l with
  | [] => None
  | (k', v) :: r => if Pos.eqb k k' then Some v else lookup k r
  end.

Fixpoint put {V} (k:positive) (v:V) (l:list (positive * V)) : list (positive * V) :=
  match l with
  | [] => [(k, v)]
  | (k', v') :: r =>
      if Pos.eqb k k' then (k, v) :: r
      else if Pos.ltb k k' then (k, v) :: l
      else (k', v') :: put k v r
  end.

(* for k, v := range src { if _, has := dst[k]; !has { dst[k] = v } } *)
Fixpoint add_missing {V} (src dst:list (positive * V)) : list (positive * V) :=
  match src with
  | [] => dst
  | (k, v) :: r => add_missing r (match lookup k dst with Some _ => dst | None => put k v dst end)
  end.

(* ---- mixins ---- *)
Definition mix_one {C} (m:list (positive * app C)) (a:app C) (src:positive) : app C :=
  match lookup src m with
  | None => a
  | Some s => {| a_mixins := a_mixins a; a_types := add_missing (a_types s) (a_types a);
                 a_views := add_missing (a_views s) (a_views a); a_eps := a_eps a |}
  end.
Definition mix_all {C} (m:list (positive * app C)) (a:app C) : app C := fold_left (mix_one m) (a_mixins a) a.

(* ---- collector ----
   mergeAttrs(src, dst) stores COPIES (proto.Clone) since ee84ca3: a merge changes only its destination, the collector
   statement's own attributes stay what they were and nothing is shared between the places a statement is merged
   into. One key: a new name is added, two arrays are concatenated, anything else is replaced. (`for k, v := range
   src` runs in map order; every key touches dst[k] only, so the order is immaterial - the model takes key order.) *)
Definition merge_key (src:list (positive * attr)) (k:positive) (dst:list (positive * attr)) : list (positive * attr) :=
  match lookup k src with
  | None => dst
  | Some v =>
      match lookup k dst, v with
      | Some (AArr dm de), AArr _ ve => put k (AArr dm (de ++ ve)) dst     (* dstAttr.A.Elt = append(dstAttr.A.Elt, clones...) *)
      | _, _ => put k v dst                                                 (* dst[k] = clone(v) *)
      end
  end.

Definition merge (src dst:list (positive * attr)) : list (positive * attr) :=
  fold_left (fun d k => merge_key src k d) (map fst src) dst.

(* applyAttributes(src = a collector statement calling t <- e with attributes `src`, dst): every call statement of the
   same target below dst, at any depth *)
Fixpoint apply_stmt (src:list (positive * attr)) (t e:positive) (s:stmt attr) {struct s} : stmt attr :=
  match s with
  | SCall t' e' a => if Pos.eqb t t' && Pos.eqb e e' then SCall t' e' (merge src a) else s
  | SBlock body => SBlock (map (apply_stmt src t e) body)
  | SAlt ch => SAlt (map (apply_stmt src t e) ch)
  | _ => s
  end.

(* ... which panics ("collector: unhandled type") on a statement without a kind, wherever it sits: the walk visits
   every statement (`applied = applyAttributes(..) || applied` evaluates the call first) *)
Fixpoint no_bad {C} (s:stmt C) : bool :=
  match s with
  | SBad => false
  | SBlock b => forallb no_bad b
  | SAlt b => forallb no_bad b
  | _ => true
  end.

Definition is_coll_stmt {C} (s:stmt C) : bool := match s with SAction _ _ | SCall _ _ _ => true | _ => false end.
Definition is_call {C} (s:stmt C) : bool := match s with SCall _ _ _ => true | _ => false end.

(* one statement of the collector endpoint (attributes of the statement = src) *)
Definition collect_one (cn:positive) (s:stmt attr) (eps:list (positive * endpoint attr)) : list (positive * endpoint attr) :=
  match s with
  | SAction act src =>
      match lookup act eps with
      | None => eps                                (* "calls non-existent endpoint": logged, skipped *)
      | Some ep => put act {| e_attrs := merge src (e_attrs ep); e_stmts := e_stmts ep |} eps
      end
  | SCall t e src =>                              (* for callEPName, callEndpoint := range app.Endpoints { skip the collector } *)
      map (fun p => let '(n, ep) := p in
             if Pos.eqb n cn then (n, ep)
             else (n, {| e_attrs := e_attrs ep; e_stmts := map (apply_stmt src t e) (e_stmts ep) |})) eps
  | _ => eps
  end.

(* does collectorPubSubCalls panic? on a collector statement that is neither action nor call, or - as soon as one
   collector statement is a call - on a kind-less statement in any other endpoint. (Statement kinds never change, so
   this can be decided up front; a panic discards everything done before it.) *)
Definition collect_panics (cn:positive) (cstmts:list (stmt attr)) (eps:list (positive * endpoint attr)) : bool :=
  existsb (fun s => negb (is_coll_stmt s)) cstmts ||
  (existsb is_call cstmts &&
   negb (forallb (fun p => Pos.eqb (fst p) cn || forallb no_bad (e_stmts (snd p))) eps)).

(* collectorPubSubCalls(appName, app): None = panic *)
Definition collector (cn:positive) (eps:list (positive * endpoint attr)) : option (list (positive * endpoint attr)) :=
  match lookup cn eps with
  | None => Some eps
  | Some cep =>
      if collect_panics cn (e_stmts cep) eps then None
      else Some (fold_left (fun x s => collect_one cn s x) (e_stmts cep) eps)
  end.

Definition stmt_attrs (s:stmt attr) : list (positive * attr) :=
  match s with SCall _ _ a | SAction _ a => a | _ => [] end.

(* postProcess: `for _, appName := range appNames` (sorted) { app := mod.Apps[appName]; ... } - the module is a list
   sorted by name, so this is one pass over the list in which every application is rebuilt in place against the
   module as it is at that moment: `done` = the applications already rebuilt, `todo` = this one and those to come *)
Definition step_app (cn:positive) (m:pmodule) (a:app attr) : option (app attr) :=
  let a1 := mix_all m a in
  match collector cn (a_eps a1) with
  | None => None
  | Some eps' => Some {| a_mixins := a_mixins a1; a_types := a_types a1; a_views := a_views a1; a_eps := eps' |}
  end.

Fixpoint post_go (cn:positive) (done todo:pmodule) : option pmodule :=
  match todo with
  | [] => Some done
  | (n, a) :: r =>
      match step_app cn (done ++ todo) a with
      | None => None
      | Some a' => post_go cn (done ++ [(n, a')]) r
      end
  end.

Definition post (cn:positive) (m:pmodule) : option pmodule := post_go cn [] m.

(* ---- equality of observations ---- *)
Definition attr_eqb (a b:attr) : bool :=
  match a, b with
  | AVal x, AVal y => Pos.eqb x y
  | AArr m x, AArr n y => Pos.eqb m n && list_eqb Pos.eqb x y
  | _, _ => false
  end.
Definition kv_eqb {V} (e:V -> V -> bool) (a b:positive * V) : bool := Pos.eqb (fst a) (fst b) && e (snd a) (snd b).
Definition attrs_eqb (a b:list (positive * attr)) : bool := list_eqb (kv_eqb attr_eqb) a b.
Fixpoint stmt_eqb (a b:stmt attr) {struct a} : bool :=
  let fix go (x y:list (stmt attr)) {struct x} : bool :=
    match x, y with [], [] => true | s :: x', t :: y' => stmt_eqb s t && go x' y' | _, _ => false end in
  match a, b with
  | SCall t e x, SCall t' e' y => Pos.eqb t t' && Pos.eqb e e' && attrs_eqb x y
  | SAction n x, SAction n' y => Pos.eqb n n' && attrs_eqb x y
  | SRet, SRet | SBad, SBad => true
  | SBlock x, SBlock y => go x y
  | SAlt x, SAlt y => go x y
  | _, _ => false
  end.
Definition ep_eqb (a b:endpoint attr) : bool :=
  attrs_eqb (e_attrs a) (e_attrs b) && list_eqb stmt_eqb (e_stmts a) (e_stmts b).
Definition app_eqb (a b:app attr) : bool :=
  list_eqb Pos.eqb (a_mixins a) (a_mixins b) && list_eqb (kv_eqb Pos.eqb) (a_types a) (a_types b) &&
  list_eqb (kv_eqb Pos.eqb) (a_views a) (a_views b) && list_eqb (kv_eqb ep_eqb) (a_eps a) (a_eps b).
Definition pmodule_eqb (a b:pmodule) : bool := list_eqb (kv_eqb app_eqb) a b.
