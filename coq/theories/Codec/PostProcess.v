(* C09 model, part 3: the post-processing that runs again when a compiled model is imported
   (pkg/parse/parse.go postProcess, on the module that mergo.Merge filled from the decoded file).

   Covered (transliterated): the loop over application names in sorted order; copying of mixin types and views
   (`-|>`, looked up in the module AS IT IS AT THAT MOMENT, so an earlier application sees what a later one has
   not received yet); collectorPubSubCalls / applyAttributes / mergeAttrs including Go's pointer sharing:
   `dst[k] = v` stores the collector statement's own *Attribute, so a later append through one holder is seen
   by every holder and by the collector statement itself.
   Not covered: fixTypeRefScope / fixParamTypeRef (rewrites of deep type references), inferTypes (view
   expression types), renestTypes (off unless SYSL_DEV_RENEST_FLATTENED_TYPES is set), lint, checkEndpointCalls
   (read-only). The harness generates inputs on which these leave the projected parts alone and the Go oracle
   compares the complete applications.

   Names and values are positive identifiers owned by the harness (identifier order = byte order of the
   spelling, so association lists sorted by identifier are in the order of Go's sorted output); two attribute
   values or array elements get the same identifier iff they are proto.Equal.
   Definitions only; proofs in PostProcessProps.v. *)
From Coq Require Import List Bool PArith.
Import ListNotations.
Require Import Verif.Base.Harness.

(* AVal v: any attribute that is not an array (v identifies the whole message);
   AArr meta es: an array attribute: its elements, and meta = the rest of the message (source context) *)
Inductive attr := AVal (v:positive) | AArr (meta:positive) (es:list positive).

(* C = what an attribute map holds: a value (outside), or a cell that may be shared (inside) *)
Inductive stmt (C:Type) :=
| SCall (t e:positive) (a:list (positive * C))    (* target (identifier of the list of name parts), endpoint, attrs *)
| SAction (act:positive) (a:list (positive * C))
| SRet
| SBlock (body:list (stmt C))                     (* if / loop / for each / group *)
| SAlt (choices:list (stmt C))                    (* one of: every choice is an SBlock *)
| SBad.                                           (* no statement kind set: the collector code panics on it *)
Arguments SCall {C}. Arguments SAction {C}. Arguments SRet {C}. Arguments SBlock {C}. Arguments SAlt {C}. Arguments SBad {C}.

Record endpoint (C:Type) := { e_attrs : list (positive * C); e_stmts : list (stmt C) }.
Arguments e_attrs {C}. Arguments e_stmts {C}. Arguments Build_endpoint {C}.

Record app (C:Type) := {
  a_mixins : list positive;                     (* names of the mixin sources, as application keys *)
  a_types : list (positive * positive);         (* type name -> identity of the type value *)
  a_views : list (positive * positive);
  a_eps : list (positive * endpoint C)
}.
Arguments a_mixins {C}. Arguments a_types {C}. Arguments a_views {C}. Arguments a_eps {C}. Arguments Build_app {C}.

Definition pmodule := list (positive * app attr).      (* sorted by name *)

(* ---- association lists sorted by key ---- *)
Fixpoint lookup {V} (k:positive) (l:list (positive * V)) : option V :=
  match l with
  | [] => None
  | (k', v) :: r => if Pos.eqb k k' then Some v else lookup k r
  end.

Fixpoint put {V} (k:positive) (v:V) (l:list (positive * V)) : list (positive * V) :=
  match l with
  | [] => [(k, v)]
  | (k', v') :: r =>
      if Pos.eqb k k' then (k, v) :: r
      else if Pos.ltb k k' then (k, v) :: l
      else (k', v') :: put k v r
  end.

(* for k, v := range src { if _, has := dst[k]; !has { dst[k] = v } } *)
Fixpoint add_missing {V} (src dst:list (positive * V)) : list (positive * V) :=
  match src with
  | [] => dst
  | (k, v) :: r => add_missing r (match lookup k dst with Some _ => dst | None => put k v dst end)
  end.

(* ---- mixins ---- *)
Definition mix_one {C} (m:list (positive * app C)) (a:app C) (src:positive) : app C :=
  match lookup src m with
  | None => a
  | Some s => {| a_mixins := a_mixins a; a_types := add_missing (a_types s) (a_types a);
                 a_views := add_missing (a_views s) (a_views a); a_eps := a_eps a |}
  end.
Definition mix_all {C} (m:list (positive * app C)) (a:app C) : app C := fold_left (mix_one m) (a_mixins a) a.

(* ---- collector, with sharing ---- *)
Inductive cell := Own (a:attr) | Shared (j:nat).   (* Shared j: the attribute object of collector statement j, same key *)

Definition ctab := list (list (positive * attr)).  (* current attributes of the collector statements *)

Definition tab_get (ct:ctab) (j:nat) (k:positive) : option attr :=
  match nth_error ct j with Some a => lookup k a | None => None end.
Fixpoint tab_set (ct:ctab) (j:nat) (k:positive) (v:attr) : ctab :=
  match ct, j with
  | [], _ => []
  | a :: r, O => put k v a :: r
  | a :: r, S j' => a :: tab_set r j' k v
  end.

Definition deref (ct:ctab) (k:positive) (c:cell) : option attr :=
  match c with Own a => Some a | Shared j => tab_get ct j k end.

(* mergeAttrs(src = attributes of collector statement j, dst), one key *)
Definition merge_key (j:nat) (k:positive) (st:list (positive * cell) * ctab) : list (positive * cell) * ctab :=
  let (dst, ct) := st in
  match tab_get ct j k with
  | None => st
  | Some v =>
      match lookup k dst with
      | None => (put k (Shared j) dst, ct)
      | Some c =>
          match deref ct k c, v with
          | Some (AArr dm de), AArr _ ve =>       (* dstAttr.A.Elt = append(dstAttr.A.Elt, vAttr.A.Elt...) *)
              match c with
              | Own _ => (put k (Own (AArr dm (de ++ ve))) dst, ct)
              | Shared j' => (dst, tab_set ct j' k (AArr dm (de ++ ve)))
              end
          | _, _ => (put k (Shared j) dst, ct)
          end
      end
  end.

Definition merge (j:nat) (dst:list (positive * cell)) (ct:ctab) : list (positive * cell) * ctab :=
  match nth_error ct j with
  | None => (dst, ct)
  | Some src => fold_left (fun st k => merge_key j k st) (map fst src) (dst, ct)
  end.

Record cstate := { cs_tab : ctab; cs_bad : bool }.

(* state-passing map over a list (the loops `for _, stmt := range stmts { applied = applyAttributes(src, stmt) || applied }`) *)
Definition map_st {A S:Type} (f:A -> S -> A * S) : list A -> S -> list A * S :=
  fix go (l:list A) (st:S) {struct l} : list A * S :=
    match l with
    | [] => ([], st)
    | x :: r => let (x', s1) := f x st in let (r', s2) := go r s1 in (x' :: r', s2)
    end.

(* applyAttributes(src = collector statement j calling t <- e, dst) *)
Fixpoint apply_stmt (j:nat) (t e:positive) (s:stmt cell) (st:cstate) {struct s} : stmt cell * cstate :=
  match s with
  | SCall t' e' a =>
      if Pos.eqb t t' && Pos.eqb e e' then
        let (a', ct') := merge j a (cs_tab st) in (SCall t' e' a', {| cs_tab := ct'; cs_bad := cs_bad st |})
      else (s, st)
  | SAction _ _ | SRet => (s, st)
  | SBlock body => let (b', s1) := map_st (apply_stmt j t e) body st in (SBlock b', s1)
  | SAlt ch => let (c', s1) := map_st (apply_stmt j t e) ch st in (SAlt c', s1)
  | SBad => (s, {| cs_tab := cs_tab st; cs_bad := true |})
  end.

Definition apply_stmts (j:nat) (t e:positive) : list (stmt cell) -> cstate -> list (stmt cell) * cstate :=
  map_st (apply_stmt j t e).

(* for callEPName, callEndpoint := range app.Endpoints { skip the collector; apply to every statement } *)
Fixpoint apply_eps (cn:positive) (j:nat) (t e:positive) (eps:list (positive * endpoint cell)) (st:cstate)
  : list (positive * endpoint cell) * cstate :=
  match eps with
  | [] => ([], st)
  | (n, ep) :: r =>
      if Pos.eqb n cn then let (r', s2) := apply_eps cn j t e r st in ((n, ep) :: r', s2)
      else
        let (ss, s1) := apply_stmts j t e (e_stmts ep) st in
        let (r', s2) := apply_eps cn j t e r s1 in
        ((n, {| e_attrs := e_attrs ep; e_stmts := ss |}) :: r', s2)
  end.

(* one statement of the collector endpoint *)
Definition collect_one (cn:positive) (j:nat) (s:stmt attr) (st:list (positive * endpoint cell) * cstate)
  : list (positive * endpoint cell) * cstate :=
  let (eps, cs) := st in
  match s with
  | SAction act _ =>
      match lookup act eps with
      | None => st
      | Some ep =>
          let (a', ct') := merge j (e_attrs ep) (cs_tab cs) in
          (put act {| e_attrs := a'; e_stmts := e_stmts ep |} eps, {| cs_tab := ct'; cs_bad := cs_bad cs |})
      end
  | SCall t e _ => apply_eps cn j t e eps cs
  | _ => (eps, {| cs_tab := cs_tab cs; cs_bad := true |})
  end.

Fixpoint collect_all (cn:positive) (j:nat) (l:list (stmt attr)) (st:list (positive * endpoint cell) * cstate) :=
  match l with
  | [] => st
  | s :: r => collect_all cn (S j) r (collect_one cn j s st)
  end.

(* load / observe: a decoded module shares nothing; what is serialised are the values *)
Definition load_attrs (a:list (positive * attr)) : list (positive * cell) := map (fun p => (fst p, Own (snd p))) a.
Fixpoint load_stmt (s:stmt attr) : stmt cell :=
  match s with
  | SCall t e a => SCall t e (load_attrs a)
  | SAction x a => SAction x (load_attrs a)
  | SRet => SRet
  | SBlock b => SBlock (map load_stmt b)
  | SAlt ch => SAlt (map load_stmt ch)
  | SBad => SBad
  end.
Definition load_ep (e:endpoint attr) : endpoint cell := {| e_attrs := load_attrs (e_attrs e); e_stmts := map load_stmt (e_stmts e) |}.

Definition obs_cell (ct:ctab) (p:positive * cell) : positive * attr :=
  (fst p, match deref ct (fst p) (snd p) with Some a => a | None => AVal 1 end).
Definition obs_attrs (ct:ctab) (a:list (positive * cell)) : list (positive * attr) := map (obs_cell ct) a.
Fixpoint obs_stmt (ct:ctab) (s:stmt cell) : stmt attr :=
  match s with
  | SCall t e a => SCall t e (obs_attrs ct a)
  | SAction x a => SAction x (obs_attrs ct a)
  | SRet => SRet
  | SBlock b => SBlock (map (obs_stmt ct) b)
  | SAlt ch => SAlt (map (obs_stmt ct) ch)
  | SBad => SBad
  end.
Definition obs_ep (ct:ctab) (e:endpoint cell) : endpoint attr :=
  {| e_attrs := obs_attrs ct (e_attrs e); e_stmts := map (obs_stmt ct) (e_stmts e) |}.

Definition stmt_attrs (s:stmt attr) : list (positive * attr) :=
  match s with SCall _ _ a | SAction _ a => a | _ => [] end.
Definition set_stmt_attrs (s:stmt attr) (a:list (positive * attr)) : stmt attr :=
  match s with SCall t e _ => SCall t e a | SAction x _ => SAction x a | _ => s end.

(* collectorPubSubCalls(appName, app): None = panic *)
Definition collector (cn:positive) (eps:list (positive * endpoint attr)) : option (list (positive * endpoint attr)) :=
  match lookup cn eps with
  | None => Some eps
  | Some cep =>
      let ct0 := map stmt_attrs (e_stmts cep) in
      let ieps := map (fun p => (fst p, load_ep (snd p))) eps in
      let (ieps', cs) := collect_all cn O (e_stmts cep) (ieps, {| cs_tab := ct0; cs_bad := false |}) in
      if cs_bad cs then None
      else
        let out := map (fun p => (fst p, obs_ep (cs_tab cs) (snd p))) ieps' in
        (* the collector endpoint's own statements carry the (possibly grown) attribute objects *)
        match lookup cn out with
        | None => Some out
        | Some c' =>
            let stmts' := map (fun p => set_stmt_attrs (fst p) (snd p)) (combine (e_stmts c') (cs_tab cs)) in
            Some (put cn {| e_attrs := e_attrs c'; e_stmts := stmts' |} out)
        end
  end.

(* postProcess: `for _, appName := range appNames` (sorted) { app := mod.Apps[appName]; ... } - the module is a list
   sorted by name, so this is one pass over the list in which every application is rebuilt in place against the
   module as it is at that moment: `done` = the applications already rebuilt, `todo` = this one and those to come *)
Definition step_app (cn:positive) (m:pmodule) (a:app attr) : option (app attr) :=
  let a1 := mix_all m a in
  match collector cn (a_eps a1) with
  | None => None
  | Some eps' => Some {| a_mixins := a_mixins a1; a_types := a_types a1; a_views := a_views a1; a_eps := eps' |}
  end.

Fixpoint post_go (cn:positive) (done todo:pmodule) : option pmodule :=
  match todo with
  | [] => Some done
  | (n, a) :: r =>
      match step_app cn (done ++ todo) a with
      | None => None
      | Some a' => post_go cn (done ++ [(n, a')]) r
      end
  end.

Definition post (cn:positive) (m:pmodule) : option pmodule := post_go cn [] m.

(* ---- equality of observations ---- *)
Definition attr_eqb (a b:attr) : bool :=
  match a, b with
  | AVal x, AVal y => Pos.eqb x y
  | AArr m x, AArr n y => Pos.eqb m n && list_eqb Pos.eqb x y
  | _, _ => false
  end.
Definition kv_eqb {V} (e:V -> V -> bool) (a b:positive * V) : bool := Pos.eqb (fst a) (fst b) && e (snd a) (snd b).
Definition attrs_eqb (a b:list (positive * attr)) : bool := list_eqb (kv_eqb attr_eqb) a b.
Fixpoint stmt_eqb (a b:stmt attr) {struct a} : bool :=
  let fix go (x y:list (stmt attr)) {struct x} : bool :=
    match x, y with [], [] => true | s :: x', t :: y' => stmt_eqb s t && go x' y' | _, _ => false end in
  match a, b with
  | SCall t e x, SCall t' e' y => Pos.eqb t t' && Pos.eqb e e' && attrs_eqb x y
  | SAction n x, SAction n' y => Pos.eqb n n' && attrs_eqb x y
  | SRet, SRet | SBad, SBad => true
  | SBlock x, SBlock y => go x y
  | SAlt x, SAlt y => go x y
  | _, _ => false
  end.
Definition ep_eqb (a b:endpoint attr) : bool :=
  attrs_eqb (e_attrs a) (e_attrs b) && list_eqb stmt_eqb (e_stmts a) (e_stmts b).
Definition app_eqb (a b:app attr) : bool :=
  list_eqb Pos.eqb (a_mixins a) (a_mixins b) && list_eqb (kv_eqb Pos.eqb) (a_types a) (a_types b) &&
  list_eqb (kv_eqb Pos.eqb) (a_views a) (a_views b) && list_eqb (kv_eqb ep_eqb) (a_eps a) (a_eps b).
Definition pmodule_eqb (a b:pmodule) : bool := list_eqb (kv_eqb app_eqb) a b.
