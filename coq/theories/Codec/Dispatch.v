(* C09 model, part 2: which decoder a file name selects (pkg/pbutil/input.go fromPBContents / FromPB).
   The arms of the switch come from Gen/PbDispatch.v (regenerated from the source on every run); this file
   gives them their meaning: the first arm whose suffix the path ends with decides, otherwise the value
   returned after the switch. strings.HasSuffix is modelled on byte lists. Definitions only. *)
From Coq Require Import String Ascii List Bool.
Import ListNotations.

Inductive decoder :=
| DecBinary     (* proto.Unmarshal *)
| DecJson       (* protojson.Unmarshal *)
| DecText       (* prototext.Unmarshal *)
| DecUnknown    (* ErrUnknownExtension: the caller falls through to the foreign-format importers *)
| DecOther.     (* the translator could not classify the arm *)

Definition decoder_eqb (a b:decoder) : bool :=
  match a, b with
  | DecBinary, DecBinary | DecJson, DecJson | DecText, DecText | DecUnknown, DecUnknown | DecOther, DecOther => true
  | _, _ => false
  end.

Fixpoint prefixb (a b:list ascii) : bool :=
  match a, b with
  | [], _ => true
  | x :: a', y :: b' => Ascii.eqb x y && prefixb a' b'
  | _ :: _, [] => false
  end.

(* strings.HasSuffix(p, s) *)
Definition has_suffix (p s:list ascii) : bool := prefixb (rev s) (rev p).

Fixpoint dispatch (cases:list (string * decoder)) (after:decoder) (path:list ascii) : decoder :=
  match cases with
  | [] => after
  | (suf, d) :: cs => if has_suffix path (list_ascii_of_string suf) then d else dispatch cs after path
  end.

(* FromPB (reading a file named on the command line): an unknown extension is tried as binary *)
Definition dispatch_file (cases:list (string * decoder)) (after fallback:decoder) (path:list ascii) : decoder :=
  match dispatch cases after path with DecUnknown => fallback | d => d end.

(* the output modes of `sysl protobuf --mode`, the file suffix each is conventionally written to
   (docs/docs/cmd/cmd-protobuf.md, docs/docs/lang/import.md), and the encoder behind it *)
Local Open Scope string_scope.
Definition mode_suffix (m:string) : string :=
  if String.eqb m "pb" then ".pb" else if String.eqb m "json" then ".pb.json" else if String.eqb m "textpb" then ".textpb" else "".
Definition mode_encoder (m:string) : decoder :=
  if String.eqb m "pb" then DecBinary else if String.eqb m "json" then DecJson else if String.eqb m "textpb" then DecText else DecOther.

(* the extensions an `import` statement may hand to a foreign-format importer: FileExt of the formats listed in
   parse.go detectFileType, looked up in the format table of pkg/importer/formats.go *)
Definition exts_of (formats:list (string * string * list string)) (v:string) : list string :=
  flat_map (fun f => if String.eqb (fst (fst f)) v then snd f else []) formats.
Definition foreign_exts (formats:list (string * string * list string)) (parser_formats:list string) : list string :=
  flat_map (exts_of formats) parser_formats.
