(* C09: the clean-up leaves every JSON string alone - keys, string elements and string values alike. A corollary of
   clean_removes_only_salt, stated on what the lines carry: the cleaned document prints from lines with exactly the
   same indentation, key / string bytes and rest-of-line bytes (a string VALUE is the rest of its key's line), for
   every document of protojson's line shape - whatever the strings hold (quote-colon-space, escaped quotes, backslashes, backslash-u
   escapes, any UTF-8). *)
From Coq Require Import String Ascii List Bool.
Import ListNotations.
Require Import Verif.Codec.JsonClean Verif.Codec.JsonCleanProps.

Inductive line_kind := KKey | KStr | KOther (c:ascii).

(* everything a line carries except the salt *)
Definition payload (l:line) : line_kind * nat * bytes * bytes :=
  match l with
  | LKey i k _ r => (KKey, i, k, r)
  | LStr i s t => (KStr, i, s, t)
  | LOther i c r => (KOther c, i, [], r)
  end.

Definition salted (l:line) : bool := match l with LKey _ _ s _ => s | _ => false end.

Theorem clean_keeps_strings ls : wf_doc ls = true ->
  exists ls', clean KeyEsc (print ls) = print ls' /\ map payload ls' = map payload ls /\ forallb (fun l => negb (salted l)) ls' = true.
Proof.
  intros H. exists (map desalt ls). split; [apply clean_removes_only_salt, H|]. split.
  - rewrite map_map. apply map_ext. intros [i k s r|i s t|i c r]; reflexivity.
  - rewrite forallb_forall. intros l Hin. apply in_map_iff in Hin. destruct Hin as [[i k s r|i s t|i c r] [<- _]]; reflexivity.
Qed.

(* a value that is a string with key-like text inside *)
Example string_value_untouched :
  let ls := [LOther 0 "{" []; LKey 1 (list_ascii_of_string "k") true (list_ascii_of_string """a\"":  b"",");
             LKey 1 (list_ascii_of_string "j\"":  x") true (list_ascii_of_string """\\u0041  \\\\"":  """); LOther 0 "}" []] in
  wf_doc ls = true /\ clean KeyEsc (print ls) = print (map desalt ls).
Proof. split; vm_compute; reflexivity. Qed.
