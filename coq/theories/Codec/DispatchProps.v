(* C09 proofs, part 2: every output mode's suffix selects the decoder of that mode's encoder, for every stem; every
   other name - in particular every name a foreign-format importer owns, bare .json included - is left alone.
   The two `reflexivity` lemmas about Gen/PbDispatch.v are the obligations against the current source. *)
From Coq Require Import String Ascii List Bool.
Import ListNotations.
Require Import Verif.Codec.Dispatch Verif.Gen.PbDispatch.
Local Open Scope string_scope.
Local Open Scope list_scope.

Definition expected_cases : list (string * decoder) := [(".pb", DecBinary); (".pb.json", DecJson); (".textpb", DecText)].

Lemma cases_as_expected : cases = expected_cases.
Proof. reflexivity. Qed.
Lemma after_is_unknown : after_switch = DecUnknown.
Proof. reflexivity. Qed.
Lemma fallback_is_binary : frompb_fallback = DecBinary.
Proof. reflexivity. Qed.
Lemma modes_as_expected : modes = ["textpb"; "json"; "pb"].
Proof. reflexivity. Qed.
Lemma foreign_exts_as_expected :
  foreign_exts formats parser_formats = [".yaml"; ".json"; ".yml"; ".yaml"; ".json"; ".yml"; ".sysl"; ".proto"].
Proof. reflexivity. Qed.

Notation B s := (list_ascii_of_string s).

Lemma prefixb_app a b : prefixb a (a ++ b) = true.
Proof. induction a as [|x a IH]; [reflexivity|]. cbn. rewrite Ascii.eqb_refl. exact IH. Qed.

Lemma has_suffix_app stem s : has_suffix (stem ++ s) s = true.
Proof. unfold has_suffix. rewrite rev_app_distr. apply prefixb_app. Qed.

(* if neither is a prefix of the other, nothing appended to b makes a a prefix *)
Lemma prefixb_split a b c : prefixb a (b ++ c) = true -> prefixb a b = true \/ prefixb b a = true.
Proof.
  revert b. induction a as [|x a IH]; intros b H; [left; reflexivity|].
  destruct b as [|y b]; [right; reflexivity|].
  cbn in H. apply andb_true_iff in H. destruct H as [Hxy H].
  destruct (IH b H) as [H1|H1]; [left|right]; cbn.
  - rewrite Hxy. exact H1.
  - rewrite Ascii.eqb_sym, Hxy. exact H1.
Qed.

Lemma no_overlap stem e s :
  has_suffix e s = false -> has_suffix s e = false -> has_suffix (stem ++ e) s = false.
Proof.
  unfold has_suffix. intros H1 H2. rewrite rev_app_distr.
  destruct (prefixb (rev s) (rev e ++ rev stem)) eqn:E; [|reflexivity].
  destruct (prefixb_split _ _ _ E) as [H|H]; congruence.
Qed.


(* .json after a stem ends with .pb.json exactly when the stem ends with .pb *)
Lemma pbjson_suffix stem : has_suffix (stem ++ B ".json") (B ".pb.json") = has_suffix stem (B ".pb").
Proof. unfold has_suffix. rewrite rev_app_distr. reflexivity. Qed.

(* each mode's conventional suffix selects the decoder of its own encoder, whatever the stem *)
Theorem dispatch_matches_encoders m stem :
  In m modes -> dispatch cases after_switch (stem ++ B (mode_suffix m)) = mode_encoder m.
Proof.
  intros Hin. rewrite cases_as_expected. cbn in Hin.
  destruct Hin as [<-|[<-|[<-|[]]]]; cbn [mode_suffix mode_encoder String.eqb Ascii.eqb Bool.eqb andb]; cbv iota;
    unfold expected_cases; cbn [dispatch].
  - (* textpb *)
    rewrite (no_overlap stem (B ".textpb") (B ".pb") eq_refl eq_refl).
    rewrite (no_overlap stem (B ".textpb") (B ".pb.json") eq_refl eq_refl).
    rewrite has_suffix_app. reflexivity.
  - (* json *)
    rewrite (no_overlap stem (B ".pb.json") (B ".pb") eq_refl eq_refl).
    rewrite has_suffix_app. reflexivity.
  - (* pb *)
    rewrite has_suffix_app. reflexivity.
Qed.

(* a name with none of the three suffixes is not decoded as a compiled model *)
Theorem dispatch_unknown_otherwise p :
  has_suffix p (B ".pb") = false -> has_suffix p (B ".pb.json") = false -> has_suffix p (B ".textpb") = false ->
  dispatch cases after_switch p = DecUnknown.
Proof. intros H1 H2 H3. rewrite cases_as_expected. cbn [expected_cases dispatch]. rewrite H1, H2, H3. reflexivity. Qed.

(* and conversely only those three are *)
Theorem dispatch_known_only_suffixes p :
  dispatch cases after_switch p <> DecUnknown ->
  has_suffix p (B ".pb") = true \/ has_suffix p (B ".pb.json") = true \/ has_suffix p (B ".textpb") = true.
Proof.
  intros H. destruct (has_suffix p (B ".pb")) eqn:H1; [tauto|].
  destruct (has_suffix p (B ".pb.json")) eqn:H2; [tauto|].
  destruct (has_suffix p (B ".textpb")) eqn:H3; [tauto|].
  exfalso. apply H. apply dispatch_unknown_otherwise; assumption.
Qed.

(* every extension a foreign-format importer may be given through `import` stays with that importer; for .json the
   stem must not itself end in .pb (x.pb.json is the JSON encoding of a compiled model) *)
Theorem dispatch_foreign_untouched ext stem :
  In ext (foreign_exts formats parser_formats) -> has_suffix stem (B ".pb") = false ->
  dispatch cases after_switch (stem ++ B ext) = DecUnknown.
Proof.
  intros Hin Hstem. rewrite foreign_exts_as_expected in Hin. apply dispatch_unknown_otherwise.
  - cbn in Hin. repeat destruct Hin as [<-|Hin]; try (apply no_overlap; reflexivity). destruct Hin.
  - cbn in Hin. repeat destruct Hin as [<-|Hin]; try (apply no_overlap; reflexivity);
      try (rewrite pbjson_suffix; exact Hstem). destruct Hin.
  - cbn in Hin. repeat destruct Hin as [<-|Hin]; try (apply no_overlap; reflexivity). destruct Hin.
Qed.

Corollary bare_json_is_unknown stem :
  has_suffix stem (B ".pb") = false -> dispatch cases after_switch (stem ++ B ".json") = DecUnknown.
Proof. intros H. apply (dispatch_foreign_untouched ".json" stem); [rewrite foreign_exts_as_expected; cbn; tauto|exact H]. Qed.

(* non-vacuity *)
Example dispatch_examples :
  dispatch cases after_switch (B "model.pb.json") = DecJson /\
  dispatch cases after_switch (B "petstore.json") = DecUnknown /\
  dispatch cases after_switch (B "a.textpb") = DecText /\
  dispatch_file cases after_switch frompb_fallback (B "model.bin") = DecBinary /\
  has_suffix (B "petstore") (B ".pb") = false.
Proof. repeat split; reflexivity. Qed.
