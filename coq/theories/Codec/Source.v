(* C09: what the CURRENT pkg/pbutil/output.go says (Gen/JsonRegex.v, regenerated on every run) meets the model.
   The `reflexivity` lemmas are the obligations against the source: they stop checking when the literal is not
   the escape-aware, line-anchored shape, when the template is not group 1, when the replace is no longer applied
   to exactly the marshalled bytes that are written, or when the marshal options change. *)
From Coq Require Import String Ascii List Bool NArith.
Import ListNotations.
Require Import Verif.Codec.JsonClean Verif.Codec.JsonCleanProps Verif.Gen.JsonRegex.
Local Open Scope string_scope.
Local Open Scope list_scope.

Lemma regex_is_escape_aware : regex = ast_of_shape KeyEsc.
Proof. reflexivity. Qed.

Lemma template_is_group1 : replace_template = "$1".
Proof. reflexivity. Qed.

Lemma replace_between_marshal_and_write : flow_ok = true.
Proof. reflexivity. Qed.

(* indented: one token per line, one space per level; compact: a single line, which the line-anchored expression
   never matches (it starts with an opening brace) *)
Lemma marshal_options :
  marshal_opts = [("EmitUnpopulated", "false"); ("Indent", """ """); ("Multiline", "true")] /\
  compact_opts = [("Indent", """"""); ("Multiline", "false")].
Proof. split; reflexivity. Qed.

Lemma source_shape : shape_of regex = Some KeyEsc.
Proof. rewrite regex_is_escape_aware. reflexivity. Qed.

(* the property for the expression in the source, whatever documents and salts *)
Theorem source_clean_removes_only_salt k ls :
  shape_of regex = Some k -> wf_doc ls = true -> clean k (print ls) = print (map desalt ls).
Proof. rewrite source_shape. intros [= <-]. apply clean_removes_only_salt. Qed.

(* compact output is one line that starts with a brace: left untouched by either shape *)
Lemma clean_compact k rest : no_nl rest = true -> clean k ("{"%char :: rest) = "{"%char :: rest.
Proof.
  intros H. unfold clean. change ("{"%char :: rest) with (["{"%char] ++ rest).
  assert (T : try_match k (["{"%char] ++ rest) = None) by (destruct k; reflexivity).
  cbn [app] in *. cbn [clean_go]. rewrite T. change (after "{"%char) with Mid. f_equal.
  rewrite <- (app_nil_r rest) at 1. rewrite clean_mid_chunk by exact H. rewrite app_nil_r. reflexivity.
Qed.
