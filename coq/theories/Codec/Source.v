(* C09: what the CURRENT pkg/pbutil/output.go says (Gen/JsonRegex.v, regenerated on every run) meets the model.
   The `reflexivity` lemmas are the obligations against the source: they stop checking when the literal is not
   the escape-aware, line-anchored shape, when the template is not group 1, when the replace is no longer applied
   to exactly the marshalled bytes that are written, or when the marshal options change. *)
From Coq Require Import String Ascii List Bool NArith.
Import ListNotations.
Require Import Verif.Codec.JsonClean Verif.Codec.JsonCleanProps Verif.Codec.FileWrite Verif.Gen.JsonRegex.
Local Open Scope string_scope.
Local Open Scope list_scope.

Lemma regex_is_escape_aware : regex = ast_of_shape KeyEsc.
Proof. reflexivity. Qed.

Lemma template_is_group1 : replace_template = "$1".
Proof. reflexivity. Qed.

Lemma replace_between_marshal_and_write : flow_ok = true.
Proof. reflexivity. Qed.

(* indented: one token per line, one space per level; compact: a single line, which the line-anchored expression
   never matches (it starts with an opening brace) *)
Lemma marshal_options :
  marshal_opts = [("EmitUnpopulated", "false"); ("Indent", """ """); ("Multiline", "true")] /\
  compact_opts = [("Indent", """"""); ("Multiline", "false")].
Proof. split; reflexivity. Qed.

Lemma source_shape : shape_of regex = Some KeyEsc.
Proof. rewrite regex_is_escape_aware. reflexivity. Qed.

(* the property for the expression in the source, whatever documents and salts *)
Theorem source_clean_removes_only_salt k ls :
  shape_of regex = Some k -> wf_doc ls = true -> clean k (print ls) = print (map desalt ls).
Proof. rewrite source_shape. intros [= <-]. apply clean_removes_only_salt. Qed.

(* compact output is one line that starts with a brace: left untouched by either shape *)
Lemma clean_compact k rest : no_nl rest = true -> clean k ("{"%char :: rest) = "{"%char :: rest.
Proof.
  intros H. unfold clean. change ("{"%char :: rest) with (["{"%char] ++ rest).
  assert (T : try_match k (["{"%char] ++ rest) = None) by (destruct k; reflexivity).
  cbn [app] in *. cbn [clean_go]. rewrite T. change (after "{"%char) with Mid. f_equal.
  rewrite <- (app_nil_r rest) at 1. rewrite clean_mid_chunk by exact H. rewrite app_nil_r. reflexivity.
Qed.

(* every file writer opens its path so that earlier content is replaced *)
Lemma file_writers_truncate :
  file_writers = [("GeneratePBBinaryMessageFile", OpenCreate); ("JSONPBWithOpt", OpenCreate); ("TextPBWithOpt", OpenCreate)].
Proof. reflexivity. Qed.

Lemma read_write_truncating m fs p b : truncates m = true -> exists fs', write_file m fs p b = Some fs' /\ read fs' p = Some b.
Proof.
  intros H. unfold write_file. destruct m; try discriminate; cbn [written]; eexists; (split; [reflexivity|]); cbn; rewrite String.eqb_refl; reflexivity.
Qed.

(* whatever the path held before (longer, shorter, unrelated), after any writer of the source the file holds
   exactly the encoding *)
Theorem written_file_is_the_encoding w m fs p b :
  In (w, m) file_writers -> exists fs', write_file m fs p b = Some fs' /\ read fs' p = Some b.
Proof.
  intros Hin. apply read_write_truncating. rewrite file_writers_truncate in Hin. cbn in Hin.
  destruct Hin as [[= _ <-]|[[= _ <-]|[[= _ <-]|[]]]]; reflexivity.
Qed.

(* without truncation a longer earlier content leaves a tail (why the obligation matters) *)
Example stale_tail :
  written OpenNoTrunc (Some (list_ascii_of_string "{""a"": 1, ""b"": 2}")) (list_ascii_of_string "{}") =
  Some (list_ascii_of_string "{}a"": 1, ""b"": 2}").
Proof. reflexivity. Qed.
