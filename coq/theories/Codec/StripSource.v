(* C09: what the CURRENT cmd/sysl/cmd_protobuf.go, pkg/sysl/sysl.pb.go and pkg/pbutil/output.go say (Gen/StripCtx.v,
   regenerated on every run) meets the model of the location stripper. The `reflexivity` lemmas are the obligations
   against the source: they stop checking when the field-name tests change (e.g. a prefix test, which would also take
   Endpoint.Source), when an arm of the walk disappears, when the call moves out of the `toJSON && compact` guard or
   behind an encoder, or when a Go struct gains a location-typed field under another name. *)
From Coq Require Import String Ascii List Bool PArith NArith.
Import ListNotations.
Require Import Verif.Codec.StripCtx Verif.Codec.StripCtxProps Verif.Gen.StripCtx.
Local Open Scope string_scope.
Local Open Scope list_scope.

Definition src_rule : rule := mk_rule deref_kinds kind_arms skip_tests clear_tests clear_action else_recurse.

Definition expected_rule : rule :=
  {| r_ptr := true; r_iface := true; r_list := true; r_map := true; r_struct := true;
     r_skip := [NameUnexported; NameEq "SourceContexts"]; r_clear := [NameEq "SourceContext"];
     r_zero := true; r_else := true |}.

Lemma rule_as_expected : src_rule = expected_rule.
Proof. reflexivity. Qed.

(* the walk is the whole body: unwrap loop + kind switch; entered on reflect.ValueOf of the argument *)
Lemma walk_shape : walk_statements = 2%N /\ strip_entry = "ValueOf" /\
  kind_arms = [("Array", WElems); ("Slice", WElems); ("Map", WMapValues); ("Struct", WFields)].
Proof. repeat split; reflexivity. Qed.

(* one call, on the applications, only for compact JSON, before anything is encoded; JSON is chosen by --mode alone
   (the second disjunct needs an empty mode, which the enum flag cannot deliver) *)
Lemma sites_as_expected :
  strip_sites = [("m.Apps", ["toJSON"; "p.compact"])] /\ strip_before_encoders = true /\
  json_test = "p.mode == ""json"" || p.mode == """" && strings.HasSuffix(p.output, "".json"")".
Proof. repeat split; reflexivity. Qed.

(* field names and field types agree on what a location is: in every struct of sysl.pb.go a field is called
   SourceContext / SourceContexts iff its type is (a slice of) *SourceContext; no message is held by value *)
Lemma schema_names_match_types : names_match_types schema = true /\ no_plain_struct_fields schema = true.
Proof. split; vm_compute; reflexivity. Qed.

Lemma clear_within_locations : forall n, any_test (r_clear src_rule) n = true -> is_loc n = true.
Proof.
  rewrite rule_as_expected. cbn [r_clear expected_rule any_test existsb name_holds]. intros n H.
  rewrite orb_false_r in H. apply String.eqb_eq in H. subst n. reflexivity.
Qed.

(* ---- the property of the stripper, for the rule of the source and every value tree *)
Theorem source_strip_only_locations : forall v, erase is_loc (strip src_rule v) = erase is_loc v.
Proof. apply strip_only_locations. exact clear_within_locations. Qed.

Theorem source_cli_only_locations : forall json compact v,
  erase is_loc (cli_model strip_sites src_rule json compact v) = erase is_loc v.
Proof. apply cli_only_locations. exact clear_within_locations. Qed.

Theorem source_cli_identity_unless_compact_json : forall json compact v,
  json && compact = false -> cli_model strip_sites src_rule json compact v = v.
Proof. intros json compact v. apply cli_identity_unless_compact_json. reflexivity. Qed.

Theorem source_strip_clears_all_in_reach : forall v, reachable_clear src_rule (strip src_rule v) = false.
Proof. apply strip_clears_all_in_reach. reflexivity. Qed.

(* typed reading: whatever field of whatever struct of sysl.pb.go the walk overwrites has a location type *)
Theorem cleared_field_is_location_typed : forall ty decl n t,
  fields_of schema ty = Some decl -> In (n, t) decl -> any_test (r_clear src_rule) n = true -> mentions_loc t = true.
Proof.
  intros ty decl n t Hf Hin Hc. pose proof (clear_within_locations n Hc) as Hl.
  destruct schema_names_match_types as [Hs _]. unfold names_match_types in Hs. rewrite forallb_forall in Hs.
  unfold fields_of in Hf. destruct (find _ schema) as [[ty' d]|] eqn:Fd; [|discriminate]. cbn in Hf. injection Hf as <-.
  apply find_some in Fd. destruct Fd as [Fin _]. specialize (Hs _ Fin). cbn [snd] in Hs. rewrite forallb_forall in Hs.
  specialize (Hs _ Hin). cbn [fst snd] in Hs. rewrite Hl in Hs. apply eqb_prop in Hs. symmetry. exact Hs.
Qed.

(* ---- a concrete model: a pubsub subscriber (`Pub -> Evt:`) whose endpoint carries Source, with locations at every level *)
Definition sc : gval := GStruct false "SourceContext" [("File", GScalar 2)].
Definition ex_sub_app (withold:bool) : gval :=
  let old := if withold then [("SourceContext", sc)] else [] in
  GStruct false "Application"
    ([("Name", GStruct false "AppName" [("Part", GList [GScalar 4])]);
      ("Endpoints", GMap [(5%positive, GStruct false "Endpoint"
         ([("Name", GScalar 6); ("Source", GStruct false "AppName" [("Part", GList [GScalar 7])]);
           ("Stmt", GList [GStruct false "Statement"
              ([("Stmt", GStruct true "Statement_Action" [("Action", GStruct false "Action" [("Action", GScalar 8)])])]
               ++ old ++ [("SourceContexts", GList [sc])])])] ++ old ++ [("SourceContexts", GList [sc])]))])]
     ++ old ++ [("SourceContexts", GList [sc])]).
Definition ex_sub (withold:bool) : gval :=
  GStruct false "Module" [("Apps", GMap [(3%positive, ex_sub_app withold)]); ("SourceContext", sc)].

Example ex_sub_conforms : conf schema oneofs (TPtr "Module") (ex_sub true) = true.
Proof. vm_compute. reflexivity. Qed.

(* the deprecated singular contexts of the applications go, everything else - Source included - stays *)
Example ex_sub_stripped : cli_model strip_sites src_rule true true (ex_sub true) = ex_sub false.
Proof. vm_compute. reflexivity. Qed.

(* REFUTED: compact JSON output is not free of locations (the repeated source_contexts are passed over) ... *)
Theorem compact_json_location_free_refuted : exists v,
  conf schema oneofs (TPtr "Module") v = true /\ has_loc is_loc (cli_model strip_sites src_rule true true v) = true.
Proof. exists (ex_sub true). split; vm_compute; reflexivity. Qed.

(* ... the true part is source_strip_clears_all_in_reach: no singular one is left in reach. *)

(* why the name test matters: a prefix test also takes Endpoint.Source, which is no location *)
Definition prefix_rule : rule :=
  {| r_ptr := true; r_iface := true; r_list := true; r_map := true; r_struct := true;
     r_skip := [NameUnexported; NameEq "SourceContexts"]; r_clear := [NamePrefix "Source"]; r_zero := true; r_else := true |}.

Theorem prefix_rule_loses_source : exists v,
  conf schema oneofs (TPtr "Module") v = true /\ erase is_loc (strip prefix_rule v) <> erase is_loc v.
Proof. exists (ex_sub true). split; [vm_compute; reflexivity|]. vm_compute. discriminate. Qed.

(* ---- --split-apps: each mode arm of OutputSplitApplications calls the encoder of that mode *)
Lemma split_writer_as_expected :
  split_writer = [("json", "FJSONPBWithOpt"); ("textpb", "TextPBWithOpt"); ("", "GeneratePBBinaryMessageFile")].
Proof. reflexivity. Qed.

(* ... and an encoder's error is the error of OutputSplitApplications (not a variable shadowed inside the loop) *)
Lemma split_error_reaches_caller : split_error_returned = true.
Proof. reflexivity. Qed.
