(* C09 model, part 1e: encoder calls of pkg/pbutil and the memory the bytes they hand to w.Write live in.

   An encoder (FJSONPBWithOpt / FTextPBWithOpt / GeneratePBBinaryMessage; every other writer entry point of the package
   ends in one of them - Gen pb_entry_points) marshals the model and calls w.Write(slice) ONCE. Write may block: a pipe, a
   slow file. While it is blocked the reader behind w copies out of THAT slice, piece by piece, and another goroutine may
   call an encoder again. What the reader receives therefore depends on where the slice lives:
     PFresh      a slice allocated by this call (<opts>.Marshal returns a new slice; Regexp.ReplaceAll returns a new one)
     PScratch v  the package-level buffer v, re-used by every call (MarshalAppend(v[:0], m); v = result)
   The provenance of every encoder is read from the source (Gen/PbState.v: pb_write_sites).  Memory is a list of arrays
   (address = index, length = capacity); a slice is (array, length) at offset 0.  Definitions only.

   Not modelled: Go's capacity rounding when append allocates (the new array has exactly the needed length here); it only
   matters for PScratch, which the current source does not use. *)
From Coq Require Import String List Bool Arith NArith.
Import ListNotations.

(* ---- the tables of Gen/PbState.v *)
Inductive var_kind := KSlice | KMap | KPointer | KIface | KFunc | KStruct | KScalar | KOther.
Record pkg_var := PVar { pv_name : string; pv_kind : var_kind; pv_type : string; pv_written : bool }.
Inductive use_role :=
| URead | UMethod (recv_type meth:string) | UArg (callee:string) | USliced | UAddr | UWrite.
Record var_use := VU { vu_var : string; vu_fn : string; vu_role : use_role }.
(* one definition of the local variable whose value is handed to Write *)
Inductive bdef :=
| DMarshal (opts:string)      (* x, err := <MarshalOptions value>.Marshal(m) *)
| DReplaceAll (re:string)     (* x = <*regexp.Regexp>.ReplaceAll(x, tmpl) *)
| DAppendVar (v:string)       (* x, err := <opts>.MarshalAppend(V[:0], m) with V a package-level variable, or V itself written *)
| DParam
| DOther (src:string).
Record write_site := WS { ws_fn : string; ws_callee : string; ws_defs : list bdef }.

(* ---- encoders and where their bytes live *)
Inductive enc := EJson | EText | EBin.
Definition enc_eqb (a b:enc) : bool :=
  match a, b with EJson, EJson | EText, EText | EBin, EBin => true | _, _ => false end.
Definition enc_fn (e:enc) : string :=
  match e with EJson => "FJSONPBWithOpt" | EText => "FTextPBWithOpt" | EBin => "GeneratePBBinaryMessage" end.
Definition all_encs : list enc := [EJson; EText; EBin].

Inductive prov := PFresh | PScratch (v:string) | PUnknown.
Definition enc_rule := enc -> prov.

Definition is_replace (d:bdef) : bool := match d with DReplaceAll _ => true | _ => false end.
Definition prov_of_defs (ds:list bdef) : prov :=
  match ds with
  | DMarshal _ :: rest => if forallb is_replace rest then PFresh else PUnknown
  | [DAppendVar v] => PScratch v
  | _ => PUnknown
  end.
Definition site_prov (sites:list write_site) (fn:string) : prov :=
  match filter (fun s => String.eqb (ws_fn s) fn) sites with
  | [s] => prov_of_defs (ws_defs s)
  | _ => PUnknown
  end.
Definition rule_of (sites:list write_site) : enc_rule := fun e => site_prov sites (enc_fn e).

Definition is_fresh (p:prov) : bool := match p with PFresh => true | _ => false end.
Definition fresh_rule (r:enc_rule) : bool := forallb (fun e => is_fresh (r e)) all_encs.

(* ---- package state: what a function body may do with a package-level variable without making it state *)
Definition scalar_like (v:pkg_var) : bool :=
  match pv_kind v with KScalar => true | KIface => String.eqb (pv_type v) "error" | _ => false end.
Definition readonly_method (ty m:string) : bool :=
  String.eqb ty "*regexp.Regexp" && negb (String.eqb m "Longest").   (* a Regexp is safe for concurrent use, except Longest *)
Definition use_ok (vars:list pkg_var) (u:var_use) : bool :=
  match find (fun v => String.eqb (pv_name v) (vu_var u)) vars with
  | None => false
  | Some v =>
      match vu_role u with
      | URead => true
      | UMethod ty m => readonly_method ty m
      | UArg _ => scalar_like v
      | USliced | UAddr | UWrite => false
      end
  end.
Definition stateless (vars:list pkg_var) (uses:list var_use) : bool :=
  forallb (fun v => negb (pv_written v)) vars && forallb (use_ok vars) uses.

(* ---- memory *)
Definition octets := list N.
Record slice := Sl { sl_arr : nat; sl_len : nat }.
Definition view (h:list octets) (s:slice) : octets := firstn (sl_len s) (nth (sl_arr s) h []).

Fixpoint upd (h:list octets) (i:nat) (a:octets) : list octets :=
  match h, i with
  | [], _ => []
  | _ :: t, O => a :: t
  | x :: t, S j => x :: upd t j a
  end.

Definition alloc (h:list octets) (b:octets) : list octets * slice := (h ++ [b], Sl (length h) (length b)).

(* MarshalAppend(cur[:0], m): in place when the array is long enough, else a new array *)
Definition marshal_append (h:list octets) (cur:option slice) (b:octets) : list octets * slice :=
  match cur with
  | Some s =>
      let a := nth (sl_arr s) h [] in
      if length b <=? length a then (upd h (sl_arr s) (b ++ skipn (length b) a), Sl (sl_arr s) (length b))
      else alloc h b
  | None => alloc h b
  end.

(* a Write call in progress (or finished): the slice it was given, how much the reader has taken, what it received *)
Record writer := Wr { w_id : nat; w_slice : slice; w_pos : nat; w_got : octets; w_enc : enc; w_model : nat }.

Record state := St { heap : list octets; vars : list (string * slice); writers : list writer }.
Definition init : state := St [] [] [].

Fixpoint var_lookup (v:string) (l:list (string * slice)) : option slice :=
  match l with [] => None | (k, s) :: t => if String.eqb k v then Some s else var_lookup v t end.

Inductive ev :=
| EEnc (w:nat) (e:enc) (m:nat)   (* encoder e is called on model m with writer w: marshal, then w.Write(slice) blocks *)
| ERead (w:nat) (k:nat).         (* the reader behind w takes (up to) k more bytes of the slice its Write was given *)

Definition read_k (h:list octets) (x:writer) (k:nat) : writer :=
  let t := firstn k (skipn (w_pos x) (view h (w_slice x))) in
  Wr (w_id x) (w_slice x) (w_pos x + length t) (w_got x ++ t) (w_enc x) (w_model x).

Section Step.
Variable marshal : enc -> nat -> octets.   (* the library's encoding of model m: a pure function *)
Variable r : enc_rule.

Definition step (st:state) (e:ev) : option state :=
  match e with
  | EEnc w en m =>
      let b := marshal en m in
      match r en with
      | PFresh =>
          let (h', s) := alloc (heap st) b in
          Some (St h' (vars st) (Wr w s 0 [] en m :: writers st))
      | PScratch v =>
          let (h', s) := marshal_append (heap st) (var_lookup v (vars st)) b in
          Some (St h' ((v, s) :: vars st) (Wr w s 0 [] en m :: writers st))
      | PUnknown => None
      end
  | ERead w k =>
      Some (St (heap st) (vars st) (map (fun x => if w_id x =? w then read_k (heap st) x k else x) (writers st)))
  end.

Fixpoint run (st:state) (evs:list ev) : option state :=
  match evs with
  | [] => Some st
  | e :: t => match step st e with Some st' => run st' t | None => None end
  end.

(* every Write has been consumed completely *)
Definition all_done (st:state) : bool := forallb (fun x => w_pos x =? sl_len (w_slice x)) (writers st).

(* a schedule without overlap: an encoder is only called when no Write is pending *)
Fixpoint sequential (st:state) (evs:list ev) : bool :=
  match evs with
  | [] => true
  | e :: t =>
      (match e with EEnc _ _ _ => all_done st | ERead _ _ => true end) &&
      match step st e with Some st' => sequential st' t | None => false end
  end.
End Step.

(* what the reader behind w has received (the most recent Write on w) *)
Definition received (st:state) (w:nat) : option octets :=
  option_map w_got (find (fun x => w_id x =? w) (writers st)).

(* the bytes the most recent call handed to Write, as they are in memory now *)
Definition handed (st:state) : octets :=
  match writers st with x :: _ => view (heap st) (w_slice x) | [] => [] end.

(* ---- correspondence: the encodings come from a table printed by the harness *)
Fixpoint octets_eqb (a b:octets) : bool :=
  match a, b with
  | [], [] => true
  | x :: a', y :: b' => N.eqb x y && octets_eqb a' b'
  | _, _ => false
  end.

Definition table_marshal (tbl:list (nat * enc * octets)) (e:enc) (m:nat) : octets :=
  match find (fun p => (fst (fst p) =? m) && enc_eqb (snd (fst p)) e) tbl with Some p => snd p | None => [] end.

Definition enc_case_ok (r:enc_rule) (tbl:list (nat * enc * octets)) (evs:list ev) (obs:list (nat * octets)) : bool :=
  match run (table_marshal tbl) r init evs with
  | Some st =>
      forallb (fun p => match received st (fst p) with Some g => octets_eqb g (snd p) | None => false end) obs
  | None => false
  end.
