(* C09 proofs, part 1: the clean-up removes exactly the extra space after keys.

   clean_removes_only_salt   escape-aware literal: for every document of protojson's line shape (any keys, any
                             strings - quotes, backslashes, control bytes, non-ASCII -, any nesting, any choice of
                             one or two spaces per key) the cleaned bytes are the bytes printed without salt.
   clean_refuted             the literal before the fix: a key (or string element) holding  q: <sp><sp>  loses a
                             space that belongs to the text.
   clean_naive_partial       the literal before the fix is right on documents whose keys and string elements
                             contain no quote. *)
From Coq Require Import String Ascii List Bool NArith Arith Lia.
Import ListNotations.
Require Import Verif.Codec.JsonClean.
Local Open Scope char_scope.
Local Open Scope list_scope.

(* ---------------------------------------------------------------- bytes *)
Lemma eqb_false_neq c d : Ascii.eqb c d = false <-> c <> d.
Proof. rewrite <- Ascii.eqb_eq. destruct (Ascii.eqb c d); split; congruence. Qed.

Definition plain (c:ascii) : bool := negb (Ascii.eqb c c_quote) && negb (Ascii.eqb c c_bsl).

Definition lift (k:nat) (o:option (nat * bytes)) : option (nat * bytes) :=
  match o with Some (n, r) => Some (k + n, r) | None => None end.

Lemma lift_lift a b o : lift a (lift b o) = lift (a + b) o.
Proof. destruct o as [[n r]|]; cbn; [f_equal; f_equal; lia|reflexivity]. Qed.

Lemma scan_esc_plain c l : plain c = true -> scan_esc (c :: l) = lift 1 (scan_esc l).
Proof.
  unfold plain. intros H. apply andb_true_iff in H. destruct H as [H1 H2].
  apply negb_true_iff in H1. apply negb_true_iff in H2.
  cbn [scan_esc]. rewrite H1, H2. destruct (scan_esc l) as [[n r]|]; reflexivity.
Qed.

Lemma scan_esc_plains u l : forallb plain u = true -> scan_esc (u ++ l) = lift (length u) (scan_esc l).
Proof.
  induction u as [|c u IH]; intros H.
  - cbn. destruct (scan_esc l) as [[n r]|]; reflexivity.
  - cbn [forallb] in H. apply andb_true_iff in H. destruct H as [Hc Hu].
    cbn [app length]. rewrite scan_esc_plain by exact Hc. rewrite IH by exact Hu. rewrite lift_lift. reflexivity.
Qed.

Lemma scan_esc_pair d u l :
  Ascii.eqb d c_nl = false -> forallb plain u = true ->
  scan_esc (c_bsl :: d :: u ++ l) = lift (2 + length u) (scan_esc l).
Proof.
  intros Hd Hu. cbn [scan_esc]. change (Ascii.eqb c_bsl c_quote) with false. change (Ascii.eqb c_bsl c_bsl) with true.
  cbv iota. rewrite Hd. rewrite scan_esc_plains by exact Hu.
  destruct (scan_esc l) as [[n r]|]; cbn; reflexivity.
Qed.

Definition hexchars : bytes := ["0";"1";"2";"3";"4";"5";"6";"7";"8";"9";"a";"b";"c";"d";"e";"f"].

Lemma hexdigit_in n : In (hexdigit n) hexchars.
Proof.
  unfold hexdigit, hexchars.
  destruct n as [|p]; [cbn; tauto|].
  do 4 (try destruct p as [p|p|]); cbn; tauto.
Qed.

Lemma hexdigit_plain n : plain (hexdigit n) = true.
Proof.
  pose proof (hexdigit_in n) as H.
  assert (A : forallb plain hexchars = true) by reflexivity.
  rewrite forallb_forall in A. apply A, H.
Qed.

Lemma hexdigit_no_quote n : Ascii.eqb (hexdigit n) c_quote = false.
Proof.
  pose proof (hexdigit_plain n) as H. unfold plain in H. apply andb_true_iff in H. destruct H as [H _].
  apply negb_true_iff in H. exact H.
Qed.

(* every byte is escaped to a unit the escape-aware scan steps over as a whole *)
Lemma scan_esc_jescape1 c l : scan_esc (jescape1 c ++ l) = lift (length (jescape1 c)) (scan_esc l).
Proof.
  unfold jescape1.
  destruct (Ascii.eqb c c_quote) eqn:Eq; [exact (scan_esc_pair c_quote [] l eq_refl eq_refl)|].
  destruct (Ascii.eqb c c_bsl) eqn:Eb; [exact (scan_esc_pair c_bsl [] l eq_refl eq_refl)|].
  destruct (Ascii.eqb c "008"); [exact (scan_esc_pair "b" [] l eq_refl eq_refl)|].
  destruct (Ascii.eqb c "012"); [exact (scan_esc_pair "f" [] l eq_refl eq_refl)|].
  destruct (Ascii.eqb c "010"); [exact (scan_esc_pair "n" [] l eq_refl eq_refl)|].
  destruct (Ascii.eqb c "013"); [exact (scan_esc_pair "r" [] l eq_refl eq_refl)|].
  destruct (Ascii.eqb c "009"); [exact (scan_esc_pair "t" [] l eq_refl eq_refl)|].
  destruct (N_of_ascii c <? 32)%N.
  - apply (scan_esc_pair "u" ["0"; "0"; hexdigit (N_of_ascii c / 16); hexdigit (N_of_ascii c mod 16)] l eq_refl).
    cbn [forallb]. rewrite !hexdigit_plain. reflexivity.
  - apply (scan_esc_plains [c] l). cbn. unfold plain. rewrite Eq, Eb. reflexivity.
Qed.

Lemma scan_esc_jescape s l : scan_esc (jescape s ++ l) = lift (length (jescape s)) (scan_esc l).
Proof.
  induction s as [|c s IH].
  - cbn. destruct (scan_esc l) as [[n r]|]; reflexivity.
  - unfold jescape in *. cbn [flat_map]. rewrite <- app_assoc, scan_esc_jescape1, IH, lift_lift, app_length. reflexivity.
Qed.

Lemma scan_esc_closes s r : scan_esc (jescape s ++ c_quote :: r) = Some (S (length (jescape s)), r).
Proof. rewrite scan_esc_jescape. cbn. f_equal. f_equal. lia. Qed.

(* the naive scan stops at the first quote: right only when the text has none *)
Lemma scan_naive_noq u r : no_quote u = true -> scan_naive (u ++ c_quote :: r) = Some (S (length u), r).
Proof.
  induction u as [|c u IH]; intros H.
  - reflexivity.
  - cbn [no_quote forallb] in H. apply andb_true_iff in H. destruct H as [Hc Hu]. apply negb_true_iff in Hc.
    cbn [app scan_naive length]. rewrite Hc. fold (no_quote u) in Hu. rewrite (IH Hu). reflexivity.
Qed.

Lemma jescape1_noq c : Ascii.eqb c c_quote = false -> no_quote (jescape1 c) = true.
Proof.
  intros H. unfold jescape1. rewrite H.
  repeat match goal with |- context [if ?b then _ else _] => destruct b; [reflexivity|] end.
  destruct (N_of_ascii c <? 32)%N.
  - cbn. rewrite !hexdigit_no_quote. reflexivity.
  - cbn. rewrite H. reflexivity.
Qed.

Lemma jescape_noq s : no_quote s = true -> no_quote (jescape s) = true.
Proof.
  induction s as [|c s IH]; intros H; [reflexivity|].
  cbn [no_quote forallb] in H. apply andb_true_iff in H. destruct H as [Hc Hs]. apply negb_true_iff in Hc.
  unfold jescape. cbn [flat_map]. unfold no_quote. rewrite forallb_app. apply andb_true_iff. split.
  - apply jescape1_noq, Hc.
  - apply IH, Hs.
Qed.

(* which strings a key scanner steps over exactly *)
Definition closes (k:keybody) (s:bytes) : Prop :=
  forall r, scan k (jescape s ++ c_quote :: r) = Some (S (length (jescape s)), r).

Lemma closes_esc s : closes KeyEsc s.
Proof. intros r. apply scan_esc_closes. Qed.

Lemma closes_naive s : no_quote s = true -> closes KeyNaive s.
Proof. intros H r. cbn [scan]. apply scan_naive_noq, jescape_noq, H. Qed.

(* ---------------------------------------------------------------- one match attempt *)
Lemma skip_ws_indent n x :
  match x with c :: _ => is_ws c = false | [] => True end -> skip_ws (indent n ++ x) = (n, x).
Proof.
  intros H. induction n as [|n IH].
  - cbn [indent repeat app]. destruct x as [|c x]; [reflexivity|]. cbn [skip_ws]. rewrite H. reflexivity.
  - cbn [indent repeat app skip_ws]. change (is_ws c_sp) with true. cbv iota.
    fold (indent n). rewrite IH. reflexivity.
Qed.

Lemma try_match_string k i s X :
  closes k s ->
  try_match k (indent i ++ jstr s ++ X) =
  match X with
  | c1 :: c2 :: c3 :: _ =>
      if Ascii.eqb c1 c_colon && Ascii.eqb c2 c_sp && Ascii.eqb c3 c_sp then Some (i + 1 + S (length (jescape s)) + 2) else None
  | _ => None
  end.
Proof.
  intros Hc. unfold try_match, jstr. cbn [app]. rewrite skip_ws_indent by reflexivity.
  change (Ascii.eqb c_quote c_quote) with true. cbv iota.
  rewrite <- app_assoc. cbn [app]. rewrite Hc. reflexivity.
Qed.

Lemma try_match_other k i c X :
  is_ws c = false -> Ascii.eqb c c_quote = false -> try_match k (indent i ++ c :: X) = None.
Proof.
  intros Hw Hq. unfold try_match. rewrite skip_ws_indent by exact Hw. rewrite Hq. reflexivity.
Qed.

(* ---------------------------------------------------------------- ReplaceAll over chunks *)
Lemma clean_mid_chunk k a r : no_nl a = true -> clean_go k Mid (a ++ r) = a ++ clean_go k Mid r.
Proof.
  induction a as [|c a IH]; intros H; [reflexivity|].
  cbn [no_nl forallb] in H. apply andb_true_iff in H. destruct H as [Hc Ha]. apply negb_true_iff in Hc.
  cbn [app clean_go]. unfold after. rewrite Hc. f_equal. apply IH, Ha.
Qed.

Lemma clean_copy k a c r : clean_go k (Copy (length a)) (a ++ c :: r) = a ++ clean_go k Mid r.
Proof. induction a as [|x a IH]; [reflexivity|]. cbn [length app clean_go]. f_equal. exact IH. Qed.

Lemma clean_linestart_none k a r :
  a <> [] -> no_nl a = true -> try_match k (a ++ r) = None -> clean_go k LineStart (a ++ r) = a ++ clean_go k Mid r.
Proof.
  intros Hne Hnl Hm. destruct a as [|c a]; [congruence|].
  cbn [app] in *. cbn [clean_go]. rewrite Hm.
  cbn [no_nl forallb] in Hnl. apply andb_true_iff in Hnl. destruct Hnl as [Hc Ha]. apply negb_true_iff in Hc.
  unfold after. rewrite Hc. f_equal. apply clean_mid_chunk, Ha.
Qed.

Lemma clean_linestart_some k a c r n :
  try_match k (a ++ c :: r) = Some n -> length a = n -> a <> [] ->
  clean_go k LineStart (a ++ c :: r) = a ++ clean_go k Mid r.
Proof.
  intros Hm Hl Hne. destruct a as [|x a]; [congruence|].
  cbn [app] in *. cbn [clean_go]. rewrite Hm. subst n. cbn [length pred]. f_equal. apply clean_copy.
Qed.

Lemma no_nl_app a b : no_nl (a ++ b) = no_nl a && no_nl b.
Proof. apply forallb_app. Qed.

Lemma no_nl_indent i : no_nl (indent i) = true.
Proof. induction i; [reflexivity|exact IHi]. Qed.

Lemma no_nl_jescape1 c : no_nl (jescape1 c) = true.
Proof.
  unfold jescape1.
  repeat match goal with |- context [if Ascii.eqb ?a ?b then _ else _] => destruct (Ascii.eqb a b) eqn:?; [reflexivity|] end.
  destruct (N_of_ascii c <? 32)%N.
  - cbn [no_nl forallb].
    assert (A : forall n, negb (Ascii.eqb (hexdigit n) c_nl) = true).
    { intros n. pose proof (hexdigit_in n) as H.
      assert (B : forallb (fun c => negb (Ascii.eqb c c_nl)) hexchars = true) by reflexivity.
      rewrite forallb_forall in B. apply B, H. }
    rewrite !A. reflexivity.
  - cbn [no_nl forallb]. unfold c_nl. rewrite Heqb3. reflexivity.
Qed.

Lemma no_nl_jescape s : no_nl (jescape s) = true.
Proof.
  induction s as [|c s IH]; [reflexivity|]. unfold jescape. cbn [flat_map]. rewrite no_nl_app, no_nl_jescape1. exact IH.
Qed.

Lemma no_nl_jstr s : no_nl (jstr s) = true.
Proof. unfold jstr. cbn [no_nl forallb]. fold (no_nl (jescape s ++ [c_quote])). rewrite no_nl_app, no_nl_jescape. reflexivity. Qed.

(* the text that follows a line: nothing, or a newline and more *)
Definition line_end (R:bytes) : Prop := R = [] \/ exists R', R = c_nl :: R'.

Lemma clean_mid_end k R : line_end R ->
  clean_go k Mid R = match R with [] => [] | c :: R' => c :: clean_go k LineStart R' end.
Proof. intros [->|[R' ->]]; reflexivity. Qed.

Lemma length_indent i : length (indent i) = i.
Proof. apply repeat_length. Qed.
Lemma length_jstr s : length (jstr s) = S (S (length (jescape s))).
Proof. unfold jstr. cbn [length]. rewrite app_length. cbn [length]. lia. Qed.

Ltac napp := repeat (rewrite <- app_assoc); cbn [app]; repeat (rewrite <- app_assoc); cbn [app].

(* one line, whatever follows it *)
Lemma clean_line k l R :
  wf_line l = true ->
  (match l with LKey _ s _ _ | LStr _ s _ => closes k s | LOther _ _ _ => True end) ->
  line_end R ->
  clean_go k LineStart (render l ++ R) = render (desalt l) ++ clean_go k Mid R.
Proof.
  intros Hwf Hcl HR. destruct l as [i key salt rest|i s tail|i c rest]; cbn [render desalt wf_line] in *.
  - (* key line *)
    apply andb_true_iff in Hwf. destruct Hwf as [Hnl Hfirst].
    destruct rest as [|c0 rest]; [discriminate|]. apply negb_true_iff in Hfirst.
    destruct salt.
    + (* two spaces: the match; group 1 = indent key colon space *)
      set (g := indent i ++ jstr key ++ [c_colon; c_sp]).
      assert (E : (indent i ++ jstr key ++ c_colon :: c_sp :: [c_sp] ++ c0 :: rest) ++ R = g ++ c_sp :: (c0 :: rest) ++ R).
      { unfold g. napp. reflexivity. }
      rewrite E. rewrite (clean_linestart_some k g c_sp ((c0 :: rest) ++ R) (length g)).
      * rewrite clean_mid_chunk by exact Hnl. unfold g. napp. reflexivity.
      * unfold g. napp. rewrite (try_match_string k i key _ Hcl).
        change (Ascii.eqb c_colon c_colon && Ascii.eqb c_sp c_sp && Ascii.eqb c_sp c_sp) with true. cbv iota.
        f_equal. unfold g. rewrite !app_length, length_indent, length_jstr. cbn [length]. lia.
      * reflexivity.
      * unfold g, jstr. destruct (indent i); discriminate.
    + (* one space: no match, the line is copied *)
      set (a := indent i ++ jstr key ++ c_colon :: c_sp :: [] ++ c0 :: rest).
      rewrite (clean_linestart_none k a R).
      * reflexivity.
      * unfold a, jstr. destruct (indent i); discriminate.
      * unfold a. rewrite !no_nl_app, no_nl_indent, no_nl_jstr. cbn [app]. exact Hnl.
      * unfold a. napp. rewrite (try_match_string k i key _ Hcl).
        rewrite Hfirst. rewrite andb_false_r. reflexivity.
  - (* string element *)
    apply andb_true_iff in Hwf. destruct Hwf as [Hnl Hfirst].
    rewrite (clean_linestart_none k (indent i ++ jstr s ++ tail) R).
    + reflexivity.
    + unfold jstr. destruct (indent i); discriminate.
    + rewrite !no_nl_app, no_nl_indent, no_nl_jstr. exact Hnl.
    + napp. rewrite (try_match_string k i s _ Hcl).
      destruct tail as [|t0 tail].
      * cbn [app]. destruct HR as [->|[R' ->]]; [reflexivity|].
        destruct R' as [|x [|y R']]; reflexivity.
      * cbn [app]. apply negb_true_iff in Hfirst. destruct (tail ++ R) as [|x [|y Z]]; try reflexivity.
        rewrite Hfirst. reflexivity.
  - (* any other line *)
    apply andb_true_iff in Hwf. destruct Hwf as [Hwf Hq]. apply andb_true_iff in Hwf. destruct Hwf as [Hnl Hw].
    apply negb_true_iff in Hq. apply negb_true_iff in Hw.
    rewrite (clean_linestart_none k (indent i ++ c :: rest) R).
    + reflexivity.
    + destruct (indent i); discriminate.
    + rewrite no_nl_app, no_nl_indent. cbn [no_nl forallb andb].
      assert (Hc : Ascii.eqb c c_nl = false).
      { destruct (Ascii.eqb c c_nl) eqn:E; [|reflexivity]. apply Ascii.eqb_eq in E. subst c. discriminate. }
      rewrite Hc. exact Hnl.
    + napp. apply try_match_other; assumption.
Qed.

Definition line_closes (k:keybody) (l:line) : Prop :=
  match l with LKey _ s _ _ | LStr _ s _ => closes k s | LOther _ _ _ => True end.

Lemma clean_doc k ls :
  Forall (fun l => wf_line l = true) ls -> Forall (line_closes k) ls ->
  clean k (print ls) = print (map desalt ls).
Proof.
  unfold clean. induction ls as [|l ls IH]; intros Hwf Hcl; [reflexivity|].
  inversion Hwf as [|? ? Hw Hwf']; subst. inversion Hcl as [|? ? Hc Hcl']; subst.
  cbn [print map]. destruct ls as [|l2 ls].
  - cbn [map]. rewrite (clean_line k l [] Hw Hc (or_introl eq_refl)). reflexivity.
  - rewrite (clean_line k l (c_nl :: print (l2 :: ls)) Hw Hc (or_intror (ex_intro _ _ eq_refl))).
    cbn [clean_go]. change (after c_nl) with LineStart. rewrite (IH Hwf' Hcl'). reflexivity.
Qed.

(* ---------------------------------------------------------------- the property *)
Definition wf_doc (ls:list line) : bool := forallb wf_line ls.

(* escape-aware literal: for all documents and all salts *)
Theorem clean_removes_only_salt ls :
  wf_doc ls = true -> clean KeyEsc (print ls) = print (map desalt ls).
Proof.
  intros H. unfold wf_doc in H. rewrite forallb_forall in H.
  apply clean_doc.
  - apply Forall_forall. exact H.
  - apply Forall_forall. intros l _. destruct l; cbn; try exact I; apply closes_esc.
Qed.

(* the clean-up leaves salt-free output alone *)
Corollary clean_idempotent ls : wf_doc ls = true -> clean KeyEsc (clean KeyEsc (print ls)) = clean KeyEsc (print ls).
Proof.
  intros H. rewrite (clean_removes_only_salt ls H).
  assert (H2 : wf_doc (map desalt ls) = true).
  { unfold wf_doc in *. rewrite forallb_forall in *. intros l Hin. apply in_map_iff in Hin. destruct Hin as [l0 [<- Hin]].
    specialize (H l0 Hin). destruct l0; exact H. }
  rewrite (clean_removes_only_salt _ H2). rewrite map_map. f_equal. apply map_ext. intros []; reflexivity.
Qed.

(* with the decoder's contract (it inverts the salt-free printer) every salted output decodes to the document *)
Section Decode.
  Variable D : Type.
  Variable doc_lines : D -> list line.            (* how a document is laid out, salts included *)
  Variable decode : bytes -> option D.
  Hypothesis decode_print : forall d, decode (print (map desalt (doc_lines d))) = Some d.
  Hypothesis lines_wf : forall d, wf_doc (doc_lines d) = true.

  Theorem decode_clean_print d : decode (clean KeyEsc (print (doc_lines d))) = Some d.
  Proof. rewrite clean_removes_only_salt by apply lines_wf. apply decode_print. Qed.
End Decode.

(* the literal before the fix, where it is right ... *)
Theorem clean_naive_partial ls :
  wf_doc ls = true -> forallb quote_free ls = true -> clean KeyNaive (print ls) = print (map desalt ls).
Proof.
  intros H Hq. unfold wf_doc in H. rewrite forallb_forall in H. rewrite forallb_forall in Hq.
  apply clean_doc.
  - apply Forall_forall. exact H.
  - apply Forall_forall. intros l Hin. specialize (Hq l Hin). destruct l; cbn in *; try exact I; apply closes_naive, Hq.
Qed.

(* ... and where it is not: the application name  A%22%3A%20%20B  (A, quote, colon, two spaces, B) *)
Definition witness_key : bytes := list_ascii_of_string "A"":  B".
Definition witness_doc : list line :=
  [LOther 0 "{" []; LKey 1 (list_ascii_of_string "apps") false ["{"]; LKey 2 witness_key false ["{"; "}"]; LOther 1 "}" []; LOther 0 "}" []].

Theorem clean_refuted :
  exists ls, wf_doc ls = true /\ clean KeyNaive (print ls) <> print (map desalt ls).
Proof. exists witness_doc. split; [reflexivity|]. vm_compute. discriminate. Qed.

(* the same document is handled by the escape-aware literal (instance of the theorem, shown by evaluation) *)
Example witness_fixed : clean KeyEsc (print witness_doc) = print (map desalt witness_doc).
Proof. vm_compute. reflexivity. Qed.

(* a string element is hit as well: a name part / pattern  a, quote, colon, two spaces, b *)
Example clean_refuted_string_element :
  let ls := [LOther 0 "[" []; LStr 1 (list_ascii_of_string "a"":  b") []; LOther 0 "]" []] in
  wf_doc ls = true /\ clean KeyNaive (print ls) <> print (map desalt ls).
Proof. split; [reflexivity|]. vm_compute. discriminate. Qed.

(* non-vacuity of wf_doc: a salted document with hostile keys and values *)
Example wf_example :
  let ls := [LOther 0 "{" [];
             LKey 1 (list_ascii_of_string "k\"": x") true (list_ascii_of_string """v\\"",");
             LKey 1 ["010"; "200"; "\"] true ["["];
             LStr 2 (list_ascii_of_string """:  ") [","];
             LStr 2 [] [];
             LOther 1 "]" [];
             LOther 0 "}" []] in
  wf_doc ls = true /\ clean KeyEsc (print ls) = print (map desalt ls) /\ print ls <> print (map desalt ls).
Proof. split; [reflexivity|]. split; [vm_compute; reflexivity|vm_compute; discriminate]. Qed.
