(* C09: proofs about the encoder-call model (EncState.v).
   - encode_is_a_function_of_the_model: with fresh provenance an encoder call hands Write exactly marshal e m, whatever
     the state, and changes neither a package variable nor any array that existed before (no state between calls);
   - overlapping_encodes_deliver: hence under ANY schedule of encoder calls and partial reads every reader receives a
     prefix of its own model's encoding, all of it once it has read everything;
   - scratch_buffer_refuted: with a package-level scratch buffer the schedule "read one byte of A, encode B, read the rest
     of A" delivers other bytes;
   - scratch_sequential_partial: whatever the provenance, schedules without overlap deliver. *)
From Coq Require Import String List Bool Arith NArith Lia.
Import ListNotations.
Require Import Verif.Codec.EncState.

(* ---- lists *)
Lemma firstn_plus {A} (p j:nat) (l:list A) : firstn (p + j) l = firstn p l ++ firstn j (skipn p l).
Proof.
  revert l. induction p as [|p IH]; intros l; [reflexivity|].
  destruct l as [|x l]; cbn [plus firstn skipn app].
  - destruct j; reflexivity.
  - rewrite IH. reflexivity.
Qed.

Lemma firstn_length_firstn {A} (k:nat) (l:list A) : firstn (length (firstn k l)) l = firstn k l.
Proof.
  revert l. induction k as [|k IH]; intros l; [reflexivity|].
  destruct l as [|x l]; [reflexivity|]. cbn [firstn length]. rewrite IH. reflexivity.
Qed.

Lemma read_prefix {A} (p k:nat) (l:list A) :
  firstn (p + length (firstn k (skipn p l))) l = firstn p l ++ firstn k (skipn p l).
Proof. rewrite firstn_plus, firstn_length_firstn. reflexivity. Qed.

Lemma nth_upd_same (h:list octets) i a : i < length h -> nth i (upd h i a) [] = a.
Proof.
  revert i. induction h as [|x h IH]; intros i Hi; cbn [length] in Hi; [lia|].
  destruct i; cbn [upd nth]; [reflexivity|]. apply IH. lia.
Qed.

Lemma upd_length (h:list octets) i a : length (upd h i a) = length h.
Proof.
  revert i. induction h as [|x h IH]; intros i; [reflexivity|].
  destruct i; cbn [upd length]; [reflexivity|]. rewrite IH. reflexivity.
Qed.

Lemma fresh_rule_spec r : fresh_rule r = true -> forall e, r e = PFresh.
Proof.
  unfold fresh_rule, all_encs. cbn [forallb]. rewrite !andb_true_iff. intros (H1 & H2 & H3 & _) e.
  destruct e; [destruct (r EJson)|destruct (r EText)|destruct (r EBin)]; try discriminate; reflexivity.
Qed.

Section Proofs.
Variable marshal : enc -> nat -> octets.

Definition enc_of (x:writer) : octets := marshal (w_enc x) (w_model x).

(* ---- one call, fresh provenance *)
Definition heap_kept (st st':state) : Prop :=
  forall i, i < length (heap st) -> nth i (heap st') [] = nth i (heap st) [].

Theorem encode_call_fresh r st w e m :
  fresh_rule r = true ->
  exists st', step marshal r st (EEnc w e m) = Some st' /\
              handed st' = marshal e m /\ vars st' = vars st /\ heap_kept st st'.
Proof.
  intros F. cbn [step]. rewrite (fresh_rule_spec r F e). unfold alloc. eexists. split; [reflexivity|].
  split; [|split].
  - unfold handed, view. cbn [writers heap w_slice sl_len sl_arr].
    rewrite app_nth2 by lia. rewrite Nat.sub_diag. cbn [nth]. apply firstn_all.
  - reflexivity.
  - intros i Hi. cbn [heap]. apply app_nth1. exact Hi.
Qed.

(* the bytes handed to Write do not depend on the state the call starts in, nor on the writer *)
Theorem encode_is_a_function_of_the_model r :
  fresh_rule r = true -> forall st1 st2 w1 w2 e m st1' st2',
  step marshal r st1 (EEnc w1 e m) = Some st1' -> step marshal r st2 (EEnc w2 e m) = Some st2' ->
  handed st1' = marshal e m /\ handed st2' = marshal e m /\
  vars st1' = vars st1 /\ heap_kept st1 st1'.
Proof.
  intros F st1 st2 w1 w2 e m st1' st2' H1 H2.
  destruct (encode_call_fresh r st1 w1 e m F) as (s1 & E1 & A1 & B1 & C1).
  destruct (encode_call_fresh r st2 w2 e m F) as (s2 & E2 & A2 & _ & _).
  rewrite E1 in H1. rewrite E2 in H2. injection H1 as <-. injection H2 as <-. repeat split; assumption.
Qed.

(* ---- any schedule, fresh provenance *)
Definition wr_ok (h:list octets) (x:writer) : Prop :=
  sl_arr (w_slice x) < length h /\ view h (w_slice x) = enc_of x /\ w_got x = firstn (w_pos x) (enc_of x).

Definition inv (st:state) : Prop := Forall (wr_ok (heap st)) (writers st).

Lemma read_k_ok h x k : wr_ok h x -> wr_ok h (read_k h x k).
Proof.
  intros (A & V & G). unfold wr_ok, read_k, enc_of in *. cbn [w_slice w_pos w_got w_enc w_model].
  split; [exact A|]. split; [exact V|]. rewrite V, G. symmetry. apply read_prefix.
Qed.

Lemma step_inv r st e st' : fresh_rule r = true -> inv st -> step marshal r st e = Some st' -> inv st'.
Proof.
  intros F I H. destruct e as [w en m|w k]; cbn [step] in H.
  - rewrite (fresh_rule_spec r F en) in H. unfold alloc in H. injection H as <-. unfold inv. cbn [heap writers].
    constructor.
    + unfold wr_ok, view, enc_of. cbn [w_slice sl_arr sl_len w_pos w_got w_enc w_model]. rewrite app_length. cbn [length].
      split; [lia|]. split; [|reflexivity]. rewrite app_nth2 by lia. rewrite Nat.sub_diag. cbn [nth]. apply firstn_all.
    + eapply Forall_impl; [|exact I]. intros x (A & V & G). unfold wr_ok, view in *. rewrite app_length. cbn [length].
      split; [lia|]. split; [|exact G]. rewrite app_nth1 by exact A. exact V.
  - injection H as <-. unfold inv in *. cbn [heap writers]. apply Forall_forall. intros y Hy.
    apply in_map_iff in Hy. destruct Hy as (x & <- & Hx). rewrite Forall_forall in I. specialize (I x Hx).
    destruct (w_id x =? w); [apply read_k_ok|]; exact I.
Qed.

Lemma run_inv r evs : fresh_rule r = true -> forall st st', inv st -> run marshal r st evs = Some st' -> inv st'.
Proof.
  intros F. induction evs as [|e t IH]; intros st st' I H; cbn [run] in H.
  - injection H as <-. exact I.
  - destruct (step marshal r st e) as [s1|] eqn:E; [|discriminate]. eapply IH; [|exact H]. eapply step_inv; eassumption.
Qed.

Theorem overlapping_encodes_deliver r evs st :
  fresh_rule r = true -> run marshal r init evs = Some st ->
  forall x, In x (writers st) ->
    w_got x = firstn (w_pos x) (enc_of x) /\
    (w_pos x = sl_len (w_slice x) -> w_got x = enc_of x).
Proof.
  intros F H x Hx. assert (I : inv st) by (eapply run_inv; [exact F| |exact H]; constructor).
  unfold inv in I. rewrite Forall_forall in I. destruct (I x Hx) as (A & V & G). split; [exact G|].
  intros D. rewrite G. assert (L : length (enc_of x) <= sl_len (w_slice x)).
  { rewrite <- V. unfold view. apply firstn_le_length. }
  rewrite D. apply firstn_all2. exact L.
Qed.

(* a fresh enc_rule never gets stuck: every schedule runs *)
Lemma run_fresh_total r evs : fresh_rule r = true -> forall st, exists st', run marshal r st evs = Some st'.
Proof.
  intros F. induction evs as [|e t IH]; intros st; cbn [run]; [eexists; reflexivity|].
  destruct e as [w en m|w k]; cbn [step].
  - rewrite (fresh_rule_spec r F en). unfold alloc. apply IH.
  - apply IH.
Qed.

(* ---- schedules without overlap, any provenance *)
Definition wr_seq (h:list octets) (x:writer) : Prop :=
  sl_len (w_slice x) = length (enc_of x) /\ w_got x = firstn (w_pos x) (enc_of x) /\
  (w_pos x = sl_len (w_slice x) \/ view h (w_slice x) = enc_of x).

Definition vars_ok (st:state) : Prop := forall v s, var_lookup v (vars st) = Some s -> sl_arr s < length (heap st).

Definition inv_seq (st:state) : Prop := Forall (wr_seq (heap st)) (writers st) /\ vars_ok st.

Lemma view_length_le h s : length (view h s) <= sl_len s.
Proof. unfold view. apply firstn_le_length. Qed.

Lemma read_k_seq h x k : wr_seq h x -> wr_seq h (read_k h x k).
Proof.
  intros (L & G & D). unfold wr_seq, read_k, enc_of in *. cbn [w_slice w_pos w_got w_enc w_model].
  split; [exact L|]. destruct D as [D|V].
  - (* finished: nothing more to take *)
    assert (E : skipn (w_pos x) (view h (w_slice x)) = []).
    { apply skipn_all2. rewrite D. apply view_length_le. }
    rewrite E, firstn_nil. cbn [length]. rewrite Nat.add_0_r, app_nil_r. split; [exact G|]. left. exact D.
  - rewrite V, G. split; [symmetry; apply read_prefix|]. right. reflexivity.
Qed.

Lemma all_done_spec st : all_done st = true -> forall x, In x (writers st) -> w_pos x = sl_len (w_slice x).
Proof.
  unfold all_done. rewrite forallb_forall. intros H x Hx. apply Nat.eqb_eq. apply H. exact Hx.
Qed.

Lemma marshal_append_ok h cur b h' s :
  (forall c, cur = Some c -> sl_arr c < length h) -> marshal_append h cur b = (h', s) ->
  sl_arr s < length h' /\ view h' s = b /\ sl_len s = length b /\ length h <= length h'.
Proof.
  intros C H. assert (AL : forall h0, alloc h0 b = (h', s) ->
    sl_arr s < length h' /\ view h' s = b /\ sl_len s = length b /\ length h0 <= length h').
  { intros h0 A. unfold alloc in A. injection A as <- <-. unfold view. cbn [sl_arr sl_len]. rewrite app_length. cbn [length].
    split; [lia|]. split; [|split; [reflexivity|lia]]. rewrite app_nth2 by lia. rewrite Nat.sub_diag. apply firstn_all. }
  unfold marshal_append in H. destruct cur as [c|]; [|apply AL; exact H].
  destruct (length b <=? length (nth (sl_arr c) h [])) eqn:Q; [|apply AL; exact H].
  injection H as <- <-. specialize (C c eq_refl). unfold view. cbn [sl_arr sl_len]. rewrite upd_length.
  split; [exact C|]. split; [|split; [reflexivity|lia]]. rewrite nth_upd_same by exact C.
  rewrite firstn_app, Nat.sub_diag, firstn_all. cbn [firstn]. apply app_nil_r.
Qed.

Lemma step_seq r st e st' :
  inv_seq st -> (match e with EEnc _ _ _ => all_done st | ERead _ _ => true end) = true ->
  step marshal r st e = Some st' -> inv_seq st'.
Proof.
  intros (I & VO) D H. destruct e as [w en m|w k]; cbn [step] in H.
  - pose proof (all_done_spec st D) as AD.
    assert (OLD : forall h', Forall (wr_seq h') (writers st)).
    { intros h'. rewrite Forall_forall in *. intros x Hx. destruct (I x Hx) as (L & G & _).
      split; [exact L|]. split; [exact G|]. left. apply AD. exact Hx. }
    destruct (r en) as [|v|]; [| |discriminate].
    + unfold alloc in H. injection H as <-. split; cbn [heap writers vars].
      * constructor; [|apply OLD]. unfold wr_seq, view, enc_of. cbn [w_slice sl_arr sl_len w_pos w_got w_enc w_model].
        split; [reflexivity|]. split; [reflexivity|]. right. rewrite app_nth2 by lia. rewrite Nat.sub_diag. apply firstn_all.
      * intros v s Hs. cbn [heap vars] in *. rewrite app_length. specialize (VO v s Hs). lia.
    + destruct (marshal_append (heap st) (var_lookup v (vars st)) (marshal en m)) as [h' s] eqn:MA. injection H as <-.
      destruct (marshal_append_ok _ _ _ _ _ (fun c Hc => VO v c Hc) MA) as (A & V & L & GE).
      split; cbn [heap writers vars].
      * constructor; [|apply OLD]. unfold wr_seq, enc_of. cbn [w_slice w_pos w_got w_enc w_model].
        split; [exact L|]. split; [reflexivity|]. right. exact V.
      * intros v' s' Hs. cbn [heap vars var_lookup] in *. destruct (String.eqb v v').
        -- injection Hs as <-. exact A.
        -- specialize (VO v' s' Hs). lia.
  - injection H as <-. split; cbn [heap writers vars]; [|exact VO].
    apply Forall_forall. intros y Hy. apply in_map_iff in Hy. destruct Hy as (x & <- & Hx).
    rewrite Forall_forall in I. specialize (I x Hx). destruct (w_id x =? w); [apply read_k_seq|]; exact I.
Qed.

Theorem scratch_sequential_partial r evs :
  forall st st', inv_seq st -> sequential marshal r st evs = true -> run marshal r st evs = Some st' ->
  forall x, In x (writers st') ->
    w_got x = firstn (w_pos x) (enc_of x) /\ (w_pos x = sl_len (w_slice x) -> w_got x = enc_of x).
Proof.
  induction evs as [|e t IH]; intros st st' I S H x Hx; cbn [run sequential] in *.
  - injection H as <-. destruct I as (I & _). rewrite Forall_forall in I. destruct (I x Hx) as (L & G & _).
    split; [exact G|]. intros D. rewrite G, D, L. apply firstn_all.
  - apply andb_true_iff in S. destruct S as (D & S).
    destruct (step marshal r st e) as [s1|] eqn:E; [|discriminate].
    eapply IH; [eapply step_seq; eassumption|exact S|exact H|exact Hx].
Qed.

Lemma inv_seq_init : inv_seq init.
Proof. split; [constructor|]. intros v s H. discriminate. Qed.

End Proofs.

(* ---- a package-level scratch buffer: read one byte of A, encode B, read the rest of A *)
Definition scratch_rule : enc_rule := fun e => match e with EBin => PScratch "marshalScratch"%string | _ => PFresh end.
Definition ex_marshal : enc -> nat -> octets :=
  fun _ m => match m with O => [10; 1; 65; 18; 1; 66]%N | _ => [10; 1; 90]%N end.
Definition ex_overlap : list ev := [EEnc 0 EBin 0; ERead 0 1; EEnc 1 EBin 1; ERead 1 3; ERead 0 5].

Theorem scratch_buffer_refuted : exists marshal evs st x,
  run marshal scratch_rule init evs = Some st /\ In x (writers st) /\
  w_pos x = sl_len (w_slice x) /\ w_got x <> marshal (w_enc x) (w_model x).
Proof.
  exists ex_marshal, ex_overlap.
  destruct (run ex_marshal scratch_rule init ex_overlap) as [st|] eqn:E; [|vm_compute in E; discriminate].
  vm_compute in E. injection E as <-. eexists. eexists. split; [reflexivity|]. split; [right; left; reflexivity|].
  split; [reflexivity|]. vm_compute. discriminate.
Qed.

(* the same schedule with fresh slices delivers both (test, not a theorem: one schedule) *)
Example ex_overlap_fresh :
  option_map (fun st => (received st 0, received st 1)) (run ex_marshal (fun _ => PFresh) init ex_overlap)
  = Some (Some (ex_marshal EBin 0), Some (ex_marshal EBin 1)).
Proof. reflexivity. Qed.

(* the hypotheses of scratch_sequential_partial are met by a non-trivial schedule on the scratch enc_rule *)
Example ex_sequential :
  sequential ex_marshal scratch_rule init [EEnc 0 EBin 0; ERead 0 2; ERead 0 9; EEnc 1 EBin 1; ERead 1 3] = true /\
  sequential ex_marshal scratch_rule init ex_overlap = false.
Proof. split; reflexivity. Qed.
