(* C09: what the CURRENT pkg/pbutil says about state between encoder calls (Gen/PbState.v, regenerated on every run).
   The `reflexivity` lemmas are the obligations against the source: they stop checking when a function body of the
   package writes a package-level variable (or slices one, takes its address, passes a mutable one to a call), when the
   bytes an encoder hands to Write are not the fresh result of <MarshalOptions>.Marshal (optionally passed through
   Regexp.ReplaceAll), when a write site appears outside the three encoders, or when the set of writer entry points
   changes (the harness drives exactly this list). *)
From Coq Require Import String List Bool Arith NArith.
Import ListNotations.
Require Import Verif.Codec.EncState Verif.Codec.EncStateProps Verif.Gen.PbState.
Local Open Scope string_scope.
Local Open Scope list_scope.

Definition src_enc_rule : enc_rule := rule_of pb_write_sites.

Lemma no_package_state : stateless pb_vars pb_var_uses = true.
Proof. reflexivity. Qed.

Lemma encoders_write_fresh_bytes : fresh_rule src_enc_rule = true.
Proof. reflexivity. Qed.

(* bytes reach a writer in the three encoders only, through one Write each *)
Lemma write_sites_are_the_encoders :
  map (fun s => (ws_fn s, ws_callee s)) pb_write_sites = map (fun e => (enc_fn e, "io.Writer.Write")) all_encs.
Proof. reflexivity. Qed.

Lemma entry_points_as_expected :
  pb_entry_points =
  [("FJSONPB", ["FJSONPBWithOpt"]); ("FJSONPBWithOpt", []); ("FTextPB", ["FTextPBWithOpt"]); ("FTextPBWithOpt", []);
   ("GeneratePBBinaryMessage", []); ("GeneratePBBinaryMessageFile", ["GeneratePBBinaryMessage"]);
   ("JSONPB", ["JSONPBWithOpt"]); ("JSONPBWithOpt", ["FJSONPBWithOpt"]);
   ("OutputSplitApplications", ["FJSONPBWithOpt"; "GeneratePBBinaryMessageFile"; "TextPBWithOpt"]);
   ("TextPB", ["TextPBWithOpt"]); ("TextPBWithOpt", ["FTextPBWithOpt"])].
Proof. reflexivity. Qed.

(* every entry point ends in an encoder: following the calls from any of them one arrives at write sites only *)
Fixpoint reaches (fuel:nat) (eps:list (string * list string)) (fn:string) : bool :=
  match fuel with
  | O => false
  | S f =>
      match find (fun p => String.eqb (fst p) fn) eps with
      | Some (_, []) => existsb (fun e => String.eqb (enc_fn e) fn) all_encs
      | Some (_, cs) => forallb (reaches f eps) cs
      | None => false
      end
  end.
Lemma entry_points_end_in_encoders : forallb (fun p => reaches 4 pb_entry_points (fst p)) pb_entry_points = true.
Proof. reflexivity. Qed.

Section Source.
Variable marshal : enc -> nat -> octets.

Theorem source_encode_is_a_function_of_the_model : forall st1 st2 w1 w2 e m st1' st2',
  step marshal src_enc_rule st1 (EEnc w1 e m) = Some st1' -> step marshal src_enc_rule st2 (EEnc w2 e m) = Some st2' ->
  handed st1' = marshal e m /\ handed st2' = marshal e m /\ vars st1' = vars st1 /\ heap_kept st1 st1'.
Proof. exact (encode_is_a_function_of_the_model marshal src_enc_rule encoders_write_fresh_bytes). Qed.

Theorem source_overlapping_encodes_deliver : forall evs, exists st,
  run marshal src_enc_rule init evs = Some st /\
  forall x, In x (writers st) ->
    w_got x = firstn (w_pos x) (marshal (w_enc x) (w_model x)) /\
    (w_pos x = sl_len (w_slice x) -> w_got x = marshal (w_enc x) (w_model x)).
Proof.
  intros evs. destruct (run_fresh_total marshal src_enc_rule evs encoders_write_fresh_bytes init) as (st & H).
  exists st. split; [exact H|]. exact (overlapping_encodes_deliver marshal src_enc_rule evs st encoders_write_fresh_bytes H).
Qed.
End Source.

(* what the obligation excludes: the tables of a source that marshals into a package-level buffer *)
Definition scratch_sites : list write_site :=
  [WS "FJSONPBWithOpt" "io.Writer.Write" [DMarshal "protojson.MarshalOptions"; DReplaceAll "extraSpaceAfterKeyRE"];
   WS "FTextPBWithOpt" "io.Writer.Write" [DMarshal "prototext.MarshalOptions"];
   WS "GeneratePBBinaryMessage" "io.Writer.Write" [DAppendVar "marshalScratch"]].
Example scratch_sites_rule : forall e, rule_of scratch_sites e = scratch_rule e.
Proof. destruct e; reflexivity. Qed.
Example scratch_is_state :
  stateless [PVar "marshalScratch" KSlice "[]byte" true]
            [VU "marshalScratch" "GeneratePBBinaryMessage" USliced; VU "marshalScratch" "GeneratePBBinaryMessage" UWrite] = false /\
  fresh_rule (rule_of scratch_sites) = false.
Proof. split; reflexivity. Qed.
