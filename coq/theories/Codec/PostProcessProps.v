(* C09 proofs, part 3: post-processing is NOT idempotent (so re-import is not exact), in two ways, and the part
   that is. *)
From Coq Require Import List Bool PArith.
Import ListNotations.
Require Import Verif.Base.Harness Verif.Codec.PostProcess.
Local Open Scope positive_scope.

Definition no_mixins (m:pmodule) : bool := forallb (fun p => match a_mixins (snd p) with [] => true | _ => false end) m.
Definition no_collector (cn:positive) (m:pmodule) : bool :=
  forallb (fun p => match lookup cn (a_eps (snd p)) with None => true | Some _ => false end) m.

(* names: 1 = the collector endpoint, 2 = E, 3 = F; keys: 5 = patterns; application 10 = A, 11 = B *)
Definition ep0 : endpoint attr := {| e_attrs := []; e_stmts := [] |}.
Definition w_collector : pmodule :=
  [(10, {| a_mixins := []; a_types := []; a_views := [];
           a_eps := [(1, {| e_attrs := []; e_stmts := [SAction 2 [(5, AArr 6 [7])]; SCall 20 3 [(5, AArr 6 [8])]] |});
                     (2, {| e_attrs := []; e_stmts := [SBlock [SCall 20 3 []]] |})] |});
   (11, {| a_mixins := []; a_types := []; a_views := []; a_eps := [(3, ep0)] |})].

Theorem post_idempotent_collector_refuted : exists cn m m1 m2,
  post cn m = Some m1 /\ post cn m1 = Some m2 /\ pmodule_eqb m1 m2 = false /\ no_mixins m = true.
Proof.
  exists 1, w_collector. eexists. eexists.
  split; [vm_compute; reflexivity|]. split; [vm_compute; reflexivity|]. split; vm_compute; reflexivity.
Qed.

(* A -|> B -|> C, processed in the order A, B, C: A receives B's own types first, C's only the second time *)
Definition w_mixin : pmodule :=
  [(10, {| a_mixins := [11]; a_types := [(30, 40)]; a_views := []; a_eps := [] |});
   (11, {| a_mixins := [12]; a_types := [(31, 41)]; a_views := []; a_eps := [] |});
   (12, {| a_mixins := []; a_types := [(32, 42)]; a_views := []; a_eps := [] |})].

Theorem post_idempotent_mixin_refuted : exists cn m m1 m2,
  post cn m = Some m1 /\ post cn m1 = Some m2 /\ pmodule_eqb m1 m2 = false /\ no_collector cn m = true.
Proof.
  exists 1, w_mixin. eexists. eexists.
  split; [vm_compute; reflexivity|]. split; [vm_compute; reflexivity|]. split; vm_compute; reflexivity.
Qed.

(* ---- the part that is idempotent (in fact the identity): no mixins and no collector ---- *)
Fixpoint sorted_from {V} (lo:positive) (l:list (positive * V)) : bool :=
  match l with
  | [] => true
  | (k, _) :: r => Pos.ltb lo k && sorted_from k r
  end.
Definition sorted_keys {V} (l:list (positive * V)) : bool :=
  match l with [] => true | (k, _) :: r => sorted_from k r end.

Lemma sorted_from_lt {V} lo (l:list (positive * V)) k v : sorted_from lo l = true -> lookup k l = Some v -> (lo < k)%positive.
Proof.
  revert lo. induction l as [|[k' v'] r IH]; intros lo Hs Hl; [discriminate|].
  cbn in Hs. apply andb_true_iff in Hs. destruct Hs as [Hlt Hs]. apply Pos.ltb_lt in Hlt.
  cbn in Hl. destruct (Pos.eqb k k') eqn:E.
  - apply Pos.eqb_eq in E. subst. exact Hlt.
  - eapply Pos.lt_trans; [exact Hlt|]. eapply IH; eassumption.
Qed.

Lemma put_same_from {V} lo (l:list (positive * V)) k v :
  sorted_from lo l = true -> lookup k l = Some v -> put k v l = l.
Proof.
  revert lo. induction l as [|[k' v'] r IH]; intros lo Hs Hl; [discriminate|].
  cbn in Hs. apply andb_true_iff in Hs. destruct Hs as [Hlt Hs].
  cbn in Hl. cbn [put]. destruct (Pos.eqb k k') eqn:E.
  - apply Pos.eqb_eq in E. subst. congruence.
  - pose proof (sorted_from_lt k' r k v Hs Hl) as Hk.
    assert (Hn : Pos.ltb k k' = false) by (apply Pos.ltb_ge; apply Pos.lt_le_incl; exact Hk).
    rewrite Hn. f_equal. eapply IH; eassumption.
Qed.

Lemma put_same {V} (l:list (positive * V)) k v : sorted_keys l = true -> lookup k l = Some v -> put k v l = l.
Proof.
  destruct l as [|[k' v'] r]; intros Hs Hl; [discriminate|].
  cbn in Hs. cbn in Hl. cbn [put]. destruct (Pos.eqb k k') eqn:E.
  - apply Pos.eqb_eq in E. subst. congruence.
  - pose proof (sorted_from_lt k' r k v Hs Hl) as Hk.
    assert (Hn : Pos.ltb k k' = false) by (apply Pos.ltb_ge; apply Pos.lt_le_incl; exact Hk).
    rewrite Hn. f_equal. eapply put_same_from; eassumption.
Qed.

Lemma lookup_in {V} k (l:list (positive * V)) v : lookup k l = Some v -> In (k, v) l.
Proof.
  induction l as [|[k' v'] r IH]; [discriminate|]. cbn. destruct (Pos.eqb k k') eqn:E.
  - apply Pos.eqb_eq in E. subst. intros [= ->]. left. reflexivity.
  - intros H. right. apply IH, H.
Qed.

Theorem post_idempotent_partial cn m :
  sorted_keys m = true -> no_mixins m = true -> no_collector cn m = true -> post cn m = Some m.
Proof.
  intros Hs Hm Hc. unfold post. generalize (map fst m) as names.
  unfold no_mixins in Hm. unfold no_collector in Hc. rewrite forallb_forall in Hm, Hc.
  induction names as [|n r IH]; [reflexivity|].
  cbn [post_apps]. destruct (lookup n m) as [a|] eqn:L; [|exact IH].
  pose proof (lookup_in _ _ _ L) as Hin.
  specialize (Hm _ Hin). specialize (Hc _ Hin). cbn [snd] in Hm, Hc.
  unfold mix_all. destruct a as [mx ty vw eps]. cbn [a_mixins a_eps] in *.
  destruct mx; [|discriminate]. cbn [fold_left a_eps a_mixins a_types a_views].
  unfold collector. destruct (lookup cn eps); [discriminate|].
  rewrite (put_same m n _ Hs L). exact IH.
Qed.

Example partial_nonvacuous :
  let m : pmodule := [(10, {| a_mixins := []; a_types := [(30, 40)]; a_views := [];
                              a_eps := [(2, {| e_attrs := [(5, AArr 6 [7])]; e_stmts := [SBlock [SCall 20 3 [(5, AVal 9)]]; SRet] |})] |})] in
  sorted_keys m = true /\ no_mixins m = true /\ no_collector 1 m = true /\ post 1 m = Some m.
Proof. repeat split; reflexivity. Qed.
