(* C09 proofs, part 3: post-processing is NOT idempotent (so re-import is not exact), in two ways, and the part
   that is. *)
From Coq Require Import List Bool PArith.
Import ListNotations.
Require Import Verif.Base.Harness Verif.Codec.PostProcess.
Local Open Scope positive_scope.

Definition no_mixins (m:pmodule) : bool := forallb (fun p => match a_mixins (snd p) with [] => true | _ => false end) m.
Definition no_collector (cn:positive) (m:pmodule) : bool :=
  forallb (fun p => match lookup cn (a_eps (snd p)) with None => true | Some _ => false end) m.

(* names: 1 = the collector endpoint, 2 = E, 3 = F; keys: 5 = patterns; application 10 = A, 11 = B *)
Definition ep0 : endpoint attr := {| e_attrs := []; e_stmts := [] |}.
Definition w_collector : pmodule :=
  [(10, {| a_mixins := []; a_types := []; a_views := [];
           a_eps := [(1, {| e_attrs := []; e_stmts := [SAction 2 [(5, AArr 6 [7])]; SCall 20 3 [(5, AArr 6 [8])]] |});
                     (2, {| e_attrs := []; e_stmts := [SBlock [SCall 20 3 []]] |})] |});
   (11, {| a_mixins := []; a_types := []; a_views := []; a_eps := [(3, ep0)] |})].

Theorem post_idempotent_collector_refuted : exists cn m m1 m2,
  post cn m = Some m1 /\ post cn m1 = Some m2 /\ pmodule_eqb m1 m2 = false /\ no_mixins m = true.
Proof.
  exists 1, w_collector. eexists. eexists.
  split; [vm_compute; reflexivity|]. split; [vm_compute; reflexivity|]. split; vm_compute; reflexivity.
Qed.

(* A -|> B -|> C, processed in the order A, B, C: A receives B's own types first, C's only the second time *)
Definition w_mixin : pmodule :=
  [(10, {| a_mixins := [11]; a_types := [(30, 40)]; a_views := []; a_eps := [] |});
   (11, {| a_mixins := [12]; a_types := [(31, 41)]; a_views := []; a_eps := [] |});
   (12, {| a_mixins := []; a_types := [(32, 42)]; a_views := []; a_eps := [] |})].

Theorem post_idempotent_mixin_refuted : exists cn m m1 m2,
  post cn m = Some m1 /\ post cn m1 = Some m2 /\ pmodule_eqb m1 m2 = false /\ no_collector cn m = true.
Proof.
  exists 1, w_mixin. eexists. eexists.
  split; [vm_compute; reflexivity|]. split; [vm_compute; reflexivity|]. split; vm_compute; reflexivity.
Qed.

(* ---- a module every application of which is left alone by one step is left alone by the whole pass ---- *)
Lemma post_go_fixed cn todo : forall done,
  (forall n a, In (n, a) todo -> step_app cn (done ++ todo) a = Some a) -> post_go cn done todo = Some (done ++ todo).
Proof.
  induction todo as [|[n a] r IH]; intros done H.
  - cbn. rewrite app_nil_r. reflexivity.
  - cbn [post_go]. rewrite (H n a (or_introl eq_refl)).
    replace (done ++ (n, a) :: r) with ((done ++ [(n, a)]) ++ r) by (rewrite <- app_assoc; reflexivity).
    apply IH. intros n' a' Hin. rewrite <- app_assoc. cbn [List.app]. apply (H n' a'). right. exact Hin.
Qed.

Lemma post_fixed cn m : (forall n a, In (n, a) m -> step_app cn m a = Some a) -> post cn m = Some m.
Proof. intros H. unfold post. apply (post_go_fixed cn m []). exact H. Qed.

(* ================================================================ idempotence under the stated condition *)
Require Import Verif.Codec.AssocProps Verif.Codec.CollectorProps.
From Coq Require Import NArith Lia.

(* ---- collector: a fixed point after one application ---- *)
Lemma collector_idem cn eps e1 :
  coll_cond cn eps = true -> forallb (fun p => ep_sorted (snd p)) eps = true ->
  collector cn eps = Some e1 -> collector cn e1 = Some e1.
Proof.
  intros Hc Hso H. rewrite (collector_closed_form cn eps Hc) in H. injection H as <-.
  unfold coll_result. pose proof Hc as Hc'. unfold coll_cond in Hc'.
  apply andb_true_iff in Hc'. destruct Hc' as [Hc1 Hc3]. apply andb_true_iff in Hc1. destruct Hc1 as [Hs Hnb].
  destruct (lookup cn eps) as [c|] eqn:L.
  - set (cs := e_stmts c) in *.
    assert (Lc : lookup cn (cf_eps cs cn eps) = Some (cf_ep cs cn cn c)) by (unfold cf_eps; rewrite lookup_map_kv, L; reflexivity).
    assert (Est : e_stmts (cf_ep cs cn cn c) = cs) by (unfold cf_ep; cbn; rewrite Pos.eqb_refl; reflexivity).
    assert (Hc2 : coll_cond cn (cf_eps cs cn eps) = true).
    { unfold coll_cond. rewrite Lc, Est. unfold cf_eps at 1. rewrite sorted_map_kv, Hs, (eps_no_bad_cf cs cn eps Hnb). exact Hc3. }
    rewrite (collector_closed_form cn _ Hc2). unfold coll_result. rewrite Lc, Est. f_equal. apply cf_eps_idem, Hso.
  - apply collector_closed_form in Hc. unfold coll_result in Hc. rewrite L in Hc. exact Hc.
Qed.

(* ---- mixins ---- *)
Definition covers {V} (src dst:list (positive * V)) : Prop := forall k, lookup k src <> None -> lookup k dst <> None.

Lemma lookup_add_missing {V} (src:list (positive * V)) : forall dst k,
  lookup k (add_missing src dst) = match lookup k dst with Some v => Some v | None => lookup k src end.
Proof.
  induction src as [|[k0 v0] r IH]; intros dst k; cbn [add_missing].
  - destruct (lookup k dst); reflexivity.
  - rewrite IH. cbn [lookup]. destruct (lookup k0 dst) as [w|] eqn:E0.
    + destruct (lookup k dst) eqn:Ek; [reflexivity|]. destruct (Pos.eqb k k0) eqn:E; [|reflexivity].
      apply Pos.eqb_eq in E. subst. congruence.
    + rewrite lookup_put. destruct (Pos.eqb k k0) eqn:E.
      * apply Pos.eqb_eq in E. subst. rewrite E0. reflexivity.
      * reflexivity.
Qed.

Lemma add_missing_covered {V} (src dst:list (positive * V)) : covers src dst -> add_missing src dst = dst.
Proof.
  revert dst. induction src as [|[k0 v0] r IH]; intros dst H; [reflexivity|]. cbn [add_missing].
  destruct (lookup k0 dst) eqn:E.
  - apply IH. intros k Hk. apply H. cbn. destruct (Pos.eqb k k0); [discriminate|exact Hk].
  - exfalso. apply (H k0); [cbn; rewrite Pos.eqb_refl; discriminate|exact E].
Qed.

Lemma covers_add_src {V} (src dst:list (positive * V)) : covers src (add_missing src dst).
Proof. intros k H. rewrite lookup_add_missing. destruct (lookup k dst); [discriminate|exact H]. Qed.
Lemma covers_add_dst {V} (src dst x:list (positive * V)) : covers x dst -> covers x (add_missing src dst).
Proof. intros Hx k H. rewrite lookup_add_missing. specialize (Hx k H). destruct (lookup k dst); [discriminate|congruence]. Qed.
Lemma covers_refl {V} (x:list (positive * V)) : covers x x.
Proof. intros k H. exact H. Qed.

Lemma mix_one_fields {C} (m:list (positive * app C)) a s :
  a_mixins (mix_one m a s) = a_mixins a /\ a_eps (mix_one m a s) = a_eps a.
Proof. unfold mix_one. destruct (lookup s m); split; reflexivity. Qed.

Lemma fold_mix_fields {C} (m:list (positive * app C)) srcs : forall a,
  a_mixins (fold_left (mix_one m) srcs a) = a_mixins a /\ a_eps (fold_left (mix_one m) srcs a) = a_eps a.
Proof.
  induction srcs as [|s r IH]; intros a; [split; reflexivity|]. cbn. destruct (IH (mix_one m a s)) as [I1 I2].
  destruct (mix_one_fields m a s) as [M1 M2]. split; congruence.
Qed.

Lemma fold_mix_covers {C} (m:list (positive * app C)) srcs : forall a,
  (forall x:list (positive * positive), covers x (a_types a) -> covers x (a_types (fold_left (mix_one m) srcs a))) /\
  (forall x:list (positive * positive), covers x (a_views a) -> covers x (a_views (fold_left (mix_one m) srcs a))) /\
  (forall s sa, In s srcs -> lookup s m = Some sa ->
     covers (a_types sa) (a_types (fold_left (mix_one m) srcs a)) /\ covers (a_views sa) (a_views (fold_left (mix_one m) srcs a))).
Proof.
  induction srcs as [|s0 r IH]; intros a.
  - split; [auto|]. split; [auto|]. intros s sa [].
  - cbn [fold_left]. destruct (IH (mix_one m a s0)) as [I1 [I2 I3]].
    assert (Mt : forall x, covers x (a_types a) -> covers x (a_types (mix_one m a s0))).
    { intros x Hx. unfold mix_one. destruct (lookup s0 m); [cbn; apply covers_add_dst, Hx|exact Hx]. }
    assert (Mv : forall x, covers x (a_views a) -> covers x (a_views (mix_one m a s0))).
    { intros x Hx. unfold mix_one. destruct (lookup s0 m); [cbn; apply covers_add_dst, Hx|exact Hx]. }
    split; [intros x Hx; apply I1, Mt, Hx|]. split; [intros x Hx; apply I2, Mv, Hx|].
    intros s sa [<-|Hin] Hl.
    + split; [apply I1|apply I2]; unfold mix_one; rewrite Hl; cbn; apply covers_add_src.
    + apply (I3 s sa Hin Hl).
Qed.

Lemma fold_mix_nil_types {C} (m:list (positive * app C)) (a:app C) :
  a_mixins a = [] -> a_types (mix_all m a) = a_types a /\ a_views (mix_all m a) = a_views a.
Proof. unfold mix_all. intros ->. split; reflexivity. Qed.

(* mixing against a module whose sources are all covered already changes nothing *)
Lemma fold_mix_fixed (m:pmodule) (b:app attr) srcs :
  (forall s sb, In s srcs -> lookup s m = Some sb -> covers (a_types sb) (a_types b) /\ covers (a_views sb) (a_views b)) ->
  fold_left (mix_one m) srcs b = b.
Proof.
  induction srcs as [|s r IH]; intros H; [reflexivity|].
  cbn [fold_left]. assert (E : mix_one m b s = b).
  { unfold mix_one. destruct (lookup s m) as [sb|] eqn:L; [|reflexivity].
    destruct (H s sb (or_introl eq_refl) L) as [Ht Hv]. rewrite (add_missing_covered _ _ Ht), (add_missing_covered _ _ Hv).
    destruct b; reflexivity. }
  rewrite E. apply IH. intros s' sb Hin. apply H. right. exact Hin.
Qed.

Lemma mix_all_fixed (m:pmodule) (b:app attr) :
  (forall s sb, In s (a_mixins b) -> lookup s m = Some sb -> covers (a_types sb) (a_types b) /\ covers (a_views sb) (a_views b)) ->
  mix_all m b = b.
Proof. apply fold_mix_fixed. Qed.

(* ---- the condition ---- *)
Definition app_cond (cn:positive) (a:app attr) : bool :=
  coll_cond cn (a_eps a) && forallb (fun p => ep_sorted (snd p)) (a_eps a).

(* every mixin source is an application rebuilt earlier (dk), the application itself, absent, or has no mixins of its own *)
Fixpoint settled (dk:list positive) (todo:pmodule) : bool :=
  match todo with
  | [] => true
  | (n, a) :: r =>
      forallb (fun s => existsb (Pos.eqb s) dk || Pos.eqb s n ||
                        match lookup s r with
                        | None => true
                        | Some sa => match a_mixins sa with [] => true | _ => false end
                        end) (a_mixins a) && settled (dk ++ [n]) r
  end.

Definition idem_cond (cn:positive) (m:pmodule) : bool :=
  forallb (fun p => app_cond cn (snd p)) m && settled [] m.

Definition rel1 (p q:positive * app attr) : Prop :=
  fst p = fst q /\ a_mixins (snd q) = a_mixins (snd p) /\
  (a_mixins (snd p) = [] -> a_types (snd q) = a_types (snd p) /\ a_views (snd q) = a_views (snd p)).

Lemma lookup_app_in {V} s (d x:list (positive * V)) :
  existsb (Pos.eqb s) (map fst d) = true -> lookup s (d ++ x) = lookup s d.
Proof.
  induction d as [|[k v] d IH]; [discriminate|]. cbn. destruct (Pos.eqb s k); [reflexivity|]. exact IH.
Qed.
Lemma lookup_app_notin {V} s (d x:list (positive * V)) :
  existsb (Pos.eqb s) (map fst d) = false -> lookup s (d ++ x) = lookup s x.
Proof.
  induction d as [|[k v] d IH]; [reflexivity|]. cbn. destruct (Pos.eqb s k); [discriminate|]. exact IH.
Qed.

Lemma rel_lookup r r1 s : Forall2 rel1 r r1 ->
  match lookup s r, lookup s r1 with
  | None, None => True
  | Some sa, Some sb => a_mixins sa = [] -> a_types sb = a_types sa /\ a_views sb = a_views sa
  | _, _ => False
  end.
Proof.
  induction 1 as [|[n a] [n' b] r r1 [Hn [_ Ht]] _ IH]; [exact I|]. cbn in Hn. subst n'. cbn.
  destruct (Pos.eqb s n); [exact Ht|exact IH].
Qed.

Lemma step_app_fields cn m a b : step_app cn m a = Some b ->
  a_mixins b = a_mixins a /\ a_types b = a_types (mix_all m a) /\ a_views b = a_views (mix_all m a) /\
  collector cn (a_eps a) = Some (a_eps b).
Proof.
  unfold step_app. destruct (fold_mix_fields m (a_mixins a) a) as [F1 F2]. fold (mix_all m a) in F1, F2. rewrite F2.
  destruct (collector cn (a_eps a)); [|discriminate]. intros [= <-]. cbn. auto.
Qed.

Lemma post_go_spec cn : forall todo done m1,
  post_go cn done todo = Some m1 ->
  (forall n a, In (n, a) todo -> app_cond cn a = true) -> settled (map fst done) todo = true ->
  exists todo', m1 = done ++ todo' /\ Forall2 rel1 todo todo' /\ (forall n b, In (n, b) todo' -> step_app cn m1 b = Some b).
Proof.
  induction todo as [|[n a] r IH]; intros done m1 Hp Hc Hs.
  - cbn in Hp. injection Hp as <-. exists []. rewrite app_nil_r. split; [reflexivity|]. split; [constructor|intros ? ? []].
  - cbn [post_go] in Hp. set (M := done ++ (n, a) :: r) in *. destruct (step_app cn M a) as [b|] eqn:Es; [|discriminate].
    cbn [settled] in Hs. apply andb_true_iff in Hs. destruct Hs as [Hsrc Hs].
    destruct (IH (done ++ [(n, b)]) m1 Hp (fun n' a' H => Hc n' a' (or_intror H))) as [r1 [Em [Hrel Hfix]]].
    { rewrite map_app. exact Hs. }
    exists ((n, b) :: r1). rewrite <- app_assoc in Em. cbn [List.app] in Em. split; [exact Em|].
    destruct (step_app_fields cn M a b Es) as [Fm [Ft [Fv Fc]]].
    split.
    { constructor; [|exact Hrel]. split; [reflexivity|]. split; [exact Fm|]. cbn [snd]. intros Hnil.
      destruct (fold_mix_nil_types M a Hnil) as [T1 T2]. split; congruence. }
    intros n' b' [[= <- <-]|Hin]; [|apply (Hfix n' b' Hin)].
    (* the head: b against the final module *)
    pose proof (Hc n a (or_introl eq_refl)) as Hac. unfold app_cond in Hac. apply andb_true_iff in Hac. destruct Hac as [Hcc Hso].
    assert (Emix : mix_all m1 b = b).
    { apply mix_all_fixed. rewrite Fm. intros s sb Hin Hl. rewrite Ft, Fv.
      destruct (fold_mix_covers M (a_mixins a) a) as [_ [_ Cov]]. fold (mix_all M a) in Cov.
      rewrite forallb_forall in Hsrc. specialize (Hsrc s Hin).
      destruct (existsb (Pos.eqb s) (map fst done)) eqn:Ed.
      - (* rebuilt earlier: the same application then and now *)
        apply (Cov s sb Hin). unfold M. rewrite (lookup_app_in s done _ Ed). rewrite Em, (lookup_app_in s done _ Ed) in Hl. exact Hl.
      - cbn [orb] in Hsrc. rewrite Em, (lookup_app_notin s done _ Ed) in Hl. cbn [lookup] in Hl.
        destruct (Pos.eqb s n) eqn:En.
        + injection Hl as <-. rewrite <- Ft, <- Fv. split; apply covers_refl.
        + cbn [orb] in Hsrc. pose proof (rel_lookup r r1 s Hrel) as R. rewrite Hl in R.
          destruct (lookup s r) as [sa|] eqn:Lr; [|destruct R].
          destruct (a_mixins sa) eqn:Ems; [|discriminate]. destruct (R eq_refl) as [R1 R2]. rewrite R1, R2.
          apply (Cov s sa Hin). unfold M. rewrite (lookup_app_notin s done _ Ed). cbn [lookup]. rewrite En. exact Lr. }
    unfold step_app. rewrite Emix. rewrite (collector_idem cn (a_eps a) (a_eps b) Hcc Hso Fc). destruct b; reflexivity.
Qed.

(* re-running the post-processing on its own result changes nothing, for every module whose collector statements
   carry scalar attributes only and whose mixin sources are settled (plus the harness-guaranteed shape: key-sorted
   maps, every statement has a kind) *)
Theorem post_idempotent cn m m1 : idem_cond cn m = true -> post cn m = Some m1 -> post cn m1 = Some m1.
Proof.
  unfold idem_cond, post. intros H Hp. apply andb_true_iff in H. destruct H as [Hc Hs].
  rewrite forallb_forall in Hc.
  destruct (post_go_spec cn m [] m1 Hp (fun n a Hin => Hc (n, a) Hin) Hs) as [t' [Em [_ Hfix]]].
  cbn [List.app] in Em. subst t'. apply post_fixed. exact Hfix.
Qed.

(* ---- both refutation witnesses are outside the condition; typical modules are inside ---- *)
Example witnesses_outside : idem_cond 1 w_collector = false /\ idem_cond 1 w_mixin = false.
Proof. split; vm_compute; reflexivity. Qed.

(* scalar collector attributes (on an endpoint and on a nested call), A -|> B with B plain (single level),
   and a settled chain D -|> C -|> B (every source sorted before its user) *)
Definition ex_inside : pmodule :=
  [(10, {| a_mixins := [11]; a_types := [(30, 40)]; a_views := [];
           a_eps := [(1, {| e_attrs := []; e_stmts := [SAction 2 [(5, AVal 7)]; SCall 20 3 [(5, AVal 8); (6, AVal 9)]; SAction 2 [(5, AVal 8)]] |});
                     (2, {| e_attrs := [(5, AArr 6 [7])]; e_stmts := [SAlt [SBlock [SCall 20 3 [(6, AArr 6 [7; 7])]]; SBlock [SRet]]] |})] |});
   (11, {| a_mixins := []; a_types := [(31, 41)]; a_views := [(33, 43)]; a_eps := [(3, ep0)] |});
   (12, {| a_mixins := [11]; a_types := [(32, 42)]; a_views := []; a_eps := [] |});
   (13, {| a_mixins := [12]; a_types := []; a_views := []; a_eps := [] |})].

Example inside_nonvacuous :
  idem_cond 1 ex_inside = true /\
  (exists m1, post 1 ex_inside = Some m1 /\ pmodule_eqb m1 ex_inside = false /\ post 1 m1 = Some m1).
Proof. split; [vm_compute; reflexivity|]. eexists. split; [vm_compute; reflexivity|]. split; vm_compute; reflexivity. Qed.

(* ================================================================ re-import *)
Lemma post_go_keys cn : forall todo done m1, post_go cn done todo = Some m1 -> map fst m1 = map fst done ++ map fst todo.
Proof.
  induction todo as [|[n a] r IH]; intros done m1 H; cbn [post_go] in H.
  - injection H as <-. rewrite app_nil_r. reflexivity.
  - destruct (step_app cn (done ++ (n, a) :: r) a); [|discriminate]. rewrite (IH _ _ H), map_app, <- app_assoc. reflexivity.
Qed.

Lemma sorted_from_keys {A B} lo (a:list (positive * A)) (b:list (positive * B)) :
  map fst a = map fst b -> sorted_from lo a = sorted_from lo b.
Proof.
  revert lo b. induction a as [|[k v] a IH]; intros lo [|[k' v'] b] H; try discriminate; [reflexivity|].
  cbn in H. injection H as -> H. cbn. rewrite (IH _ _ H). reflexivity.
Qed.

Lemma post_sorted cn m m1 : post cn m = Some m1 -> sorted m = true -> sorted m1 = true.
Proof. intros H Hs. unfold sorted. rewrite (sorted_from_keys 0%N m1 m); [exact Hs|]. apply (post_go_keys cn m [] m1 H). Qed.

Lemma sorted_from_app_lt {V} (acc:list (positive * V)) k v r : forall lo,
  sorted_from lo (acc ++ (k, v) :: r) = true -> forallb (fun p => Pos.ltb (fst p) k) acc = true.
Proof.
  induction acc as [|[k0 v0] acc IH]; intros lo H; [reflexivity|]. cbn in H. apply andb_true_iff in H. destruct H as [_ H].
  cbn. rewrite (IH _ H), andb_true_r. clear IH.
  assert (G : forall (x:list (positive * V)) l, sorted_from l (x ++ (k, v) :: r) = true -> (l < Npos k)%N).
  { induction x as [|[k1 v1] x IHx]; intros l Hx; cbn in Hx; apply andb_true_iff in Hx; destruct Hx as [H1 H2]; apply N.ltb_lt in H1; [exact H1|].
    specialize (IHx _ H2). lia. }
  specialize (G acc (Npos k0) H). apply Pos.ltb_lt. lia.
Qed.

Lemma put_at_end {V} (acc:list (positive * V)) k v :
  forallb (fun p => Pos.ltb (fst p) k) acc = true -> put k v acc = acc ++ [(k, v)] /\ lookup k acc = None.
Proof.
  induction acc as [|[k0 v0] acc IH]; intros H; [split; reflexivity|]. cbn in H. apply andb_true_iff in H. destruct H as [H0 H].
  apply Pos.ltb_lt in H0. destruct (IH H) as [I1 I2]. cbn.
  assert (E : Pos.eqb k k0 = false) by (apply Pos.eqb_neq; lia). assert (L : Pos.ltb k k0 = false) by (apply Pos.ltb_ge; lia).
  rewrite E, L, I1. split; [reflexivity|exact I2].
Qed.

Lemma add_missing_sorted_app {V} (src:list (positive * V)) : forall acc, sorted (acc ++ src) = true -> add_missing src acc = acc ++ src.
Proof.
  induction src as [|[k v] r IH]; intros acc H; [rewrite app_nil_r; reflexivity|]. cbn [add_missing].
  destruct (put_at_end acc k v (sorted_from_app_lt acc k v r _ H)) as [P1 P2]. rewrite P2, P1.
  rewrite IH; rewrite <- app_assoc; [reflexivity|exact H].
Qed.

Section Reimport.
  (* the wire: any encoding whose decoder inverts it (library contract; observed by the Go oracle for pb / JSON / text) *)
  Variable code : Type.
  Variable encode : pmodule -> code.
  Variable decode : code -> option pmodule.
  Hypothesis decode_encode : forall m, decode (encode m) = Some m.

  (* parseSpecs on a specification that only imports the file: the listener's module is empty, mergo.Merge copies
     every application of the decoded module into it (a key that is absent is added), then postProcess *)
  Definition merge_apps (dst src:pmodule) : pmodule := add_missing src dst.
  Definition reimport (cn:positive) (c:code) : option pmodule :=
    match decode c with Some x => post cn (merge_apps [] x) | None => None end.

  Theorem reimport_is_post_post cn m m1 :
    sorted m = true -> post cn m = Some m1 -> reimport cn (encode m1) = post cn m1.
  Proof.
    intros Hs Hp. unfold reimport, merge_apps. rewrite decode_encode.
    rewrite (add_missing_sorted_app m1 []); [reflexivity|]. cbn [List.app]. apply (post_sorted cn m m1 Hp Hs).
  Qed.

  (* a specification that only imports a compiled model compiles to the same applications *)
  Theorem reimport_reproduces cn m m1 :
    sorted m = true -> idem_cond cn m = true -> post cn m = Some m1 -> reimport cn (encode m1) = Some m1.
  Proof. intros Hs Hc Hp. rewrite (reimport_is_post_post cn m m1 Hs Hp). apply (post_idempotent cn m m1 Hc Hp). Qed.
End Reimport.
