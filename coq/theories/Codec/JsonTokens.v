(* C09 model, part 1b: a token-level reading of JSON text, to state that the clean-up keeps output well-formed.
   tok    - tokenizer: strings (escape-aware, content dropped, control bytes and unknown escapes rejected),
            literals (numbers, true/false/null: kept as written), the six punctuation bytes; blanks separate.
   check  - pushdown check of the token stream against the JSON grammar (value / object / array, commas, colons).
   json_wf b = the bytes tokenise and the tokens form exactly one JSON value.
   Definitions only; proofs in JsonTokensProps.v. *)
From Coq Require Import String Ascii List Bool NArith.
Import ListNotations.
Require Import Verif.Codec.JsonClean.
Local Open Scope char_scope.
Local Open Scope list_scope.

Inductive token := TStr | TLit (s:bytes) | TPunct (c:ascii).
Inductive tstate := TOut | TInStr | TEsc | TLitS (acc:bytes).   (* acc: the literal so far, reversed *)

Definition is_punct (c:ascii) : bool :=
  Ascii.eqb c "{" || Ascii.eqb c "}" || Ascii.eqb c "[" || Ascii.eqb c "]" || Ascii.eqb c ":" || Ascii.eqb c ",".
Definition is_escapable (c:ascii) : bool :=
  Ascii.eqb c c_quote || Ascii.eqb c c_bsl || Ascii.eqb c "/" || Ascii.eqb c "b" || Ascii.eqb c "f" || Ascii.eqb c "n" ||
  Ascii.eqb c "r" || Ascii.eqb c "t" || Ascii.eqb c "u".

Definition tstep (s:tstate) (c:ascii) : option (tstate * list token) :=
  match s with
  | TOut =>
      if is_ws c then Some (TOut, [])
      else if Ascii.eqb c c_quote then Some (TInStr, [])
      else if is_punct c then Some (TOut, [TPunct c])
      else Some (TLitS [c], [])
  | TInStr =>
      if Ascii.eqb c c_quote then Some (TOut, [TStr])
      else if Ascii.eqb c c_bsl then Some (TEsc, [])
      else if (N_of_ascii c <? 32)%N then None
      else Some (TInStr, [])
  | TEsc => if is_escapable c then Some (TInStr, []) else None
  | TLitS acc =>
      if is_ws c then Some (TOut, [TLit (rev acc)])
      else if is_punct c then Some (TOut, [TLit (rev acc); TPunct c])
      else if Ascii.eqb c c_quote then None
      else Some (TLitS (c :: acc), [])
  end.

Definition tfinish (s:tstate) : option (list token) :=
  match s with TOut => Some [] | TLitS acc => Some [TLit (rev acc)] | TInStr | TEsc => None end.

Fixpoint tok (s:tstate) (l:bytes) : option (list token) :=
  match l with
  | [] => tfinish s
  | c :: r =>
      match tstep s c with
      | None => None
      | Some (s', ts) => match tok s' r with Some rest => Some (ts ++ rest) | None => None end
      end
  end.

(* literals: true / false / null, or something that starts like a number *)
Fixpoint beq (a b:bytes) : bool :=
  match a, b with
  | [], [] => true
  | x :: a', y :: b' => Ascii.eqb x y && beq a' b'
  | _, _ => false
  end.
Definition is_digit (c:ascii) : bool := (48 <=? N_of_ascii c)%N && (N_of_ascii c <=? 57)%N.
Definition lit_ok (s:bytes) : bool :=
  beq s (list_ascii_of_string "true") || beq s (list_ascii_of_string "false") || beq s (list_ascii_of_string "null") ||
  match s with c :: _ => is_digit c || Ascii.eqb c "-" | [] => false end.

Inductive ctx := CObj | CArr.
Inductive expect := EValue | EKeyOrEnd | EKey | EColon | ECommaOrEnd | EValueOrEnd | EDone.

Definition after_value (stack:list ctx) : expect := match stack with [] => EDone | _ => ECommaOrEnd end.

Fixpoint check (stack:list ctx) (e:expect) (ts:list token) : bool :=
  match ts with
  | [] => match e with EDone => true | _ => false end
  | t :: r =>
      let value (stack:list ctx) :=
        match t with
        | TStr => check stack (after_value stack) r
        | TLit s => lit_ok s && check stack (after_value stack) r
        | TPunct c =>
            if Ascii.eqb c "{" then check (CObj :: stack) EKeyOrEnd r
            else if Ascii.eqb c "[" then check (CArr :: stack) EValueOrEnd r
            else false
        end in
      let close (c:ascii) :=
        match stack with
        | CObj :: st' => if Ascii.eqb c "}" then check st' (after_value st') r else false
        | CArr :: st' => if Ascii.eqb c "]" then check st' (after_value st') r else false
        | [] => false
        end in
      match e with
      | EValue => value stack
      | EValueOrEnd => match t with TPunct c => if Ascii.eqb c "]" then close c else value stack | _ => value stack end
      | EKeyOrEnd => match t with TStr => check stack EColon r | TPunct c => if Ascii.eqb c "}" then close c else false | _ => false end
      | EKey => match t with TStr => check stack EColon r | _ => false end
      | EColon => match t with TPunct c => if Ascii.eqb c ":" then check stack EValue r else false | _ => false end
      | ECommaOrEnd =>
          match t with
          | TPunct c =>
              if Ascii.eqb c "," then match stack with CObj :: _ => check stack EKey r | CArr :: _ => check stack EValue r | [] => false end
              else close c
          | _ => false
          end
      | EDone => false
      end
  end.

Definition json_wf (b:bytes) : bool :=
  match tok TOut b with Some ts => check [] EValue ts | None => false end.
