(* C09 - proofs about the location stripper of `sysl pb --mode json --compact` (model: Codec/StripCtx.v). *)
From Coq Require Import String Ascii List Bool PArith NArith.
Import ListNotations.
Require Import Verif.Codec.StripCtx.
Local Open Scope string_scope.
Local Open Scope list_scope.

(* ---- induction over the nested tree *)
Section gval_induction.
  Variable P : gval -> Prop.
  Hypothesis Hs : forall i, P (GScalar i).
  Hypothesis Hn : P GNil.
  Hypothesis Hl : forall vs, Forall P vs -> P (GList vs).
  Hypothesis Hm : forall kvs, Forall (fun kv => P (snd kv)) kvs -> P (GMap kvs).
  Hypothesis Hst : forall w ty fs, Forall (fun f => P (snd f)) fs -> P (GStruct w ty fs).

  Fixpoint gval_ind2 (v:gval) : P v :=
    match v with
    | GScalar i => Hs i
    | GNil => Hn
    | GList vs => Hl vs ((fix go (l:list gval) : Forall P l :=
                            match l with [] => Forall_nil _ | x :: l' => Forall_cons _ (gval_ind2 x) (go l') end) vs)
    | GMap kvs => Hm kvs ((fix go (l:list (positive * gval)) : Forall (fun kv => P (snd kv)) l :=
                            match l with [] => Forall_nil _ | (k, x) :: l' => Forall_cons (k, x) (gval_ind2 x) (go l') end) kvs)
    | GStruct w ty fs => Hst w ty fs ((fix go (l:list (string * gval)) : Forall (fun f => P (snd f)) l :=
                            match l with [] => Forall_nil _ | (n, x) :: l' => Forall_cons (n, x) (gval_ind2 x) (go l') end) fs)
    end.
End gval_induction.

Lemma map_ext_Forall {A B} (f g:A -> B) l : Forall (fun x => f x = g x) l -> map f l = map g l.
Proof. induction 1 as [|x l H _ IH]; cbn [map]; [reflexivity|]. rewrite H, IH. reflexivity. Qed.

Lemma flat_map_ext_Forall {A B} (f g:A -> list B) l : Forall (fun x => f x = g x) l -> flat_map f l = flat_map g l.
Proof. induction 1 as [|x l H _ IH]; cbn [flat_map]; [reflexivity|]. rewrite H, IH. reflexivity. Qed.

Lemma flat_map_flat_map {A B C} (f:A -> list B) (g:B -> list C) l :
  flat_map g (flat_map f l) = flat_map (fun x => flat_map g (f x)) l.
Proof. induction l as [|x l IH]; cbn [flat_map]; [reflexivity|]. rewrite flat_map_app, IH. reflexivity. Qed.

(* ---- 1. the walk changes nothing but locations: for every rule whose overwrite test accepts location names only,
   and every value tree, dropping all locations after the walk = dropping all locations without it *)
Theorem strip_only_locations (L:string -> bool) (r:rule) :
  (forall n, any_test (r_clear r) n = true -> L n = true) ->
  forall v, erase L (strip r v) = erase L v.
Proof.
  intros HL. induction v as [i| |vs IH|kvs IH|w ty fs IH] using gval_ind2; cbn [strip erase]; try reflexivity.
  - destruct (r_list r); [|reflexivity]. cbn [erase]. rewrite map_map. f_equal. apply map_ext_Forall. exact IH.
  - destruct (r_map r); [|reflexivity]. cbn [erase]. rewrite map_map. f_equal. apply map_ext_Forall.
    eapply Forall_impl; [|exact IH]. intros [k x] H. cbn [snd] in H. cbn. rewrite H. reflexivity.
  - destruct (r_ptr r && (negb w || r_iface r) && r_struct r); [|reflexivity]. cbn [erase]. f_equal.
    rewrite flat_map_flat_map. apply flat_map_ext_Forall.
    eapply Forall_impl; [|exact IH]. intros [n x] H. cbn [snd] in H.
    destruct (any_test (r_skip r) n); [cbn [flat_map]; rewrite app_nil_r; reflexivity|].
    destruct (any_test (r_clear r) n) eqn:C.
    + rewrite (HL n C). destruct (r_zero r); cbn [flat_map]; [reflexivity|]. rewrite (HL n C). reflexivity.
    + destruct (r_else r); cbn [flat_map]; rewrite app_nil_r; [|reflexivity]. rewrite H. reflexivity.
Qed.

(* ---- 2. and it is thorough where it looks: with every arm in place, no field it overwrites is left in reach *)
Definition full (r:rule) : bool := r_ptr r && r_iface r && r_list r && r_map r && r_struct r && r_zero r && r_else r.

Lemma existsb_false_Forall {A} (f:A -> bool) l : Forall (fun x => f x = false) l -> existsb f l = false.
Proof. induction 1 as [|x l H _ IH]; cbn [existsb]; [reflexivity|]. rewrite H, IH. reflexivity. Qed.

Lemma existsb_flat_map {A B} (f:B -> bool) (g:A -> list B) l : existsb f (flat_map g l) = existsb (fun x => existsb f (g x)) l.
Proof. induction l as [|x l IH]; cbn [flat_map existsb]; [reflexivity|]. rewrite existsb_app, IH. reflexivity. Qed.

Lemma existsb_map {A B} (f:B -> bool) (g:A -> B) l : existsb f (map g l) = existsb (fun x => f (g x)) l.
Proof. induction l as [|x l IH]; cbn [map existsb]; [reflexivity|]. rewrite IH. reflexivity. Qed.

Theorem strip_clears_all_in_reach (r:rule) : full r = true -> forall v, reachable_clear r (strip r v) = false.
Proof.
  unfold full. intros F.
  apply andb_prop in F; destruct F as [F Hel]. apply andb_prop in F; destruct F as [F Hz].
  apply andb_prop in F; destruct F as [F Hs]. apply andb_prop in F; destruct F as [F Hm].
  apply andb_prop in F; destruct F as [F Hl]. apply andb_prop in F; destruct F as [Hp Hi].
  induction v as [i| |vs IH|kvs IH|w ty fs IH] using gval_ind2; cbn [strip reachable_clear]; try reflexivity.
  - rewrite Hl. cbn [reachable_clear]. rewrite existsb_map. apply existsb_false_Forall. exact IH.
  - rewrite Hm. cbn [reachable_clear]. rewrite existsb_map. apply existsb_false_Forall.
    eapply Forall_impl; [|exact IH]. intros [k x] Hx. exact Hx.
  - rewrite Hp, Hi, Hs, orb_true_r. cbn [andb reachable_clear]. rewrite existsb_flat_map. apply existsb_false_Forall.
    eapply Forall_impl; [|exact IH]. intros [n x] Hx. cbn [snd] in Hx.
    destruct (any_test (r_skip r) n) eqn:S; [cbn [existsb]; rewrite S; reflexivity|].
    destruct (any_test (r_clear r) n) eqn:C; [rewrite Hz; reflexivity|].
    rewrite Hel. cbn [existsb]. rewrite S, C, Hx. reflexivity.
Qed.

(* ---- 3. running it twice is running it once (any rule) *)
Theorem strip_idempotent (r:rule) : forall v, strip r (strip r v) = strip r v.
Proof.
  induction v as [i| |vs IH|kvs IH|w ty fs IH] using gval_ind2; cbn [strip]; try reflexivity.
  - destruct (r_list r) eqn:E; cbn [strip]; rewrite E; [|reflexivity]. rewrite map_map. f_equal. apply map_ext_Forall. exact IH.
  - destruct (r_map r) eqn:E; cbn [strip]; rewrite E; [|reflexivity]. rewrite map_map. f_equal. apply map_ext_Forall.
    eapply Forall_impl; [|exact IH]. intros [k x] H. cbn [snd] in H. cbn. rewrite H. reflexivity.
  - destruct (r_ptr r && (negb w || r_iface r) && r_struct r) eqn:E; cbn [strip]; rewrite E; [|reflexivity]. f_equal.
    rewrite flat_map_flat_map. apply flat_map_ext_Forall.
    eapply Forall_impl; [|exact IH]. intros [n x] H. cbn [snd] in H.
    destruct (any_test (r_skip r) n) eqn:S; [cbn [flat_map]; rewrite S, app_nil_r; reflexivity|].
    destruct (any_test (r_clear r) n) eqn:C.
    + destruct (r_zero r) eqn:Z; cbn [flat_map]; [reflexivity|]. rewrite S, C. reflexivity.
    + destruct (r_else r) eqn:El; cbn [flat_map]; rewrite S, C, app_nil_r; [|reflexivity]. rewrite H. reflexivity.
Qed.

(* ---- 4. the command: the walk is applied to one field of the module, under the guards of its call site *)
Lemma strip_at_only_locations L r f : (forall n, any_test (r_clear r) n = true -> L n = true) ->
  forall v, erase L (strip_at r f v) = erase L v.
Proof.
  intros HL [i| |vs|kvs|w ty fs]; cbn [strip_at]; try reflexivity. cbn [erase]. f_equal.
  induction fs as [|[n x] fs IH]; cbn [map flat_map]; [reflexivity|]. rewrite IH.
  destruct (String.eqb n f); [|reflexivity]. rewrite (strip_only_locations L r HL). reflexivity.
Qed.

Theorem cli_only_locations L sites r : (forall n, any_test (r_clear r) n = true -> L n = true) ->
  forall json compact v, erase L (cli_model sites r json compact v) = erase L v.
Proof.
  intros HL json compact. unfold cli_model. induction sites as [|s sites IH]; intros v; cbn [fold_left]; [reflexivity|].
  rewrite IH. destruct (forallb _ _); [|reflexivity]. destruct (arg_field (fst s)); [|reflexivity].
  apply strip_at_only_locations. exact HL.
Qed.

(* every call site guarded by "toJSON" and "p.compact": nothing at all is changed in the other five combinations *)
Theorem cli_identity_unless_compact_json sites r json compact v :
  forallb (fun s => existsb (String.eqb "toJSON") (snd s) && existsb (String.eqb "p.compact") (snd s)) sites = true ->
  json && compact = false -> cli_model sites r json compact v = v.
Proof.
  intros G E. unfold cli_model. revert v. induction sites as [|s sites IH]; intros v; cbn [fold_left]; [reflexivity|].
  cbn [forallb] in G. apply andb_prop in G. destruct G as [Gs G]. apply andb_prop in Gs. destruct Gs as [G1 G2].
  assert (X : forallb (guard_holds json compact) (snd s) = false).
  { apply existsb_exists in G1. destruct G1 as [g1 [I1 E1]]. apply existsb_exists in G2. destruct G2 as [g2 [I2 E2]].
    apply String.eqb_eq in E1, E2. subst g1 g2.
    destruct (forallb (guard_holds json compact) (snd s)) eqn:Fa; [|reflexivity].
    rewrite forallb_forall in Fa. pose proof (Fa _ I1) as A1. pose proof (Fa _ I2) as A2.
    cbn in A1, A2. rewrite A1, A2 in E. discriminate. }
  rewrite X. apply IH. exact G.
Qed.
