(* C09 proofs, part 3a: the collector with scalar attributes only.
   When no collector statement carries an array-valued attribute, mergeAttrs never appends: every key of the
   collector statement simply overrides the target's. The model then equals a closed form (cf_eps): every endpoint's attributes
   overridden by the action statements naming it, every call statement's attributes overridden by the collector
   call statements with the same target - in collector order, last writer wins - and the closed form is idempotent. *)
From Coq Require Import List Bool PArith NArith Arith Lia.
Import ListNotations.
Require Import Verif.Base.Harness Verif.Codec.PostProcess Verif.Codec.AssocProps.

Definition attrs := list (positive * attr).

(* ---------------------------------------------------------------- induction over statements *)
Section StmtInd.
  Variable C : Type.
  Variable P : stmt C -> Prop.
  Hypothesis Hcall : forall t e a, P (SCall t e a).
  Hypothesis Haction : forall x a, P (SAction x a).
  Hypothesis Hret : P SRet.
  Hypothesis Hbad : P SBad.
  Hypothesis Hblock : forall b, Forall P b -> P (SBlock b).
  Hypothesis Halt : forall b, Forall P b -> P (SAlt b).
  Fixpoint stmt_rect' (s:stmt C) : P s :=
    match s with
    | SCall t e a => Hcall t e a
    | SAction x a => Haction x a
    | SRet => Hret
    | SBad => Hbad
    | SBlock b => Hblock b ((fix go (l:list (stmt C)) : Forall P l :=
                               match l with [] => Forall_nil P | x :: r => Forall_cons x (stmt_rect' x) (go r) end) b)
    | SAlt b => Halt b ((fix go (l:list (stmt C)) : Forall P l :=
                           match l with [] => Forall_nil P | x :: r => Forall_cons x (stmt_rect' x) (go r) end) b)
    end.
End StmtInd.

Lemma map_ext_Forall {A B} (f g:A -> B) l : Forall (fun x => f x = g x) l -> map f l = map g l.
Proof. induction 1 as [|x r H _ IH]; [reflexivity|]. cbn. rewrite H, IH. reflexivity. Qed.

(* ---------------------------------------------------------------- value level *)
Definition vmerge (src dst:attrs) : attrs :=
  fold_left (fun d k => match lookup k src with Some v => put k v d | None => d end) (map fst src) dst.

Definition ov (srcs:list attrs) (d:attrs) : attrs := fold_left (fun d s => vmerge s d) srcs d.

Fixpoint map_calls (f:positive -> positive -> attrs -> attrs) (s:stmt attr) : stmt attr :=
  match s with
  | SCall t e a => SCall t e (f t e a)
  | SBlock b => SBlock (map (map_calls f) b)
  | SAlt b => SAlt (map (map_calls f) b)
  | x => x
  end.

Fixpoint calls_ok (P:attrs -> bool) (s:stmt attr) : bool :=
  match s with
  | SCall _ _ a => P a
  | SBlock b => forallb (calls_ok P) b
  | SAlt b => forallb (calls_ok P) b
  | _ => true
  end.

Lemma map_calls_fuse f g s : map_calls g (map_calls f s) = map_calls (fun t e a => g t e (f t e a)) s.
Proof.
  induction s using stmt_rect'; cbn [map_calls]; try reflexivity.
  - rewrite map_map. f_equal. apply map_ext_Forall. exact H.
  - rewrite map_map. f_equal. apply map_ext_Forall. exact H.
Qed.

Lemma Forall_forallb_impl {A} (p:A -> bool) (Q:A -> Prop) l :
  Forall (fun x => p x = true -> Q x) l -> forallb p l = true -> Forall Q l.
Proof.
  induction 1 as [|x r H _ IH]; intros Hp; [constructor|].
  cbn in Hp. apply andb_true_iff in Hp. destruct Hp as [H1 H2]. constructor; [apply H, H1|apply IH, H2].
Qed.

Lemma map_calls_ext_ok (P:attrs -> bool) f g s :
  (forall t e a, P a = true -> f t e a = g t e a) -> calls_ok P s = true -> map_calls f s = map_calls g s.
Proof.
  intros Hfg. induction s using stmt_rect'; cbn [map_calls calls_ok]; intros Hok; try reflexivity.
  - rewrite (Hfg _ _ _ Hok). reflexivity.
  - f_equal. apply map_ext_Forall. apply (Forall_forallb_impl _ _ _ H Hok).
  - f_equal. apply map_ext_Forall. apply (Forall_forallb_impl _ _ _ H Hok).
Qed.

Lemma map_calls_ext f g s : (forall t e a, f t e a = g t e a) -> map_calls f s = map_calls g s.
Proof. intros H. apply (map_calls_ext_ok (fun _ => true)); [intros; apply H|]. induction s using stmt_rect'; cbn; try reflexivity.
  - apply forallb_forall. rewrite Forall_forall in H0. exact H0.
  - apply forallb_forall. rewrite Forall_forall in H0. exact H0.
Qed.

Lemma forallb_map_Forall {A B} (p:B -> bool) (q:A -> bool) (f:A -> B) l :
  Forall (fun x => q x = true -> p (f x) = true) l -> forallb q l = true -> forallb p (map f l) = true.
Proof.
  induction 1 as [|x r H _ IH]; intros Hq; [reflexivity|]. cbn in *. apply andb_true_iff in Hq. destruct Hq as [H1 H2].
  rewrite (H H1), (IH H2). reflexivity.
Qed.

Lemma no_bad_map_calls f s : no_bad s = true -> no_bad (map_calls f s) = true.
Proof.
  induction s using stmt_rect'; cbn [map_calls no_bad]; intros Hn; try reflexivity; try exact Hn.
  - apply (forallb_map_Forall _ _ _ _ H Hn).
  - apply (forallb_map_Forall _ _ _ _ H Hn).
Qed.

(* ---------------------------------------------------------------- override algebra *)
Lemma lookup_fold_put (src:attrs) k : forall ks d,
  lookup k (fold_left (fun d k => match lookup k src with Some v => put k v d | None => d end) ks d) =
  if existsb (Pos.eqb k) ks then match lookup k src with Some v => Some v | None => lookup k d end else lookup k d.
Proof.
  induction ks as [|k0 ks IH]; intros d; [reflexivity|]. cbn [fold_left existsb]. rewrite IH.
  assert (E : lookup k (match lookup k0 src with Some v => put k0 v d | None => d end) =
              if Pos.eqb k k0 then match lookup k src with Some v => Some v | None => lookup k d end else lookup k d).
  { destruct (Pos.eqb k k0) eqn:Ek.
    - apply Pos.eqb_eq in Ek. subst k0. destruct (lookup k src); [rewrite lookup_put, Pos.eqb_refl|]; reflexivity.
    - destruct (lookup k0 src); [rewrite lookup_put, Ek|]; reflexivity. }
  rewrite E. destruct (Pos.eqb k k0), (existsb (Pos.eqb k) ks), (lookup k src); reflexivity.
Qed.

Lemma lookup_some_mem {V} k (l:list (positive * V)) v : lookup k l = Some v -> existsb (Pos.eqb k) (map fst l) = true.
Proof.
  induction l as [|[k0 v0] r IH]; [discriminate|]. cbn. destruct (Pos.eqb k k0); [reflexivity|]. exact IH.
Qed.

Lemma lookup_vmerge src d k : lookup k (vmerge src d) = match lookup k src with Some v => Some v | None => lookup k d end.
Proof.
  unfold vmerge. rewrite lookup_fold_put. destruct (lookup k src) eqn:E.
  - rewrite (lookup_some_mem _ _ _ E). reflexivity.
  - destruct (existsb _ _); reflexivity.
Qed.

Lemma sorted_vmerge src d : sorted d = true -> sorted (vmerge src d) = true.
Proof.
  unfold vmerge. generalize (map fst src). intros ks. revert d. induction ks as [|k ks IH]; intros d H; [exact H|].
  cbn [fold_left]. apply IH. destruct (lookup k src); [apply sorted_put, H|exact H].
Qed.

Lemma sorted_ov srcs d : sorted d = true -> sorted (ov srcs d) = true.
Proof. revert d. induction srcs as [|s r IH]; intros d H; [exact H|]. cbn. apply IH, sorted_vmerge, H. Qed.

Definition lk (srcs:list attrs) (k:positive) (o:option attr) : option attr :=
  fold_left (fun o s => match lookup k s with Some v => Some v | None => o end) srcs o.

Lemma lookup_ov srcs k : forall d, lookup k (ov srcs d) = lk srcs k (lookup k d).
Proof. induction srcs as [|s r IH]; intros d; [reflexivity|]. cbn. rewrite IH, lookup_vmerge. reflexivity. Qed.

Lemma lk_const_or_id srcs k : forall o, lk srcs k o = o \/ (forall o', lk srcs k o' = lk srcs k o).
Proof.
  induction srcs as [|s r IH]; intros o; [left; reflexivity|]. cbn. destruct (lookup k s) as [v|].
  - right. intros o'. reflexivity.
  - apply IH.
Qed.

Lemma lk_idem srcs k o : lk srcs k (lk srcs k o) = lk srcs k o.
Proof. destruct (lk_const_or_id srcs k o) as [H|H]; [rewrite H; exact H|apply H]. Qed.

Lemma ov_idem srcs d : sorted d = true -> ov srcs (ov srcs d) = ov srcs d.
Proof.
  intros H. apply sorted_ext; [apply sorted_ov, sorted_ov, H|apply sorted_ov, H|].
  intros k. rewrite !lookup_ov. apply lk_idem.
Qed.

Lemma ov_snoc srcs s d : ov (srcs ++ [s]) d = vmerge s (ov srcs d).
Proof. unfold ov. rewrite fold_left_app. reflexivity. Qed.

(* ---------------------------------------------------------------- one collector statement at value level, closed form *)
Definition eps_t := list (positive * endpoint attr).

Definition g_call (src:attrs) (t e:positive) : positive -> positive -> attrs -> attrs :=
  fun t' e' a => if Pos.eqb t t' && Pos.eqb e e' then vmerge src a else a.

Definition vT (cn:positive) (S:stmt attr) (eps:eps_t) : eps_t :=
  match S with
  | SAction act src =>
      match lookup act eps with
      | None => eps
      | Some ep => put act {| e_attrs := vmerge src (e_attrs ep); e_stmts := e_stmts ep |} eps
      end
  | SCall t e src =>
      map_kv (fun n ep => if Pos.eqb n cn then ep
                          else {| e_attrs := e_attrs ep; e_stmts := map (map_calls (g_call src t e)) (e_stmts ep) |}) eps
  | _ => eps
  end.

Definition act_srcs (cs:list (stmt attr)) (n:positive) : list attrs :=
  flat_map (fun S => match S with SAction a src => if Pos.eqb a n then [src] else [] | _ => [] end) cs.
Definition call_srcs (cs:list (stmt attr)) (t' e':positive) : list attrs :=
  flat_map (fun S => match S with SCall t e src => if Pos.eqb t t' && Pos.eqb e e' then [src] else [] | _ => [] end) cs.

Definition cf_stmt (cs:list (stmt attr)) : stmt attr -> stmt attr := map_calls (fun t e a => ov (call_srcs cs t e) a).
Definition cf_ep (cs:list (stmt attr)) (cn n:positive) (ep:endpoint attr) : endpoint attr :=
  {| e_attrs := ov (act_srcs cs n) (e_attrs ep);
     e_stmts := if Pos.eqb n cn then e_stmts ep else map (cf_stmt cs) (e_stmts ep) |}.
Definition cf_eps (cs:list (stmt attr)) (cn:positive) (eps:eps_t) : eps_t := map_kv (cf_ep cs cn) eps.

Lemma map_calls_id s : map_calls (fun _ _ a => a) s = s.
Proof.
  induction s using stmt_rect'; cbn [map_calls]; try reflexivity.
  - f_equal. rewrite <- (map_id b) at 2. apply map_ext_Forall. exact H.
  - f_equal. rewrite <- (map_id b) at 2. apply map_ext_Forall. exact H.
Qed.

Lemma cf_eps_nil cn eps : cf_eps [] cn eps = eps.
Proof.
  unfold cf_eps, map_kv. rewrite <- (map_id eps) at 2. apply map_ext. intros [n [a s]]. cbn. f_equal.
  unfold cf_ep. cbn. f_equal. destruct (Pos.eqb n cn); [reflexivity|].
  rewrite <- (map_id s) at 2. apply map_ext. intros x. apply map_calls_id.
Qed.

Lemma act_srcs_snoc cs S n :
  act_srcs (cs ++ [S]) n = act_srcs cs n ++ match S with SAction a src => if Pos.eqb a n then [src] else [] | _ => [] end.
Proof. unfold act_srcs. rewrite flat_map_app. cbn. rewrite app_nil_r. reflexivity. Qed.
Lemma call_srcs_snoc cs S t' e' :
  call_srcs (cs ++ [S]) t' e' =
  call_srcs cs t' e' ++ match S with SCall t e src => if Pos.eqb t t' && Pos.eqb e e' then [src] else [] | _ => [] end.
Proof. unfold call_srcs. rewrite flat_map_app. cbn. rewrite app_nil_r. reflexivity. Qed.

Lemma map_kv_ext_in {A B} (h h':positive -> A -> B) l :
  (forall n v, In (n, v) l -> h n v = h' n v) -> map_kv h l = map_kv h' l.
Proof. intros H. unfold map_kv. apply map_ext_in. intros [n v] Hin. cbn. rewrite (H n v Hin). reflexivity. Qed.

Lemma map_kv_map_kv {A B D} (h:positive -> A -> B) (g:positive -> B -> D) l :
  map_kv g (map_kv h l) = map_kv (fun n v => g n (h n v)) l.
Proof. unfold map_kv. rewrite map_map. reflexivity. Qed.

(* one more collector statement *)
Lemma vT_step cn pre S eps :
  sorted eps = true -> is_coll_stmt S = true -> vT cn S (cf_eps pre cn eps) = cf_eps (pre ++ [S]) cn eps.
Proof.
  intros Hs HS. destruct S as [t e src|act src| | | |]; try discriminate; cbn [vT].
  - (* call *)
    unfold cf_eps. rewrite map_kv_map_kv. apply map_kv_ext_in. intros n ep _.
    unfold cf_ep. cbn [e_attrs e_stmts]. rewrite act_srcs_snoc. cbn. rewrite app_nil_r.
    destruct (Pos.eqb n cn); [reflexivity|]. f_equal.
    rewrite map_map. apply map_ext. intros s. unfold cf_stmt. rewrite map_calls_fuse. apply map_calls_ext.
    intros t' e' a. rewrite call_srcs_snoc. unfold g_call. destruct (Pos.eqb t t' && Pos.eqb e e').
    + rewrite ov_snoc. reflexivity.
    + rewrite app_nil_r. reflexivity.
  - (* action *)
    unfold cf_eps at 1. rewrite lookup_map_kv. destruct (lookup act eps) as [ep0|] eqn:L.
    + rewrite (put_update _ act _ (cf_ep pre cn act ep0)).
      2:{ unfold cf_eps. rewrite sorted_map_kv. exact Hs. }
      2:{ unfold cf_eps. rewrite lookup_map_kv, L. reflexivity. }
      unfold cf_eps, map_kv. rewrite map_map. apply map_ext_in. intros [n ep] Hin. cbn [fst snd].
      destruct (Pos.eqb n act) eqn:E.
      * apply Pos.eqb_eq in E. subst n. pose proof (in_sorted_lookup _ _ _ Hs Hin) as L2. rewrite L in L2. injection L2 as ->.
        f_equal. unfold cf_ep. cbn [e_attrs e_stmts]. rewrite act_srcs_snoc, Pos.eqb_refl, ov_snoc. f_equal.
        destruct (Pos.eqb act cn); [reflexivity|]. apply map_ext. intros s. unfold cf_stmt. apply map_calls_ext.
        intros t e a. rewrite call_srcs_snoc, app_nil_r. reflexivity.
      * f_equal. unfold cf_ep. cbn [e_attrs e_stmts]. rewrite act_srcs_snoc. rewrite (Pos.eqb_sym act n), E, app_nil_r. f_equal.
        destruct (Pos.eqb n cn); [reflexivity|]. apply map_ext. intros s. unfold cf_stmt. apply map_calls_ext.
        intros t e a. rewrite call_srcs_snoc, app_nil_r. reflexivity.
    + unfold cf_eps. apply map_kv_ext_in. intros n ep Hin. pose proof (lookup_none_in _ _ _ _ L Hin) as Hne.
      unfold cf_ep. rewrite act_srcs_snoc. apply Pos.eqb_neq in Hne. rewrite (Pos.eqb_sym act n), Hne, app_nil_r. f_equal.
      destruct (Pos.eqb n cn); [reflexivity|]. apply map_ext. intros s. unfold cf_stmt. apply map_calls_ext.
      intros t e a. rewrite call_srcs_snoc, app_nil_r. reflexivity.
Qed.

Lemma vT_fold cn cs eps :
  sorted eps = true -> forallb is_coll_stmt cs = true -> fold_left (fun X S => vT cn S X) cs eps = cf_eps cs cn eps.
Proof.
  intros Hs. induction cs as [|S cs IH] using rev_ind; intros Hc; [symmetry; apply cf_eps_nil|].
  rewrite forallb_app in Hc. apply andb_true_iff in Hc. destruct Hc as [Hc HS]. cbn in HS. rewrite andb_true_r in HS.
  rewrite fold_left_app. cbn [fold_left]. rewrite (IH Hc). apply vT_step; assumption.
Qed.

(* ---------------------------------------------------------------- the closed form is idempotent *)
Definition ep_sorted (ep:endpoint attr) : bool := sorted (e_attrs ep) && forallb (calls_ok sorted) (e_stmts ep).

Lemma cf_stmt_idem cs s : calls_ok sorted s = true -> cf_stmt cs (cf_stmt cs s) = cf_stmt cs s.
Proof.
  intros H. unfold cf_stmt. rewrite map_calls_fuse. apply (map_calls_ext_ok sorted); [|exact H].
  intros t e a Ha. apply ov_idem, Ha.
Qed.

Lemma cf_ep_idem cs cn n ep : ep_sorted ep = true -> cf_ep cs cn n (cf_ep cs cn n ep) = cf_ep cs cn n ep.
Proof.
  unfold ep_sorted. intros H. apply andb_true_iff in H. destruct H as [Ha Hst].
  unfold cf_ep. cbn [e_attrs e_stmts]. rewrite (ov_idem _ _ Ha). f_equal.
  destruct (Pos.eqb n cn); [reflexivity|]. rewrite map_map. apply map_ext_in. intros s Hin.
  apply cf_stmt_idem. rewrite forallb_forall in Hst. apply Hst, Hin.
Qed.

Lemma cf_eps_idem cs cn eps :
  forallb (fun p => ep_sorted (snd p)) eps = true -> cf_eps cs cn (cf_eps cs cn eps) = cf_eps cs cn eps.
Proof.
  intros H. unfold cf_eps. rewrite map_kv_map_kv. apply map_kv_ext_in. intros n ep Hin.
  apply cf_ep_idem. rewrite forallb_forall in H. apply (H (n, ep) Hin).
Qed.

(* ---------------------------------------------------------------- the model under scalar collector attributes *)
Definition scalar_attrs (a:attrs) : bool := forallb (fun p => match snd p with AVal _ => true | AArr _ _ => false end) a.

Lemma lookup_scalar src k : scalar_attrs src = true -> In k (map fst src) -> exists v, lookup k src = Some (AVal v).
Proof.
  induction src as [|[k0 a0] r IH]; intros Hs Hin; [destruct Hin|].
  cbn in Hs. apply andb_true_iff in Hs. destruct Hs as [H0 Hr]. cbn. destruct (Pos.eqb k k0) eqn:E.
  - destruct a0; [eexists; reflexivity|discriminate].
  - cbn in Hin. destruct Hin as [<-|Hin]; [rewrite Pos.eqb_refl in E; discriminate|]. apply IH; assumption.
Qed.

Lemma merge_key_scalar src k dst v : lookup k src = Some (AVal v) -> merge_key src k dst = put k (AVal v) dst.
Proof. intros Hl. unfold merge_key. rewrite Hl. destruct (lookup k dst) as [[?|? ?]|]; reflexivity. Qed.

Lemma merge_scalar (src dst:attrs) : scalar_attrs src = true -> merge src dst = vmerge src dst.
Proof.
  intros Hs. unfold merge, vmerge.
  assert (G : forall ks, (forall k, In k ks -> In k (map fst src)) -> forall d,
     fold_left (fun d k => merge_key src k d) ks d =
     fold_left (fun d k => match lookup k src with Some v => put k v d | None => d end) ks d).
  { induction ks as [|k ks IH]; intros Hin d; [reflexivity|]. cbn [fold_left].
    destruct (lookup_scalar src k Hs (Hin k (or_introl eq_refl))) as [v Hv].
    rewrite (merge_key_scalar src k d v Hv), Hv. apply IH. intros x Hx. apply Hin. right. exact Hx. }
  apply G. auto.
Qed.

Lemma apply_stmt_scalar (src:attrs) t e s : scalar_attrs src = true -> apply_stmt src t e s = map_calls (g_call src t e) s.
Proof.
  intros Hs. induction s using stmt_rect'; cbn [apply_stmt map_calls]; try reflexivity.
  - unfold g_call. destruct (Pos.eqb t t0 && Pos.eqb e e0); [|reflexivity]. rewrite (merge_scalar _ _ Hs). reflexivity.
  - f_equal. apply map_ext_Forall. exact H.
  - f_equal. apply map_ext_Forall. exact H.
Qed.

Lemma collect_one_scalar cn S eps : scalar_attrs (stmt_attrs S) = true -> collect_one cn S eps = vT cn S eps.
Proof.
  intros Hs. destruct S as [t e src|act src| | | |]; cbn [collect_one vT stmt_attrs] in *; try reflexivity.
  - unfold map_kv. apply map_ext. intros [n ep]. cbn [fst snd]. destruct (Pos.eqb n cn); [reflexivity|]. f_equal. f_equal.
    apply map_ext. intros s. apply apply_stmt_scalar, Hs.
  - destruct (lookup act eps); [|reflexivity]. rewrite (merge_scalar _ _ Hs). reflexivity.
Qed.

Lemma fold_collect_scalar cn cs : forall eps,
  forallb (fun s => scalar_attrs (stmt_attrs s)) cs = true ->
  fold_left (fun x s => collect_one cn s x) cs eps = fold_left (fun X S => vT cn S X) cs eps.
Proof.
  induction cs as [|S cs IH]; intros eps H; [reflexivity|]. cbn in H. apply andb_true_iff in H. destruct H as [HS H].
  cbn [fold_left]. rewrite (collect_one_scalar cn S eps HS). apply IH, H.
Qed.

Definition eps_no_bad {C} (eps:list (positive * endpoint C)) : bool := forallb (fun p => forallb no_bad (e_stmts (snd p))) eps.

Lemma forallb_map' {A B} (p:B -> bool) (f:A -> B) l : forallb p (map f l) = forallb (fun x => p (f x)) l.
Proof. induction l as [|x r IH]; [reflexivity|]. cbn. rewrite IH. reflexivity. Qed.

Lemma eps_no_bad_cf cs cn eps : eps_no_bad eps = true -> eps_no_bad (cf_eps cs cn eps) = true.
Proof.
  unfold eps_no_bad, cf_eps, map_kv. rewrite forallb_map'. intros H. rewrite forallb_forall in *. intros [n ep] Hin.
  specialize (H _ Hin). cbn in *. destruct (Pos.eqb n cn); [exact H|].
  rewrite forallb_map'. rewrite forallb_forall in *. intros s Hs. apply no_bad_map_calls, H, Hs.
Qed.

(* the condition on one application's endpoints, and the collector in closed form *)
Definition coll_cond (cn:positive) (eps:eps_t) : bool :=
  sorted eps && eps_no_bad eps &&
  match lookup cn eps with
  | None => true
  | Some c => forallb is_coll_stmt (e_stmts c) && forallb (fun s => scalar_attrs (stmt_attrs s)) (e_stmts c)
  end.

Definition coll_result (cn:positive) (eps:eps_t) : eps_t :=
  match lookup cn eps with None => eps | Some c => cf_eps (e_stmts c) cn eps end.

Lemma no_panic cn cs eps : forallb is_coll_stmt cs = true -> eps_no_bad eps = true -> collect_panics cn cs eps = false.
Proof.
  intros Hk Hnb. unfold collect_panics.
  assert (A : existsb (fun s => negb (is_coll_stmt s)) cs = false).
  { clear Hnb. induction cs as [|S cs IH]; [reflexivity|]. cbn in Hk. apply andb_true_iff in Hk. destruct Hk as [HS Hk].
    cbn. rewrite HS, (IH Hk). reflexivity. }
  assert (B : forallb (fun p => Pos.eqb (fst p) cn || forallb no_bad (e_stmts (snd p))) eps = true).
  { unfold eps_no_bad in Hnb. rewrite forallb_forall in *. intros p Hp. rewrite (Hnb p Hp). apply orb_true_r. }
  rewrite A, B. cbn. apply andb_false_r.
Qed.

Theorem collector_closed_form cn eps : coll_cond cn eps = true -> collector cn eps = Some (coll_result cn eps).
Proof.
  unfold coll_cond, coll_result, collector. intros H. apply andb_true_iff in H. destruct H as [H Hc].
  apply andb_true_iff in H. destruct H as [Hs Hnb]. destruct (lookup cn eps) as [c|] eqn:L; [|reflexivity].
  apply andb_true_iff in Hc. destruct Hc as [Hk Hsc].
  rewrite (no_panic cn (e_stmts c) eps Hk Hnb). f_equal.
  rewrite (fold_collect_scalar cn (e_stmts c) eps Hsc). apply vT_fold; assumption.
Qed.
