(* C09 model, part 1: the JSON whitespace clean-up of pkg/pbutil/output.go.

     mb = extraSpaceAfterKeyRE.ReplaceAll(mb, []byte(`$1`))
     extraSpaceAfterKeyRE = (?m)^(\s*qKEYq: )<space>   q = the double quote (byte 34)
                            KEY = [^q]*                  the literal before the fix       (KeyNaive)
                            KEY = (?:[^q\\]|\\.)*        the escape-aware literal         (KeyEsc)

   Documents are byte lists (list ascii; a multi-byte rune is several bytes, none of which is one of the
   bytes the expression distinguishes, so byte-wise and rune-wise matching agree on valid UTF-8).

   * re             the syntax tree of a Go regular expression as printed by the translator (regexp/syntax);
                    ast_of_shape is the tree of the two literals above, and Codec/JsonCleanProps.v has the
                    obligation  Gen.JsonRegex.regex = ast_of_shape KeyEsc.
   * try_match      leftmost-first (backtracking-order) matching of exactly this shape at one position. Every
                    iteration of the shape is forced by the next byte (\s vs quote; [^q] vs quote; a backslash
                    starts the two-byte alternative and nothing else does), so the first match of a
                    backtracking engine is the greedy scan and there is no other.
   * clean_go       Regexp.ReplaceAll with template $1: candidates are the line starts ((?m)^), tried left to
                    right; a match is replaced by its group 1 (= the match without its last byte, the extra
                    space) and the search resumes after the match, where ^ cannot hold (the byte before is a space).
   * line / print   what the multi-line writer of protojson emits (internal/encoding/json encode.go
                    prepareNext): one token per line, indent, key, colon, one space + (detrand) possibly one more.
   Definitions only; proofs are in JsonCleanProps.v. *)
From Coq Require Import String Ascii List Bool NArith.
Import ListNotations.
Local Open Scope char_scope.
Local Open Scope list_scope.

Definition bytes := list ascii.

Definition c_quote : ascii := """".
Definition c_bsl   : ascii := "\".
Definition c_nl    : ascii := "010".
Definition c_sp    : ascii := " ".
Definition c_colon : ascii := ":".
Definition c_comma : ascii := ",".

(* Go (RE2) \s = [\t\n\f\r ] *)
Definition is_ws (c:ascii) : bool :=
  Ascii.eqb c "009" || Ascii.eqb c "010" || Ascii.eqb c "012" || Ascii.eqb c "013" || Ascii.eqb c " ".

(* ---- the syntax tree the translator prints (regexp/syntax, Perl flags, after Simplify) ---- *)
Inductive re :=
| RLit (s:list N)                   (* literal runes *)
| RClass (ranges:list (N*N))        (* character class as inclusive rune ranges *)
| RAnyNotNL | RAny
| RBeginLine | REndLine | RBeginText | REndText
| RStar (greedy:bool) (r:re) | RPlus (greedy:bool) (r:re) | RQuest (greedy:bool) (r:re)
| RCat (l:list re) | RAlt (l:list re) | RCap (n:N) (r:re)
| REmpty | ROther (what:string).

Inductive keybody := KeyNaive | KeyEsc.

Definition max_rune : N := 1114111.
Definition re_ws : re := RClass [(9,10);(12,13);(32,32)]%N.
Definition re_key (k:keybody) : re :=
  match k with
  | KeyNaive => RStar true (RClass [(0,33);(35,max_rune)]%N)                                   (* [^q]* *)
  | KeyEsc => RStar true (RAlt [RClass [(0,33);(35,91);(93,max_rune)]%N; RCat [RLit [92%N]; RAnyNotNL]])
  end.
(* (?m)^(\s*qKEYq: )<space> *)
Definition ast_of_shape (k:keybody) : re :=
  RCat [RBeginLine; RCap 1 (RCat [RStar true re_ws; RLit [34%N]; re_key k; RLit [34;58;32]%N]); RLit [32%N]].

(* which of the two shapes a tree is (None: neither - the model has no semantics for it) *)
Definition pair_eqb (a b:N*N) : bool := N.eqb (fst a) (fst b) && N.eqb (snd a) (snd b).
Fixpoint list_eqb' {A} (e:A -> A -> bool) (x y:list A) : bool :=
  match x, y with [], [] => true | a :: x', b :: y' => e a b && list_eqb' e x' y' | _, _ => false end.
Fixpoint re_eqb (a b:re) {struct a} : bool :=
  let fix all (x y:list re) {struct x} : bool :=
    match x, y with [], [] => true | r :: x', s :: y' => re_eqb r s && all x' y' | _, _ => false end in
  match a, b with
  | RLit s, RLit t => list_eqb' N.eqb s t
  | RClass s, RClass t => list_eqb' pair_eqb s t
  | RAnyNotNL, RAnyNotNL | RAny, RAny | RBeginLine, RBeginLine | REndLine, REndLine
  | RBeginText, RBeginText | REndText, REndText | REmpty, REmpty => true
  | RStar g r, RStar h s | RPlus g r, RPlus h s | RQuest g r, RQuest h s => Bool.eqb g h && re_eqb r s
  | RCat x, RCat y | RAlt x, RAlt y => all x y
  | RCap n r, RCap m s => N.eqb n m && re_eqb r s
  | _, _ => false
  end.
Definition shape_of (r:re) : option keybody :=
  if re_eqb r (ast_of_shape KeyEsc) then Some KeyEsc
  else if re_eqb r (ast_of_shape KeyNaive) then Some KeyNaive else None.

(* ---- matching this shape at one position ---- *)
Fixpoint skip_ws (l:bytes) : nat * bytes :=
  match l with
  | c :: t => if is_ws c then let (n, r) := skip_ws t in (S n, r) else (O, l)
  | [] => (O, [])
  end.

(* [^q]* then the quote: consumed count (including the quote) and the rest *)
Fixpoint scan_naive (l:bytes) : option (nat * bytes) :=
  match l with
  | [] => None
  | c :: t => if Ascii.eqb c c_quote then Some (1, t)
              else match scan_naive t with Some (n, r) => Some (S n, r) | None => None end
  end.

(* (?:[^q\\]|\\.)* then the quote; the dot does not match a newline *)
Fixpoint scan_esc (l:bytes) : option (nat * bytes) :=
  match l with
  | [] => None
  | c :: t =>
      if Ascii.eqb c c_quote then Some (1, t)
      else if Ascii.eqb c c_bsl then
        match t with
        | [] => None
        | d :: t' => if Ascii.eqb d c_nl then None
                     else match scan_esc t' with Some (n, r) => Some (S (S n), r) | None => None end
        end
      else match scan_esc t with Some (n, r) => Some (S n, r) | None => None end
  end.

Definition scan (k:keybody) : bytes -> option (nat * bytes) :=
  match k with KeyNaive => scan_naive | KeyEsc => scan_esc end.

(* the whole expression at a line start: Some n = it matches and group 1 is the first n bytes (the match is n+1 bytes) *)
Definition try_match (k:keybody) (l:bytes) : option nat :=
  let (n1, r1) := skip_ws l in
  match r1 with
  | q :: r2 =>
      if Ascii.eqb q c_quote then
        match scan k r2 with
        | Some (n2, c1 :: c2 :: c3 :: _) =>
            if Ascii.eqb c1 c_colon && Ascii.eqb c2 c_sp && Ascii.eqb c3 c_sp then Some (n1 + 1 + n2 + 2) else None
        | _ => None
        end
      else None
  | [] => None
  end.

(* ---- ReplaceAll(doc, "$1") ---- *)
Inductive mode := LineStart | Mid | Copy (n:nat).

Definition after (c:ascii) : mode := if Ascii.eqb c c_nl then LineStart else Mid.

Fixpoint clean_go (k:keybody) (m:mode) (l:bytes) : bytes :=
  match l with
  | [] => []
  | c :: t =>
      match m with
      | Copy O => clean_go k Mid t                         (* the last byte of the match: not in group 1 *)
      | Copy (S n) => c :: clean_go k (Copy n) t
      | Mid => c :: clean_go k (after c) t
      | LineStart =>
          match try_match k l with
          | Some n => c :: clean_go k (Copy (pred n)) t    (* n >= 4: group 1 holds at least q q colon space *)
          | None => c :: clean_go k (after c) t
          end
      end
  end.

Definition clean (k:keybody) (doc:bytes) : bytes := clean_go k LineStart doc.

(* ---- what protojson writes ---- *)
Definition hexdigit (n:N) : ascii :=
  match n with
  | 0 => "0" | 1 => "1" | 2 => "2" | 3 => "3" | 4 => "4" | 5 => "5" | 6 => "6" | 7 => "7" | 8 => "8" | 9 => "9"
  | 10 => "a" | 11 => "b" | 12 => "c" | 13 => "d" | 14 => "e" | _ => "f"
  end%N.

(* appendString of internal/encoding/json/encode.go, per byte (bytes >= 0x80 belong to multi-byte runes and pass) *)
Definition jescape1 (c:ascii) : bytes :=
  if Ascii.eqb c c_quote then [c_bsl; c_quote]
  else if Ascii.eqb c c_bsl then [c_bsl; c_bsl]
  else if Ascii.eqb c "008" then [c_bsl; "b"]
  else if Ascii.eqb c "012" then [c_bsl; "f"]
  else if Ascii.eqb c "010" then [c_bsl; "n"]
  else if Ascii.eqb c "013" then [c_bsl; "r"]
  else if Ascii.eqb c "009" then [c_bsl; "t"]
  else if (N_of_ascii c <? 32)%N then [c_bsl; "u"; "0"; "0"; hexdigit (N_of_ascii c / 16); hexdigit (N_of_ascii c mod 16)]
  else [c].

Definition jescape (s:bytes) : bytes := flat_map jescape1 s.
Definition jstr (s:bytes) : bytes := c_quote :: jescape s ++ [c_quote].

Inductive line :=
| LKey (ind:nat) (key:bytes) (salt:bool) (rest:bytes)   (* indent qkeyq:<sp>[<sp>]rest   rest = value or opening bracket *)
| LStr (ind:nat) (s:bytes) (tail:bytes)                 (* indent qstringq tail         tail = empty or a comma *)
| LOther (ind:nat) (c:ascii) (rest:bytes).              (* indent c rest                brackets, numbers, true/false/null *)

Definition indent (n:nat) : bytes := repeat c_sp n.

Definition render (l:line) : bytes :=
  match l with
  | LKey i k s r => indent i ++ jstr k ++ c_colon :: c_sp :: (if s then [c_sp] else []) ++ r
  | LStr i s t => indent i ++ jstr s ++ t
  | LOther i c r => indent i ++ c :: r
  end.

Fixpoint print (ls:list line) : bytes :=
  match ls with
  | [] => []
  | l :: ls' => render l ++ match ls' with [] => [] | _ => c_nl :: print ls' end
  end.

Definition desalt (l:line) : line :=
  match l with LKey i k _ r => LKey i k false r | _ => l end.

Definition no_nl (l:bytes) : bool := forallb (fun c => negb (Ascii.eqb c c_nl)) l.
Definition no_quote (l:bytes) : bool := forallb (fun c => negb (Ascii.eqb c c_quote)) l.

(* the shape of a line of protojson output: what follows a key is a value that starts on the same line with a
   non-blank byte; what follows a string element is nothing or a comma; any other line starts with a byte that
   is neither blank nor a quote; no raw newline anywhere inside a line *)
Definition wf_line (l:line) : bool :=
  match l with
  | LKey _ _ _ r => no_nl r && match r with c :: _ => negb (Ascii.eqb c c_sp) | [] => false end
  | LStr _ _ t => no_nl t && match t with c :: _ => negb (Ascii.eqb c c_colon) | [] => true end
  | LOther _ c r => no_nl r && negb (is_ws c) && negb (Ascii.eqb c c_quote)
  end.

(* the keys and string elements the naive literal copes with: no quote inside *)
Definition quote_free (l:line) : bool :=
  match l with
  | LKey _ k _ _ => no_quote k
  | LStr _ s _ => no_quote s
  | LOther _ _ _ => true
  end.
