(* C09 proofs, part 1b: the clean-up does not change the token stream of the document (strings as opaque tokens),
   hence it keeps JSON well-formed - and keeps ill-formed JSON ill-formed. The core fact needs nothing about the
   document: dropping one of two adjacent blanks never changes the tokens, wherever it happens (between tokens a
   blank is a separator; inside a string both are content, and content is not part of the token). *)
From Coq Require Import String Ascii List Bool NArith.
Import ListNotations.
Require Import Verif.Codec.JsonClean Verif.Codec.JsonCleanProps Verif.Codec.JsonTokens.
Local Open Scope char_scope.
Local Open Scope list_scope.

Definition teq (a b:bytes) : Prop := forall s, tok s a = tok s b.

Lemma teq_refl a : teq a a. Proof. intros s. reflexivity. Qed.
Lemma teq_trans a b c : teq a b -> teq b c -> teq a c.
Proof. intros H1 H2 s. rewrite H1. apply H2. Qed.

Lemma teq_prefix p a b : teq a b -> teq (p ++ a) (p ++ b).
Proof.
  intros H. induction p as [|c p IH]; [exact H|].
  intros s. cbn [List.app tok]. destruct (tstep s c) as [[s' ts]|]; [|reflexivity]. rewrite IH. reflexivity.
Qed.

Lemma tok_nil_app o : match o with Some rest => Some (@nil token ++ rest) | None => None end = o.
Proof. destruct o; reflexivity. Qed.

(* a blank leaves the tokenizer between tokens or inside a string; a second blank then changes nothing *)
Lemma two_blanks x : teq (c_sp :: c_sp :: x) (c_sp :: x).
Proof.
  intros s. destruct s as [| | |acc]; cbn [tok]; unfold c_sp.
  - cbn [tstep]. change (is_ws " ") with true. cbv iota. cbn [tok tstep]. change (is_ws " ") with true. cbv iota.
    rewrite !tok_nil_app. reflexivity.
  - cbn [tstep]. change (Ascii.eqb " " c_quote) with false. change (Ascii.eqb " " c_bsl) with false.
    change (N_of_ascii " " <? 32)%N with false. cbv iota. cbn [tok tstep].
    change (Ascii.eqb " " c_quote) with false. change (Ascii.eqb " " c_bsl) with false.
    change (N_of_ascii " " <? 32)%N with false. cbv iota. rewrite !tok_nil_app. reflexivity.
  - cbn [tstep]. change (is_escapable " ") with false. cbv iota. reflexivity.
  - cbn [tstep]. change (is_ws " ") with true. cbv iota. cbn [tok tstep]. change (is_ws " ") with true. cbv iota.
    rewrite !tok_nil_app. reflexivity.
Qed.

Lemma teq_cons c a b : teq a b -> teq (c :: a) (c :: b).
Proof. apply (teq_prefix [c]). Qed.

Ltac tnorm := unfold jstr; repeat (rewrite <- app_assoc); cbn [List.app]; repeat (rewrite <- app_assoc); cbn [List.app].
Ltac tstep1 := first [apply teq_cons | apply teq_prefix].

Lemma teq_render l R R' : teq R R' -> teq (render l ++ R) (render (desalt l) ++ R').
Proof.
  intros H. destruct l as [i k salt r|i s t|i c r]; cbn [render desalt].
  - destruct salt; tnorm.
    + do 5 tstep1. eapply teq_trans; [apply two_blanks|]. do 2 tstep1. exact H.
    + do 6 tstep1. tstep1. exact H.
  - tnorm. do 4 tstep1. tstep1. exact H.
  - tnorm. do 2 tstep1. tstep1. exact H.
Qed.

(* for every document of the line shape - no side condition - salt is invisible to the tokenizer *)
Lemma teq_print ls : teq (print ls) (print (map desalt ls)).
Proof.
  induction ls as [|l ls IH]; [apply teq_refl|].
  cbn [print map]. destruct ls as [|l2 ls].
  - cbn [map]. rewrite <- (app_nil_r (render l)), <- (app_nil_r (render (desalt l))). rewrite !app_nil_r.
    pose proof (teq_render l [] [] (teq_refl [])) as H. rewrite !app_nil_r in H. exact H.
  - cbn [map]. apply teq_render. apply (teq_prefix [c_nl]). exact IH.
Qed.

(* the clean-up (escape-aware expression) keeps the token stream of protojson's output ... *)
Theorem clean_keeps_tokens ls s : wf_doc ls = true -> tok s (clean KeyEsc (print ls)) = tok s (print ls).
Proof. intros H. rewrite (clean_removes_only_salt ls H). symmetry. apply teq_print. Qed.

(* ... hence its JSON well-formedness, both ways *)
Theorem clean_keeps_json_wf ls : wf_doc ls = true -> json_wf (clean KeyEsc (print ls)) = json_wf (print ls).
Proof. intros H. unfold json_wf. rewrite (clean_keeps_tokens ls TOut H). reflexivity. Qed.

Corollary clean_output_well_formed ls :
  wf_doc ls = true -> json_wf (print ls) = true -> json_wf (clean KeyEsc (print ls)) = true.
Proof. intros H W. rewrite clean_keeps_json_wf; assumption. Qed.

(* non-vacuity: the predicate accepts printed documents with hostile keys and rejects damaged ones *)
Example json_wf_examples :
  json_wf (print witness_doc) = true /\
  json_wf (clean KeyEsc (print witness_doc)) = true /\
  json_wf (list_ascii_of_string "{""a"": [1, true, ""x\""y""], ""b"": {}}") = true /\
  json_wf (list_ascii_of_string "{""a"": 1,}") = false /\
  json_wf (list_ascii_of_string "{""a"" 1}") = false /\
  json_wf (list_ascii_of_string "{""a"": ""unterminated}") = false /\
  json_wf (list_ascii_of_string "[1 2]") = false /\
  json_wf (list_ascii_of_string "{""a"": tru}") = false.
Proof. repeat split; vm_compute; reflexivity. Qed.
