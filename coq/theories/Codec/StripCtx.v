(* C09 - `sysl pb --mode json --compact`: the walk that removes source contexts from the model before it is encoded
   (cmd/sysl/cmd_protobuf.go removeSourceContext / removeSourceContextImpl), as a function on the Go value tree that
   reflection sees. MODEL ONLY: definitions, executable, no proofs.

   gval is the tree below one reflect.Value with pointers and interfaces unwrapped (a struct remembers whether it was
   reached through an interface: the oneof wrappers). A struct lists its NON-ZERO exported fields in declaration
   order, so "overwrite with the zero value" is "the field is no longer listed". Scalars are identifiers owned by the
   harness (same identifier iff same Go type and value). Map entries come in the harness's key order. *)
From Coq Require Import String Ascii List Bool PArith NArith.
Import ListNotations.
Local Open Scope string_scope.
Local Open Scope list_scope.

(* ---- what the translator reads from the source *)
Inductive name_test :=
| NameEq (s:string)          (* fType.Name == s *)
| NamePrefix (s:string)      (* strings.HasPrefix(fType.Name, s) *)
| NameSuffix (s:string)
| NameContains (s:string)
| NameUnexported             (* fType.IsExported() == false *)
| NameOther (src:string).    (* anything else: evaluates to false, and the obligations on the table fail *)

Inductive walk := WElems | WMapValues | WFields | WNothing | WOther.

Inductive ftype :=
| TScalar | TStruct (n:string) | TPtr (n:string) | TSliceScalar | TSlicePtr (n:string)
| TMapScalar | TMapPtr (n:string) | TIface (n:string) | TOther (what:string).

(* ---- values *)
Inductive gval :=
| GScalar (id:positive)
| GNil
| GList (vs:list gval)
| GMap (kvs:list (positive * gval))
| GStruct (w:bool) (ty:string) (fs:list (string * gval)).

Definition has_suffix_s (s n:string) : bool :=
  let ls := String.length s in let ln := String.length n in
  Nat.leb ls ln && String.eqb (substring (ln - ls) ls n) s.

Definition contains_s (s n:string) : bool := match index 0 s n with Some _ => true | None => false end.

Definition is_upper (c:ascii) : bool := let k := nat_of_ascii c in Nat.leb 65 k && Nat.leb k 90.

Definition name_holds (t:name_test) (n:string) : bool :=
  match t with
  | NameEq s => String.eqb n s
  | NamePrefix s => prefix s n
  | NameSuffix s => has_suffix_s s n
  | NameContains s => contains_s s n
  | NameUnexported => match n with String c _ => negb (is_upper c) | EmptyString => true end
  | NameOther _ => false
  end.

Definition any_test (ts:list name_test) (n:string) : bool := existsb (fun t => name_holds t n) ts.

Record rule := {
  r_ptr : bool;      (* reflect.Ptr is unwrapped *)
  r_iface : bool;    (* reflect.Interface is unwrapped *)
  r_list : bool;     (* the Slice arm visits the elements *)
  r_map : bool;      (* the Map arm visits the values *)
  r_struct : bool;   (* the Struct arm visits the fields *)
  r_skip : list name_test;
  r_clear : list name_test;
  r_zero : bool;     (* a matching field is set to the zero value of its type *)
  r_else : bool      (* every other field is descended into *)
}.

Fixpoint strip (r:rule) (v:gval) : gval :=
  match v with
  | GScalar _ | GNil => v
  | GList vs => if r_list r then GList (map (strip r) vs) else v
  | GMap kvs => if r_map r then GMap (map (fun kv => let '(k, x) := kv in (k, strip r x)) kvs) else v
  | GStruct w ty fs =>
      if r_ptr r && (negb w || r_iface r) && r_struct r
      then GStruct w ty (flat_map (fun f => let '(n, x) := f in
             if any_test (r_skip r) n then [(n, x)]
             else if any_test (r_clear r) n then (if r_zero r then [] else [(n, x)])
             else if r_else r then [(n, strip r x)] else [(n, x)]) fs)
      else v
  end.

(* the rule as the Gen table states it *)
Definition arm_is (arms:list (string * walk)) (k:string) (w:walk) : bool :=
  match find (fun a => String.eqb (fst a) k) arms with
  | Some (_, w') => match w, w' with
                    | WElems, WElems | WMapValues, WMapValues | WFields, WFields => true
                    | _, _ => false end
  | None => false
  end.

Definition mk_rule (deref:list string) (arms:list (string * walk)) (skip clear:list name_test) (action:string) (els:bool) : rule :=
  {| r_ptr := existsb (String.eqb "Ptr") deref; r_iface := existsb (String.eqb "Interface") deref;
     r_list := arm_is arms "Slice" WElems; r_map := arm_is arms "Map" WMapValues; r_struct := arm_is arms "Struct" WFields;
     r_skip := skip; r_clear := clear; r_zero := String.eqb action "Zero"; r_else := els |}.

(* ---- the command: where the walk is applied. A call site is (argument as written, enclosing conditions). *)
Definition guard_holds (json compact:bool) (g:string) : bool :=
  if String.eqb g "toJSON" then json else if String.eqb g "p.compact" then compact
  else if String.eqb g "!toJSON" then negb json else if String.eqb g "!p.compact" then negb compact else false.

(* "m.Apps" -> the field Apps of the module *)
Definition arg_field (a:string) : option string :=
  if prefix "m." a then Some (substring 2 (String.length a - 2) a) else None.

Definition strip_at (r:rule) (field:string) (v:gval) : gval :=
  match v with
  | GStruct w ty fs => GStruct w ty (map (fun f => let '(n, x) := f in if String.eqb n field then (n, strip r x) else (n, x)) fs)
  | _ => v
  end.

Definition cli_model (sites:list (string * list string)) (r:rule) (json compact:bool) (v:gval) : gval :=
  fold_left (fun acc s =>
    if forallb (guard_holds json compact) (snd s)
    then match arg_field (fst s) with Some f => strip_at r f acc | None => acc end
    else acc) sites v.

(* ---- dropping locations (the reading of "apart from source locations"): every field with a location name, anywhere *)
Fixpoint erase (L:string -> bool) (v:gval) : gval :=
  match v with
  | GScalar _ | GNil => v
  | GList vs => GList (map (erase L) vs)
  | GMap kvs => GMap (map (fun kv => let '(k, x) := kv in (k, erase L x)) kvs)
  | GStruct w ty fs => GStruct w ty (flat_map (fun f => let '(n, x) := f in if L n then [] else [(n, erase L x)]) fs)
  end.

Definition loc_names : list string := ["SourceContext"; "SourceContexts"].
Definition is_loc (n:string) : bool := existsb (String.eqb n) loc_names.

(* a field that the walk would have overwritten is still listed somewhere the walk reaches *)
Fixpoint reachable_clear (r:rule) (v:gval) : bool :=
  match v with
  | GScalar _ | GNil => false
  | GList vs => existsb (reachable_clear r) vs
  | GMap kvs => existsb (fun kv => let '(_, x) := kv in reachable_clear r x) kvs
  | GStruct w ty fs =>
      existsb (fun f => let '(n, x) := f in
        if any_test (r_skip r) n then false else if any_test (r_clear r) n then true else reachable_clear r x) fs
  end.

(* any location left at all *)
Fixpoint has_loc (L:string -> bool) (v:gval) : bool :=
  match v with
  | GScalar _ | GNil => false
  | GList vs => existsb (has_loc L) vs
  | GMap kvs => existsb (fun kv => let '(_, x) := kv in has_loc L x) kvs
  | GStruct w ty fs => existsb (fun f => let '(n, x) := f in L n || has_loc L x) fs
  end.

(* ---- equality *)
Fixpoint gval_eqb (a b:gval) : bool :=
  match a, b with
  | GScalar i, GScalar j => Pos.eqb i j
  | GNil, GNil => true
  | GList xs, GList ys =>
      (fix go (xs ys:list gval) : bool := match xs, ys with
        | [], [] => true | x :: xs', y :: ys' => gval_eqb x y && go xs' ys' | _, _ => false end) xs ys
  | GMap xs, GMap ys =>
      (fix go (xs:list (positive * gval)) (ys:list (positive * gval)) : bool := match xs, ys with
        | [], [] => true
        | (k, x) :: xs', (k', y) :: ys' => Pos.eqb k k' && gval_eqb x y && go xs' ys'
        | _, _ => false end) xs ys
  | GStruct w ty xs, GStruct w' ty' ys =>
      Bool.eqb w w' && String.eqb ty ty' &&
      (fix go (xs:list (string * gval)) (ys:list (string * gval)) : bool := match xs, ys with
        | [], [] => true
        | (n, x) :: xs', (n', y) :: ys' => String.eqb n n' && gval_eqb x y && go xs' ys'
        | _, _ => false end) xs ys
  | _, _ => false
  end.

(* ---- the value is one that the Go types of the schema can hold (ties the schema table to what reflection showed) *)
Definition schema_t := list (string * list (string * ftype)).
Definition oneofs_t := list (string * list string).

Definition fields_of (sch:schema_t) (ty:string) : option (list (string * ftype)) :=
  option_map snd (find (fun s => String.eqb (fst s) ty) sch).

Definition impls (os:oneofs_t) (i:string) : list string :=
  match find (fun o => String.eqb (fst o) i) os with Some (_, l) => l | None => [] end.

Fixpoint conf (sch:schema_t) (os:oneofs_t) (t:ftype) (v:gval) : bool :=
  match v with
  | GScalar _ => match t with TScalar => true | _ => false end
  | GNil => match t with TPtr _ | TIface _ => true | _ => false end
  | GList vs =>
      match t with
      | TSliceScalar => forallb (conf sch os TScalar) vs
      | TSlicePtr n => forallb (conf sch os (TPtr n)) vs
      | _ => false
      end
  | GMap kvs =>
      match t with
      | TMapScalar => forallb (fun kv => let '(_, x) := kv in conf sch os TScalar x) kvs
      | TMapPtr n => forallb (fun kv => let '(_, x) := kv in conf sch os (TPtr n) x) kvs
      | _ => false
      end
  | GStruct w ty fs =>
      (match t with
       | TPtr n => negb w && String.eqb ty n
       | TIface i => w && existsb (String.eqb ty) (impls os i)
       | _ => false
       end) &&
      match fields_of sch ty with
      | None => false
      | Some decl =>
          (* the listed fields are a subsequence of the declared ones, each of its declared type *)
          (fix go (fs:list (string * gval)) (decl:list (string * ftype)) {struct fs} : bool :=
             match fs with
             | [] => true
             | (n, x) :: fs' =>
                 (fix seek (decl:list (string * ftype)) : bool :=
                    match decl with
                    | [] => false
                    | (n', t') :: decl' => if String.eqb n n' then conf sch os t' x && go fs' decl' else seek decl'
                    end) decl
             end) fs decl
      end
  end.

(* schema facts used by the obligations *)
Definition mentions_loc (t:ftype) : bool :=
  match t with
  | TStruct n | TPtr n | TSlicePtr n | TMapPtr n => String.eqb n "SourceContext"
  | _ => false
  end.

Definition names_match_types (sch:schema_t) : bool :=
  forallb (fun s => forallb (fun f => Bool.eqb (is_loc (fst f)) (mentions_loc (snd f))) (snd s)) sch.

Definition no_plain_struct_fields (sch:schema_t) : bool :=
  forallb (fun s => forallb (fun f => match snd f with TStruct _ | TOther _ => false | _ => true end) (snd s)) sch.
