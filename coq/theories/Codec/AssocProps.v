(* Facts about the key-sorted association lists of Codec/PostProcess.v (lookup / put / add_missing). *)
From Coq Require Import List Bool PArith NArith Lia.
Import ListNotations.
Require Import Verif.Codec.PostProcess.

Fixpoint sorted_from {V} (lo:N) (l:list (positive * V)) : bool :=
  match l with
  | [] => true
  | (k, _) :: r => (lo <? Npos k)%N && sorted_from (Npos k) r
  end.
(* keys strictly increasing *)
Definition sorted {V} (l:list (positive * V)) : bool := sorted_from 0%N l.

Lemma sorted_from_weaken {V} lo lo' (l:list (positive * V)) :
  (lo' <= lo)%N -> sorted_from lo l = true -> sorted_from lo' l = true.
Proof.
  destruct l as [|[k v] r]; [reflexivity|]. cbn. intros Hle H. apply andb_true_iff in H. destruct H as [H1 H2].
  apply N.ltb_lt in H1. apply andb_true_iff. split; [apply N.ltb_lt; lia|exact H2].
Qed.

Lemma sorted_from_lookup {V} lo (l:list (positive * V)) k v :
  sorted_from lo l = true -> lookup k l = Some v -> (lo < Npos k)%N.
Proof.
  revert lo. induction l as [|[k' v'] r IH]; intros lo Hs Hl; [discriminate|].
  cbn in Hs. apply andb_true_iff in Hs. destruct Hs as [Hlt Hs]. apply N.ltb_lt in Hlt.
  cbn in Hl. destruct (Pos.eqb k k') eqn:E.
  - apply Pos.eqb_eq in E. subst. exact Hlt.
  - specialize (IH _ Hs Hl). lia.
Qed.

Lemma sorted_from_lookup_none {V} k (l:list (positive * V)) : sorted_from (Npos k) l = true -> lookup k l = None.
Proof.
  intros Hs. destruct (lookup k l) eqn:E; [|reflexivity].
  pose proof (sorted_from_lookup _ _ _ _ Hs E). lia.
Qed.

Lemma lookup_put {V} k v (l:list (positive * V)) k' :
  lookup k' (put k v l) = if Pos.eqb k' k then Some v else lookup k' l.
Proof.
  induction l as [|[k0 v0] r IH]; cbn [put lookup].
  - destruct (Pos.eqb k' k); reflexivity.
  - destruct (Pos.eqb k k0) eqn:E.
    + apply Pos.eqb_eq in E. subst k0. cbn [lookup]. destruct (Pos.eqb k' k); reflexivity.
    + destruct (Pos.ltb k k0).
      * cbn [lookup]. destruct (Pos.eqb k' k); reflexivity.
      * cbn [lookup]. destruct (Pos.eqb k' k0) eqn:E2.
        -- apply Pos.eqb_eq in E2. subst k0. rewrite Pos.eqb_sym, E. reflexivity.
        -- exact IH.
Qed.

Lemma sorted_from_put {V} lo (l:list (positive * V)) k v :
  sorted_from lo l = true -> (lo < Npos k)%N -> sorted_from lo (put k v l) = true.
Proof.
  revert lo. induction l as [|[k0 v0] r IH]; intros lo Hs Hlt; cbn [put].
  - cbn. apply andb_true_iff. split; [apply N.ltb_lt; exact Hlt|reflexivity].
  - cbn in Hs. apply andb_true_iff in Hs. destruct Hs as [H1 H2]. apply N.ltb_lt in H1.
    destruct (Pos.eqb k k0) eqn:E.
    + apply Pos.eqb_eq in E. subst k0. cbn. apply andb_true_iff. split; [apply N.ltb_lt; lia|exact H2].
    + destruct (Pos.ltb k k0) eqn:E2.
      * apply Pos.ltb_lt in E2. cbn. apply andb_true_iff. split; [apply N.ltb_lt; lia|].
        apply andb_true_iff. split; [apply N.ltb_lt; lia|exact H2].
      * apply Pos.ltb_ge in E2. apply Pos.eqb_neq in E. cbn. apply andb_true_iff. split; [apply N.ltb_lt; lia|].
        apply IH; [exact H2|lia].
Qed.

Lemma sorted_put {V} (l:list (positive * V)) k v : sorted l = true -> sorted (put k v l) = true.
Proof. intros H. apply sorted_from_put; [exact H|lia]. Qed.

(* sorted lists are determined by their lookups *)
Lemma sorted_ext_from {V} lo (a b:list (positive * V)) :
  sorted_from lo a = true -> sorted_from lo b = true -> (forall k, lookup k a = lookup k b) -> a = b.
Proof.
  revert lo b. induction a as [|[k v] a IH]; intros lo b Ha Hb H.
  - destruct b as [|[k' v'] b]; [reflexivity|]. specialize (H k'). cbn in H. rewrite Pos.eqb_refl in H. discriminate.
  - destruct b as [|[k' v'] b].
    + specialize (H k). cbn in H. rewrite Pos.eqb_refl in H. discriminate.
    + cbn in Ha, Hb. apply andb_true_iff in Ha. apply andb_true_iff in Hb. destruct Ha as [Ha1 Ha2]. destruct Hb as [Hb1 Hb2].
      destruct (Pos.eqb k k') eqn:E.
      * apply Pos.eqb_eq in E. subst k'.
        pose proof (H k) as Hk. cbn in Hk. rewrite Pos.eqb_refl in Hk. injection Hk as ->.
        f_equal. apply (IH (Npos k)); [exact Ha2|exact Hb2|].
        intros x. destruct (Pos.eqb x k) eqn:Ex.
        -- apply Pos.eqb_eq in Ex. subst x. rewrite (sorted_from_lookup_none k a Ha2), (sorted_from_lookup_none k b Hb2). reflexivity.
        -- specialize (H x). cbn in H. rewrite Ex in H. exact H.
      * exfalso. pose proof (H k) as Hk. pose proof (H k') as Hk'. cbn in Hk, Hk'.
        rewrite Pos.eqb_refl, E in Hk. rewrite Pos.eqb_refl in Hk'. rewrite Pos.eqb_sym, E in Hk'.
        symmetry in Hk. pose proof (sorted_from_lookup _ _ _ _ Hb2 Hk). pose proof (sorted_from_lookup _ _ _ _ Ha2 Hk'). lia.
Qed.

Lemma sorted_ext {V} (a b:list (positive * V)) :
  sorted a = true -> sorted b = true -> (forall k, lookup k a = lookup k b) -> a = b.
Proof. apply sorted_ext_from. Qed.

Lemma put_same {V} (l:list (positive * V)) k v : sorted l = true -> lookup k l = Some v -> put k v l = l.
Proof.
  intros Hs Hl. apply sorted_ext; [apply sorted_put, Hs|exact Hs|].
  intros x. rewrite lookup_put. destruct (Pos.eqb x k) eqn:E; [|reflexivity]. apply Pos.eqb_eq in E. subst. symmetry. exact Hl.
Qed.

(* maps over the values (the function may look at the key) *)
Definition map_kv {A B} (h:positive -> A -> B) (l:list (positive * A)) : list (positive * B) :=
  map (fun p => (fst p, h (fst p) (snd p))) l.

Lemma lookup_map_kv {A B} (h:positive -> A -> B) l k :
  lookup k (map_kv h l) = match lookup k l with Some v => Some (h k v) | None => None end.
Proof.
  induction l as [|[k0 v0] r IH]; [reflexivity|]. cbn. destruct (Pos.eqb k k0) eqn:E; [|exact IH].
  apply Pos.eqb_eq in E. subst. reflexivity.
Qed.

Lemma put_map_kv {A B} (h:positive -> A -> B) l k v : map_kv h (put k v l) = put k (h k v) (map_kv h l).
Proof.
  induction l as [|[k0 v0] r IH]; [reflexivity|]. cbn [put map_kv map fst snd].
  destruct (Pos.eqb k k0) eqn:E.
  - reflexivity.
  - destruct (Pos.ltb k k0); [reflexivity|]. cbn [map fst snd]. f_equal. exact IH.
Qed.

Lemma sorted_from_map_kv {A B} (h:positive -> A -> B) lo l : sorted_from lo (map_kv h l) = sorted_from lo l.
Proof. revert lo. induction l as [|[k0 v0] r IH]; intros lo; [reflexivity|]. cbn. rewrite IH. reflexivity. Qed.

Lemma sorted_map_kv {A B} (h:positive -> A -> B) l : sorted (map_kv h l) = sorted l.
Proof. apply sorted_from_map_kv. Qed.

Lemma lookup_in {V} k (l:list (positive * V)) v : lookup k l = Some v -> In (k, v) l.
Proof.
  induction l as [|[k' v'] r IH]; [discriminate|]. cbn. destruct (Pos.eqb k k') eqn:E.
  - apply Pos.eqb_eq in E. subst. intros [= ->]. left. reflexivity.
  - intros H. right. apply IH, H.
Qed.

Lemma in_sorted_lookup_from {V} lo (l:list (positive * V)) k v : sorted_from lo l = true -> In (k, v) l -> lookup k l = Some v.
Proof.
  revert lo. induction l as [|[k' v'] r IH]; intros lo Hs Hin; [destruct Hin|].
  cbn in Hs. apply andb_true_iff in Hs. destruct Hs as [H1 H2]. cbn. destruct Hin as [[= -> ->]|Hin].
  - rewrite Pos.eqb_refl. reflexivity.
  - pose proof (IH _ H2 Hin) as Hl. pose proof (sorted_from_lookup _ _ _ _ H2 Hl).
    destruct (Pos.eqb k k') eqn:E; [apply Pos.eqb_eq in E; subst; lia|exact Hl].
Qed.

Lemma in_sorted_lookup {V} (l:list (positive * V)) k v : sorted l = true -> In (k, v) l -> lookup k l = Some v.
Proof. apply in_sorted_lookup_from. Qed.

Lemma lookup_none_in {V} k (l:list (positive * V)) n v : lookup k l = None -> In (n, v) l -> n <> k.
Proof.
  induction l as [|[k' v'] r IH]; intros Hl Hin; [destruct Hin|]. cbn in Hl. destruct (Pos.eqb k k') eqn:E; [discriminate|].
  destruct Hin as [[= -> ->]|Hin]; [apply Pos.eqb_neq in E; congruence|apply IH; assumption].
Qed.

(* put on a present key of a sorted list = pointwise update *)
Lemma put_update {V} (l:list (positive * V)) k v v0 :
  sorted l = true -> lookup k l = Some v0 -> put k v l = map (fun p => if Pos.eqb (fst p) k then (k, v) else p) l.
Proof.
  intros Hs Hl. apply sorted_ext.
  - apply sorted_put, Hs.
  - clear Hl. unfold sorted in *. revert Hs. generalize 0%N. induction l as [|[k' v'] r IH]; intros lo Hs; [reflexivity|].
    cbn in Hs. apply andb_true_iff in Hs. destruct Hs as [H1 H2]. cbn [map fst]. destruct (Pos.eqb k' k) eqn:E.
    + apply Pos.eqb_eq in E. subst k'. cbn. rewrite H1. apply IH, H2.
    + cbn. rewrite H1. apply IH, H2.
  - intros x. rewrite lookup_put. clear Hs. induction l as [|[k' v'] r IH]; [discriminate|].
    cbn in Hl. cbn [map fst]. destruct (Pos.eqb k k') eqn:E.
    + apply Pos.eqb_eq in E. subst k'. rewrite Pos.eqb_refl. cbn. destruct (Pos.eqb x k) eqn:Ex; [reflexivity|].
      clear IH Hl. induction r as [|[k2 v2] r IH]; [reflexivity|]. cbn [map fst]. destruct (Pos.eqb k2 k) eqn:E2.
      * apply Pos.eqb_eq in E2. subst k2. cbn. rewrite Ex. exact IH.
      * cbn. destruct (Pos.eqb x k2); [reflexivity|exact IH].
    + rewrite (Pos.eqb_sym k' k), E. cbn. destruct (Pos.eqb x k') eqn:Ex.
      * destruct (Pos.eqb x k) eqn:Exk; [|reflexivity]. apply Pos.eqb_eq in Ex. apply Pos.eqb_eq in Exk. subst. rewrite Pos.eqb_refl in E. discriminate.
      * apply IH, Hl.
Qed.
