(* C09 model, part 1c: writing an encoding to a file (pbutil.JSONPBWithOpt / TextPBWithOpt /
   GeneratePBBinaryMessageFile: open the path on the afero filesystem, write the bytes, close).
   What matters is how the path is opened when it already holds something: Create (= O_RDWR|O_CREATE|O_TRUNC) and
   OpenFile with O_TRUNC replace the content; OpenFile without O_TRUNC overwrites from offset 0 and keeps the tail
   of a longer earlier content. The mode of each writer comes from Gen/JsonRegex.v. Definitions only. *)
From Coq Require Import String Ascii List Bool.
Import ListNotations.
Require Import Verif.Codec.JsonClean.

Inductive open_mode :=
| OpenCreate       (* fs.Create(name) *)
| OpenTruncFlag    (* fs.OpenFile(name, ... | os.O_TRUNC | ..., perm) *)
| OpenNoTrunc      (* fs.OpenFile without O_TRUNC *)
| OpenUnknown.     (* the translator could not classify how the file is opened *)

Definition truncates (m:open_mode) : bool := match m with OpenCreate | OpenTruncFlag => true | _ => false end.

Definition fsys := list (string * bytes).
Fixpoint read (fs:fsys) (p:string) : option bytes :=
  match fs with [] => None | (q, c) :: r => if String.eqb p q then Some c else read r p end.

(* content of the file after open-write-close, given what it held before *)
Definition written (m:open_mode) (old:option bytes) (b:bytes) : option bytes :=
  match m with
  | OpenCreate | OpenTruncFlag => Some b
  | OpenNoTrunc => Some (b ++ skipn (length b) (match old with Some o => o | None => [] end))
  | OpenUnknown => None
  end.

Definition write_file (m:open_mode) (fs:fsys) (p:string) (b:bytes) : option fsys :=
  match written m (read fs p) b with Some c => Some ((p, c) :: fs) | None => None end.
