(* Correspondence glue for C09: what a case is and when model and implementation agree on it. *)
From Coq Require Import String Ascii List Bool NArith.
Import ListNotations.
Require Import Verif.Base.Harness Verif.Codec.JsonClean Verif.Codec.Dispatch Verif.Codec.PostProcess Verif.Codec.FileWrite Verif.Codec.StripCtx Verif.Codec.EncState.

Definition B (s:string) : bytes := list_ascii_of_string s.
Definition Ch (n:N) : ascii := ascii_of_N n.

Definition bytes_eqb (a b:bytes) : bool := list_eqb Ascii.eqb a b.

Inductive c09_case :=
| CClean (doc cleaned:string)                 (* any bytes through the literal of the source, by Go's regexp engine *)
| CJson (ls:list line) (raw cleaned:string)   (* protojson output of a real message: its lines as read by the harness,
                                                 the bytes before and after the clean-up *)
| CCompact (raw cleaned:string)               (* compact protojson output *)
| CDispatch (path:string) (d fd:decoder)      (* decoder chosen by FromPBStringContents / by FromPB for this name *)
| CFile (writer:string) (old:option string) (enc after:string)   (* file writer onto a path holding `old`: content after *)
| CCli (json compact:bool) (v out:gval)       (* `sysl pb --mode M [--compact]`: the Go value tree of the compiled module
                                                 (as reflection shows it) and of what the binary emitted, decoded *)
| CEnc (tbl:list (nat * enc * octets)) (evs:list ev) (obs:list (nat * octets))
                                              (* encoder calls through writers that block, under a schedule of calls and
                                                 partial reads: tbl = each model's encoding (taken alone), obs = what the
                                                 reader behind each writer received in the end *)
| CPost (cn:positive) (m:pmodule) (out:option pmodule).  (* compile of an import of x.pb holding m: the applications that
                                                 come out (None: the compile panicked); cn = the collector endpoint's name *)

Record source := {
  src_regex : re;
  src_cases : list (string * decoder);
  src_after : decoder;
  src_fallback : decoder;
  src_writers : list (string * open_mode);
  src_sites : list (string * list string);      (* calls of removeSourceContext in protobufCmd.Execute with their guards *)
  src_rule : rule;                              (* the walk of removeSourceContextImpl *)
  src_schema : schema_t;                        (* the structs of sysl.pb.go *)
  src_oneofs : oneofs_t;
  src_encs : enc_rule                           (* where the bytes each encoder hands to Write live *)
}.

Definition c09_ok (s:source) (c:c09_case) : bool :=
  match c with
  | CClean doc cleaned =>
      match shape_of (src_regex s) with
      | Some k => bytes_eqb (clean k (B doc)) (B cleaned)
      | None => false
      end
  | CJson ls raw cleaned =>
      match shape_of (src_regex s) with
      | Some k => forallb wf_line ls && bytes_eqb (print ls) (B raw) && bytes_eqb (clean k (B raw)) (B cleaned)
      | None => false
      end
  | CCompact raw cleaned =>
      match shape_of (src_regex s) with
      | Some k => bytes_eqb (clean k (B raw)) (B cleaned)
      | None => false
      end
  | CDispatch path d fd =>
      decoder_eqb (dispatch (src_cases s) (src_after s) (B path)) d &&
      decoder_eqb (dispatch_file (src_cases s) (src_after s) (src_fallback s) (B path)) fd
  | CFile w old enc after =>
      match find (fun p => String.eqb (fst p) w) (src_writers s) with
      | Some (_, m) => option_eqb bytes_eqb (written m (option_map B old) (B enc)) (Some (B after))
      | None => false
      end
  | CCli json compact v out =>
      conf (src_schema s) (src_oneofs s) (TPtr "Module"%string) v && conf (src_schema s) (src_oneofs s) (TPtr "Module"%string) out &&
      gval_eqb (cli_model (src_sites s) (src_rule s) json compact v) out
  | CEnc tbl evs obs => enc_case_ok (src_encs s) tbl evs obs
  | CPost cn m out => option_eqb pmodule_eqb (post cn m) out
  end.
