(* C09 correspondence: the tables regenerated from the CURRENT source, as one record for the case files. *)
From Coq Require Import String Ascii List Bool NArith.
Import ListNotations.
Require Import Verif.Codec.JsonClean Verif.Codec.Dispatch Verif.Codec.FileWrite Verif.Codec.StripCtx Verif.Codec.EncState Verif.Codec.Run
               Verif.Gen.JsonRegex Verif.Gen.PbDispatch Verif.Gen.StripCtx Verif.Gen.PbState.

Definition src : source :=
  {| src_regex := regex; src_cases := cases; src_after := after_switch; src_fallback := frompb_fallback;
     src_writers := file_writers;
     src_sites := strip_sites;
     src_rule := mk_rule deref_kinds kind_arms skip_tests clear_tests clear_action else_recurse;
     src_schema := schema; src_oneofs := oneofs;
     src_encs := rule_of pb_write_sites |}.
