(* C02 - the compiled model says exactly what the specification text declares. Statements only; proofs by `exact`.
   The model is Front/Denote.v (the listener's algorithm + postProcess); see Front/DenoteProps.v. *)
From Coq Require Import String List ZArith Bool Permutation.
Import ListNotations.
Require Import Verif.Front.Ast Verif.Front.Denote Verif.Front.DenoteProps Verif.Front.Canon Verif.Front.CanonProps Verif.Front.CollectProps Verif.Front.OrderProps Verif.Gen.PrimTables Verif.Gen.ListenerState.
Local Open Scope string_scope.
Local Open Scope list_scope.

(* ---- statements: kind, text, nesting and source order, for arbitrary depth and arbitrary lengths *)
Theorem C02_stmts_order_nesting : forall ap init body, run_body ap init body = init ++ map (image ap) body.
Proof. exact stmts_order_nesting. Qed.
Print Assumptions C02_stmts_order_nesting.

Theorem C02_stmts_count : forall ap init body,
  List.length (run_body ap init body) = (List.length init + List.length body)%nat.
Proof. exact stmts_count. Qed.
Print Assumptions C02_stmts_count.

Theorem C02_block_children : forall ap k t body, children (image ap (XBlock k t body)) = map (image ap) body.
Proof. exact block_children. Qed.
Print Assumptions C02_block_children.

(* ---- obligations against the current source (Gen/PrimTables.v is regenerated on every run) *)
Theorem C02_prim_table_current : forall n, prim_of n = gen_prim_of n.
Proof. exact prim_of_current. Qed.
Print Assumptions C02_prim_table_current.

Theorem C02_size_cases_current : forall p, sizable p = in_cases p size_cases.
Proof. exact sizable_current. Qed.
Print Assumptions C02_size_cases_current.

Theorem C02_array_cases_current : forall p, sizable p = in_cases p array_cases.
Proof. exact arrayable_current. Qed.
Print Assumptions C02_array_cases_current.

Theorem C02_spec_replaces_current :
  map (fun x => (fst (fst x), snd (fst x))) spec_assignments =
    [("ExitField_type", "makeTypeConstraint"); ("ExitField_type", "makeArrayConstraint");
     ("exitSetOrSequence_type", "makeTypeConstraint"); ("exitSetOrSequence_type", "makeArrayConstraint")]
  /\ forallb (fun x => snd x) spec_assignments = true.
Proof. exact spec_replaces_current. Qed.
Print Assumptions C02_spec_replaces_current.

(* ---- fields: wrapper, optionality, primitive kind / reference target, docstring are the declared ones *)
Theorem C02_field_roundtrip : forall ap path f t,
  dfield ap path f = Some t -> fd_array f = false ->
  ty_coll t = fd_coll f /\
  ty_opt t = fd_opt f /\
  (fd_coll f <> CNone -> ty_opt (ty_elem t) = false) /\
  ty_target (ty_elem t) = declared_target (fd_ty f) /\
  ty_doc t = match fd_doc f with Some d => d | None => "" end.
Proof. exact field_roundtrip. Qed.
Print Assumptions C02_field_roundtrip.

(* ---- size / array specifications: exact whenever the numbers fit; FALSE without that side condition *)
Theorem C02_size_exact_partial : forall p cs z cs',
  apply_spec p cs z = Some cs' ->
  match z with
  | ZNone => cs' = cs
  | ZSize n m => exists c, cs' = [c] /\ c_lmax c = n /\ c_lmin c = 0%Z /\
                           (p = PDecimal -> forall k, m = Some k -> in_int32 n -> in_int32 k -> c_prec c = n /\ c_scale c = k)
  | ZArr lo hi => exists c, cs' = [c] /\ c_lmax c = (match hi with Some h => h | None => 0%Z end) /\
                            ((lo <= int64_max)%Z -> c_lmin c = lo)
  end.
Proof. exact size_exact_partial. Qed.
Print Assumptions C02_size_exact_partial.

Theorem C02_size_exact_refuted :
  (exists n k cs', apply_spec PDecimal [] (ZSize n (Some k)) = Some cs' /\ forall c, cs' = [c] -> c_prec c <> n) /\
  (exists lo h cs', apply_spec PString [] (ZArr lo (Some h)) = Some cs' /\ forall c, cs' = [c] -> c_lmin c <> lo).
Proof. exact size_exact_refuted. Qed.
Print Assumptions C02_size_exact_refuted.

(* ---- completeness + soundness of one declaration through lookup-or-create *)
Theorem C02_table_declared_exact : forall ap a table n es items a',
  dtable ap a table n es false items = Some a' -> aget n (a_types a) = None -> NoDup (item_names items) ->
  exists fields at_,
    aget n (a_types a') = Some (Ty (if table then KRel fields (add_pks fields (item_names items) []) else KTuple fields) false [] at_ "") /\
    (forall f, In (TField f) items -> aget (fd_name f) fields = dfield ap [n] f) /\
    (forall x, aget x fields <> None -> In x (item_names items)) /\
    (forall n', n' <> n -> aget n' (a_types a') = aget n' (a_types a)) /\
    a_eps a' = a_eps a /\ a_attrs a' = a_attrs a /\ a_mixins a' = a_mixins a.
Proof. exact table_declared_exact. Qed.
Print Assumptions C02_table_declared_exact.

Theorem C02_endpoint_declared_exact : forall ap a n long ps es annos body a',
  dendpoint ap a n long ps es annos body = Some a' -> aget n (a_eps a) = None ->
  exists e pl,
    aget n (a_eps a') = Some e /\ dparams ap ps = Some pl /\
    e_name e = n /\ e_params e = pl /\ e_stmts e = map (image ap) body /\
    e_rest e = None /\ e_pubsub e = false /\ e_source e = [] /\
    e_long e = (match long with Some l => l | None => "" end) /\
    (forall n', n' <> n -> aget n' (a_eps a') = aget n' (a_eps a)) /\
    a_types a' = a_types a /\ a_attrs a' = a_attrs a.
Proof. exact endpoint_declared_exact. Qed.
Print Assumptions C02_endpoint_declared_exact.

(* ---- the applications of the compiled module are exactly the ones the text names (whole pipeline) *)
Theorem C02_apps_exact : forall s m, denote s = Some m -> forall k, In k (keys m) <-> In k (declared_apps s).
Proof. exact apps_exact. Qed.
Print Assumptions C02_apps_exact.

(* ---- well-formedness is decidable and implies the hypotheses used above *)
Theorem C02_wf_fields_distinct : forall l, nodupb l = true -> NoDup l.
Proof. exact nodupb_NoDup. Qed.
Print Assumptions C02_wf_fields_distinct.

(* ---- the type names of every application are exactly the declared ones, through all blocks and members *)
Theorem C02_types_exact : forall s m, listen s = Some m ->
  forall k t, In t (types_of m k) <-> In t (declared_types s k).
Proof. exact listen_types_exact. Qed.
Print Assumptions C02_types_exact.

(* ---- GLOBAL: completeness and soundness in one equality, on the sub-language accepted by the boolean wf_sub
   (Front/Canon.v): applications in any number of interleaved blocks with long names, tags, attributes and
   annotations; !type / !table with fields and annotations; !enum; !alias; !union; simple endpoints with
   parameters, attributes, annotations and statement trees; events; mixin declarations; every type and endpoint
   name declared once per application, field names distinct, size specifications acceptable. `canon` is the
   declarative (group-by) reading; REST endpoints and subscriptions are outside wf_sub. *)
Theorem C02_listen_is_canon_on_wf_sub : forall s, wf_sub s = true -> listen s = Some (canon s).
Proof. exact listen_canon. Qed.
Print Assumptions C02_listen_is_canon_on_wf_sub.

(* ... and through postProcess, when nothing is mixed in and no reference is re-scoped (both decidable on canon s) *)
Theorem C02_denote_is_canon_on_wf_sub : forall s,
  wf_sub s = true -> no_mixins (canon s) = true -> no_rescope (canon s) = true -> no_collector (canon s) = true ->
  denote s = Some (canon s).
Proof. exact denote_canon. Qed.
Print Assumptions C02_denote_is_canon_on_wf_sub.

(* interleaving of the blocks of different applications is irrelevant (no well-formedness needed) *)
Theorem C02_blocks_group_by_application : forall bs, fold_left tstep bs [] = grouped bs.
Proof. exact fold_tstep_grouped. Qed.
Print Assumptions C02_blocks_group_by_application.

(* ---- `.. * <- *:` blocks (postProcess: collectorPubSubCalls / applyAttributes). For an entry `tg <- ep [cat]` and ANY
   statement forest: the calls of the result are the calls of the input, one for one and in order, with the entry's
   attributes merged into every call of that target and endpoint (any depth, any number of repetitions, every
   one-of choice) and into no other; with call attributes blanked the forests are equal; the accumulated boolean
   says whether such a call exists. *)
Theorem C02_collector_applies_to_all_matches : forall cat tg ep ss ss' b,
  apply_list cat tg ep ss false = Some (ss', b) ->
  calls_of ss' = map (retag cat tg ep) (calls_of ss) /\
  map erase ss' = map erase ss /\
  b = existsb (is_match tg ep) (calls_of ss).
Proof. exact collector_applies_to_all_matches. Qed.
Print Assumptions C02_collector_applies_to_all_matches.

(* ... and it always returns on the statement kinds the listener produces *)
Theorem C02_collector_never_panics : forall cat tg ep ss acc,
  forallb no_bad ss = true -> exists x, apply_list cat tg ep ss acc = Some x.
Proof. exact collector_never_panics. Qed.
Print Assumptions C02_collector_never_panics.

(* one call entry over a whole application: exactly the matching calls of the endpoints other than the collector *)
Theorem C02_collector_entry_effect : forall a cat tg ep args a' b,
  collect_entry a (SCall cat tg ep args) = Some (a', b) ->
  a' = set_eps a (eps_effect cat tg ep (a_eps a)) /\ b = existsb (is_match tg ep) (eps_calls (a_eps a)).
Proof. exact collector_entry_effect. Qed.
Print Assumptions C02_collector_entry_effect.

(* one endpoint entry: its attributes are merged into that endpoint's, nothing else moves *)
Theorem C02_collector_action_effect : forall a cat n e,
  aget n (a_eps a) = Some e ->
  exists a', collect_entry a (SAction cat n) = Some (a', true) /\
    aget n (a_eps a') = Some (set_eattrs e (merge_attrs cat (e_attrs e))) /\
    (forall n', n' <> n -> aget n' (a_eps a') = aget n' (a_eps a)) /\
    a_types a' = a_types a /\ a_attrs a' = a_attrs a /\ a_mixins a' = a_mixins a.
Proof. exact collector_action_effect. Qed.
Print Assumptions C02_collector_action_effect.

(* ---- the collector pass of the CURRENT source has the shape the model transliterates, and mergeAttrs stores copies
   (Gen/ListenerState.v is regenerated on every run) *)
Theorem C02_collector_shape_current :
  apply_recurse_arms = ["Cond"; "Group"; "Loop"; "LoopN"; "Foreach"] /\ apply_leaf_arms = ["Action"; "Ret"] /\
  apply_alt_arm = true /\ apply_call_arm = true /\ apply_default_panics = true /\ apply_accumulates_eagerly = true /\
  collector_skips_self = true /\ collector_accumulates_eagerly = true /\ collector_action_merges = true.
Proof. exact collector_shape_current. Qed.
Print Assumptions C02_collector_shape_current.

Theorem C02_merge_attrs_by_value_current : merge_copies = true.
Proof. exact merge_attrs_by_value_current. Qed.
Print Assumptions C02_merge_attrs_by_value_current.

(* ---- listener state of the CURRENT source: what a declaration sets up it takes down, nothing is left pointing into
   an earlier declaration (this is what allows the model to thread no listener state between members) *)
Theorem C02_exit_detaches_field_map :
  forallb (fun h => detached (last (how h "typemap") "") && match how h "fieldname" with ["fresh"] => true | _ => false end)
          ["ExitTable"; "ExitUnion"; "ExitParams"; "ExitAlias"; "ExitView"] = true.
Proof. exact exit_detaches_field_map. Qed.
Print Assumptions C02_exit_detaches_field_map.

Theorem C02_enter_initialises_field_map :
  forallb (fun h => match how h "typemap" with x :: _ => String.eqb x "fresh" || String.eqb x "set" | [] => false end)
          ["EnterTable"; "EnterUnion"; "EnterParams"; "EnterAlias"; "EnterView"; "EnterApp_decl"] = true /\
  how "EnterParams" "fieldname" = ["fresh"] /\ how "EnterAlias" "fieldname" = ["set"] /\ how "EnterView" "fieldname" = ["fresh"] /\
  how "EnterMethod_def" "method_urlparams" = ["fresh"].
Proof. exact enter_initialises_field_map. Qed.
Print Assumptions C02_enter_initialises_field_map.

Theorem C02_type_path_balanced :
  forallb (fun p => match how (fst p) "currentTypePath", how (snd p) "currentTypePath" with ["push"], ["pop"] => true | _, _ => false end)
          [("EnterTable", "ExitTable"); ("EnterUnion", "ExitUnion"); ("EnterEnum", "ExitEnum"); ("EnterAlias", "ExitAlias")] = true.
Proof. exact type_path_balanced. Qed.
Print Assumptions C02_type_path_balanced.

Theorem C02_scopes_balanced :
  forallb (fun p => match how (fst p) "scope", how (snd p) "scope" with ["push"], ["pop"] => true | _, _ => false end)
          [("EnterTable", "ExitTable"); ("EnterUnion", "ExitUnion"); ("EnterEnum", "ExitEnum"); ("EnterAlias", "ExitAlias");
           ("EnterView", "ExitView"); ("EnterSimple_endpoint", "ExitSimple_endpoint"); ("EnterMethod_def", "ExitMethod_def");
           ("EnterRest_endpoint", "ExitRest_endpoint"); ("EnterEvent", "ExitEvent"); ("EnterSubscribe", "ExitSubscribe");
           ("EnterCollector", "ExitCollector"); ("EnterIf_stmt", "ExitIf_stmt"); ("EnterElse_stmt", "ExitElse_stmt");
           ("EnterGroup_stmt", "ExitGroup_stmt"); ("EnterOne_of_cases", "ExitOne_of_cases"); ("EnterOne_of_stmt", "ExitOne_of_stmt");
           ("EnterApp_decl", "ExitApp_decl"); ("EnterField_type", "ExitField_type")] = true /\
  how "EnterFor_stmt" "scope" = ["push"; "push"; "push"; "push"] /\ how "ExitFor_stmt" "scope" = ["pop"].
Proof. exact scopes_balanced. Qed.
Print Assumptions C02_scopes_balanced.

Theorem C02_rest_stacks_restored :
  how "ExitHttp_path" "urlPrefixes" = ["push"] /\ how "ExitRest_endpoint" "urlPrefixes" = ["pop"] /\
  how "EnterRest_endpoint" "rest_urlparams_len" = ["push"] /\ how "ExitRest_endpoint" "rest_urlparams_len" = ["pop"] /\
  how "ExitRest_endpoint" "rest_urlparams" = ["pop"] /\
  how "EnterRest_endpoint" "rest_attrs" = ["push"; "push"] /\ how "ExitRest_endpoint" "rest_attrs" = ["pop"] /\
  forallb (fun h => match how h "endpointName" with ["empty"] => true | _ => false end)
          ["ExitSimple_endpoint"; "ExitMethod_def"; "ExitEvent"; "ExitSubscribe"] = true.
Proof. exact rest_stacks_restored. Qed.
Print Assumptions C02_rest_stacks_restored.

(* ---- the members of an application block may be written in any order (annotations keep their order among
   themselves, mixins theirs): same types and endpoints under the same names, same attributes, same mixins *)
Theorem C02_member_order_irrelevant : forall ap a ms ms',
  Permutation ms ms' ->
  flat_map mem_annos ms = flat_map mem_annos ms' -> flat_map mem_mixins ms = flat_map mem_mixins ms' ->
  forallb sub_member ms = true -> forallb member_ok ms = true ->
  NoDup (keys (a_types a) ++ keys (types_of_members ap ms)) ->
  NoDup (keys (a_eps a) ++ keys (eps_of_members ap ms)) ->
  exists a1 a2,
    fold_opt (amember ap) ms a = Some a1 /\ fold_opt (amember ap) ms' a = Some a2 /\
    same_map (a_types a1) (a_types a2) /\ same_map (a_eps a1) (a_eps a2) /\
    a_attrs a1 = a_attrs a2 /\ a_mixins a1 = a_mixins a2 /\ a_parts a1 = a_parts a2 /\ a_long a1 = a_long a2.
Proof. exact member_order_irrelevant. Qed.
Print Assumptions C02_member_order_irrelevant.
