(* C02 - the compiled model says exactly what the specification text declares. Statements only; proofs by `exact`.
   The model is Front/Denote.v (the listener's algorithm + postProcess); see Front/DenoteProps.v. *)
From Coq Require Import String List ZArith Bool.
Import ListNotations.
Require Import Verif.Front.Ast Verif.Front.Denote Verif.Front.DenoteProps Verif.Front.Canon Verif.Front.CanonProps Verif.Gen.PrimTables.
Local Open Scope string_scope.
Local Open Scope list_scope.

(* ---- statements: kind, text, nesting and source order, for arbitrary depth and arbitrary lengths *)
Theorem C02_stmts_order_nesting : forall ap init body, run_body ap init body = init ++ map (image ap) body.
Proof. exact stmts_order_nesting. Qed.
Print Assumptions C02_stmts_order_nesting.

Theorem C02_stmts_count : forall ap init body,
  List.length (run_body ap init body) = (List.length init + List.length body)%nat.
Proof. exact stmts_count. Qed.
Print Assumptions C02_stmts_count.

Theorem C02_block_children : forall ap k t body, children (image ap (XBlock k t body)) = map (image ap) body.
Proof. exact block_children. Qed.
Print Assumptions C02_block_children.

(* ---- obligations against the current source (Gen/PrimTables.v is regenerated on every run) *)
Theorem C02_prim_table_current : forall n, prim_of n = gen_prim_of n.
Proof. exact prim_of_current. Qed.
Print Assumptions C02_prim_table_current.

Theorem C02_size_cases_current : forall p, sizable p = in_cases p size_cases.
Proof. exact sizable_current. Qed.
Print Assumptions C02_size_cases_current.

Theorem C02_array_cases_current : forall p, sizable p = in_cases p array_cases.
Proof. exact arrayable_current. Qed.
Print Assumptions C02_array_cases_current.

Theorem C02_spec_replaces_current :
  map (fun x => (fst (fst x), snd (fst x))) spec_assignments =
    [("ExitField_type", "makeTypeConstraint"); ("ExitField_type", "makeArrayConstraint");
     ("exitSetOrSequence_type", "makeTypeConstraint"); ("exitSetOrSequence_type", "makeArrayConstraint")]
  /\ forallb (fun x => snd x) spec_assignments = true.
Proof. exact spec_replaces_current. Qed.
Print Assumptions C02_spec_replaces_current.

(* ---- fields: wrapper, optionality, primitive kind / reference target, docstring are the declared ones *)
Theorem C02_field_roundtrip : forall ap path f t,
  dfield ap path f = Some t -> fd_array f = false ->
  ty_coll t = fd_coll f /\
  ty_opt t = fd_opt f /\
  (fd_coll f <> CNone -> ty_opt (ty_elem t) = false) /\
  ty_target (ty_elem t) = declared_target (fd_ty f) /\
  ty_doc t = match fd_doc f with Some d => d | None => "" end.
Proof. exact field_roundtrip. Qed.
Print Assumptions C02_field_roundtrip.

(* ---- size / array specifications: exact whenever the numbers fit; FALSE without that side condition *)
Theorem C02_size_exact_partial : forall p cs z cs',
  apply_spec p cs z = Some cs' ->
  match z with
  | ZNone => cs' = cs
  | ZSize n m => exists c, cs' = [c] /\ c_lmax c = n /\ c_lmin c = 0%Z /\
                           (p = PDecimal -> forall k, m = Some k -> in_int32 n -> in_int32 k -> c_prec c = n /\ c_scale c = k)
  | ZArr lo hi => exists c, cs' = [c] /\ c_lmax c = (match hi with Some h => h | None => 0%Z end) /\
                            ((lo <= int64_max)%Z -> c_lmin c = lo)
  end.
Proof. exact size_exact_partial. Qed.
Print Assumptions C02_size_exact_partial.

Theorem C02_size_exact_refuted :
  (exists n k cs', apply_spec PDecimal [] (ZSize n (Some k)) = Some cs' /\ forall c, cs' = [c] -> c_prec c <> n) /\
  (exists lo h cs', apply_spec PString [] (ZArr lo (Some h)) = Some cs' /\ forall c, cs' = [c] -> c_lmin c <> lo).
Proof. exact size_exact_refuted. Qed.
Print Assumptions C02_size_exact_refuted.

(* ---- completeness + soundness of one declaration through lookup-or-create *)
Theorem C02_table_declared_exact : forall ap a table n es items a',
  dtable ap a table n es false items = Some a' -> aget n (a_types a) = None -> NoDup (item_names items) ->
  exists fields at_,
    aget n (a_types a') = Some (Ty (if table then KRel fields (add_pks fields (item_names items) []) else KTuple fields) false [] at_ "") /\
    (forall f, In (TField f) items -> aget (fd_name f) fields = dfield ap [n] f) /\
    (forall x, aget x fields <> None -> In x (item_names items)) /\
    (forall n', n' <> n -> aget n' (a_types a') = aget n' (a_types a)) /\
    a_eps a' = a_eps a /\ a_attrs a' = a_attrs a /\ a_mixins a' = a_mixins a.
Proof. exact table_declared_exact. Qed.
Print Assumptions C02_table_declared_exact.

Theorem C02_endpoint_declared_exact : forall ap a n long ps es annos body a',
  dendpoint ap a n long ps es annos body = Some a' -> aget n (a_eps a) = None ->
  exists e pl,
    aget n (a_eps a') = Some e /\ dparams ap ps = Some pl /\
    e_name e = n /\ e_params e = pl /\ e_stmts e = map (image ap) body /\
    e_rest e = None /\ e_pubsub e = false /\ e_source e = [] /\
    e_long e = (match long with Some l => l | None => "" end) /\
    (forall n', n' <> n -> aget n' (a_eps a') = aget n' (a_eps a)) /\
    a_types a' = a_types a /\ a_attrs a' = a_attrs a.
Proof. exact endpoint_declared_exact. Qed.
Print Assumptions C02_endpoint_declared_exact.

(* ---- the applications of the compiled module are exactly the ones the text names (whole pipeline) *)
Theorem C02_apps_exact : forall s m, denote s = Some m -> forall k, In k (keys m) <-> In k (declared_apps s).
Proof. exact apps_exact. Qed.
Print Assumptions C02_apps_exact.

(* ---- well-formedness is decidable and implies the hypotheses used above *)
Theorem C02_wf_fields_distinct : forall l, nodupb l = true -> NoDup l.
Proof. exact nodupb_NoDup. Qed.
Print Assumptions C02_wf_fields_distinct.

(* ---- the type names of every application are exactly the declared ones, through all blocks and members *)
Theorem C02_types_exact : forall s m, listen s = Some m ->
  forall k t, In t (types_of m k) <-> In t (declared_types s k).
Proof. exact listen_types_exact. Qed.
Print Assumptions C02_types_exact.

(* ---- GLOBAL: completeness and soundness in one equality, on the sub-language accepted by the boolean wf_sub
   (Front/Canon.v): applications in any number of interleaved blocks with long names, tags, attributes and
   annotations; !type / !table with fields and annotations; !enum; !alias; !union; simple endpoints with
   parameters, attributes, annotations and statement trees; events; mixin declarations; every type and endpoint
   name declared once per application, field names distinct, size specifications acceptable. `canon` is the
   declarative (group-by) reading; REST endpoints and subscriptions are outside wf_sub. *)
Theorem C02_listen_is_canon_on_wf_sub : forall s, wf_sub s = true -> listen s = Some (canon s).
Proof. exact listen_canon. Qed.
Print Assumptions C02_listen_is_canon_on_wf_sub.

(* ... and through postProcess, when nothing is mixed in and no reference is re-scoped (both decidable on canon s) *)
Theorem C02_denote_is_canon_on_wf_sub : forall s,
  wf_sub s = true -> no_mixins (canon s) = true -> no_rescope (canon s) = true -> denote s = Some (canon s).
Proof. exact denote_canon. Qed.
Print Assumptions C02_denote_is_canon_on_wf_sub.

(* interleaving of the blocks of different applications is irrelevant (no well-formedness needed) *)
Theorem C02_blocks_group_by_application : forall bs, fold_left tstep bs [] = grouped bs.
Proof. exact fold_tstep_grouped. Qed.
Print Assumptions C02_blocks_group_by_application.
