(* C02 - the compiled model says exactly what the specification text declares. Statements only; proofs by `exact`.
   The model is Front/Denote.v (the listener's algorithm + postProcess); see Front/DenoteProps.v. *)
From Coq Require Import String List ZArith Bool Permutation.
Import ListNotations.
Require Import Verif.Front.Ast Verif.Front.Denote Verif.Front.DenoteProps Verif.Front.Canon Verif.Front.CanonProps Verif.Front.Group Verif.Front.CanonFull Verif.Front.CanonFullProps Verif.Front.PrecProps Verif.Front.CollectProps Verif.Front.OrderProps Verif.Gen.PrimTables Verif.Gen.ListenerState.
Local Open Scope string_scope.
Local Open Scope list_scope.

(* ---- statements: kind, text, nesting and source order, for arbitrary depth and arbitrary lengths *)
Theorem C02_stmts_order_nesting : forall ap init body, run_body ap init body = init ++ map (image ap) body.
Proof. exact stmts_order_nesting. Qed.
Print Assumptions C02_stmts_order_nesting.

Theorem C02_stmts_count : forall ap init body,
  List.length (run_body ap init body) = (List.length init + List.length body)%nat.
Proof. exact stmts_count. Qed.
Print Assumptions C02_stmts_count.

Theorem C02_block_children : forall ap k t body, children (image ap (XBlock k t body)) = map (image ap) body.
Proof. exact block_children. Qed.
Print Assumptions C02_block_children.

(* ---- obligations against the current source (Gen/PrimTables.v is regenerated on every run) *)
Theorem C02_prim_table_current : forall n, prim_of n = gen_prim_of n.
Proof. exact prim_of_current. Qed.
Print Assumptions C02_prim_table_current.

Theorem C02_size_cases_current : forall p, sizable p = in_cases p size_cases.
Proof. exact sizable_current. Qed.
Print Assumptions C02_size_cases_current.

Theorem C02_array_cases_current : forall p, sizable p = in_cases p array_cases.
Proof. exact arrayable_current. Qed.
Print Assumptions C02_array_cases_current.

Theorem C02_spec_replaces_current :
  map (fun x => (fst (fst x), snd (fst x))) spec_assignments =
    [("ExitField_type", "makeTypeConstraint"); ("ExitField_type", "makeArrayConstraint");
     ("exitSetOrSequence_type", "makeTypeConstraint"); ("exitSetOrSequence_type", "makeArrayConstraint")]
  /\ forallb (fun x => snd x) spec_assignments = true.
Proof. exact spec_replaces_current. Qed.
Print Assumptions C02_spec_replaces_current.

(* ---- fields: wrapper, optionality, primitive kind / reference target, docstring are the declared ones *)
Theorem C02_field_roundtrip : forall ap path f t,
  dfield ap path f = Some t -> fd_array f = false ->
  ty_coll t = fd_coll f /\
  ty_opt t = fd_opt f /\
  (fd_coll f <> CNone -> ty_opt (ty_elem t) = false) /\
  ty_target (ty_elem t) = declared_target (fd_ty f) /\
  ty_doc t = match fd_doc f with Some d => d | None => "" end.
Proof. exact field_roundtrip. Qed.
Print Assumptions C02_field_roundtrip.

(* ---- size / array specifications: exact whenever the numbers fit; FALSE without that side condition *)
Theorem C02_size_exact_partial : forall p cs z cs',
  apply_spec p cs z = Some cs' ->
  match z with
  | ZNone => cs' = cs
  | ZSize n m => exists c, cs' = [c] /\ c_lmax c = n /\ c_lmin c = 0%Z /\
                           (p = PDecimal -> forall k, m = Some k -> in_int32 n -> in_int32 k -> c_prec c = n /\ c_scale c = k)
  | ZArr lo hi => exists c, cs' = [c] /\ c_lmax c = (match hi with Some h => h | None => 0%Z end) /\
                            ((lo <= int64_max)%Z -> c_lmin c = lo)
  end.
Proof. exact size_exact_partial. Qed.
Print Assumptions C02_size_exact_partial.

Theorem C02_size_exact_refuted :
  (exists n k cs', apply_spec PDecimal [] (ZSize n (Some k)) = Some cs' /\ forall c, cs' = [c] -> c_prec c <> n) /\
  (exists lo h cs', apply_spec PString [] (ZArr lo (Some h)) = Some cs' /\ forall c, cs' = [c] -> c_lmin c <> lo).
Proof. exact size_exact_refuted. Qed.
Print Assumptions C02_size_exact_refuted.

(* ---- completeness + soundness of one declaration through lookup-or-create *)
Theorem C02_table_declared_exact : forall ap a table n es items a',
  dtable ap a table n es false items = Some a' -> aget n (a_types a) = None -> NoDup (item_names items) ->
  exists fields at_,
    aget n (a_types a') = Some (Ty (if table then KRel fields (add_pks fields (item_allnames items) []) else KTuple fields) false [] at_ "") /\
    (forall f, In (TField f) items -> aget (fd_name f) fields = dfield ap [n] f) /\
    (forall f arr fs, In (TTuple f arr fs) items -> aget f fields = Some (tuple_field f arr)) /\
    (forall x, aget x fields <> None -> In x (item_names items)) /\
    (forall n', n' <> n -> ~ In n' (items_type_names n items) -> aget n' (a_types a') = aget n' (a_types a)) /\
    (forall n', In n' (keys (a_types a')) <-> In n' (keys (a_types a)) \/ n' = n \/ In n' (items_type_names n items)) /\
    a_eps a' = a_eps a /\ a_attrs a' = a_attrs a /\ a_mixins a' = a_mixins a.
Proof. exact table_declared_exact. Qed.
Print Assumptions C02_table_declared_exact.

Theorem C02_endpoint_declared_exact : forall ap a n long ps es annos body a',
  dendpoint ap a n long ps es annos body = Some a' -> aget n (a_eps a) = None ->
  exists e pl,
    aget n (a_eps a') = Some e /\ dparams ap ps = Some pl /\
    e_name e = n /\ e_params e = pl /\ e_stmts e = map (image ap) body /\
    e_rest e = None /\ e_pubsub e = false /\ e_source e = [] /\
    e_long e = (match long with Some l => l | None => "" end) /\
    (forall n', n' <> n -> aget n' (a_eps a') = aget n' (a_eps a)) /\
    a_types a' = a_types a /\ a_attrs a' = a_attrs a.
Proof. exact endpoint_declared_exact. Qed.
Print Assumptions C02_endpoint_declared_exact.

(* ---- the applications of the compiled module are exactly the ones the text names (whole pipeline) *)
Theorem C02_apps_exact : forall s m, denote s = Some m -> forall k, In k (keys m) <-> In k (declared_apps s).
Proof. exact apps_exact. Qed.
Print Assumptions C02_apps_exact.

(* ---- well-formedness is decidable and implies the hypotheses used above *)
Theorem C02_wf_fields_distinct : forall l, nodupb l = true -> NoDup l.
Proof. exact nodupb_NoDup. Qed.
Print Assumptions C02_wf_fields_distinct.

(* ---- the type names of every application are exactly the declared ones, through all blocks and members *)
Theorem C02_types_exact : forall s m, listen s = Some m ->
  forall k t, In t (types_of m k) <-> In t (declared_types s k).
Proof. exact listen_types_exact. Qed.
Print Assumptions C02_types_exact.

(* ---- GLOBAL: completeness and soundness in one equality, on the sub-language accepted by the boolean wf_sub
   (Front/Canon.v): applications in any number of interleaved blocks with long names, tags, attributes and
   annotations; !type / !table with fields and annotations; !enum; !alias; !union; simple endpoints with
   parameters, attributes, annotations and statement trees; events; mixin declarations; every type and endpoint
   name declared once per application, field names distinct, size specifications acceptable. `canon` is the
   declarative (group-by) reading; REST endpoints and subscriptions are outside wf_sub. *)
Theorem C02_listen_is_canon_on_wf_sub : forall s, wf_sub s = true -> listen s = Some (canon s).
Proof. exact listen_canon. Qed.
Print Assumptions C02_listen_is_canon_on_wf_sub.

(* ... and through postProcess, when nothing is mixed in and no reference is re-scoped (both decidable on canon s) *)
Theorem C02_denote_is_canon_on_wf_sub : forall s,
  wf_sub s = true -> no_mixins (canon s) = true -> no_rescope (canon s) = true -> no_collector (canon s) = true ->
  denote s = Some (canon s).
Proof. exact denote_canon. Qed.
Print Assumptions C02_denote_is_canon_on_wf_sub.

(* interleaving of the blocks of different applications is irrelevant (no well-formedness needed) *)
Theorem C02_blocks_group_by_application : forall bs, fold_left tstep bs [] = grouped bs.
Proof. exact fold_tstep_grouped. Qed.
Print Assumptions C02_blocks_group_by_application.

(* ---- GLOBAL, whole member language (Front/CanonFull.v): the same equality with REST trees (nested paths, path
   variables, query parameters, every verb, attribute levels in closed form), subscriptions (the subscriber's
   endpoint in its own application, one call added to the event of the PUBLISHER's application, which the
   subscription creates when no block declares it) and `.. * <- *` blocks. `canonf` groups the actions of the
   text by application and the contributions to an application's endpoints by endpoint name; wf_full (boolean):
   acceptable sizes, every type name declared once per application, every endpoint name either declared by exactly
   one complete declaration or made of event parts only (`<-> Event` and subscribers' calls, any number). *)
Theorem C02_listen_is_canonf_on_wf_full : forall s, wf_full s = true -> listen s = Some (canonf s).
Proof. exact listen_canon_full. Qed.
Print Assumptions C02_listen_is_canonf_on_wf_full.

Theorem C02_denote_is_canonf_on_wf_full : forall s,
  wf_full s = true -> no_mixins (canonf s) = true -> no_rescope (canonf s) = true -> no_collector (canonf s) = true ->
  denote s = Some (canonf s).
Proof. exact denote_canon_full. Qed.
Print Assumptions C02_denote_is_canonf_on_wf_full.

(* with mixins / a collector block / re-scoped references: postProcess applied to the declarative reading *)
Theorem C02_denote_is_post_canonf : forall s, wf_full s = true -> denote s = post (canonf s).
Proof. exact denote_post_canon_full. Qed.
Print Assumptions C02_denote_is_post_canonf.

(* the two-application grouping lemma: the actions of a text (block header / member / publisher side of a
   subscription) taken as lookup-or-create steps on ONE shared application map = the actions grouped by
   application, each group folded on its own; likewise the contributions to the endpoints of one application,
   grouped by endpoint name. No well-formedness needed. *)
Theorem C02_actions_group_by_application : forall xs,
  fold_left kstepA xs [] = kgrouped act_key ainit aeff (new_app []) xs.
Proof. exact actions_group_by_application. Qed.
Print Assumptions C02_actions_group_by_application.

Theorem C02_contributions_group_by_endpoint : forall cs,
  fold_left kstep_ep cs [] = kgrouped ckey cinit ceff (new_ep "") cs.
Proof. exact contributions_group_by_endpoint. Qed.
Print Assumptions C02_contributions_group_by_endpoint.

(* a REST tree is exactly the sequence of its methods' lookup-or-create steps, each with the path / path variables
   / attribute levels of its position (prefix and attribute stacks in closed form: rest_contribs) *)
Theorem C02_rest_tree_is_its_methods : forall n ap prefix urls rattrs a, rest_ok n = true ->
  drest ap prefix urls rattrs n a = Some (set_eps a (fold_left kstep_ep (rest_contribs ap prefix urls rattrs n) (a_eps a))).
Proof. exact drest_k. Qed.
Print Assumptions C02_rest_tree_is_its_methods.

(* on the smaller sub-language the two readings coincide *)
Theorem C02_canonf_extends_canon : forall s, wf_sub s = true -> wf_full s = true -> canonf s = canon s.
Proof. exact canonf_extends_canon. Qed.
Print Assumptions C02_canonf_extends_canon.

(* ---- in-place tuples (`field <:` + an indented block of fields, nested to any depth, also `field(1..) <:`):
   processing one nested field at type path `path` adds to the application EXACTLY the types named by the dotted
   paths of the in-place tuples below it (ntype_names: `T.f`, `T.f.g`, ...) and touches no other type.
   (C02_table_declared_exact above says what the enclosing type gets: the field f = reference to [f], or a list of
   it; C02_types_exact counts the nested names among the declared ones.) *)
Theorem C02_inplace_tuple_types : forall x ap path acc r, ntuple ap path x acc = Some r ->
  (forall t, In t (keys (snd r)) <-> In t (keys (snd acc)) \/ In t (ntype_names path x)) /\
  (forall t, ~ In t (ntype_names path x) -> aget t (snd r) = aget t (snd acc)).
Proof. exact ntuple_types. Qed.
Print Assumptions C02_inplace_tuple_types.

Theorem C02_inplace_tuple_current :
  inplace_push_as_is = true /\ inplace_exit_restores_any_parent = true /\ inplace_array_name_unescaped = true /\
  inplace_exit_cuts_names = true.
Proof. exact inplace_tuple_current. Qed.
Print Assumptions C02_inplace_tuple_current.

(* ---- attribute precedence (addAttrWithPrecedence): one attribute name declared several times on ONE element -
   inline in the header and again by `@name = value` lines. After any list of annotation lines the element holds
   the FIRST NON-EMPTY value among the one it held (its inline value) and the annotations of that name in source
   order - non-empty string or non-empty array (nested arrays included) alike; empty values are overwritten; when
   all are empty the last stays. All three annotation forms; every name but `patterns`, which accumulates. *)
Theorem C02_anno_first_nonempty_wins : forall l m n, n <> patterns ->
  aget n (add_annos m l) = first_nonempty (aget n m) (map anno_value (filter (named n) l)).
Proof. exact anno_first_nonempty_wins. Qed.
Print Assumptions C02_anno_first_nonempty_wins.

Theorem C02_anno_other_names_untouched : forall l m k,
  (forall a, In a l -> anno_name a <> k) -> aget k (add_annos m l) = aget k m.
Proof. exact anno_other_names_untouched. Qed.
Print Assumptions C02_anno_other_names_untouched.

Theorem C02_anno_patterns_append : forall m cur new,
  aget patterns m = Some (AA cur) -> aget patterns (add_anno m (An patterns (NArr (AA new)))) = Some (AA (cur ++ new)).
Proof. exact anno_patterns_append. Qed.
Print Assumptions C02_anno_patterns_append.

(* the four element kinds (their images are `add_annos <inline part> <annotation lines>`) *)
Theorem C02_endpoint_attr_precedence : forall ap n long ps es annos body k, k <> patterns ->
  aget k (e_attrs (cimage (KEp ap n long ps es annos body))) =
    first_nonempty (aget k (match es with [] => [] | _ => merge_attrs (make_attrs es) [] end)) (map anno_value (filter (named k) annos)).
Proof. exact endpoint_attr_precedence. Qed.
Print Assumptions C02_endpoint_attr_precedence.

Theorem C02_method_attr_precedence : forall ap path urls rattrs md k, k <> patterns ->
  aget k (e_attrs (cimage (KMethod ap path urls rattrs md))) =
    first_nonempty (aget k (merge_attrs (method_attrs rattrs md) [])) (map anno_value (filter (named k) (m_annos md))).
Proof. exact method_attr_precedence. Qed.
Print Assumptions C02_method_attr_precedence.

Theorem C02_type_attr_precedence : forall ap table n es items k, k <> patterns ->
  match type_image ap (MType table n es false items) with
  | Some (_, t) => aget k (ty_attrs t) =
      first_nonempty (aget k (match es with [] => [] | _ => tdef_merge (make_attrs es) [] end)) (map anno_value (filter (named k) (item_annos items)))
  | None => False
  end.
Proof. exact type_attr_precedence. Qed.
Print Assumptions C02_type_attr_precedence.

Theorem C02_app_attr_precedence : forall at0 b k, k <> patterns ->
  aget k (blk_attrs at0 b) =
    first_nonempty (aget k (match b_attribs b with [] => at0 | es => merge_attrs (make_attrs es) at0 end))
                   (map anno_value (filter (named k) (block_annos b))).
Proof. exact app_attr_precedence. Qed.
Print Assumptions C02_app_attr_precedence.

(* the case analysis of the model is that of the CURRENT source (statements of addAttrWithPrecedence, regenerated) *)
Theorem C02_prec_shape_current : prec_shape =
  ["{"; "if attrs == nil {"; "attrs = make(map[string]*sysl.Attribute)"; "}";
   "if patterns, hasPatterns := attrs[patternsKey]; hasPatterns && key == patternsKey {";
   "currPatterns := patterns.Attribute.(*sysl.Attribute_A)"; "newPatterns := attr.Attribute.(*sysl.Attribute_A)";
   "currPatterns.A.Elt = append(currPatterns.A.GetElt(), newPatterns.A.GetElt()...)"; "return attrs"; "}";
   "if v, exists := attrs[key]; exists && v.Attribute != nil {"; "switch x := v.Attribute.(type) {";
   "case *sysl.Attribute_S:"; "if x.S != """" {"; "v.SourceContexts = append(v.SourceContexts, attr.SourceContexts...)"; "return attrs"; "}";
   "case *sysl.Attribute_A:"; "if len(x.A.GetElt()) > 0 {"; "v.SourceContexts = append(v.SourceContexts, attr.SourceContexts...)"; "return attrs"; "}";
   "}"; "}"; "attrs[key] = attr"; "return attrs"; "}"].
Proof. exact prec_shape_current. Qed.
Print Assumptions C02_prec_shape_current.

(* ---- `.. * <- *:` blocks (postProcess: collectorPubSubCalls / applyAttributes). For an entry `tg <- ep [cat]` and ANY
   statement forest: the calls of the result are the calls of the input, one for one and in order, with the entry's
   attributes merged into every call of that target and endpoint (any depth, any number of repetitions, every
   one-of choice) and into no other; with call attributes blanked the forests are equal; the accumulated boolean
   says whether such a call exists. *)
Theorem C02_collector_applies_to_all_matches : forall cat tg ep ss ss' b,
  apply_list cat tg ep ss false = Some (ss', b) ->
  calls_of ss' = map (retag cat tg ep) (calls_of ss) /\
  map erase ss' = map erase ss /\
  b = existsb (is_match tg ep) (calls_of ss).
Proof. exact collector_applies_to_all_matches. Qed.
Print Assumptions C02_collector_applies_to_all_matches.

(* ... and it always returns on the statement kinds the listener produces *)
Theorem C02_collector_never_panics : forall cat tg ep ss acc,
  forallb no_bad ss = true -> exists x, apply_list cat tg ep ss acc = Some x.
Proof. exact collector_never_panics. Qed.
Print Assumptions C02_collector_never_panics.

(* one call entry over a whole application: exactly the matching calls of the endpoints other than the collector *)
Theorem C02_collector_entry_effect : forall a cat tg ep args a' b,
  collect_entry a (SCall cat tg ep args) = Some (a', b) ->
  a' = set_eps a (eps_effect cat tg ep (a_eps a)) /\ b = existsb (is_match tg ep) (eps_calls (a_eps a)).
Proof. exact collector_entry_effect. Qed.
Print Assumptions C02_collector_entry_effect.

(* one endpoint entry: its attributes are merged into that endpoint's, nothing else moves *)
Theorem C02_collector_action_effect : forall a cat n e,
  aget n (a_eps a) = Some e ->
  exists a', collect_entry a (SAction cat n) = Some (a', true) /\
    aget n (a_eps a') = Some (set_eattrs e (merge_attrs cat (e_attrs e))) /\
    (forall n', n' <> n -> aget n' (a_eps a') = aget n' (a_eps a)) /\
    a_types a' = a_types a /\ a_attrs a' = a_attrs a /\ a_mixins a' = a_mixins a.
Proof. exact collector_action_effect. Qed.
Print Assumptions C02_collector_action_effect.

(* ---- the collector pass of the CURRENT source has the shape the model transliterates, and mergeAttrs stores copies
   (Gen/ListenerState.v is regenerated on every run) *)
Theorem C02_collector_shape_current :
  apply_recurse_arms = ["Cond"; "Group"; "Loop"; "LoopN"; "Foreach"] /\ apply_leaf_arms = ["Action"; "Ret"] /\
  apply_alt_arm = true /\ apply_call_arm = true /\ apply_default_panics = true /\ apply_accumulates_eagerly = true /\
  collector_skips_self = true /\ collector_accumulates_eagerly = true /\ collector_action_merges = true.
Proof. exact collector_shape_current. Qed.
Print Assumptions C02_collector_shape_current.

Theorem C02_merge_attrs_by_value_current : merge_copies = true.
Proof. exact merge_attrs_by_value_current. Qed.
Print Assumptions C02_merge_attrs_by_value_current.

(* ---- listener state of the CURRENT source: what a declaration sets up it takes down, nothing is left pointing into
   an earlier declaration (this is what allows the model to thread no listener state between members) *)
Theorem C02_exit_detaches_field_map :
  forallb (fun h => detached (last (how h "typemap") "") && match how h "fieldname" with ["fresh"] => true | _ => false end)
          ["ExitTable"; "ExitUnion"; "ExitParams"; "ExitAlias"; "ExitView"] = true.
Proof. exact exit_detaches_field_map. Qed.
Print Assumptions C02_exit_detaches_field_map.

Theorem C02_enter_initialises_field_map :
  forallb (fun h => match how h "typemap" with x :: _ => String.eqb x "fresh" || String.eqb x "set" | [] => false end)
          ["EnterTable"; "EnterUnion"; "EnterParams"; "EnterAlias"; "EnterView"; "EnterApp_decl"] = true /\
  how "EnterParams" "fieldname" = ["fresh"] /\ how "EnterAlias" "fieldname" = ["set"] /\ how "EnterView" "fieldname" = ["fresh"] /\
  how "EnterMethod_def" "method_urlparams" = ["fresh"].
Proof. exact enter_initialises_field_map. Qed.
Print Assumptions C02_enter_initialises_field_map.

Theorem C02_type_path_balanced :
  forallb (fun p => match how (fst p) "currentTypePath", how (snd p) "currentTypePath" with ["push"], ["pop"] => true | _, _ => false end)
          [("EnterTable", "ExitTable"); ("EnterUnion", "ExitUnion"); ("EnterEnum", "ExitEnum"); ("EnterAlias", "ExitAlias")] = true.
Proof. exact type_path_balanced. Qed.
Print Assumptions C02_type_path_balanced.

Theorem C02_scopes_balanced :
  forallb (fun p => match how (fst p) "scope", how (snd p) "scope" with ["push"], ["pop"] => true | _, _ => false end)
          [("EnterTable", "ExitTable"); ("EnterUnion", "ExitUnion"); ("EnterEnum", "ExitEnum"); ("EnterAlias", "ExitAlias");
           ("EnterView", "ExitView"); ("EnterSimple_endpoint", "ExitSimple_endpoint"); ("EnterMethod_def", "ExitMethod_def");
           ("EnterRest_endpoint", "ExitRest_endpoint"); ("EnterEvent", "ExitEvent"); ("EnterSubscribe", "ExitSubscribe");
           ("EnterCollector", "ExitCollector"); ("EnterIf_stmt", "ExitIf_stmt"); ("EnterElse_stmt", "ExitElse_stmt");
           ("EnterGroup_stmt", "ExitGroup_stmt"); ("EnterOne_of_cases", "ExitOne_of_cases"); ("EnterOne_of_stmt", "ExitOne_of_stmt");
           ("EnterApp_decl", "ExitApp_decl"); ("EnterField_type", "ExitField_type")] = true /\
  how "EnterFor_stmt" "scope" = ["push"; "push"; "push"; "push"] /\ how "ExitFor_stmt" "scope" = ["pop"].
Proof. exact scopes_balanced. Qed.
Print Assumptions C02_scopes_balanced.

Theorem C02_rest_stacks_restored :
  how "ExitHttp_path" "urlPrefixes" = ["push"] /\ how "ExitRest_endpoint" "urlPrefixes" = ["pop"] /\
  how "EnterRest_endpoint" "rest_urlparams_len" = ["push"] /\ how "ExitRest_endpoint" "rest_urlparams_len" = ["pop"] /\
  how "ExitRest_endpoint" "rest_urlparams" = ["pop"] /\
  how "EnterRest_endpoint" "rest_attrs" = ["push"; "push"] /\ how "ExitRest_endpoint" "rest_attrs" = ["pop"] /\
  forallb (fun h => match how h "endpointName" with ["empty"] => true | _ => false end)
          ["ExitSimple_endpoint"; "ExitMethod_def"; "ExitEvent"; "ExitSubscribe"] = true.
Proof. exact rest_stacks_restored. Qed.
Print Assumptions C02_rest_stacks_restored.

(* ---- the members of an application block may be written in any order (annotations keep their order among
   themselves, mixins theirs): same types and endpoints under the same names, same attributes, same mixins *)
Theorem C02_member_order_irrelevant : forall ap a ms ms',
  Permutation ms ms' ->
  flat_map mem_annos ms = flat_map mem_annos ms' -> flat_map mem_mixins ms = flat_map mem_mixins ms' ->
  forallb sub_member ms = true -> forallb member_ok ms = true ->
  NoDup (keys (a_types a) ++ keys (types_of_members ap ms)) ->
  NoDup (keys (a_eps a) ++ keys (eps_of_members ap ms)) ->
  exists a1 a2,
    fold_opt (amember ap) ms a = Some a1 /\ fold_opt (amember ap) ms' a = Some a2 /\
    same_map (a_types a1) (a_types a2) /\ same_map (a_eps a1) (a_eps a2) /\
    a_attrs a1 = a_attrs a2 /\ a_mixins a1 = a_mixins a2 /\ a_parts a1 = a_parts a2 /\ a_long a1 = a_long a2.
Proof. exact member_order_irrelevant. Qed.
Print Assumptions C02_member_order_irrelevant.
