(* C11 - importers emit valid Sysl containing everything the foreign specification defines.
   Statements only; proofs by `exact`. Models: Foreign/NameEscape.v (name escaping codec, lexer rules),
   Foreign/ImportSpec.v (OpenAPI 2 / XSD reference translation). *)
From Coq Require Import String Ascii List NArith Bool Permutation.
Import ListNotations.
Require Import Verif.Foreign.NameEscape Verif.Foreign.NameEscapeProps Verif.Foreign.Tables.

(* --- safe_name_valid_and_faithful, over ALL byte strings, for the replacement table of the current source --- *)
Theorem C11_safe_name_is_a_Name : forall s, name_re (safe_name_cur s) = true.
Proof. exact safe_name_valid_current. Qed.
Print Assumptions C11_safe_name_is_a_Name.

(* for any replacement table: the names are always Names exactly when every byte's block is Name material *)
Theorem C11_safe_name_valid_iff_table_covers : forall T,
  all_blocks_name_body T = true <-> (forall s, name_re (safe_name T s) = true).
Proof. exact safe_name_valid_iff. Qed.
Print Assumptions C11_safe_name_valid_iff_table_covers.

(* the compiler's MustUnescape gives the original bytes back, up to the "_" the writer may prepend and the
   white-space trimming MustUnescape itself applies *)
Theorem C11_safe_name_faithful : forall s,
  exists p, (p = [] \/ p = ["_"%char]) /\ must_unescape (safe_name_cur s) = Ok (trim_space (p ++ s)).
Proof. exact safe_name_faithful_current. Qed.
Print Assumptions C11_safe_name_faithful.

Theorem C11_safe_name_faithful_plain_ends_partial : forall s, plain_ends s = true ->
  must_unescape (safe_name_cur s) = Ok s \/ must_unescape (safe_name_cur s) = Ok ("_"%char :: s).
Proof. exact safe_name_faithful_plain_current. Qed.
Print Assumptions C11_safe_name_faithful_plain_ends_partial.

(* exact faithfulness for all byte strings is false (outer white space is trimmed), whatever the table *)
Theorem C11_safe_name_exactly_faithful_refuted :
  exists s, must_unescape (safe_name_cur s) <> Ok s /\ must_unescape (safe_name_cur s) <> Ok ("_"%char :: s).
Proof. exact (safe_name_exactly_faithful_refuted escape_table table_decodes). Qed.
Print Assumptions C11_safe_name_exactly_faithful_refuted.

(* Go's codec on its own *)
Theorem C11_path_unescape_escape : forall s, path_unescape (path_escape s) = Some s.
Proof. exact unescape_escape. Qed.
Print Assumptions C11_path_unescape_escape.

(* the order in which Go ranges over the replacement map cannot change the text (second run identical) *)
Theorem C11_escape_order_irrelevant : forall ord, Permutation ord escape_table ->
  forall s, escape_unsafe_ord ord s = escape_unsafe escape_table s.
Proof. exact escape_order_irrelevant_current. Qed.
Print Assumptions C11_escape_order_irrelevant.

(* quote (after fixes/C11-2) always writes one DOUBLE_QUOTE_STRING token, so @json_tag / name= lines lex *)
Theorem C11_quote_is_a_string_token : forall s, s <> [] -> dq_string_re (quote s) = true.
Proof. exact quote_is_a_string_token. Qed.
Print Assumptions C11_quote_is_a_string_token.

(* obligations against the current source (Gen/ForeignTables.v) *)
Theorem C11_lexer_keywords_are_decorated :
  forallb (fun k => smem k Verif.Gen.ForeignTables.builtin_types || smem k Verif.Gen.ForeignTables.importer_keywords_ci)
          Verif.Gen.ForeignTables.lexer_keywords_ci = true /\
  forallb (fun k => smem k Verif.Gen.ForeignTables.importer_keywords_cs) Verif.Gen.ForeignTables.lexer_keywords_cs = true.
Proof. exact keywords_covered. Qed.
Print Assumptions C11_lexer_keywords_are_decorated.

(* optionality of an OpenAPI property is membership in the WHOLE required list (loadTypeSchema + utils.Contains) *)
Theorem C11_required_rule_is_whole_list :
  nth_error Verif.Gen.ForeignTables.required_rule 3 = Some "f.Optional = !utils.Contains(fname, schema.Required)"%string /\
  Verif.Gen.ForeignTables.contains_shape =
    ["func(needle string, haystack []string) bool";
     "for _, x := range haystack { if x == needle { return true } }";
     "return false"]%string.
Proof. split; [rewrite required_rule_ok; reflexivity|exact contains_shape_ok]. Qed.
Print Assumptions C11_required_rule_is_whole_list.
