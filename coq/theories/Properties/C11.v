(* C11 - importers emit valid Sysl containing everything the foreign specification defines.
   Statements only; proofs by `exact`. Models: Foreign/NameEscape.v (name escaping codec, lexer rules),
   Foreign/ImportSpec.v (OpenAPI 2 / XSD reference translation). *)
From Coq Require Import String Ascii List NArith Bool Permutation.
Import ListNotations.
Require Import Verif.Foreign.NameEscape Verif.Foreign.NameEscapeProps Verif.Foreign.Tables.
Require Import Verif.Foreign.ImportSpec Verif.Foreign.ImportProps Verif.Foreign.ImportRun Verif.Foreign.ImportTheorems.
Require Import Verif.Foreign.XsdSpec Verif.Foreign.XsdProps Verif.Foreign.EndpointSpec Verif.Foreign.EndpointProps.

(* --- safe_name_valid_and_faithful, over ALL byte strings, for the replacement table of the current source --- *)
Theorem C11_safe_name_is_a_Name : forall s, name_re (safe_name_cur s) = true.
Proof. exact safe_name_valid_current. Qed.
Print Assumptions C11_safe_name_is_a_Name.

(* for any replacement table: the names are always Names exactly when every byte's block is Name material *)
Theorem C11_safe_name_valid_iff_table_covers : forall T,
  all_blocks_name_body T = true <-> (forall s, name_re (safe_name T s) = true).
Proof. exact safe_name_valid_iff. Qed.
Print Assumptions C11_safe_name_valid_iff_table_covers.

(* the compiler's MustUnescape gives the original bytes back, up to the "_" the writer may prepend and the
   white-space trimming MustUnescape itself applies *)
Theorem C11_safe_name_faithful : forall s,
  exists p, (p = [] \/ p = ["_"%char]) /\ must_unescape (safe_name_cur s) = Ok (trim_space (p ++ s)).
Proof. exact safe_name_faithful_current. Qed.
Print Assumptions C11_safe_name_faithful.

Theorem C11_safe_name_faithful_plain_ends_partial : forall s, plain_ends s = true ->
  must_unescape (safe_name_cur s) = Ok s \/ must_unescape (safe_name_cur s) = Ok ("_"%char :: s).
Proof. exact safe_name_faithful_plain_current. Qed.
Print Assumptions C11_safe_name_faithful_plain_ends_partial.

(* exact faithfulness for all byte strings is false (outer white space is trimmed), whatever the table *)
Theorem C11_safe_name_exactly_faithful_refuted :
  exists s, must_unescape (safe_name_cur s) <> Ok s /\ must_unescape (safe_name_cur s) <> Ok ("_"%char :: s).
Proof. exact (safe_name_exactly_faithful_refuted escape_table table_decodes). Qed.
Print Assumptions C11_safe_name_exactly_faithful_refuted.

(* Go's codec on its own *)
Theorem C11_path_unescape_escape : forall s, path_unescape (path_escape s) = Some s.
Proof. exact unescape_escape. Qed.
Print Assumptions C11_path_unescape_escape.

(* the order in which Go ranges over the replacement map cannot change the text (second run identical) *)
Theorem C11_escape_order_irrelevant : forall ord, Permutation ord escape_table ->
  forall s, escape_unsafe_ord ord s = escape_unsafe escape_table s.
Proof. exact escape_order_irrelevant_current. Qed.
Print Assumptions C11_escape_order_irrelevant.

(* quote (after fixes/C11-2) always writes one DOUBLE_QUOTE_STRING token, so @json_tag / name= lines lex *)
Theorem C11_quote_is_a_string_token : forall s, s <> [] -> dq_string_re (quote s) = true.
Proof. exact quote_is_a_string_token. Qed.
Print Assumptions C11_quote_is_a_string_token.

(* obligations against the current source (Gen/ForeignTables.v) *)
Theorem C11_lexer_keywords_are_decorated :
  forallb (fun k => smem k Verif.Gen.ForeignTables.builtin_types || smem k Verif.Gen.ForeignTables.importer_keywords_ci)
          Verif.Gen.ForeignTables.lexer_keywords_ci = true /\
  forallb (fun k => smem k Verif.Gen.ForeignTables.importer_keywords_cs) Verif.Gen.ForeignTables.lexer_keywords_cs = true.
Proof. exact keywords_covered. Qed.
Print Assumptions C11_lexer_keywords_are_decorated.

(* optionality of an OpenAPI property is membership in the WHOLE required list (loadTypeSchema + utils.Contains) *)
Theorem C11_required_rule_is_whole_list :
  nth_error Verif.Gen.ForeignTables.required_rule 3 = Some "f.Optional = !utils.Contains(fname, schema.Required)"%string /\
  Verif.Gen.ForeignTables.contains_shape =
    ["func(needle string, haystack []string) bool";
     "for _, x := range haystack { if x == needle { return true } }";
     "return false"]%string.
Proof. split; [rewrite required_rule_ok; reflexivity|exact contains_shape_ok]. Qed.
Print Assumptions C11_required_rule_is_whole_list.

(* ---------------- import_complete / import_sound / import_deterministic: OpenAPI 2, flat subset ----------------
   import_c = Foreign/ImportSpec.import_oas2 with the name functions of NameEscape and the regenerated tables: the
   projection (types, fields: primitive kind + bit width, ref target, opt, seq) the importer's output compiles to. *)

(* every object definition has its tuple and every property its field, with the kind of its type, optional exactly
   when it is NOT in `required` (whatever the length of that list), a sequence exactly when it is an array *)
Theorem C11_import_complete : forall doc n props required p,
  doc_ok safe_name_cur is_builtin_c tname_c map_type_c doc -> NoDup (map fst (import_c doc)) ->
  In (n, OObject props required) doc -> NoDup (map (fkey fname_c unesc_c) props) -> In p props ->
  exists fs, lookup (tkey safe_name_cur tname_c unesc_c n) (import_c doc) = Some (TTuple fs)
             /\ lookup (fkey fname_c unesc_c p) fs
                = Some (expected_field safe_name_cur unesc_c map_type_c native_c required p).
Proof. exact import_complete_current. Qed.
Print Assumptions C11_import_complete.

Theorem C11_import_optionality_and_arrayness : forall required p,
  f_opt (expected_field safe_name_cur unesc_c map_type_c native_c required p) = negb (bmem (op_name p) required)
  /\ f_seq (expected_field safe_name_cur unesc_c map_type_c native_c required p) = op_array p.
Proof. exact expected_opt_seq. Qed.
Print Assumptions C11_import_optionality_and_arrayness.

(* the primitive kinds: the regenerated type table + the compiler's native type words *)
Theorem C11_import_primitive_kinds : forallb prim_kind_ok prim_expectations = true.
Proof. exact prim_kinds_ok. Qed.
Print Assumptions C11_import_primitive_kinds.

(* nothing else appears: every compiled type comes from a definition, every field of a tuple from a property *)
Theorem C11_import_sound : forall doc k sh,
  doc_ok safe_name_cur is_builtin_c tname_c map_type_c doc -> In (k, sh) (import_c doc) ->
  exists n b, In (n, b) doc
    /\ (k, sh) = ctype tname_c fname_c unesc_c native_c (load safe_name_cur is_builtin_c tname_c map_type_c [] (safe_name_cur n) b)
    /\ forall fs, sh = TTuple fs ->
         exists props required, b = OObject props required /\ k = tkey safe_name_cur tname_c unesc_c n
           /\ forall fk f, In (fk, f) fs ->
                exists p, In p props /\ fk = fkey fname_c unesc_c p
                          /\ f = expected_field safe_name_cur unesc_c map_type_c native_c required p.
Proof. exact import_sound_current. Qed.
Print Assumptions C11_import_sound.

(* the output (as a LIST: the order of the text included) is a function of the document: ranging over the
   definitions map and over each properties map in another order changes nothing *)
Theorem C11_import_deterministic : forall doc doc1 doc',
  doc_ok safe_name_cur is_builtin_c tname_c map_type_c doc -> doc_ok safe_name_cur is_builtin_c tname_c map_type_c doc' ->
  Forall2 same_def doc doc1 -> Permutation doc1 doc' -> import_c doc = import_c doc'.
Proof. exact import_deterministic_current. Qed.
Print Assumptions C11_import_deterministic.

(* ... and it is NOT one without doc_ok: an array definition whose items are a $ref to a definition named like a
   builtin-type prefix comes out differently depending on which of the two Go visits first (known finding) *)
Theorem C11_import_deterministic_refuted :
  let d1 := (of_string "Integer", OObject [mkp (of_string "id") (FPrim "string" "") false] []) in
  let d2 := (of_string "Order", OArray (FRef (of_string "Integer"))) in
  import_c [d1; d2] <> import_c [d2; d1].
Proof. exact import_deterministic_refuted. Qed.
Print Assumptions C11_import_deterministic_refuted.

(* completeness without doc_ok is false: a definition named like a builtin type is silently dropped *)
Theorem C11_import_complete_refuted_builtin_named :
  exists n b, import_c [(n, b)] = [] /\ b = OObject [mkp (of_string "id") (FPrim "string" "") false] [].
Proof. exact import_complete_refuted. Qed.
Print Assumptions C11_import_complete_refuted_builtin_named.

(* the decisions the model transliterates are the ones in the CURRENT source *)
Theorem C11_import_decisions_current :
  List.length Verif.Gen.ForeignTables.convert_shape = 4%nat
  /\ nth_error Verif.Gen.ForeignTables.convert_shape 3 = Some "o.types.Sort()"%string
  /\ nth_error Verif.Gen.ForeignTables.array_rule 4
     = Some "if _, ok := t.(*Array); !ok && ref.Value.Type.Is(openapi3.TypeArray) { return &Array{Items: t} }"%string
  /\ nth_error Verif.Gen.ForeignTables.object_tail 0
     = Some "if len(obj.Properties) == 0 { return NewStringAlias(name), nil }"%string
  /\ List.length Verif.Gen.ForeignTables.find_shape = 3%nat
  /\ List.length Verif.Gen.ForeignTables.sort_props_shape = 6%nat.
Proof.
  rewrite convert_shape_ok, array_rule_ok, object_tail_ok, find_shape_ok, sort_props_shape_ok.
  repeat split; reflexivity.
Qed.
Print Assumptions C11_import_decisions_current.

(* ---------------- XSD (Foreign/XsdSpec.v: the importer's decisions on what the XML schema library parsed) -------- *)
Theorem C11_xsd_import_complete : forall doc (n:bs) base elems attrs,
  NoDup (map fst (import_xsd_c doc)) -> In (n, XComplex base elems attrs) doc ->
  bare_extension base elems attrs = false ->
  NoDup (map fst (fields_of tname_c fname_c unesc_c xprim_word_c native_c is_complex_c doc base elems attrs)) ->
  lookup (unesc_c (tname_c n)) (import_xsd_c doc)
    = Some (TTuple (fields_of tname_c fname_c unesc_c xprim_word_c native_c is_complex_c doc base elems attrs))
  /\ (forall e, In e (all_elems (List.length doc) doc base elems) ->
        lookup (fst (elem_field tname_c fname_c unesc_c xprim_word_c native_c is_complex_c doc e))
               (fields_of tname_c fname_c unesc_c xprim_word_c native_c is_complex_c doc base elems attrs)
        = Some (snd (elem_field tname_c fname_c unesc_c xprim_word_c native_c is_complex_c doc e)))
  /\ (forall a, In a attrs ->
        lookup (fst (attr_field fname_c unesc_c xprim_word_c native_c a))
               (fields_of tname_c fname_c unesc_c xprim_word_c native_c is_complex_c doc base elems attrs)
        = Some (snd (attr_field fname_c unesc_c xprim_word_c native_c a))).
Proof. exact (xsd_import_complete tname_c fname_c unesc_c xprim_word_c native_c is_complex_c). Qed.
Print Assumptions C11_xsd_import_complete.

Theorem C11_xsd_import_sound : forall doc base elems attrs fk f,
  bare_extension base elems attrs = false ->
  In (fk, f) (fields_of tname_c fname_c unesc_c xprim_word_c native_c is_complex_c doc base elems attrs) ->
  (exists e, In e (all_elems (List.length doc) doc base elems)
             /\ (fk, f) = elem_field tname_c fname_c unesc_c xprim_word_c native_c is_complex_c doc e)
  \/ (exists a, In a attrs /\ (fk, f) = attr_field fname_c unesc_c xprim_word_c native_c a).
Proof. exact (xsd_import_sound tname_c fname_c unesc_c xprim_word_c native_c is_complex_c). Qed.
Print Assumptions C11_xsd_import_sound.

(* known findings, refuting "every attribute / optionality is kept" for XSD *)
Theorem C11_xsd_inherited_attribute_refuted :
  match lookup (of_string "Derived") (import_xsd_c xsd_witness) with
  | Some (TTuple fs) => lookup (of_string "id") fs = None /\ lookup (of_string "name") fs <> None
  | _ => False
  end.
Proof. exact xsd_inherited_attribute_refuted. Qed.
Print Assumptions C11_xsd_inherited_attribute_refuted.

Theorem C11_xsd_optional_array_refuted :
  match lookup (of_string "Derived") (import_xsd_c xsd_witness) with
  | Some (TTuple fs) => option_map (fun f => (f_opt f, f_seq f)) (lookup (of_string "kids") fs) = Some (false, true)
  | _ => False
  end.
Proof. exact xsd_optional_array_refuted. Qed.
Print Assumptions C11_xsd_optional_array_refuted.

(* ---------------- endpoints: the parameters of every path x method (Foreign/EndpointSpec.v) ---------------- *)
(* an operation's own parameters and the path-level ones it does not override (by name) each show up in the list of
   their location with the kind of their type, optional iff not required (path parameters never); the body
   parameter is there *)
Theorem C11_import_complete_endpoints : forall e p,
  NoDup (map q_name (e_common e)) -> NoDup (map q_name (e_own e)) ->
  (In p (e_own e) \/ (In p (e_common e) /\ ~ In (q_name p) (map q_name (e_own e)))) ->
  let pr := snd (endpoint_proj safe_name_cur unesc_c map_type_c native_c e) in
  (q_in p = "query"%string -> In (pfield unesc_c map_type_c native_c (negb (q_required p)) p) (ep_query pr))
  /\ (q_in p = "path"%string -> In (pfield unesc_c map_type_c native_c false p) (ep_url pr))
  /\ (q_in p = "header"%string -> In (pfield unesc_c map_type_c native_c (negb (q_required p)) p) (ep_header pr))
  /\ (forall b, e_body e = Some b -> ep_body pr = [unesc_c (safe_name_cur b)]).
Proof. exact (import_complete_endpoints safe_name_cur unesc_c map_type_c native_c). Qed.
Print Assumptions C11_import_complete_endpoints.

Theorem C11_import_sound_endpoints : forall e k f,
  let pr := snd (endpoint_proj safe_name_cur unesc_c map_type_c native_c e) in
  In (k, f) (ep_query pr ++ ep_url pr ++ ep_header pr) ->
  exists p, (In p (e_own e) \/ In p (e_common e)) /\ k = q_name p.
Proof. exact (import_sound_endpoints safe_name_cur unesc_c map_type_c native_c). Qed.
Print Assumptions C11_import_sound_endpoints.

(* OpenAPI identifies a parameter by (name, in); Parameters by name only: same name in another location is lost *)
Theorem C11_extend_by_name_only_refuted :
  let h := mkq (of_string "trace") "header" true "string" "" in
  let q := mkq (of_string "trace") "query" false "string" "" in
  extend [h] [q] = [q].
Proof. exact extend_by_name_only_refuted. Qed.
Print Assumptions C11_extend_by_name_only_refuted.

Theorem C11_parameters_shape_current : List.length Verif.Gen.ForeignTables.params_shape = 13%nat
  /\ nth_error Verif.Gen.ForeignTables.params_shape 5 = Some "res := ParamSet{}"%string.
Proof. rewrite params_shape_ok. split; reflexivity. Qed.
Print Assumptions C11_parameters_shape_current.
