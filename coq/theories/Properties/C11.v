(* C11 - importers emit valid Sysl containing everything the foreign specification defines.
   Statements only; proofs by `exact`. Models: Foreign/NameEscape.v (name escaping codec, lexer rules),
   Foreign/ImportSpec.v (OpenAPI 2 / XSD reference translation). *)
From Coq Require Import String Ascii List NArith Bool Permutation.
Import ListNotations.
Require Import Verif.Foreign.NameEscape Verif.Foreign.NameEscapeProps Verif.Foreign.Tables.
Require Import Verif.Foreign.ImportSpec Verif.Foreign.ImportProps Verif.Foreign.ImportRun Verif.Foreign.ImportTheorems.
Require Import Verif.Foreign.XsdSpec Verif.Foreign.XsdProps Verif.Foreign.EndpointSpec Verif.Foreign.EndpointProps.
Require Import Verif.Foreign.TypeFormatProps Verif.Foreign.ImportDeterm.
Require Import Verif.Foreign.ResponseSpec Verif.Foreign.ResponseProps Verif.Foreign.ResponseTheorems.
Require Import Verif.Foreign.NestedSpec Verif.Foreign.NestedProps Verif.Foreign.NestedRun Verif.Foreign.NestedTheorems.
Require Import Verif.Foreign.ParamNameSpec Verif.Foreign.ParamNameProps.

(* --- safe_name_valid_and_faithful, over ALL byte strings, for the replacement table of the current source --- *)
Theorem C11_safe_name_is_a_Name : forall s, name_re (safe_name_cur s) = true.
Proof. exact safe_name_valid_current. Qed.
Print Assumptions C11_safe_name_is_a_Name.

(* for any replacement table: the names are always Names exactly when every byte's block is Name material *)
Theorem C11_safe_name_valid_iff_table_covers : forall T,
  all_blocks_name_body T = true <-> (forall s, name_re (safe_name T s) = true).
Proof. exact safe_name_valid_iff. Qed.
Print Assumptions C11_safe_name_valid_iff_table_covers.

(* the compiler's MustUnescape gives the original bytes back, up to the "_" the writer may prepend and the
   white-space trimming MustUnescape itself applies *)
Theorem C11_safe_name_faithful : forall s,
  exists p, (p = [] \/ p = ["_"%char]) /\ must_unescape (safe_name_cur s) = Ok (trim_space (p ++ s)).
Proof. exact safe_name_faithful_current. Qed.
Print Assumptions C11_safe_name_faithful.

Theorem C11_safe_name_faithful_plain_ends_partial : forall s, plain_ends s = true ->
  must_unescape (safe_name_cur s) = Ok s \/ must_unescape (safe_name_cur s) = Ok ("_"%char :: s).
Proof. exact safe_name_faithful_plain_current. Qed.
Print Assumptions C11_safe_name_faithful_plain_ends_partial.

(* exact faithfulness for all byte strings is false (outer white space is trimmed), whatever the table *)
Theorem C11_safe_name_exactly_faithful_refuted :
  exists s, must_unescape (safe_name_cur s) <> Ok s /\ must_unescape (safe_name_cur s) <> Ok ("_"%char :: s).
Proof. exact (safe_name_exactly_faithful_refuted escape_table table_decodes). Qed.
Print Assumptions C11_safe_name_exactly_faithful_refuted.

(* Go's codec on its own *)
Theorem C11_path_unescape_escape : forall s, path_unescape (path_escape s) = Some s.
Proof. exact unescape_escape. Qed.
Print Assumptions C11_path_unescape_escape.

(* the order in which Go ranges over the replacement map cannot change the text (second run identical) *)
Theorem C11_escape_order_irrelevant : forall ord, Permutation ord escape_table ->
  forall s, escape_unsafe_ord ord s = escape_unsafe escape_table s.
Proof. exact escape_order_irrelevant_current. Qed.
Print Assumptions C11_escape_order_irrelevant.

(* quote (after fixes/C11-2) always writes one DOUBLE_QUOTE_STRING token, so @json_tag / name= lines lex *)
Theorem C11_quote_is_a_string_token : forall s, s <> [] -> dq_string_re (quote s) = true.
Proof. exact quote_is_a_string_token. Qed.
Print Assumptions C11_quote_is_a_string_token.

(* obligations against the current source (Gen/ForeignTables.v) *)
Theorem C11_lexer_keywords_are_decorated :
  forallb (fun k => smem k Verif.Gen.ForeignTables.builtin_types || smem k Verif.Gen.ForeignTables.importer_keywords_ci)
          Verif.Gen.ForeignTables.lexer_keywords_ci = true /\
  forallb (fun k => smem k Verif.Gen.ForeignTables.importer_keywords_cs) Verif.Gen.ForeignTables.lexer_keywords_cs = true.
Proof. exact keywords_covered. Qed.
Print Assumptions C11_lexer_keywords_are_decorated.

(* optionality of an OpenAPI property is membership in the WHOLE required list (loadTypeSchema + utils.Contains) *)
Theorem C11_required_rule_is_whole_list :
  nth_error Verif.Gen.ForeignTables.required_rule 3 = Some "f.Optional = !utils.Contains(fname, schema.Required)"%string /\
  Verif.Gen.ForeignTables.contains_shape =
    ["func(needle string, haystack []string) bool";
     "for _, x := range haystack { if x == needle { return true } }";
     "return false"]%string.
Proof. split; [rewrite required_rule_ok; reflexivity|exact contains_shape_ok]. Qed.
Print Assumptions C11_required_rule_is_whole_list.

(* ---------------- import_complete / import_sound / import_deterministic: OpenAPI 2, flat subset ----------------
   import_c = Foreign/ImportSpec.import_oas2 with the name functions of NameEscape and the regenerated tables: the
   projection (types, fields: primitive kind + bit width, ref target, opt, seq) the importer's output compiles to. *)

(* every object definition has its tuple and every property its field, with the kind of its type, optional exactly
   when it is NOT in `required` (whatever the length of that list), a sequence exactly when it is an array *)
Theorem C11_import_complete : forall doc n props required p,
  doc_ok safe_name_cur is_builtin_c tname_c map_type_c doc -> NoDup (map fst (import_c doc)) ->
  In (n, OObject props required) doc -> NoDup (map (fkey fname_c unesc_c) props) -> In p props ->
  exists fs, lookup (tkey safe_name_cur tname_c unesc_c n) (import_c doc) = Some (TTuple fs)
             /\ lookup (fkey fname_c unesc_c p) fs
                = Some (expected_field safe_name_cur unesc_c map_type_c native_c required p).
Proof. exact import_complete_current. Qed.
Print Assumptions C11_import_complete.

Theorem C11_import_optionality_and_arrayness : forall required p,
  f_opt (expected_field safe_name_cur unesc_c map_type_c native_c required p) = negb (bmem (op_name p) required)
  /\ f_seq (expected_field safe_name_cur unesc_c map_type_c native_c required p) = op_array p.
Proof. exact expected_opt_seq. Qed.
Print Assumptions C11_import_optionality_and_arrayness.

(* the primitive kinds: the regenerated type table + the compiler's native type words *)
Theorem C11_import_primitive_kinds : forallb prim_kind_ok prim_expectations = true.
Proof. exact prim_kinds_ok. Qed.
Print Assumptions C11_import_primitive_kinds.

(* nothing else appears: every compiled type comes from a definition, every field of a tuple from a property *)
Theorem C11_import_sound : forall doc k sh,
  doc_ok safe_name_cur is_builtin_c tname_c map_type_c doc -> In (k, sh) (import_c doc) ->
  exists n b, In (n, b) doc
    /\ (k, sh) = ctype tname_c fname_c unesc_c native_c (ImportSpec.load safe_name_cur is_builtin_c tname_c map_type_c [] (safe_name_cur n) b)
    /\ forall fs, sh = TTuple fs ->
         exists props required, b = OObject props required /\ k = tkey safe_name_cur tname_c unesc_c n
           /\ forall fk f, In (fk, f) fs ->
                exists p, In p props /\ fk = fkey fname_c unesc_c p
                          /\ f = expected_field safe_name_cur unesc_c map_type_c native_c required p.
Proof. exact import_sound_current. Qed.
Print Assumptions C11_import_sound.

(* the output (as a LIST: the order of the text included) is a function of the document: ranging over the
   definitions map and over each properties map in another order changes nothing *)
Theorem C11_import_deterministic : forall doc doc1 doc',
  doc_ok safe_name_cur is_builtin_c tname_c map_type_c doc -> doc_ok safe_name_cur is_builtin_c tname_c map_type_c doc' ->
  Forall2 same_def doc doc1 -> Permutation doc1 doc' -> import_c doc = import_c doc'.
Proof. exact import_deterministic_current. Qed.
Print Assumptions C11_import_deterministic.

(* since 3a34129 (definitions visited in the order of their names) the order in which the definitions are listed is
   irrelevant for EVERY document with distinct names; the refutation this replaces (an array of a $ref to a
   builtin-prefixed name came out with or without `_` depending on Go's map order) no longer holds of the code *)
Theorem C11_import_any_order : forall doc doc',
  Permutation doc doc' -> NoDup (map (fun d:odef => fst d) doc) -> import_c doc = import_c doc'.
Proof. exact import_any_order_current. Qed.
Print Assumptions C11_import_any_order.

Theorem C11_former_nondeterminism_witness_now_equal :
  let d1 := (of_string "Integer", OObject [mkp (of_string "id") (FPrim "string" "") false] []) in
  let d2 := (of_string "Order", OArray (FRef (of_string "Integer"))) in
  import_c [d1; d2] = import_c [d2; d1].
Proof. exact (proj1 former_nondeterminism_witness). Qed.
Print Assumptions C11_former_nondeterminism_witness_now_equal.

(* completeness without doc_ok is false: a definition named like a builtin type is silently dropped *)
Theorem C11_import_complete_refuted_builtin_named :
  exists n b, import_c [(n, b)] = [] /\ b = OObject [mkp (of_string "id") (FPrim "string" "") false] [].
Proof. exact import_complete_refuted. Qed.
Print Assumptions C11_import_complete_refuted_builtin_named.

(* the decisions the model transliterates are the ones in the CURRENT source *)
Theorem C11_import_decisions_current :
  List.length Verif.Gen.ForeignTables.convert_shape = 4%nat
  /\ nth_error Verif.Gen.ForeignTables.convert_shape 3 = Some "o.types.Sort()"%string
  /\ nth_error Verif.Gen.ForeignTables.array_rule 4
     = Some "if _, ok := t.(*Array); !ok && ref.Ref == """" && ref.Value.Type.Is(openapi3.TypeArray) { return &Array{Items: t} }"%string
  /\ nth_error Verif.Gen.ForeignTables.object_tail 0
     = Some "if len(obj.Properties) == 0 { return NewStringAlias(name), nil }"%string
  /\ List.length Verif.Gen.ForeignTables.find_shape = 3%nat
  /\ List.length Verif.Gen.ForeignTables.sort_props_shape = 6%nat.
Proof.
  rewrite convert_shape_ok, array_rule_ok, object_tail_ok, find_shape_ok, sort_props_shape_ok.
  repeat split; reflexivity.
Qed.
Print Assumptions C11_import_decisions_current.

(* ---------------- XSD (Foreign/XsdSpec.v: the importer's decisions on what the XML schema library parsed) -------- *)
Theorem C11_xsd_import_complete : forall doc (n:bs) base elems attrs,
  NoDup (map fst (import_xsd_c doc)) -> In (n, XComplex base elems attrs) doc ->
  bare_extension base elems attrs = false ->
  NoDup (map fst (fields_of tname_c fname_c unesc_c xprim_word_c native_c is_complex_c doc base elems attrs)) ->
  lookup (unesc_c (tname_c n)) (import_xsd_c doc)
    = Some (TTuple (fields_of tname_c fname_c unesc_c xprim_word_c native_c is_complex_c doc base elems attrs))
  /\ (forall e, In e (all_elems (List.length doc) doc base elems) ->
        lookup (fst (elem_field tname_c fname_c unesc_c xprim_word_c native_c is_complex_c doc e))
               (fields_of tname_c fname_c unesc_c xprim_word_c native_c is_complex_c doc base elems attrs)
        = Some (snd (elem_field tname_c fname_c unesc_c xprim_word_c native_c is_complex_c doc e)))
  /\ (forall a, In a attrs ->
        lookup (fst (attr_field fname_c unesc_c xprim_word_c native_c a))
               (fields_of tname_c fname_c unesc_c xprim_word_c native_c is_complex_c doc base elems attrs)
        = Some (snd (attr_field fname_c unesc_c xprim_word_c native_c a))).
Proof. exact (xsd_import_complete tname_c fname_c unesc_c xprim_word_c native_c is_complex_c). Qed.
Print Assumptions C11_xsd_import_complete.

Theorem C11_xsd_import_sound : forall doc base elems attrs fk f,
  bare_extension base elems attrs = false ->
  In (fk, f) (fields_of tname_c fname_c unesc_c xprim_word_c native_c is_complex_c doc base elems attrs) ->
  (exists e, In e (all_elems (List.length doc) doc base elems)
             /\ (fk, f) = elem_field tname_c fname_c unesc_c xprim_word_c native_c is_complex_c doc e)
  \/ (exists a, In a attrs /\ (fk, f) = attr_field fname_c unesc_c xprim_word_c native_c a).
Proof. exact (xsd_import_sound tname_c fname_c unesc_c xprim_word_c native_c is_complex_c). Qed.
Print Assumptions C11_xsd_import_sound.

(* known findings, refuting "every attribute / optionality is kept" for XSD *)
Theorem C11_xsd_inherited_attribute_refuted :
  match lookup (of_string "Derived") (import_xsd_c xsd_witness) with
  | Some (TTuple fs) => lookup (of_string "id") fs = None /\ lookup (of_string "name") fs <> None
  | _ => False
  end.
Proof. exact xsd_inherited_attribute_refuted. Qed.
Print Assumptions C11_xsd_inherited_attribute_refuted.

Theorem C11_xsd_optional_array_refuted :
  match lookup (of_string "Derived") (import_xsd_c xsd_witness) with
  | Some (TTuple fs) => option_map (fun f => (f_opt f, f_seq f)) (lookup (of_string "kids") fs) = Some (false, true)
  | _ => False
  end.
Proof. exact xsd_optional_array_refuted. Qed.
Print Assumptions C11_xsd_optional_array_refuted.

(* ---------------- endpoints: the parameters of every path x method (Foreign/EndpointSpec.v) ---------------- *)
(* an operation's own parameters and the path-level ones it does not override (by name) each show up in the list of
   their location with the kind of their type, optional iff not required (path parameters never) - provided no
   body parameter takes their name (the body parameters live in the same name-keyed map) *)
Theorem C11_import_complete_endpoints : forall e p,
  NoDup (map q_name (e_common e)) -> NoDup (map q_name (e_own e)) ->
  (In p (e_own e) \/ (In p (e_common e) /\ ~ In (q_name p) (map q_name (e_own e)))) ->
  ~ In (q_name p) (map ekey (body_entries safe_name_cur e)) ->
  let pr := snd (endpoint_proj safe_name_cur unesc_c map_type_c native_c e) in
  (q_in p = "query"%string -> In (pfield unesc_c map_type_c native_c (negb (q_required p)) p) (ep_query pr))
  /\ (q_in p = "path"%string -> In (pfield unesc_c map_type_c native_c false p) (ep_url pr))
  /\ (q_in p = "header"%string -> In (pfield unesc_c map_type_c native_c (negb (q_required p)) p) (ep_header pr)).
Proof. exact (import_complete_endpoints safe_name_cur unesc_c map_type_c native_c). Qed.
Print Assumptions C11_import_complete_endpoints.

(* REQUEST MEDIA TYPES: every media type the body can be sent in has its body parameter of the body's type (with
   that media type in `mediatype`), provided the names buildRequests derives from the media types are distinct *)
Theorem C11_import_complete_bodies_partial : forall e b mt,
  e_body e = Some b -> NoDup (map ekey (body_entries safe_name_cur e)) -> In mt (e_consumes e) ->
  In (unesc_c (safe_name_cur b), mt) (ep_body (snd (endpoint_proj safe_name_cur unesc_c map_type_c native_c e))).
Proof. exact (import_complete_bodies safe_name_cur unesc_c map_type_c native_c). Qed.
Print Assumptions C11_import_complete_bodies_partial.

(* with a single media type there is nothing to be distinct from *)
Theorem C11_import_complete_single_body : forall e b mt,
  e_body e = Some b -> e_consumes e = [mt] ->
  let pr := snd (endpoint_proj safe_name_cur unesc_c map_type_c native_c e) in
  ep_body pr <> [] /\ In (unesc_c (safe_name_cur b), mt) (ep_body pr).
Proof. exact (import_complete_single_body safe_name_cur unesc_c map_type_c native_c). Qed.
Print Assumptions C11_import_complete_single_body.

(* ... and without distinct names it is false: application/a+b and application/a.b both become ApplicationAB, one
   body parameter replaces the other (replayed on the real code: known finding) *)
Theorem C11_body_media_name_collision_refuted :
  let e := mke (of_string "/pets") "POST" [] [] (Some (of_string "Pet"))
               [of_string "application/a+b"; of_string "application/a.b"] in
  ep_body (snd (endpoint_proj (fun s => s) (fun s => s) (fun _ _ => []) (fun _ => None) e))
  = [(of_string "Pet", of_string "application/a.b")].
Proof. exact body_media_name_collision_refuted. Qed.
Print Assumptions C11_body_media_name_collision_refuted.

Theorem C11_import_sound_bodies : forall e r m,
  In (r, m) (ep_body (snd (endpoint_proj safe_name_cur unesc_c map_type_c native_c e))) ->
  exists b, e_body e = Some b /\ r = unesc_c (safe_name_cur b) /\ In m (e_consumes e).
Proof. exact (import_sound_bodies safe_name_cur unesc_c map_type_c native_c). Qed.
Print Assumptions C11_import_sound_bodies.

Theorem C11_import_sound_endpoints : forall e k f,
  let pr := snd (endpoint_proj safe_name_cur unesc_c map_type_c native_c e) in
  In (k, f) (ep_query pr ++ ep_url pr ++ ep_header pr) ->
  exists p, (In p (e_own e) \/ In p (e_common e)) /\ k = q_name p.
Proof. exact (import_sound_endpoints safe_name_cur unesc_c map_type_c native_c). Qed.
Print Assumptions C11_import_sound_endpoints.

(* OpenAPI identifies a parameter by (name, in); Parameters by name only: same name in another location is lost *)
Theorem C11_extend_by_name_only_refuted :
  let h := mkq (of_string "trace") "header" true "string" "" in
  let q := mkq (of_string "trace") "query" false "string" "" in
  extend [h] [q] = [q].
Proof. exact extend_by_name_only_refuted. Qed.
Print Assumptions C11_extend_by_name_only_refuted.

Theorem C11_parameters_shape_current : List.length Verif.Gen.ForeignTables.params_shape = 13%nat
  /\ nth_error Verif.Gen.ForeignTables.params_shape 5 = Some "res := ParamSet{}"%string.
Proof. rewrite params_shape_ok. split; reflexivity. Qed.
Print Assumptions C11_parameters_shape_current.

(* the request side of the decisions: buildRequests / fieldForMediaType / buildRequestBodyString (which SORTS the
   body parameters by name before writing them), cleanMediaType, ToCamel *)
Theorem C11_request_shapes_current :
  List.length Verif.Gen.ForeignTables.requests_shape = 6%nat
  /\ List.length Verif.Gen.ForeignTables.media_field_shape = 6%nat
  /\ List.length Verif.Gen.ForeignTables.body_string_shape = 3%nat
  /\ List.length Verif.Gen.ForeignTables.clean_media_shape = 1%nat
  /\ List.length Verif.Gen.ForeignTables.to_camel_shape = 4%nat.
Proof.
  rewrite requests_shape_ok, media_field_shape_ok, body_string_shape_ok, clean_media_shape_ok, to_camel_shape_ok.
  repeat split; reflexivity.
Qed.
Print Assumptions C11_request_shapes_current.

(* ---------------- OpenAPI type x format (Foreign/TypeFormatProps.v), for ALL format strings ---------------- *)
(* the fallback: a format the type's row does not list gives exactly what the bare type gives *)
Theorem C11_unlisted_format_is_bare_type : forall ty fm fmt,
  sassoc (slower ty) Verif.Gen.ForeignTables.oas_type_table = Some fm -> sassoc (slower fmt) fm = None ->
  prim_word map_type_c ty fmt = prim_word map_type_c ty "".
Proof. exact unlisted_format_is_bare_type. Qed.
Print Assumptions C11_unlisted_format_is_bare_type.

(* every OpenAPI type with EVERY format (listed for it, listed for another type, not listed at all) compiles - as a
   property, an array item or a parameter - to a primitive of the type's kind; the one exception is a word that is
   Sysl's builtin type name uuid (string + uuid), read by the compiler as a reference to `uuid`: never a reference
   named like the OpenAPI type *)
Theorem C11_every_format_is_a_primitive : forall ty fmt opt seq,
  In ty oas_types ->
  let f := word unesc_c native_c (prim_word map_type_c ty fmt) opt seq in
  f_opt f = opt /\ f_seq f = seq /\
  (In (f_kind f) (allowed_kinds ty) \/ (ty = "string"%string /\ f_kind f = "REF"%string /\ f_ref f = uuid_word)).
Proof. exact format_field_kind. Qed.
Print Assumptions C11_every_format_is_a_primitive.

(* top-level definitions (default arm of loadTypeSchema): a definition of a type the table knows, with any format,
   is an alias of the mapped builtin, of the type's kind *)
Theorem C11_prim_definition_is_alias : forall doc n ty fmt fm,
  doc_ok safe_name_cur is_builtin_c tname_c map_type_c doc -> NoDup (map fst (import_c doc)) ->
  In (n, OPrim ty fmt) doc -> sassoc (slower ty) Verif.Gen.ForeignTables.oas_type_table = Some fm ->
  lookup (unesc_c (safe_name_cur n)) (import_c doc)
  = Some (TAlias (word unesc_c native_c (map_type_c ty fmt) false false))
  /\ word_ok (slower ty) (map_type_c ty fmt) = true.
Proof. exact prim_definition_is_alias. Qed.
Print Assumptions C11_prim_definition_is_alias.

(* boolean is such a type after fixes/C11-5 ... *)
Theorem C11_boolean_definition_is_bool :
  import_c [(of_string "Flag", OPrim "boolean" ""); (of_string "Cnt", OPrim "integer" "uint64")]
  = [(of_string "Cnt", TAlias (mkf "INT" 0 [] false false)); (of_string "Flag", TAlias (mkf "BOOL" 0 [] false false))].
Proof. exact boolean_definition_is_bool. Qed.
Print Assumptions C11_boolean_definition_is_bool.

(* ... and was a string alias under another name before (the defect, reproduced by the model without the row) *)
Theorem C11_boolean_definition_before_fix_refuted :
  import_oas2 safe_name_cur is_builtin_c tname_c fname_c unesc_c map_type_before_fix native_c
    [(of_string "Flag", OPrim "boolean" "")]
  = [(of_string "EXTERNAL_Flag", TAlias (mkf "STRING" 0 [] false false))].
Proof. exact boolean_definition_before_fix_refuted. Qed.
Print Assumptions C11_boolean_definition_before_fix_refuted.

(* the table's shape and its callers in the CURRENT source: lower-casing, the fallback through the bare type, an
   unknown type handed back; typeNameFromSchemaRef answers boolean before the table; the default arm keeps the
   table's answer only if it is a builtin type name *)
Theorem C11_type_table_shape_current :
  nth_error Verif.Gen.ForeignTables.map_type_shape 3
  = Some "if formatMap, ok := conversions[typeName]; ok { if result, ok := formatMap[format]; ok { return result } logger.Debugf(""Unhandled (type, format) -> (%s, %s), ignoring...\n"", typeName, format) return mapOpenAPITypeAndFormatToType(typeName, """", logger) }"%string
  /\ List.length Verif.Gen.ForeignTables.map_type_shape = 5%nat
  /\ List.length Verif.Gen.ForeignTables.type_name_shape = 5%nat
  /\ List.length Verif.Gen.ForeignTables.prim_def_shape = 6%nat
  /\ forallb (fun row => has_bare (snd row)) Verif.Gen.ForeignTables.oas_type_table = true.
Proof.
  rewrite map_type_shape_ok, type_name_shape_ok, prim_def_shape_ok.
  repeat split; reflexivity.
Qed.
Print Assumptions C11_type_table_shape_current.

(* XSD builtins: the word findType / makeXsdBuiltinType give is always a native primitive (or the builtin's own
   name, when that is one of Sysl's builtin type names the grammar has no native type for) *)
Theorem C11_xsd_builtin_is_primitive : forall p,
  native_c (xprim_word_c p) <> None \/ (is_builtin_c (of_string p) = true /\ xprim_word_c p = of_string p).
Proof. exact xsd_builtin_is_primitive. Qed.
Print Assumptions C11_xsd_builtin_is_primitive.

(* determinism of the endpoint side (after fixes/C11-7): paths and methods are visited in a fixed order and a
   response type whose name another method of the path has taken is shared (same content) or renamed with the
   method; query parameters (after fixes/C11-6): only the lexer's native type words are written bare *)
Theorem C11_endpoint_order_and_query_shape_current :
  Verif.Gen.ForeignTables.endpoint_loops =
    ["convertSpec: for _, path := range utils.OrderedKeys(pathItems)";
     "buildEndpoint: for _, method := range methodDisplayOrder"]%string
  /\ List.length Verif.Gen.ForeignTables.resp_clash_shape = 1%nat
  /\ List.length Verif.Gen.ForeignTables.query_string_shape = 3%nat
  /\ Verif.Gen.ForeignTables.importer_native_types = Verif.Gen.ForeignTables.lexer_native_types
  /\ forallb (fun k => smem k Verif.Gen.ForeignTables.lexer_native_types) (map fst native_table) = true
  /\ forallb (fun k => smem k (map fst native_table)) Verif.Gen.ForeignTables.lexer_native_types = true.
Proof.
  rewrite resp_clash_shape_ok, query_string_shape_ok.
  repeat split; reflexivity.
Qed.
Print Assumptions C11_endpoint_order_and_query_shape_current.

(* ---------------- "running the import again gives identical text" ---------------- *)
(* the request line: whatever the order in which Go ranges over the request body's media types, the body parameters
   are written in the same order (sorted by name), provided their names are distinct and no other parameter's *)
Theorem C11_body_text_deterministic : forall e e',
  e_path e' = e_path e -> e_method e' = e_method e -> e_common e' = e_common e -> e_own e' = e_own e ->
  e_body e' = e_body e -> Permutation (e_consumes e) (e_consumes e') ->
  NoDup (map ekey (body_entries safe_name_cur e)) ->
  (forall x, In x (body_entries safe_name_cur e) -> ~ In (ekey x) (map q_name (extend (e_common e) (e_own e)))) ->
  body_text_order safe_name_cur e = body_text_order safe_name_cur e'.
Proof. exact (body_text_deterministic safe_name_cur). Qed.
Print Assumptions C11_body_text_deterministic.

(* every `range` over a map in pkg/importer whose shape alone does not make it order-independent is one of the
   reviewed ones (Foreign/ImportDeterm.v: each with the theorem or the repetition that covers it); none untyped *)
Theorem C11_importer_map_ranges_reviewed :
  subset importer_unsafe importer_reviewed = true /\ subset importer_reviewed importer_unsafe = true
  /\ forallb (fun r => negb (in_importer r && Verif.Determ.MapOrder.class_eqb (Verif.Determ.MapOrder.mr_class r) Verif.Determ.MapOrder.Unknown))
             Verif.Gen.MapRanges.ranges = true.
Proof. split; [exact (proj1 importer_unsafe_ranges_reviewed)|split; [exact (proj2 importer_unsafe_ranges_reviewed)|exact importer_ranges_all_typed]]. Qed.
Print Assumptions C11_importer_map_ranges_reviewed.

(* ---------------- responses (Foreign/ResponseSpec.v): import_complete for the return lines and the types the
   importer generates for responses that come in several media types ---------------- *)
(* every response of every operation (methods GET PUT POST DELETE PATCH) has a line in the endpoint's list of
   returns that says what `carried` says: the status text alone (no schema); text <: type [mediatype] (one media
   type); or text <: T where T - named by path and status code, or with the method in front when another method of
   the path took that name - is in the final type list with one field per media type *)
Theorem C11_import_complete_responses : forall doc ops op r,
  In op ops -> In (o_method op) method_rank -> In r (o_resps op) ->
  exists lines line, In (op_key op, lines) (import_returns_c doc ops) /\ In line lines
    /\ carried safe_name_cur tname_c map_type_c resp_prefix_c op r
         (full_types safe_name_cur is_builtin_c tname_c map_type_c resp_prefix_c doc ops) line.
Proof. exact import_complete_responses_current. Qed.
Print Assumptions C11_import_complete_responses.

(* a generated type is in the compiled module, as a tuple of its fields ... *)
Theorem C11_generated_response_type_compiled : forall doc ops n fs,
  In (IStandard n fs) (full_types safe_name_cur is_builtin_c tname_c map_type_c resp_prefix_c doc ops) ->
  In (unesc_c (tname_c n), TTuple (map (cfield fname_c unesc_c native_c) fs)) (import_full_c doc ops).
Proof. exact generated_type_compiled_current. Qed.
Print Assumptions C11_generated_response_type_compiled.

(* ... one per media type, of the response's type: kind / reference of its type word, a sequence iff the response
   is an array, not optional *)
Theorem C11_generated_response_type_fields : forall r ty mts mt,
  In mt mts ->
  In (cfield fname_c unesc_c native_c (rfield safe_name_cur map_type_c true r ty mt))
     (map (cfield fname_c unesc_c native_c) (sort_by if_name (map (rfield safe_name_cur map_type_c true r ty) mts)))
  /\ snd (cfield fname_c unesc_c native_c (rfield safe_name_cur map_type_c true r ty mt))
     = word unesc_c native_c (type_word safe_name_cur map_type_c ty) false (r_array r).
Proof. exact (generated_type_field_per_media safe_name_cur fname_c unesc_c map_type_c native_c). Qed.
Print Assumptions C11_generated_response_type_fields.

(* the definitions survive the endpoint phase, and without a typed response in several media types that phase adds
   no type: the whole import is the import of the definitions (C11_import_complete / _sound / _deterministic) *)
Theorem C11_definitions_kept : forall doc ops t,
  In t (loaded_types safe_name_cur is_builtin_c tname_c map_type_c doc) ->
  In t (full_types safe_name_cur is_builtin_c tname_c map_type_c resp_prefix_c doc ops).
Proof. exact (definitions_kept safe_name_cur is_builtin_c tname_c map_type_c resp_prefix_c). Qed.
Print Assumptions C11_definitions_kept.

Theorem C11_responses_conservative : forall doc ops,
  (forall op, In op ops -> no_generated op) -> import_full_c doc ops = import_c doc.
Proof. exact responses_conservative_current. Qed.
Print Assumptions C11_responses_conservative.

Theorem C11_response_shapes_current :
  List.length Verif.Gen.ForeignTables.responses_shape = 16%nat
  /\ nth_error Verif.Gen.ForeignTables.responses_shape 0 = Some "supportedCode := regexp.MustCompile(""^ok|error|[1-5][0-9][0-9]$"")"%string
  /\ nth_error Verif.Gen.ForeignTables.responses_shape 1 = Some "errType := regexp.MustCompile(""^Error|error$"")"%string
  /\ nth_error Verif.Gen.ForeignTables.responses_shape 2
     = Some "typePrefix := getSyslSafeURI(convertToSyslSafe(cleanEndpointPath(path))) + ""_"""%string
  /\ List.length Verif.Gen.ForeignTables.write_responses_shape = 1%nat
  /\ List.length Verif.Gen.ForeignTables.safe_uri_shape = 4%nat
  /\ List.length Verif.Gen.ForeignTables.clean_path_shape = 1%nat
  /\ List.length Verif.Gen.ForeignTables.to_sysl_safe_shape = 5%nat.
Proof.
  rewrite responses_shape_ok, write_responses_shape_ok, safe_uri_shape_ok, clean_path_shape_ok, to_sysl_safe_shape_ok.
  repeat split; reflexivity.
Qed.
Print Assumptions C11_response_shapes_current.

(* ---------------- NAME ESCAPING of type names, for ALL byte strings ---------------- *)
(* the name a definition is written under (safe name, "_" in front when it starts like a builtin type) matches the
   lexer's Name rule - as does the EXTERNAL_ name of the string alias an empty / unknown definition becomes. (A name
   spelled like a keyword still matches the rule but is read as the keyword: known finding type-keyword.) *)
Theorem C11_type_name_is_a_Name : forall s, name_re (tname_c (safe_name_cur s)) = true.
Proof. exact type_name_is_a_Name. Qed.
Print Assumptions C11_type_name_is_a_Name.

Theorem C11_external_alias_name_is_a_Name : forall s, name_re (external_prefix ++ safe_name_cur s) = true.
Proof. exact external_alias_name_is_a_Name. Qed.
Print Assumptions C11_external_alias_name_is_a_Name.

(* ================= Deepen round 3, second pass: nested schemas (Foreign/NestedSpec.v) ================= *)

(* loadTypeSchema on ANY nested schema (inline objects to any depth, arrays of arrays, arrays of inline objects,
   allOf): the type returned has the name asked for, the type list only grows, and the types appended are exactly
   those of the pure function names_of, in that order *)
Theorem C11_nested_generated_types_exact : forall s st stack name t st',
  load_c s st stack name = Some (t, st') ->
  itype_name t = name /\ exists ext, st' = st ++ ext /\ map itype_name ext = names_of_c s stack name.
Proof. exact nested_generated_names_current. Qed.
Print Assumptions C11_nested_generated_types_exact.

(* import_complete for nested documents: if the generated names and the definition names are pairwise distinct and
   none is a builtin type name, no definition is skipped, every type of the list is compiled, and every definition
   is COVERED: every inline object - at any depth, under arrays, arrays of arrays - has a type in the list whose
   written name is the word of the field that refers to it, with a field for every property (optional iff not in
   `required`), every inner array a named array type *)
Theorem C11_nested_import_complete : forall doc pr,
  ndoc_ok_c doc -> import_nested_c doc = Some pr ->
  exists L, nconvert_c doc = Some L /\
    (forall t, In t L -> In (ctype tname_c fname_c unesc_c native_c t) pr) /\
    forall d, In d doc -> def_covered_c L d.
Proof. exact nested_import_complete_current. Qed.
Print Assumptions C11_nested_import_complete.
Example C11_nested_import_complete_hypotheses_met : ndoc_ok_c sample_ndoc.
Proof. exact sample_ndoc_ok. Qed.

(* import_sound for nested documents: every type of the list is a definition or one of its generated types *)
Theorem C11_nested_import_sound : forall doc l t,
  ndoc_ok_c doc -> nloaded_list safe_name_cur is_builtin_c tname_c map_type_c doc = Some l -> In t l ->
  exists d, In d doc /\ In (itype_name t) (def_names safe_name_cur map_type_c d).
Proof. exact nested_sound_current. Qed.
Print Assumptions C11_nested_import_sound.

(* allOf: no field name of any part and no own property is lost (for ALL allOf schemas that import at all) *)
Theorem C11_allof_complete : forall allof props req st stack name t st',
  load_c (NObj allof props req) st stack name = Some (t, st') ->
  (forall p, In p allof -> exists stp tp stp', load_c p stp (stack ++ [name]) [] = Some (tp, stp') /\
     forall fs, std_fields tp = Some fs -> forall f, In f fs ->
       exists g, In g (final_fields t) /\ if_name g = if_name f) /\
  (forall np, In np props -> exists g, In g (final_fields t) /\ if_name g = fst np
                                      /\ if_opt g = negb (bmem (fst np) req)).
Proof. exact allof_complete_current. Qed.
Print Assumptions C11_allof_complete.

(* with distinct field names the allOf merge and SortWithoutDupl keep every field as it is *)
Theorem C11_allof_distinct_names_keep_all : forall acc sub,
  NoDup (map if_name (acc ++ sub)) -> merge_fields acc sub = acc ++ sub /\ dedup (acc ++ sub) = Some (acc ++ sub).
Proof. intros acc sub H. split; [exact (merge_distinct acc sub H)|exact (dedup_distinct _ H)]. Qed.
Print Assumptions C11_allof_distinct_names_keep_all.

(* refuted outside the hypotheses; both replayed on the real code (known findings) *)
Theorem C11_definition_shadowed_by_inline_type_refuted :
  exists doc pr fs, import_nested_c doc = Some pr
    /\ In (s "A_b", NObj [] [(s "other", str_t); (s "more", NPrim "boolean" "")] []) doc
    /\ lookup (s "A_b") pr = Some (TTuple fs) /\ map fst fs = [s "q"] /\ ~ ndoc_ok_c doc.
Proof. exact definition_shadowed_by_inline_type_refuted. Qed.
Print Assumptions C11_definition_shadowed_by_inline_type_refuted.

Theorem C11_allof_redeclared_property_refuted : exists doc, ndoc_ok_c doc /\ import_nested_c doc = None.
Proof. exact allof_redeclared_property_refuted. Qed.
Print Assumptions C11_allof_redeclared_property_refuted.

(* regenerated obligations: the code the nested model transliterates (the full statement texts are compared in
   NestedTheorems.v: *_shape_ok) *)
Theorem C11_nested_decisions_current :
  List.length Verif.Gen.ForeignTables.build_field_shape = 13%nat
  /\ nth_error Verif.Gen.ForeignTables.build_field_shape 4
     = Some "if prop.Ref != """" { f.Type = nameOnlyType(typeName) return f, nil }"%string
  /\ nth_error Verif.Gen.ForeignTables.load_array_shape 2
     = Some "innerArray := schema.Items.Ref == """" && schema.Items.Value.Type.Is(openapi3.TypeArray)"%string
  /\ List.length Verif.Gen.ForeignTables.load_array_shape = 5%nat
  /\ List.length Verif.Gen.ForeignTables.object_loops_shape = 2%nat
  /\ nth_error Verif.Gen.ForeignTables.sysl_type_name_shape 4 = Some "return item.Name()"%string
  /\ List.length Verif.Gen.ForeignTables.type_list_add_shape = 5%nat.
Proof.
  rewrite build_field_shape_ok, load_array_shape_ok, object_loops_shape_ok, sysl_type_name_shape_ok, type_list_add_shape_ok.
  repeat split; reflexivity.
Qed.
Print Assumptions C11_nested_decisions_current.

(* ================= second pass: the written names of parameters (Foreign/ParamNameSpec.v) ================= *)

(* query parameters, ALL byte strings: a name without '~' is Name material throughout (blanks never survive
   convertToSyslSafe, every other byte is kept or %XX-escaped); it is a Name if it starts like one - e.g. with a
   letter or '_' *)
Theorem C11_query_name_is_a_Name_partial : forall n,
  ~ In "~"%char n -> start_ok (query_name n) = true -> name_re (query_name n) = true.
Proof. exact query_name_is_a_Name_partial. Qed.
Print Assumptions C11_query_name_is_a_Name_partial.
Theorem C11_query_written_start : forall c r, is_name_start c = true -> start_ok (query_written (c :: r)) = true.
Proof. exact query_written_start. Qed.
Print Assumptions C11_query_written_start.
Example C11_query_name_hypotheses_met :
  ~ In "~"%char (of_string "a.b") /\ start_ok (query_name (of_string "a.b")) = true.
Proof. split; [vm_compute; intuition discriminate|vm_compute; reflexivity]. Qed.
Theorem C11_query_name_tilde_refuted : name_re (query_name (of_string "c~d")) = false.
Proof. exact query_name_tilde_refuted. Qed.
Theorem C11_query_name_leading_digit_refuted : name_re (query_name (of_string "1st")) = false.
Proof. exact query_name_leading_digit_refuted. Qed.
(* faithfulness is refuted: '-' and ' ' change the name, and nothing records the original *)
Theorem C11_query_name_unfaithful_refuted :
  query_name (of_string "page-size") = of_string "pageSize" /\ query_name (of_string "first name") = of_string "firstname".
Proof. exact query_name_unfaithful_refuted. Qed.
Print Assumptions C11_query_name_unfaithful_refuted.

(* header parameters, ALL byte strings of letters, digits, '_', ' ', '-' that do not start with a digit *)
Theorem C11_header_name_is_a_Name_partial : forall c r,
  forallb h_ok (c :: r) = true -> is_digit c = false -> name_re (header_field_name (c :: r)) = true.
Proof. exact header_name_is_a_Name_partial. Qed.
Print Assumptions C11_header_name_is_a_Name_partial.
Example C11_header_name_hypotheses_met :
  forallb h_ok (of_string "X-Request Id") = true /\ header_field_name (of_string "X-Request Id") = of_string "x_request_id".
Proof. exact header_name_hypotheses_met. Qed.
Theorem C11_header_name_raw_byte_refuted :
  name_re (header_field_name (of_string "a.b")) = false /\ name_re (header_field_name ["h"; """"; "q"]%char) = false
  /\ name_re (header_field_name (of_string "1st")) = false.
Proof. exact header_name_raw_byte_refuted. Qed.
Print Assumptions C11_header_name_raw_byte_refuted.

(* path variables: the type is attached by searching the escaped path for the unescaped name *)
Theorem C11_path_var_escaped_name_untyped_refuted :
  path_var_typed (of_string "/items/{a.b}") (of_string "a.b") = false.
Proof. exact path_var_escaped_name_untyped_refuted. Qed.
Print Assumptions C11_path_var_escaped_name_untyped_refuted.
